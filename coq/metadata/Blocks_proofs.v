(* metadata/Blocks_proofs.v — round trips, sizes and totality of the block codecs. *)
From FlacMeta Require Import Bytes Bytes_proofs Blocks.
Open Scope N_scope.

(* ---- small tools *)
Lemma pbind_eq {A B} (p : parser A) (f : A -> parser B) s a s' :
  p s = Ok (a, s') -> pbind p f s = f a s'.
Proof. unfold pbind. intros ->. reflexivity. Qed.

Lemma take_app_len n (a r : list N) : lenN a = n -> take n (a ++ r) = Ok (a, r).
Proof. intros <-. apply take_app. Qed.
Lemma skip_app_len n (a r : list N) : lenN a = n -> skip n (a ++ r) = Ok (tt, r).
Proof. intros <-. apply skip_app. Qed.

Lemma lenN_be_bytes k v : lenN (be_bytes k v) = N.of_nat k.
Proof. rewrite lenN_length, be_bytes_length. reflexivity. Qed.
Lemma lenN_le_bytes k v : lenN (le_bytes k v) = N.of_nat k.
Proof. rewrite lenN_length, le_bytes_length. reflexivity. Qed.
Lemma lenN_bytes_of_bits k s : length s = (8 * k)%nat -> lenN (bytes_of_bits k s) = N.of_nat k.
Proof. intros H. rewrite lenN_length, bytes_of_bits_length by exact H. reflexivity. Qed.

Lemma all_zero_zerosN n : all_zero (zerosN n) = true.
Proof.
  induction n using N.peano_ind; [reflexivity|]. rewrite zerosN_succ. cbn. exact IHn.
Qed.
Lemma all_zero_true_eq l : all_zero l = true -> l = zerosN (lenN l).
Proof.
  induction l as [|x l IH]; cbn [all_zero forallb lenN]; [reflexivity|].
  intros H. apply andb_prop in H. destruct H as [Hx Hl]. apply N.eqb_eq in Hx. subst x.
  rewrite zerosN_succ. f_equal. apply IH, Hl.
Qed.

Ltac inv_bind H :=
  let a := fresh "a" in let s := fresh "s" in let E := fresh "E" in
  apply pbind_ok in H; destruct H as (a & s & E & H).

Lemma Ok_inj {A} (a b : A) : @Ok A a = Ok b -> a = b.
Proof. intros H. inversion H. reflexivity. Qed.

(* ---- header *)
Definition header_byte (last : bool) (t : btype) : N :=
  match bytes_of_bits 1 (wr 1 (b2n last) ++ wr 7 (btype_code t)) with [b] => b | _ => 0 end.

Lemma header_byte_spec last t :
  bytes_of_bits 1 (wr 1 (b2n last) ++ wr 7 (btype_code t)) = [header_byte last t].
Proof. destruct last, t; reflexivity. Qed.

Lemma header_first_byte_read last t :
  let b0 := [header_byte last t] in
  match rd 1 (bits_of_bytes b0) with
  | Some (l, s1) => match rd 7 s1 with Some (c, _) => (l =? 1) = last /\ btype_of_code c = Ok t | None => False end
  | None => False
  end.
Proof. destruct last, t; vm_compute; split; reflexivity. Qed.

Lemma read_header_write h rest : h_size h < 2 ^ 24 ->
  read_header (write_header h ++ rest) = Ok (h, rest).
Proof.
  intros Hs. destruct h as [last t size]. unfold write_header. cbn [h_last h_type h_size] in *.
  rewrite header_byte_spec. unfold read_header.
  change ([header_byte last t] ++ be_bytes 3 size) with ([header_byte last t] ++ be_bytes 3 size).
  rewrite <- app_assoc.
  rewrite (pbind_eq (take 1) _ _ [header_byte last t] (be_bytes 3 size ++ rest)) by (apply take_app_len; reflexivity).
  pose proof (header_first_byte_read last t) as H. cbv zeta in H.
  destruct (rd 1 (bits_of_bytes [header_byte last t])) as [[l s1]|]; [|contradiction].
  destruct (rd 7 s1) as [[c s2]|]; [|contradiction]. destruct H as [H1 H2].
  unfold pbind at 1. unfold plift. rewrite H2.
  rewrite (pbind_eq (read_be 3) _ _ size rest) by (apply read_be_app; exact Hs).
  unfold pret. rewrite H1. reflexivity.
Qed.

(* every byte value: what the reader makes of the first header byte is what the writer produces *)
Fixpoint all_bytes_from (k : nat) (b : N) : list N :=
  match k with O => [] | S j => b :: all_bytes_from j (b + 1) end.
Definition header_byte_check (b : N) : bool :=
  match rd 1 (bits_of_bytes [b]) with
  | Some (l, s1) =>
    match rd 7 s1 with
    | Some (c, _) => match btype_of_code c with
                     | Ok t => header_byte (l =? 1) t =? b
                     | _ => true
                     end
    | None => false
    end
  | None => false
  end.
Lemma header_byte_sweep : forallb header_byte_check (all_bytes_from 256 0) = true.
Proof. vm_compute. reflexivity. Qed.
Lemma all_bytes_from_in k : forall b x, b <= x -> x < b + N.of_nat k -> In x (all_bytes_from k b).
Proof.
  induction k as [|j IH]; intros b x H1 H2; [lia|]. cbn [all_bytes_from].
  destruct (N.eq_dec x b) as [->|Hn]; [left; reflexivity|right]. apply IH; lia.
Qed.
Lemma header_byte_check_all b : b < 256 -> header_byte_check b = true.
Proof.
  intros H. pose proof header_byte_sweep as S. rewrite forallb_forall in S. apply S.
  apply all_bytes_from_in; lia.
Qed.

Lemma read_header_inv s h r : Forall byte s -> read_header s = Ok (h, r) ->
  s = write_header h ++ r /\ h_size h < 2 ^ 24.
Proof.
  intros Hs H. unfold read_header in H. inv_bind H.
  apply take_ok in E. destruct E as [-> L].
  apply Forall_app in Hs. destruct Hs as [Ha Hs0].
  destruct a as [|b [|? ?]]; cbn in L; try lia.
  inversion Ha as [|? ? Hb _]; subst.
  pose proof (header_byte_check_all b Hb) as C. unfold header_byte_check in C.
  destruct (rd 1 (bits_of_bytes [b])) as [[l s1]|]; [|discriminate].
  destruct (rd 7 s1) as [[c s2]|]; [|discriminate].
  inv_bind H. unfold plift in E. destruct (btype_of_code c) as [t| |]; try discriminate.
  inversion E; subst. inv_bind H. unfold pret in H. inversion H; subst.
  apply (read_be_ok 3) in E0; [|exact Hs0]. destruct E0 as [-> Hsz].
  apply N.eqb_eq in C. unfold write_header. cbn [h_last h_type h_size].
  rewrite header_byte_spec, C. split; [reflexivity|exact Hsz].
Qed.

(* ---- literal-bound versions of the field lemmas *)
Lemma read_be1_app v r : v < 256 -> read_be 1 (be_bytes 1 v ++ r) = Ok (v, r).
Proof. intros H. apply read_be_app. exact H. Qed.
Lemma read_be2_app v r : v < 65536 -> read_be 2 (be_bytes 2 v ++ r) = Ok (v, r).
Proof. intros H. apply read_be_app. exact H. Qed.
Lemma read_be3_app v r : v < 16777216 -> read_be 3 (be_bytes 3 v ++ r) = Ok (v, r).
Proof. intros H. apply read_be_app. exact H. Qed.
Lemma read_be4_app v r : v < 4294967296 -> read_be 4 (be_bytes 4 v ++ r) = Ok (v, r).
Proof. intros H. apply read_be_app. exact H. Qed.
Lemma read_be8_app v r : v < 18446744073709551616 -> read_be 8 (be_bytes 8 v ++ r) = Ok (v, r).
Proof. intros H. apply read_be_app. exact H. Qed.
Lemma read_le4_app v r : v < 4294967296 -> read_le 4 (le_bytes 4 v ++ r) = Ok (v, r).
Proof. intros H. apply read_le_app. exact H. Qed.

Lemma rd_wr_nil n v : v < 2 ^ N.of_nat n -> rd n (wr n v) = Some (v, []).
Proof. intros H. rewrite <- (app_nil_r (wr n v)). apply rd_wr, H. Qed.

Lemma pow2_24 : 2 ^ 24 = 16777216. Proof. reflexivity. Qed.
Lemma pow2_20 : 2 ^ 20 = 1048576. Proof. reflexivity. Qed.
Lemma pow2_36 : 2 ^ 36 = 68719476736. Proof. reflexivity. Qed.
Lemma pow2_32 : 2 ^ 32 = 4294967296. Proof. reflexivity. Qed.
Lemma rd_wr_lit n v r bound : bound = 2 ^ N.of_nat n -> v < bound -> rd n (wr n v ++ r) = Some (v, r).
Proof. intros -> H. apply rd_wr, H. Qed.
Lemma rd_wr_nil_lit n v bound : bound = 2 ^ N.of_nat n -> v < bound -> rd n (wr n v) = Some (v, []).
Proof. intros -> H. apply rd_wr_nil, H. Qed.

(* ---- STREAMINFO *)
Definition ty_streaminfo (si : streaminfo) : Prop :=
  si_minb si < 65536 /\ si_maxb si < 65536 /\ si_minf si < 4294967296 /\ si_maxf si < 4294967296 /\
  si_rate si < 4294967296 /\ (1 <= si_ch si /\ si_ch si < 256) /\ (1 <= si_bps si /\ si_bps si <= 32) /\
  si_total si < 18446744073709551616 /\
  match si_md5 si with Some m => lenN m = 16 /\ Forall byte m | None => True end.
(* Some([0; 16]) is a value of the type that the encoding cannot distinguish from None *)
Definition canon_streaminfo (si : streaminfo) : Prop :=
  match si_md5 si with Some m => all_zero m = false | None => True end.

Lemma streaminfo_write_read si bs r :
  ty_streaminfo si -> canon_streaminfo si -> write_streaminfo si = Ok bs ->
  read_streaminfo (bs ++ r) = Ok (si, r).
Proof.
  intros T C W. destruct si as [minb maxb minf maxf rate ch bps total md5].
  unfold ty_streaminfo, canon_streaminfo in *.
  cbn [si_minb si_maxb si_minf si_maxf si_rate si_ch si_bps si_total si_md5] in *.
  destruct T as (T1 & T2 & T3 & T4 & T5 & [T6 T6'] & [T7 T7'] & T8 & T9).
  unfold write_streaminfo in W.
  cbn [si_minb si_maxb si_minf si_maxf si_rate si_ch si_bps si_total si_md5] in W.
  rewrite pow2_24, pow2_20, pow2_36 in W.
  destruct (N.ltb_spec minf 16777216) as [H1|H1]; cbn [negb] in W; [|discriminate].
  destruct (N.ltb_spec maxf 16777216) as [H2|H2]; cbn [negb] in W; [|discriminate].
  destruct (N.ltb_spec rate 1048576) as [H3|H3]; cbn [negb] in W; [|discriminate].
  destruct (N.ltb_spec (ch - 1) 8) as [H4|H4]; cbn [negb] in W; [|discriminate].
  unfold bitcount_checked_sub in W.
  destruct (N.leb_spec 1 bps) as [H5|H5]; [|lia].
  destruct (N.leb_spec (bps - 1) 31) as [H6|H6]; [|lia].
  destruct (N.ltb_spec total 68719476736) as [H7|H7]; cbn [negb] in W; [|discriminate].
  apply Ok_inj in W. subst bs.
  unfold read_streaminfo. rewrite <- !app_assoc.
  rewrite (pbind_eq (read_be 2) _ _ minb _) by (apply read_be2_app; exact T1).
  rewrite (pbind_eq (read_be 2) _ _ maxb _) by (apply read_be2_app; exact T2).
  rewrite (pbind_eq (read_be 3) _ _ minf _) by (apply read_be3_app; exact H1).
  rewrite (pbind_eq (read_be 3) _ _ maxf _) by (apply read_be3_app; exact H2).
  set (S := wr 20 rate ++ wr 3 (ch - 1) ++ wr 5 (bps - 1) ++ wr 36 total).
  assert (LS : length S = (8 * 8)%nat) by (unfold S; rewrite !app_length, !wr_length; reflexivity).
  rewrite (pbind_eq (take 8) _ _ (bytes_of_bits 8 S) _) by (apply take_app_len, lenN_bytes_of_bits, LS).
  rewrite bits_of_bytes_of_bits by exact LS. unfold S.
  rewrite (rd_wr_lit 20 rate _ 1048576 eq_refl H3). rewrite (rd_wr_lit 3 (ch - 1) _ 8 eq_refl H4).
  rewrite (rd_wr_lit 5 (bps - 1) _ 32 eq_refl) by lia.
  rewrite (rd_wr_nil_lit 36 total 68719476736 eq_refl H7).
  unfold bitcount_checked_add, signed_count.
  replace (bps - 1 + 1) with bps by lia.
  rewrite pow2_32. destruct (N.ltb_spec bps 4294967296) as [_|Hx]; [|lia].
  destruct (N.leb_spec bps 32) as [_|Hx]; [|lia].
  destruct (N.eqb_spec bps 0) as [Hx|_]; [lia|].
  replace (ch - 1 + 1) with ch by lia.
  destruct md5 as [m|].
  - destruct T9 as [L9 B9]. rewrite (pbind_eq (take 16) _ _ m r) by (apply take_app_len, L9).
    unfold pret. rewrite C. reflexivity.
  - rewrite (pbind_eq (take 16) _ _ (zerosN 16) r) by (apply take_app_len, lenN_zerosN).
    unfold pret. rewrite all_zero_zerosN. reflexivity.
Qed.

Lemma Forall_app_l {A} (P : A -> Prop) a b : Forall P (a ++ b) -> Forall P a.
Proof. intros H. apply Forall_app in H. tauto. Qed.
Lemma Forall_app_r {A} (P : A -> Prop) a b : Forall P (a ++ b) -> Forall P b.
Proof. intros H. apply Forall_app in H. tauto. Qed.

Lemma all_zero_false_or l : all_zero l = true \/ all_zero l = false.
Proof. destruct (all_zero l); auto. Qed.

Lemma streaminfo_read_inv s si r : Forall byte s -> read_streaminfo s = Ok (si, r) ->
  ty_streaminfo si /\ canon_streaminfo si /\ exists bs, write_streaminfo si = Ok bs /\ s = bs ++ r.
Proof.
  intros Hs H. unfold read_streaminfo in H.
  inv_bind H. apply (read_be_ok 2) in E; [|exact Hs]. destruct E as [-> B1]. apply Forall_app_r in Hs.
  inv_bind H. apply (read_be_ok 2) in E; [|exact Hs]. destruct E as [-> B2]. apply Forall_app_r in Hs.
  inv_bind H. apply (read_be_ok 3) in E; [|exact Hs]. destruct E as [-> B3]. apply Forall_app_r in Hs.
  inv_bind H. apply (read_be_ok 3) in E; [|exact Hs]. destruct E as [-> B4]. apply Forall_app_r in Hs.
  inv_bind H. apply take_ok in E. destruct E as [-> L8].
  pose proof (Forall_app_l _ _ _ Hs) as Hp. apply Forall_app_r in Hs.
  destruct (rd 20 (bits_of_bytes a3)) as [[rate s1]|] eqn:R1; [|discriminate].
  destruct (rd 3 s1) as [[c s2]|] eqn:R2; [|discriminate].
  destruct (rd 5 s2) as [[cnt s3]|] eqn:R3; [|discriminate].
  destruct (rd 36 s3) as [[total s4]|] eqn:R4; [|discriminate].
  apply rd_inv in R1, R2, R3, R4.
  destruct R1 as [E1 Br]. destruct R2 as [-> Bc]. destruct R3 as [-> Bn]. destruct R4 as [-> Bt].
  change (2 ^ N.of_nat 20) with 1048576 in Br. change (2 ^ N.of_nat 3) with 8 in Bc.
  change (2 ^ N.of_nat 5) with 32 in Bn. change (2 ^ N.of_nat 36) with 68719476736 in Bt.
  change (256 ^ N.of_nat 2) with 65536 in B1, B2. change (256 ^ N.of_nat 3) with 16777216 in B3, B4.
  assert (L : length (bits_of_bytes a3) = 64%nat).
  { rewrite bits_of_bytes_length. rewrite lenN_length in L8. lia. }
  assert (s4 = []) as ->.
  { rewrite E1 in L. rewrite !app_length, !wr_length in L. destruct s4; [reflexivity|cbn [length] in L; lia]. }
  rewrite app_nil_r in E1.
  assert (Ea3 : a3 = bytes_of_bits 8 (wr 20 rate ++ wr 3 c ++ wr 5 cnt ++ wr 36 total)).
  { rewrite <- E1. symmetry. apply bytes_of_bits_of_bytes; [exact Hp|]. rewrite lenN_length in L8. lia. }
  unfold bitcount_checked_add, signed_count in H.
  destruct (N.ltb_spec (cnt + 1) (2 ^ 32)) as [_|Hx]; [|change (2 ^ 32) with 4294967296 in Hx; lia].
  destruct (N.leb_spec (cnt + 1) 32) as [_|Hx]; [|lia].
  destruct (N.eqb_spec (cnt + 1) 0) as [Hx|_]; [lia|].
  inv_bind H. apply take_ok in E. destruct E as [-> L16].
  pose proof (Forall_app_l _ _ _ Hs) as Hm.
  unfold pret in H. apply Ok_inj in H. injection H as <- <-.
  split; [|split].
  - unfold ty_streaminfo. cbn [si_minb si_maxb si_minf si_maxf si_rate si_ch si_bps si_total si_md5].
    repeat split; try lia. destruct (all_zero a4); [exact I|]. split; assumption.
  - unfold canon_streaminfo. cbn [si_md5]. destruct (all_zero a4) eqn:Z; [exact I|exact Z].
  - unfold write_streaminfo. cbn [si_minb si_maxb si_minf si_maxf si_rate si_ch si_bps si_total si_md5].
    change (2 ^ 24) with 16777216. change (2 ^ 20) with 1048576. change (2 ^ 36) with 68719476736.
    replace (c + 1 - 1) with c by lia.
    destruct (N.ltb_spec a1 16777216) as [_|Hx]; [|lia].
    destruct (N.ltb_spec a2 16777216) as [_|Hx]; [|lia].
    destruct (N.ltb_spec rate 1048576) as [_|Hx]; [|lia].
    destruct (N.ltb_spec c 8) as [_|Hx]; [|lia].
    unfold bitcount_checked_sub. replace (cnt + 1 - 1) with cnt by lia.
    destruct (N.leb_spec 1 (cnt + 1)) as [_|Hx]; [|lia].
    destruct (N.leb_spec cnt 31) as [_|Hx]; [|lia].
    destruct (N.ltb_spec total 68719476736) as [_|Hx]; [|lia].
    cbn [negb]. eexists. split; [reflexivity|].
    rewrite <- !app_assoc. rewrite <- Ea3. do 5 f_equal.
    destruct (all_zero a4) eqn:Z; [|reflexivity].
    apply all_zero_true_eq in Z. rewrite L16 in Z. rewrite <- Z. reflexivity.
Qed.

(* ---- PADDING *)
Lemma padding_write_read size r : read_padding size (zerosN size ++ r) = Ok (size, r).
Proof.
  unfold read_padding. rewrite (pbind_eq (skip size) _ _ tt r) by (apply skip_app_len, lenN_zerosN). reflexivity.
Qed.
Lemma padding_read_inv size s n r : read_padding size s = Ok (n, r) ->
  n = size /\ exists a, s = a ++ r /\ lenN a = size.
Proof.
  unfold read_padding. intros H. inv_bind H. destruct a. apply skip_ok in E.
  unfold pret in H. apply Ok_inj in H. injection H as <- <-. split; [reflexivity|exact E].
Qed.

(* ---- APPLICATION *)
Definition ty_application (a : application) : Prop := app_id a < 4294967296 /\ Forall byte (app_data a).

Lemma application_write_read a r : app_id a < 4294967296 ->
  read_application (4 + lenN (app_data a)) (be_bytes 4 (app_id a) ++ app_data a ++ r) = Ok (a, r).
Proof.
  intros H. unfold read_application.
  rewrite (pbind_eq (read_be 4) _ _ (app_id a) _) by (apply read_be4_app, H).
  destruct (N.ltb_spec (4 + lenN (app_data a)) 4) as [Hx|_]; [lia|].
  replace (4 + lenN (app_data a) - 4) with (lenN (app_data a)) by lia.
  rewrite (pbind_eq (take _) _ _ (app_data a) r) by apply take_app. destruct a; reflexivity.
Qed.
Lemma application_read_inv size s a r : Forall byte s -> read_application size s = Ok (a, r) ->
  ty_application a /\ 4 <= size /\ lenN (app_data a) = size - 4 /\ s = be_bytes 4 (app_id a) ++ app_data a ++ r.
Proof.
  intros Hs H. unfold read_application in H. inv_bind H.
  apply (read_be_ok 4) in E; [|exact Hs]. destruct E as [-> B]. apply Forall_app_r in Hs.
  destruct (N.ltb_spec size 4) as [Hx|Hx]; [discriminate|].
  inv_bind H. apply take_ok in E. destruct E as [-> L]. unfold pret in H. apply Ok_inj in H. injection H as <- <-.
  cbn [app_id app_data]. change (256 ^ N.of_nat 4) with 4294967296 in B.
  split; [split; [exact B|eapply Forall_app_l; exact Hs]|]. auto.
Qed.

(* ---- Contiguous::try_collect against an encoder *)
Section ContiguousCodec.
  Context {T : Type}.
  Variable valid_first : T -> bool.
  Variable is_next : T -> T -> res bool.
  Variable MAX : N.
  Variable p : parser T.
  Variable enc : T -> list N.
  Variable good : T -> Prop.

  Definition chain_ok (rev_items : list T) (l : list T) : Prop :=
    match rev_items with
    | [] => is_contiguous valid_first is_next l = true
    | last :: _ => contiguous_from is_next last l = true
    end.

  Fixpoint enc_all (l : list T) : list N :=
    match l with [] => [] | x :: r => enc x ++ enc_all r end.

  Hypothesis p_enc : forall x rest, good x -> p (enc x ++ rest) = Ok (x, rest).

  Lemma try_collect_enc : forall l fuel rev_items len r,
    Forall good l -> (length l <= length fuel)%nat ->
    len + lenN l <= MAX -> chain_ok rev_items l ->
    try_collect valid_first is_next MAX p fuel (lenN l) rev_items len (enc_all l ++ r)
    = Ok (rev rev_items ++ l, r).
  Proof.
    induction l as [|x l IH]; intros fuel rev_items len r G F M C.
    - destruct fuel; cbn [try_collect lenN enc_all app N.eqb]; rewrite app_nil_r; reflexivity.
    - inversion G as [|? ? Gx Gl]; subst.
      destruct fuel as [|f0 fuel]; [cbn in F; lia|].
      cbn [try_collect lenN enc_all]. rewrite <- app_assoc.
      destruct (N.eqb_spec (N.succ (lenN l)) 0) as [Hx|_]; [lia|].
      rewrite p_enc by exact Gx. unfold try_push.
      cbn [lenN] in M.
      destruct (N.ltb_spec len MAX) as [_|Hx]; [|lia].
      assert (Hnext : match rev_items with [] => Ok (valid_first x) | last :: _ => is_next x last end = Ok true
                      /\ contiguous_from is_next x l = true).
      { unfold chain_ok in C. destruct rev_items as [|last ?].
        - cbn [is_contiguous] in C. apply andb_prop in C. destruct C as [-> C]. auto.
        - cbn [contiguous_from] in C. destruct (is_next x last) as [[|]| |]; try discriminate. auto. }
      destruct Hnext as [-> Cn]. cbn [bind].
      rewrite N.pred_succ. rewrite IH; [|exact Gl|cbn in F; lia|lia|exact Cn].
      cbn [rev]. rewrite <- app_assoc. reflexivity.
  Qed.

  (* the reverse: what a successful collect returns *)
  Hypothesis p_inv : forall s x r, Forall byte s -> p s = Ok (x, r) ->
    good x /\ exists c, s = c ++ r /\ lenN c = lenN (enc x).

  Lemma try_collect_inv : forall fuel n rev_items len s out r,
    Forall byte s ->
    try_collect valid_first is_next MAX p fuel n rev_items len s = Ok (out, r) ->
    exists l, out = rev rev_items ++ l /\ lenN l = n /\ Forall good l /\ chain_ok rev_items l /\
              (l <> [] -> len + n <= MAX) /\ (exists c, s = c ++ r /\ lenN c = lenN (enc_all l)) /\ Forall byte r.
  Proof.
    induction fuel as [|f0 fuel IH]; intros n rev_items len s out r Hs H.
    - cbn [try_collect] in H. destruct (N.eqb_spec n 0) as [->|Hn].
      + apply Ok_inj in H. injection H as <- <-. exists []. rewrite app_nil_r.
        split; [reflexivity|]. split; [reflexivity|]. split; [constructor|].
        split; [unfold chain_ok; destruct rev_items; reflexivity|]. split; [congruence|].
        split; [exists []; split; reflexivity|exact Hs].
      + destruct (p s) as [[x s']| |]; try discriminate.
        destruct (try_push valid_first is_next MAX rev_items len x) as [[?|]| |]; discriminate.
    - cbn [try_collect] in H. destruct (N.eqb_spec n 0) as [->|Hn].
      + apply Ok_inj in H. injection H as <- <-. exists []. rewrite app_nil_r.
        split; [reflexivity|]. split; [reflexivity|]. split; [constructor|].
        split; [unfold chain_ok; destruct rev_items; reflexivity|]. split; [congruence|].
        split; [exists []; split; reflexivity|exact Hs].
      + destruct (p s) as [[x s']| |] eqn:P; try discriminate.
        apply p_inv in P; [|exact Hs]. destruct P as [Gx (c & -> & Lc)].
        pose proof (Forall_app_r _ _ _ Hs) as Hs'.
        unfold try_push in H. destruct (N.ltb_spec len MAX) as [Hlt|Hge]; [|discriminate].
        destruct (match rev_items with [] => Ok (valid_first x) | last :: _ => is_next x last end) as [[|]| |] eqn:Nx;
          cbn [bind] in H; try discriminate.
        apply IH in H; [|exact Hs']. destruct H as (l & -> & Ll & Gl & Cl & Ml & (c' & -> & Len) & Hr).
        exists (x :: l). cbn [rev]. rewrite <- app_assoc. cbn [app].
        split; [reflexivity|]. split; [cbn [lenN]; lia|]. split; [constructor; assumption|].
        split.
        { unfold chain_ok in *. destruct rev_items as [|last ?].
          - cbn [is_contiguous]. apply Ok_inj in Nx. rewrite Nx. exact Cl.
          - cbn [contiguous_from]. rewrite Nx. exact Cl. }
        split.
        { intros _. destruct l as [|y l'].
          - cbn [lenN] in Ll. lia.
          - assert (N.succ len + N.pred n <= MAX) by (apply Ml; discriminate). lia. }
        split; [|exact Hr]. exists (c ++ c'). rewrite <- app_assoc. split; [reflexivity|].
        cbn [enc_all]. rewrite !lenN_app. lia.
  Qed.
End ContiguousCodec.

(* ---- SEEKTABLE *)
Definition ty_seekpoint (sp : seekpoint) : Prop :=
  match sp with
  | SPDefined so bo fs => so < 18446744073709551616 /\ bo < 18446744073709551616 /\ fs < 65536
  | SPPlaceholder => True
  end.
Definition good_seekpoint (sp : seekpoint) : Prop :=
  ty_seekpoint sp /\ match sp with SPDefined so _ _ => so <> U64_MAX | SPPlaceholder => True end.
Definition ty_seektable (l : list seekpoint) : Prop :=
  Forall ty_seekpoint l /\ is_contiguous seekpoint_valid_first seekpoint_is_next l = true /\ lenN l <= SEEK_MAX_POINTS.

Lemma lenN_write_seekpoint x : lenN (write_seekpoint x) = 18.
Proof. destruct x; cbn [write_seekpoint]; rewrite !lenN_app, !lenN_be_bytes; reflexivity. Qed.

Lemma read_seekpoint_enc x rest : good_seekpoint x -> read_seekpoint (write_seekpoint x ++ rest) = Ok (x, rest).
Proof.
  intros [T G]. unfold read_seekpoint. destruct x as [so bo fs|]; cbn [write_seekpoint ty_seekpoint] in *.
  - destruct T as (T1 & T2 & T3). rewrite <- !app_assoc.
    rewrite (pbind_eq (read_be 8) _ _ so _) by (apply read_be8_app, T1).
    destruct (N.eqb_spec so U64_MAX) as [Hx|_]; [contradiction|].
    rewrite (pbind_eq (read_be 8) _ _ bo _) by (apply read_be8_app, T2).
    rewrite (pbind_eq (read_be 2) _ _ fs _) by (apply read_be2_app, T3). reflexivity.
  - rewrite <- !app_assoc.
    rewrite (pbind_eq (read_be 8) _ _ U64_MAX _) by (apply read_be8_app; reflexivity).
    change (U64_MAX =? U64_MAX) with true. cbv iota.
    rewrite (pbind_eq (read_be 8) _ _ 0 _) by (apply read_be8_app; reflexivity).
    rewrite (pbind_eq (read_be 2) _ _ 0 _) by (apply read_be2_app; reflexivity). reflexivity.
Qed.

Lemma read_seekpoint_inv s x r : Forall byte s -> read_seekpoint s = Ok (x, r) ->
  good_seekpoint x /\ exists c, s = c ++ r /\ lenN c = lenN (write_seekpoint x).
Proof.
  intros Hs H. unfold read_seekpoint in H. inv_bind H.
  apply (read_be_ok 8) in E; [|exact Hs]. destruct E as [-> B1]. apply Forall_app_r in Hs.
  change (256 ^ N.of_nat 8) with 18446744073709551616 in B1.
  destruct (N.eqb_spec a U64_MAX) as [->|Hne].
  - inv_bind H. apply (read_be_ok 8) in E; [|exact Hs]. destruct E as [-> B2]. apply Forall_app_r in Hs.
    inv_bind H. apply (read_be_ok 2) in E; [|exact Hs]. destruct E as [-> B3].
    unfold pret in H. apply Ok_inj in H. injection H as <- <-.
    split; [split; exact I|]. exists (be_bytes 8 U64_MAX ++ be_bytes 8 a ++ be_bytes 2 a0).
    rewrite <- !app_assoc. split; [reflexivity|]. rewrite lenN_write_seekpoint, !lenN_app, !lenN_be_bytes. reflexivity.
  - inv_bind H. apply (read_be_ok 8) in E; [|exact Hs]. destruct E as [-> B2]. apply Forall_app_r in Hs.
    inv_bind H. apply (read_be_ok 2) in E; [|exact Hs]. destruct E as [-> B3].
    change (256 ^ N.of_nat 8) with 18446744073709551616 in B2. change (256 ^ N.of_nat 2) with 65536 in B3.
    unfold pret in H. apply Ok_inj in H. injection H as <- <-.
    split; [split; [cbn; auto|exact Hne]|]. exists (be_bytes 8 a ++ be_bytes 8 a0 ++ be_bytes 2 a1).
    rewrite <- !app_assoc. split; [reflexivity|]. rewrite lenN_write_seekpoint, !lenN_app, !lenN_be_bytes. reflexivity.
Qed.

Lemma lenN_enc_all_seek l : lenN (enc_all write_seekpoint l) = 18 * lenN l.
Proof.
  induction l as [|x l IH]; cbn [enc_all lenN]; [reflexivity|].
  rewrite lenN_app, lenN_write_seekpoint, IH. lia.
Qed.

Lemma write_seekpoints_ok : forall l lo bs, write_seekpoints lo l = Ok bs ->
  bs = enc_all write_seekpoint l /\ Forall (fun sp => match sp with SPDefined so _ _ => so <> U64_MAX | _ => True end) l.
Proof.
  induction l as [|x l IH]; intros lo bs H; cbn [write_seekpoints] in H.
  - apply Ok_inj in H. subst. split; [reflexivity|constructor].
  - destruct x as [so bo fs|].
    + destruct (N.eqb_spec so U64_MAX) as [|Hne]; [discriminate|].
      assert (exists rest, write_seekpoints (Some so) l = Ok rest /\ bs = write_seekpoint (SPDefined so bo fs) ++ rest) as (rest & R & ->).
      { destruct lo as [lo|]; [destruct (lo <? so); [|discriminate]|];
        destruct (write_seekpoints (Some so) l) as [rest| |]; cbn [bind] in H; try discriminate;
        apply Ok_inj in H; eauto. }
      apply IH in R. destruct R as [-> F]. split; [reflexivity|constructor; assumption].
    + destruct (write_seekpoints lo l) as [rest| |] eqn:R; cbn [bind] in H; try discriminate.
      apply Ok_inj in H. subst. apply IH in R. destruct R as [-> F]. split; [reflexivity|constructor; auto].
Qed.

Lemma seektable_write_read l bs r : ty_seektable l -> write_seektable l = Ok bs ->
  read_seektable (18 * lenN l) (bs ++ r) = Ok (l, r).
Proof.
  intros (T & C & M) W. unfold write_seektable in W. apply write_seekpoints_ok in W. destruct W as [-> F].
  unfold read_seektable.
  assert (E1 : (18 * lenN l) mod 18 = 0) by (rewrite N.mul_comm; apply N.mod_mul; discriminate).
  assert (E2 : 18 * lenN l / 18 = lenN l) by (rewrite N.mul_comm; apply N.div_mul; discriminate).
  rewrite E1, E2. change (0 =? 0) with true. cbv iota.
  rewrite (try_collect_enc seekpoint_valid_first seekpoint_is_next SEEK_MAX_POINTS read_seekpoint write_seekpoint good_seekpoint read_seekpoint_enc).
  - reflexivity.
  - rewrite Forall_forall in *. intros x Hx. split; [apply T, Hx|apply F, Hx].
  - rewrite app_length. assert (H := lenN_enc_all_seek l). rewrite !lenN_length in H. lia.
  - lia.
  - exact C.
Qed.

Lemma seek_contig_writes : forall l prev lo,
  contiguous_from seekpoint_is_next prev l = true ->
  Forall good_seekpoint l ->
  match prev with SPDefined po _ _ => lo = Some po | SPPlaceholder => True end ->
  write_seekpoints lo l = Ok (enc_all write_seekpoint l).
Proof.
  induction l as [|x l IH]; intros prev lo C G I; [reflexivity|].
  inversion G as [|? ? [Tx Gx] Gl]; subst. cbn [contiguous_from] in C. cbn [write_seekpoints enc_all].
  destruct x as [so bo fs|].
  - destruct (N.eqb_spec so U64_MAX) as [|_]; [contradiction|].
    destruct prev as [po pb pf|]; cbn [seekpoint_is_next] in C; [|discriminate].
    destruct (N.ltb_spec po so) as [Hlt|]; [|discriminate]. subst lo.
    destruct (N.ltb_spec po so) as [_|]; [|lia].
    rewrite (IH (SPDefined so bo fs) (Some so)); [reflexivity|exact C|exact Gl|reflexivity].
  - assert (C' : contiguous_from seekpoint_is_next SPPlaceholder l = true).
    { destruct prev; cbn [seekpoint_is_next] in C; exact C. }
    rewrite (IH SPPlaceholder lo); [reflexivity|exact C'|exact Gl|exact Logic.I].
Qed.

Lemma seektable_read_inv size s l r : Forall byte s -> read_seektable size s = Ok (l, r) ->
  ty_seektable l /\ size = 18 * lenN l /\ write_seektable l = Ok (enc_all write_seekpoint l) /\
  lenN s = lenN (enc_all write_seekpoint l) + lenN r /\ Forall byte r.
Proof.
  intros Hs H. unfold read_seektable in H.
  destruct (N.eqb_spec (size mod 18) 0) as [Hm|]; [|discriminate].
  apply (try_collect_inv seekpoint_valid_first seekpoint_is_next SEEK_MAX_POINTS read_seekpoint write_seekpoint good_seekpoint read_seekpoint_inv) in H; [|exact Hs].
  destruct H as (l' & E & Ll & G & C & M & (cc & -> & Lcc) & Hr). cbn [rev app] in E. subst l'.
  assert (Len : lenN (cc ++ r) = lenN (enc_all write_seekpoint l) + lenN r) by (rewrite lenN_app, Lcc; reflexivity).
  assert (Hsz : size = 18 * lenN l).
  { rewrite Ll. pose proof (N.div_mod size 18). lia. }
  split; [|split; [exact Hsz|split; [|split; assumption]]].
  - split; [|split].
    + rewrite Forall_forall in *. intros x Hx. apply G, Hx.
    + exact C.
    + destruct l as [|x l']; [cbn; lia|]. rewrite Ll. assert (0 + size / 18 <= SEEK_MAX_POINTS) by (apply M; discriminate). lia.
  - unfold write_seektable. unfold chain_ok in C. destruct l as [|x l']; [reflexivity|].
    cbn [is_contiguous] in C. apply andb_prop in C. destruct C as [_ C].
    inversion G as [|? ? [Tx Gx] Gl]; subst. cbn [write_seekpoints enc_all].
    destruct x as [so bo fs|].
    + destruct (N.eqb_spec so U64_MAX) as [|_]; [contradiction|].
      rewrite (seek_contig_writes l' (SPDefined so bo fs) (Some so)); [reflexivity|exact C|exact Gl|reflexivity].
    + rewrite (seek_contig_writes l' SPPlaceholder None); [reflexivity|exact C|exact Gl|exact Logic.I].
Qed.

