(* E2E/SizeBound.v — C19 composed with the writers area: the audio part of the file a FlacSampleWriter run finishes is
   at most, per encoded block, 16 header bytes + the channels verbatim (8 bits + n x depth each, one more bit per sample
   for the side channel of a stereo pair) rounded up to bytes + 2 CRC bytes — summed over the blocks that spell the
   samples written.  Hypotheses on the input only. *)
From Coq Require Import List NArith ZArith Lia.
From FlacBase Require Import Res.
From FlacCodec Require Ast Stream Header Wf Enc Enc_proofs.
From FlacWriters Require Import Meta Params Params_proofs Finalize Writers.
From FlacE2E Require Import Bridge E2E SampleE2E Success.
Import ListNotations.
Open Scope N_scope.

Module EN := FlacCodec.Enc.
Module EP := FlacCodec.Enc_proofs.

Definition frame_bound (bps : N) (b : list (list Z)) : N :=
  let ch := N.of_nat (length b) in let n := EN.block_len b in
  16 + (ch * (8 + n * bps) + (if ch =? 2 then n else 0) + 7) / 8 + 2.

Definition blocks_bound (bps : N) (bl : list (list (list Z))) : N :=
  fold_right (fun b acc => frame_bound bps b + acc) 0 bl.

Lemma enc_blocks_size o L si rate bps : forall bl k bytes,
  EN.enc_blocks o L rate bps k bl = Some bytes -> Forall (EP.block_ok si bps) bl ->
  N.of_nat (length bytes) <= blocks_bound bps bl.
Proof.
  induction bl as [|b r IH]; intros k bytes H F; cbn [EN.enc_blocks] in H.
  - injection H as <-. cbn. lia.
  - destruct (EN.enc_frame_bytes o L rate bps k b) as [x|] eqn:E; [|discriminate].
    destruct (EN.enc_blocks o L rate bps (k + 1) r) as [y|] eqn:E2; [|discriminate].
    injection H as <-. inversion F as [|? ? Fb Fr]; subst.
    pose proof (EP.enc_frame_size o L si rate bps k b x E Fb) as Hx. cbv zeta in Hx.
    pose proof (IH _ _ E2 Fr) as Hy.
    rewrite app_length, Nat2N.inj_add. cbn [blocks_bound fold_right]. fold (blocks_bound bps r). unfold frame_bound. lia.
Qed.

Theorem written_audio_size_bounded : forall o L md5, (forall l, length (md5 l) = 16%nat) ->
  forall p rate bps ch, rate < 2 ^ 20 -> 1 <= bps -> bps <= 32 -> 1 <= ch -> ch <= 8 ->
  forall wo total w chunks,
  options_wf wo ->
  sample_new p [] wo rate bps ch total = Ok w ->
  forallb (FlacCodec.Wf.fits bps) (concat chunks) = true ->
  let W := N.of_nat (length (concat chunks)) / ch in
  1 <= W -> N.of_nat (length (concat chunks)) < 2 ^ 36 ->
  match total with Some T => T = ch * W | None => True end ->
  exists f blocks,
    sample_run (encB o L rate bps) md5 p w chunks = Ok f /\
    concat (map FlacCodec.Stream.interleave_frame blocks) =
      firstn (N.to_nat ch * (length (concat chunks) / N.to_nat ch)) (concat chunks) /\
    N.of_nat (length (frames_bytes (f_enc f))) <= blocks_bound bps blocks.
Proof.
  intros o L md5 Hmd p rate bps ch Hrate Hb1 Hb32 Hc1 Hc8 wo total w chunks Hwf Hnew Hfits W HW Hlen Htot.
  destruct (sample_run_succeeds o L md5 Hmd p rate bps ch Hrate Hb1 Hb32 Hc1 Hc8 wo total w chunks Hwf Hnew Hfits HW Hlen Htot)
    as (f & Hrun & _).
  destruct (e2e_sample_pcm o L md5 Hmd p rate bps wo ch total w chunks f Hwf Hnew Hrun Hfits Hlen)
    as (blocks & _ & Hcat & Hok & _ & _ & _ & _ & _ & Hreach).
  exists f, blocks. split; [exact Hrun|]. split; [exact Hcat|].
  destruct (reach_inv o L md5 Hmd p rate bps _ _ _ Hreach) as (_ & _ & _ & _ & _ & _ & _ & _ & _ & bytes & Hb & Hf).
  assert (He0 : exists t, encoder_new p [] wo rate bps ch t = Ok (sw_enc w)).
  { pose proof Hnew as Hn. unfold sample_new in Hn. apply bind_ok in Hn. destruct Hn as (b' & Hb' & Hn).
    apply bind_ok in Hn. destruct Hn as (t & _ & Hn). apply bind_ok in Hn. destruct Hn as (e0 & He0 & Hn).
    assert (Ew : sw_enc w = e0) by (injection Hn as <-; reflexivity). rewrite Ew.
    assert (Eb : b' = bps). { unfold signed_bit_count_32 in Hb'. destruct (_ && _); [injection Hb' as <-; reflexivity|discriminate]. }
    subst b'. exists t. exact He0. }
  destruct He0 as [t He0].
  destruct (encoder_new_fresh p rate bps wo ch t _ He0) as (_ & F0 & _).
  rewrite Hf. unfold frames_bytes at 1. rewrite F0. cbn [rev concat app].
  exact (enc_blocks_size o L _ rate bps blocks _ bytes Hb Hok).
Qed.
