"""C16 — raw frame streams are self-describing; the stream reader fabricates no frame.

Search (harness/src/bin/c16.rs, release + reduced debug): FlacStreamWriter frames with
independently varying rate / channels / bits-per-sample / length; each frame alone through
FlacStreamReader and Frame::read_subset (no STREAMINFO-referenced code, same samples); clean
concatenations read back exactly; garbage before/between/after frames (no 0xFF at all; 0xFF but
no FF F8|F9 pattern; sync-like bytes; cut copies of real headers; bit-flipped real frames):
without the sync pattern no frame may be lost and no error raised before the end, with it every
returned frame must still be a written frame in original order; every single split point and
1-byte reads of small sources, splits inside each sync code, random chunkings."""
from checks import codech_util as cu


def run(chk):
    cu.simple_check(
        chk, "C16", "c16", ["release", "debug"], kinds=["dec_subset"],
        rule="one evaluation = one read-through of a source (single frame, clean concatenation under one segmentation, or frames with garbage) compared with the written frames; distinct by (stream x segmentation x garbage); non-trivial = the source holds at least one real frame",
        assumptions=["absolute non-fabrication is not testable for garbage that itself contains a checksum-valid frame; the searcher checks that returned frames are written frames in order (DESIGN C16_gate)"],
        evaluations=lambda s: cu.total(s, "frames_alone") + cu.total(s, "clean_concatenations") + cu.total(s, "segmentations") + cu.total(s, "garbage_streams"),
        nontrivial=lambda s: cu.total(s, "frames_alone") + cu.total(s, "segmentations") + cu.total(s, "garbage_streams"),
        debug_scale=30,
        extra=lambda c, by_prof: __import__("checks.codec_common", fromlist=["x"]).encoder_model_tie(chk, c.cases))
