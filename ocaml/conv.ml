(* Conversions between OCaml ints/strings and the extracted binary numbers.
   Parameterised over the constructors so each extracted model can instantiate it. *)
let rec pos_of_int (xI, xO, xH) n =
  if n = 1 then xH
  else if n land 1 = 1 then xI (pos_of_int (xI, xO, xH) (n lsr 1))
  else xO (pos_of_int (xI, xO, xH) (n lsr 1))
