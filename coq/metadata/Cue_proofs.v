(* metadata/Cue_proofs.v — C20: importing the text of a well-formed cue sheet yields the
   block the text describes. *)
From FlacMeta Require Import Bytes Bytes_proofs Blocks Blocks_proofs Cue Accessors CueRender.
Open Scope N_scope.

(* ---- decimal numerals *)
Definition is_digit_p (c : N) : Prop := is_digit c = true.

Lemma is_digit_spec c : is_digit c = true <-> 48 <= c /\ c <= 57.
Proof.
  unfold is_digit. rewrite andb_true_iff, !N.leb_le. tauto.
Qed.

Lemma digits_val_app : forall a b acc,
  digits_val acc (a ++ b) = match digits_val acc a with Some v => digits_val v b | None => None end.
Proof.
  induction a as [|c a IH]; intros b acc; cbn [app digits_val]; [reflexivity|].
  destruct (is_digit c); [apply IH|reflexivity].
Qed.

Lemma dec_digits_spec : forall fuel n acc, n < 10 ^ N.of_nat (S fuel) ->
  digits_val acc (dec_digits (S fuel) n) = Some (acc * 10 ^ N.of_nat (length (dec_digits (S fuel) n)) + n)
  /\ Forall is_digit_p (dec_digits (S fuel) n) /\ dec_digits (S fuel) n <> [].
Proof.
  induction fuel as [|f IH]; intros n acc H.
  - change (10 ^ N.of_nat 1) with 10 in H. cbn [dec_digits]. destruct (N.ltb_spec n 10) as [Hlt|Hge]; [|lia].
    cbn [digits_val length]. assert (D : is_digit (48 + n) = true) by (apply is_digit_spec; lia).
    rewrite D. split; [|split; [repeat constructor; exact D|discriminate]].
    f_equal. change (N.of_nat 1) with 1. rewrite N.pow_1_r. lia.
  - remember (S f) as f1. cbn [dec_digits]. destruct (N.ltb_spec n 10) as [Hlt|Hge].
    + cbn [digits_val length]. assert (D : is_digit (48 + n) = true) by (apply is_digit_spec; lia).
      rewrite D. split; [|split; [repeat constructor; exact D|discriminate]].
      f_equal. change (N.of_nat 1) with 1. rewrite N.pow_1_r. lia.
    + rewrite Nat2N.inj_succ, N.pow_succ_r' in H.
      assert (Hq : n / 10 < 10 ^ N.of_nat f1) by (apply N.div_lt_upper_bound; lia).
      subst f1. destruct (IH (n / 10) acc Hq) as (V & F & NE).
      assert (Hm : n mod 10 < 10) by (apply N.mod_upper_bound; discriminate).
      pose proof (N.div_mod n 10 ltac:(discriminate)) as Hdm.
      remember (n / 10) as q. remember (n mod 10) as m. clear H Hq Heqq Heqm IH.
      assert (D : is_digit (48 + m) = true) by (apply is_digit_spec; lia).
      split; [|split].
      * rewrite digits_val_app, V. cbn [digits_val]. rewrite D. f_equal.
        rewrite app_length. cbn [length]. rewrite Nat.add_1_r, Nat2N.inj_succ, N.pow_succ_r'.
        remember (10 ^ N.of_nat (length (dec_digits (S f) q))) as P. lia.
      * apply Forall_app. split; [exact F|repeat constructor; exact D].
      * destruct (dec_digits (S f) q); discriminate.
Qed.

Definition TEN20 : N := 100000000000000000000.

Lemma dec_spec n : n < TEN20 ->
  digits_val 0 (dec n) = Some n /\ Forall is_digit_p (dec n) /\ dec n <> [].
Proof.
  intros H. unfold dec. destruct (dec_digits_spec 19 n 0) as (V & F & NE); [exact H|].
  rewrite V. split; [f_equal; lia|auto].
Qed.

Lemma dec02_spec n : n < TEN20 ->
  digits_val 0 (dec02 n) = Some n /\ Forall is_digit_p (dec02 n) /\ dec02 n <> [].
Proof.
  intros H. destruct (dec_spec n H) as (V & F & NE). unfold dec02.
  destruct (n <? 10); [|auto]. split; [|split; [constructor; [reflexivity|exact F]|discriminate]].
  cbn [digits_val]. change (is_digit 48) with true. cbv iota. exact V.
Qed.

Lemma num_spec pad n : n < TEN20 ->
  digits_val 0 (num pad n) = Some n /\ Forall is_digit_p (num pad n) /\ num pad n <> [].
Proof. intros H. unfold num. destruct pad; [apply dec02_spec|apply dec_spec]; exact H. Qed.

Lemma digits_not_plus s : Forall is_digit_p s -> s <> [] -> match s with 43 :: r => r | _ => s end = s.
Proof.
  intros F NE. destruct s as [|c r]; [congruence|]. inversion F as [|? ? D _]; subst.
  apply is_digit_spec in D. destruct c as [|p]; [reflexivity|].
  do 6 (destruct p as [p|p|]; try reflexivity); lia.
Qed.

Lemma parse_uint_digits maxv s n : Forall is_digit_p s -> s <> [] -> digits_val 0 s = Some n -> n <= maxv ->
  parse_uint maxv s = Some n.
Proof.
  intros F NE V L. unfold parse_uint. rewrite digits_not_plus by assumption.
  destruct s; [congruence|]. rewrite V. destruct (N.leb_spec n maxv); [reflexivity|lia].
Qed.

Lemma parse_uint_num maxv pad n : n <= maxv -> n < TEN20 -> parse_uint maxv (num pad n) = Some n.
Proof.
  intros L H. destruct (num_spec pad n H) as (V & F & NE). apply parse_uint_digits; assumption.
Qed.

(* ---- split_once *)
Lemma split_once_app sep a b : ~ In sep a -> split_once sep (a ++ sep :: b) = Some (a, b).
Proof.
  induction a as [|c a IH]; intros H; cbn [app split_once].
  - rewrite N.eqb_refl. reflexivity.
  - destruct (N.eqb_spec c sep) as [->|_]; [exfalso; apply H; left; reflexivity|].
    rewrite IH; [reflexivity|]. intros Hin. apply H. right. exact Hin.
Qed.
Lemma split_once_none sep a : ~ In sep a -> split_once sep a = None.
Proof.
  induction a as [|c a IH]; intros H; cbn [split_once]; [reflexivity|].
  destruct (N.eqb_spec c sep) as [->|_]; [exfalso; apply H; left; reflexivity|].
  rewrite IH; [reflexivity|]. intros Hin. apply H. right. exact Hin.
Qed.

Lemma digits_no_sep s sep : Forall is_digit_p s -> (sep < 48 \/ 57 < sep) -> ~ In sep s.
Proof.
  intros F Hs Hin. rewrite Forall_forall in F. apply F in Hin. apply is_digit_spec in Hin. lia.
Qed.

(* ---- MM:SS:FF *)
Lemma time_text_parses st i : wf_index i -> ci_mm i < TEN20 ->
  cdda_offset_from_str (time_text st i) = Some (ci_samples i).
Proof.
  intros (Hss & Hff & Hmax) Hmm. unfold cdda_offset_from_str, time_text.
  assert (Hs20 : ci_ss i < TEN20) by (unfold TEN20; lia).
  assert (Hf20 : ci_ff i < TEN20) by (unfold TEN20; lia).
  destruct (num_spec (st_pad_time st) (ci_mm i) Hmm) as (Vm & Fm & NEm).
  destruct (num_spec (st_pad_time st) (ci_ss i) Hs20) as (Vs & Fs & NEs).
  destruct (num_spec (st_pad_time st) (ci_ff i) Hf20) as (Vf & Ff & NEf).
  cbn [app]. rewrite split_once_app by (apply digits_no_sep; [exact Fm|lia]).
  rewrite split_once_app by (apply digits_no_sep; [exact Fs|lia]).
  unfold ci_samples, ci_frames in *. unfold U64_MAX in *.
  unfold parse_u64. rewrite (parse_uint_digits _ _ (ci_ff i)) by (try assumption; unfold U64_MAX; lia).
  destruct (N.ltb_spec (ci_ff i) 75) as [_|]; [|lia]. cbn [negb].
  rewrite (parse_uint_digits _ _ (ci_ss i)) by (try assumption; unfold U64_MAX; lia).
  destruct (N.ltb_spec (ci_ss i) 60) as [_|]; [|lia]. cbn [negb].
  rewrite (parse_uint_digits _ _ (ci_mm i)) by (try assumption; unfold U64_MAX; lia).
  unfold checked_mul64, checked_add64, U64_MAX, SAMPLES_PER_SECTOR.
  destruct (N.leb_spec (ci_mm i * 4500) 18446744073709551615) as [_|]; [|lia].
  destruct (N.leb_spec (ci_mm i * 4500 + (ci_ff i + ci_ss i * 75)) 18446744073709551615) as [_|]; [|lia].
  destruct (N.leb_spec ((ci_mm i * 4500 + (ci_ff i + ci_ss i * 75)) * 588) 18446744073709551615) as [_|]; [|lia].
  f_equal. lia.
Qed.
