#!/bin/bash
# regenerate GenMeta.v / GenMeta_check.v from the repository under test (tools/setup.py hook)
cd "$(dirname "$0")" && python3 ../../tools/gen_metadata.py "${VERIF_REPO:-/repo}" GenMeta.v
exit 0
