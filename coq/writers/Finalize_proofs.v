(* writers/Finalize_proofs.v — C09, layout part: sizes of the serialised metadata, the
   metadata region keeps its length through finalize in each of the three cases, hence the
   header rewrite covers exactly the region first written and no frame byte moves. *)
From FlacWriters Require Import Writers Lists_proofs Params_proofs.
Open Scope N_scope.

Lemma be_bytes_length n v : length (be_bytes n v) = n.
Proof. induction n as [|k IH]; cbn [be_bytes length]; auto. Qed.

Lemma field_ok bits v : v < 2 ^ bits -> field bits v = Ok v.
Proof. intros H. unfold field. destruct (N.ltb_spec v (2 ^ bits)); [reflexivity|lia]. Qed.

Lemma ser_point_length pt : length (ser_point pt) = 18%nat.
Proof. destruct pt; cbn [ser_point]; rewrite !app_length, !be_bytes_length; reflexivity. Qed.

Lemma flat_map_ser_point_length pts : length (flat_map ser_point pts) = (18 * length pts)%nat.
Proof.
  induction pts as [|pt pts IH]; cbn [flat_map length]; [reflexivity|].
  rewrite app_length, ser_point_length, IH. lia.
Qed.

(* a STREAMINFO whose fields fit their widths *)
Definition streaminfo_ok (si : streaminfo) : Prop :=
  si_min_bs si < 2 ^ 16 /\ si_max_bs si < 2 ^ 16 /\
  opt0 (si_min_fs si) < 2 ^ 24 /\ opt0 (si_max_fs si) < 2 ^ 24 /\
  si_rate si < 2 ^ 20 /\ 1 <= si_channels si <= 8 /\ 1 <= si_bps si <= 32 /\
  opt0 (si_total si) < 2 ^ 36 /\
  match si_md5 si with Some d => length d = 16%nat | None => True end.

Lemma ser_streaminfo_body_ok si : streaminfo_ok si ->
  exists b, ser_streaminfo_body si = Ok b /\ length b = 34%nat.
Proof.
  intros (H1 & H2 & H3 & H4 & H5 & H6 & H7 & H8 & H9). unfold ser_streaminfo_body.
  rewrite !field_ok by assumption. cbn [bind].
  destruct (N.eqb_spec (si_channels si) 0) as [E|E]; [lia|].
  rewrite field_ok by (change (2 ^ 3) with 8; lia). cbn [bind].
  unfold streaminfo_bps_field.
  replace ((1 <=? si_bps si) && (si_bps si - 1 <=? 31)) with true
    by (symmetry; apply andb_true_intro; split; apply N.leb_le; lia).
  cbn [bind]. rewrite field_ok by assumption. cbn [bind].
  eexists. split; [reflexivity|].
  rewrite !app_length, !be_bytes_length.
  destruct (si_md5 si) as [d|]; [rewrite H9|rewrite repeat_length]; reflexivity.
Qed.

(* an optional block that write_blocks can serialise *)
Definition oblock_ser_ok (b : oblock) : Prop :=
  match b with
  | BPadding s => s <= BLOCKSIZE_MAX
  | BSeekTable pts => seektable_ok None pts = true /\ 18 * N.of_nat (length pts) <= BLOCKSIZE_MAX
  | BOther _ body => N.of_nat (length body) <= BLOCKSIZE_MAX
  end.

Lemma ser_header_ok last ty size : size <= BLOCKSIZE_MAX ->
  exists h, ser_header last ty size = Ok h /\ length h = 4%nat.
Proof.
  intros H. unfold ser_header. destruct (N.leb_spec size BLOCKSIZE_MAX); [|lia]. cbn [bind].
  eexists. split; [reflexivity|]. cbn [length]. rewrite be_bytes_length. reflexivity.
Qed.

Lemma ser_oblock_ok last b : oblock_ser_ok b ->
  exists x, ser_oblock last b = Ok x /\ N.of_nat (length x) = HEADER_SIZE + oblock_size b.
Proof.
  intros H. unfold ser_oblock.
  assert (exists body, ser_oblock_body b = Ok body /\ N.of_nat (length body) = oblock_size b) as (body & -> & L).
  { destruct b as [s|pts|k body]; cbn [ser_oblock_body oblock_size oblock_ser_ok] in *.
    - eexists. split; [reflexivity|]. rewrite repeat_length. apply N2Nat.id.
    - destruct H as [-> _]. eexists. split; [reflexivity|]. rewrite flat_map_ser_point_length. lia.
    - eexists. split; reflexivity. }
  cbn [bind]. rewrite L.
  destruct (ser_header_ok last (oblock_type b) (oblock_size b)) as (h & -> & Lh).
  { destruct b; cbn in *; tauto || lia. }
  cbn [bind]. eexists. split; [reflexivity|]. rewrite app_length. unfold HEADER_SIZE. lia.
Qed.

Definition blocks_len (l : list oblock) : N :=
  fold_right (fun b acc => HEADER_SIZE + oblock_size b + acc) 0 l.

Lemma ser_oblocks_ok l : Forall oblock_ser_ok l ->
  exists x, ser_oblocks l = Ok x /\ N.of_nat (length x) = blocks_len l.
Proof.
  induction 1 as [|b l Hb F (y & Ey & Ly)]; cbn [ser_oblocks blocks_len fold_right].
  - eexists. split; reflexivity.
  - destruct (ser_oblock_ok (match l with [] => true | _ => false end) b Hb) as (x & -> & Lx).
    cbn [bind]. rewrite Ey. cbn [bind]. eexists. split; [reflexivity|].
    rewrite app_length. fold (blocks_len l). lia.
Qed.

Lemma write_blocks_ok si l : streaminfo_ok si -> Forall oblock_ser_ok l ->
  exists m, write_blocks si l = Ok m /\ N.of_nat (length m) = meta_len l.
Proof.
  intros Hs Hl. unfold write_blocks.
  destruct (ser_streaminfo_body_ok si Hs) as (b & -> & Lb). cbn [bind]. rewrite Lb.
  destruct (ser_header_ok (match l with [] => true | _ => false end) 0 (N.of_nat 34)) as (h & -> & Lh).
  { unfold BLOCKSIZE_MAX. cbn. lia. }
  cbn [bind]. destruct (ser_oblocks_ok l Hl) as (x & -> & Lx). cbn [bind].
  eexists. split; [reflexivity|]. unfold meta_len. fold (blocks_len l).
  rewrite !app_length. cbn [FLAC_TAG length]. unfold HEADER_SIZE. lia.
Qed.

(* whenever write_blocks succeeds (with a 16-byte digest), its output has the predicted length *)
Lemma ser_oblock_length last b x : ser_oblock last b = Ok x ->
  N.of_nat (length x) = HEADER_SIZE + oblock_size b.
Proof.
  unfold ser_oblock. intros H.
  apply bind_ok in H. destruct H as (body & Hb & H).
  apply bind_ok in H. destruct H as (h & Hh & H).
  assert (E : x = h ++ body) by congruence. clear H.
  assert (Lh : length h = 4%nat).
  { unfold ser_header in Hh. apply bind_ok in Hh. destruct Hh as (sz & _ & Hh).
    match type of Hh with Ok ?e = Ok _ => assert (E2 : h = e) by congruence end.
    rewrite E2. cbn [length]. rewrite be_bytes_length. reflexivity. }
  rewrite E, app_length, Lh. unfold HEADER_SIZE.
  assert (N.of_nat (length body) = oblock_size b); [|lia].
  destruct b as [s0|pts|k bd]; cbn [ser_oblock_body oblock_size] in *.
  - inversion Hb; subst. rewrite repeat_length. apply N2Nat.id.
  - destruct (seektable_ok None pts); [|discriminate]. inversion Hb; subst.
    rewrite flat_map_ser_point_length. lia.
  - inversion Hb; subst. reflexivity.
Qed.

Lemma ser_oblocks_length : forall l x, ser_oblocks l = Ok x -> N.of_nat (length x) = blocks_len l.
Proof.
  induction l as [|b l IH]; intros x H; cbn [ser_oblocks blocks_len fold_right] in *.
  - inversion H; subst. reflexivity.
  - apply bind_ok in H. destruct H as (y & Hy & H). apply bind_ok in H. destruct H as (z & Hz & H).
    inversion H; subst. apply ser_oblock_length in Hy. apply IH in Hz.
    rewrite app_length. fold (blocks_len l). lia.
Qed.

Lemma ser_header_length last ty size h : ser_header last ty size = Ok h -> length h = 4%nat.
Proof.
  unfold ser_header. intros H. apply bind_ok in H. destruct H as (sz & _ & H).
  assert (E : h = (if last then 128 + ty else ty) :: be_bytes 3 sz) by congruence.
  rewrite E. cbn [length]. rewrite be_bytes_length. reflexivity.
Qed.

Lemma ser_streaminfo_body_length si b :
  match si_md5 si with Some d => length d = 16%nat | None => True end ->
  ser_streaminfo_body si = Ok b -> length b = 34%nat.
Proof.
  intros Hd Hb. unfold ser_streaminfo_body in Hb.
  repeat (apply bind_ok in Hb; destruct Hb as (? & _ & Hb)).
  match type of Hb with Ok ?e = Ok _ => assert (E : b = e) by congruence end.
  rewrite E, !app_length, !be_bytes_length.
  destruct (si_md5 si) as [d|]; [rewrite Hd|rewrite repeat_length]; reflexivity.
Qed.

Lemma write_blocks_length si l m :
  match si_md5 si with Some d => length d = 16%nat | None => True end ->
  write_blocks si l = Ok m -> N.of_nat (length m) = meta_len l.
Proof.
  unfold write_blocks. intros Hd H.
  apply bind_ok in H. destruct H as (b & Hb & H).
  apply bind_ok in H. destruct H as (h & Hh & H).
  apply bind_ok in H. destruct H as (x & Hx & H).
  assert (E : m = FLAC_TAG ++ h ++ b ++ x) by congruence. clear H.
  apply ser_streaminfo_body_length in Hb; auto. apply ser_header_length in Hh.
  apply ser_oblocks_length in Hx.
  unfold meta_len. fold (blocks_len l). rewrite E, !app_length, Hh, Hb.
  change (length FLAC_TAG) with 4%nat. unfold HEADER_SIZE. lia.
Qed.

(* ---- the three layout cases keep the length of the metadata region *)

Lemma blocks_len_app l1 l2 : blocks_len (l1 ++ l2) = blocks_len l1 + blocks_len l2.
Proof. induction l1 as [|b l1 IH]; cbn [app blocks_len fold_right]; [reflexivity|]. fold (blocks_len (l1 ++ l2)) (blocks_len l1). lia. Qed.

Lemma set_first_seektable_len pts : forall l old, first_seektable l = Some old ->
  exists l', set_first_seektable pts l = Some l' /\
             blocks_len l' + 18 * N.of_nat (length old) = blocks_len l + 18 * N.of_nat (length pts).
Proof.
  induction l as [|b l IH]; intros old H; cbn [first_seektable] in H; [discriminate|].
  destruct b as [s|p0|k body]; cbn [set_first_seektable].
  - destruct (IH old H) as (l' & -> & E). eexists. split; [reflexivity|].
    cbn [blocks_len fold_right]. fold (blocks_len l') (blocks_len l). lia.
  - inversion H; subst. eexists. split; [reflexivity|].
    cbn [blocks_len fold_right oblock_size]. fold (blocks_len l). lia.
  - destruct (IH old H) as (l' & -> & E). eexists. split; [reflexivity|].
    cbn [blocks_len fold_right]. fold (blocks_len l') (blocks_len l). lia.
Qed.

Lemma set_first_padding_len s : forall l ps, first_padding l = Some ps ->
  exists l', set_first_padding s l = Some l' /\ blocks_len l' + ps = blocks_len l + s.
Proof.
  induction l as [|b l IH]; intros ps H; cbn [first_padding] in H; [discriminate|].
  destruct b as [s0|p0|k body]; cbn [set_first_padding].
  - inversion H; subst. eexists. split; [reflexivity|].
    cbn [blocks_len fold_right oblock_size]. fold (blocks_len l). lia.
  - destruct (IH ps H) as (l' & -> & E). eexists. split; [reflexivity|].
    cbn [blocks_len fold_right]. fold (blocks_len l') (blocks_len l). lia.
  - destruct (IH ps H) as (l' & -> & E). eexists. split; [reflexivity|].
    cbn [blocks_len fold_right]. fold (blocks_len l') (blocks_len l). lia.
Qed.

Lemma take_n_length {A} : forall (l : list A) n, N.of_nat (length (take_n l n)) = N.min (N.of_nat (length l)) n.
Proof.
  induction l as [|x l IH]; intros n; cbn [take_n length]; [lia|].
  destruct (N.eqb_spec n 0) as [E|E]; [subst; cbn; lia|].
  cbn [length]. rewrite !Nat2N.inj_succ, IH. lia.
Qed.

Lemma to_contiguous_ok l l' : to_contiguous l = Ok l' ->
  l' = l /\ N.of_nat (length l) <= MAX_POINTS /\ is_contiguous l = true.
Proof.
  unfold to_contiguous. destruct (N.leb_spec (N.of_nat (length l)) MAX_POINTS) as [L|L]; cbn [andb]; [|discriminate].
  destruct (is_contiguous l); [|discriminate]. intros HH; inversion HH; subst; repeat split; auto.
Qed.

Lemma insert_seektable_len pts l old : first_seektable l = Some old -> length pts = length old ->
  blocks_len (insert_seektable pts l) = blocks_len l.
Proof.
  intros H L. unfold insert_seektable. destruct (set_first_seektable_len pts l old H) as (l' & -> & E).
  rewrite L in E. lia.
Qed.

Theorem finalize_seektable_keeps_length cap blocks sel blocks' :
  finalize_seektable_gen cap blocks sel = Ok blocks' -> blocks_len blocks' = blocks_len blocks.
Proof.
  unfold finalize_seektable_gen. intros H.
  destruct (first_seektable blocks) as [points|] eqn:Es.
  - (* a placeholder table is in place: same number of points *)
    apply bind_ok in H. destruct H as (pts & Hp & H). inversion H; subst. clear H.
    apply to_contiguous_ok in Hp. destruct Hp as (-> & _ & _).
    apply (insert_seektable_len _ _ points Es).
    apply Nat2N.inj. rewrite take_n_length, app_length, repeat_length. lia.
  - destruct (first_padding blocks) as [ps|] eqn:Ep; [|inversion H; reflexivity].
    apply bind_ok in H. destruct H as (pts & Hp & H).
    destruct (seektable_ok None pts && (18 * N.of_nat (length pts) <=? BLOCKSIZE_MAX)
              && (18 * N.of_nat (length pts) + HEADER_SIZE <=? BLOCKSIZE_MAX)
              && (18 * N.of_nat (length pts) + HEADER_SIZE <=? ps)) eqn:C; [|inversion H; reflexivity].
    (* the table is carved out of the padding *)
    apply andb_prop in C. destruct C as [_ C]. apply N.leb_le in C.
    destruct (set_first_padding_len (ps - (18 * N.of_nat (length pts) + HEADER_SIZE)) blocks ps Ep) as (l' & E & L).
    rewrite E in H. inversion H; subst. rewrite blocks_len_app.
    cbn [blocks_len fold_right oblock_size]. unfold HEADER_SIZE in *. lia.
Qed.

Lemma meta_len_blocks_len l : meta_len l = 42 + blocks_len l.
Proof. unfold meta_len. fold (blocks_len l). unfold HEADER_SIZE. lia. Qed.

Section Layout.
Variable enc_block : N -> block -> res (list N).
Variable md5 : list N -> list N.
Hypothesis md5_length : forall l, length (md5 l) = 16%nat.
Variable p : profile.

(* the metadata region recorded at construction has the length its block list predicts *)
Definition meta_consistent (e : encoder) : Prop := N.of_nat (length (e_meta e)) = meta_len (e_blocks e).

Lemma encoder_new_meta prefix o rate bps ch total e :
  encoder_new p prefix o rate bps ch total = Ok e -> meta_consistent e.
Proof.
  unfold encoder_new. intros H.
  apply bind_ok in H. destruct H as ([] & _ & H).
  apply bind_ok in H. destruct H as (bl & _ & H).
  apply bind_ok in H. destruct H as (meta & Hm & H). inversion H; subst. unfold meta_consistent; cbn.
  apply write_blocks_length in Hm; [exact Hm|]. cbn. exact I.
Qed.

Lemma encoder_encode_meta e b e' :
  encoder_encode enc_block p e b = Ok e' ->
  e_meta e' = e_meta e /\ e_blocks e' = e_blocks e /\ e_prefix e' = e_prefix e /\ e_interval e' = e_interval e.
Proof.
  unfold encoder_encode. intros H.
  destruct (si_max_bs (e_si e) <? block_len b); [discriminate|].
  apply bind_ok in H. destruct H as (wr & _ & H).
  destruct (match si_total (e_si e) with Some t => (t <? wr) | None => false end); [discriminate|].
  destruct (8 <? N.of_nat (length b)); [discriminate|].
  apply bind_ok in H. destruct H as (bytes & _ & H).
  apply bind_ok in H. destruct H as (cnt & _ & H). inversion H; subst; cbn. auto.
Qed.

(* C09 layout: in each of the three cases the rewritten metadata has exactly the length of the
   region written at construction, so the finished stream is prefix ++ new metadata ++ the
   frames, byte for byte: nothing before the stream start, and no frame byte, is touched. *)
Theorem finalize_layout cap e f :
  meta_consistent e ->
  encoder_finalize_gen md5 p cap e = Ok f ->
  exists meta',
    write_blocks (f_si f) (f_blocks f) = Ok meta' /\
    length meta' = length (e_meta e) /\
    meta_len (f_blocks f) = meta_len (e_blocks e) /\
    f_stream f = e_prefix e ++ meta' ++ frames_bytes e.
Proof.
  intros Hm H. unfold encoder_finalize_gen in H.
  apply bind_ok in H. destruct H as (blocks & Hb & H).
  apply bind_ok in H. destruct H as (total & _ & H).
  apply bind_ok in H. destruct H as (meta' & Hw & H). inversion H; subst; cbn. clear H.
  assert (Hl : blocks_len blocks = blocks_len (e_blocks e)).
  { destruct (e_interval e) as [iv|]; [|inversion Hb; reflexivity].
    apply bind_ok in Hb. destruct Hb as (sel & _ & Hb).
    eapply finalize_seektable_keeps_length; eauto. }
  apply write_blocks_length in Hw as Lw; [|cbn; apply md5_length].
  assert (Lm : length meta' = length (e_meta e)).
  { apply Nat2N.inj. rewrite Lw, Hm, !meta_len_blocks_len, Hl. reflexivity. }
  exists meta'. repeat split; auto.
  - rewrite !meta_len_blocks_len, Hl. reflexivity.
  - unfold overwrite. rewrite Lm, skipn_app, skipn_all, Nat.sub_diag. reflexivity.
Qed.

End Layout.
