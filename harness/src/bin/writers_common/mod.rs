//! Shared by the `writers` area bins (c08, c15, c09): a shared in-memory stream that can be
//! inspected while a writer owns it, one enum over the four writer front-ends, and helpers.
#![allow(dead_code)]

use flac_codec::byteorder::{BigEndian, LittleEndian};
use flac_codec::encode::{FlacByteWriter, FlacChannelWriter, FlacSampleWriter, Options};
use flac_codec::Error;
use std::cell::RefCell;
use std::io::{Cursor, Seek, SeekFrom, Write};
use std::rc::Rc;
use vharness::*;

/// An in-memory stream shared between the writer under test and the harness.
#[derive(Clone)]
pub struct Shared(pub Rc<RefCell<Cursor<Vec<u8>>>>);
impl Shared {
    /// stream holding `prefix`, positioned at its end (so the FLAC stream starts at prefix.len())
    pub fn new(prefix: &[u8]) -> Self {
        let mut c = Cursor::new(prefix.to_vec());
        c.set_position(prefix.len() as u64);
        Shared(Rc::new(RefCell::new(c)))
    }
    pub fn snapshot(&self) -> Vec<u8> {
        self.0.borrow().get_ref().clone()
    }
}
thread_local! {
    /// when non-zero, every `Shared` sink accepts at most this many bytes per write call (a legal
    /// `io::Write`: `write_all` offers the rest again)
    pub static SHORT_WRITE_MAX: std::cell::Cell<usize> = std::cell::Cell::new(0);
}
impl Write for Shared {
    fn write(&mut self, buf: &[u8]) -> std::io::Result<usize> {
        let max = SHORT_WRITE_MAX.with(|m| m.get());
        let n = if max == 0 { buf.len() } else { buf.len().min(max) };
        self.0.borrow_mut().write(&buf[..n])
    }
    fn flush(&mut self) -> std::io::Result<()> {
        Ok(())
    }
}
impl Seek for Shared {
    fn seek(&mut self, pos: SeekFrom) -> std::io::Result<u64> {
        self.0.borrow_mut().seek(pos)
    }
}

#[derive(Clone, Copy, PartialEq, Eq, Debug)]
pub enum Kind {
    ByteLe,
    ByteBe,
    Sample,
    Channel,
}
pub const KINDS: [Kind; 4] = [Kind::ByteLe, Kind::ByteBe, Kind::Sample, Kind::Channel];
impl Kind {
    pub fn tag(self) -> &'static str {
        match self {
            Kind::ByteLe => "bl",
            Kind::ByteBe => "bb",
            Kind::Sample => "s",
            Kind::Channel => "c",
        }
    }
    pub fn is_byte(self) -> bool {
        matches!(self, Kind::ByteLe | Kind::ByteBe)
    }
}

pub enum AnyWriter {
    BL(FlacByteWriter<Shared, LittleEndian>),
    BB(FlacByteWriter<Shared, BigEndian>),
    S(FlacSampleWriter<Shared>),
    C(FlacChannelWriter<Shared>),
}

/// ok | err:<Variant> | panic:<message>
#[derive(Clone, Debug, PartialEq, Eq)]
pub enum Out {
    Ok,
    Err(String),
    Panic(String),
}
impl Out {
    pub fn class(&self) -> &'static str {
        match self {
            Out::Ok => "ok",
            Out::Err(_) => "err",
            Out::Panic(_) => "panic",
        }
    }
    pub fn full(&self) -> String {
        match self {
            Out::Ok => "ok".into(),
            Out::Err(e) => format!("err:{}", e),
            Out::Panic(p) => format!("panic:{}", p),
        }
    }
    pub fn is_ok(&self) -> bool {
        matches!(self, Out::Ok)
    }
}
pub fn out_of<T>(r: Result<Result<T, Error>, String>) -> (Out, Option<T>) {
    match r {
        Ok(Ok(v)) => (Out::Ok, Some(v)),
        Ok(Err(e)) => (Out::Err(err_class(&e)), None),
        Err(p) => (Out::Panic(p), None),
    }
}
/// a stable slug of a panic message, used in violation keys
pub fn slug(msg: &str) -> String {
    let mut s = String::new();
    for c in msg.chars().take(48) {
        if c.is_ascii_alphanumeric() {
            s.push(c.to_ascii_lowercase());
        } else if !s.ends_with('-') {
            s.push('-');
        }
    }
    s.trim_matches('-').to_string()
}

/// bytes per sample for a bit depth (1..=32)
pub fn bytes_per_sample(bps: u32) -> usize {
    bps.div_ceil(8) as usize
}

/// serialise interleaved samples in the given byte order, `n` bytes per sample (two's complement)
pub fn samples_to_bytes(samples: &[i32], n: usize, big: bool) -> Vec<u8> {
    let mut v = Vec::with_capacity(samples.len() * n);
    for s in samples {
        let le = s.to_le_bytes();
        if big {
            for i in (0..n).rev() {
                v.push(le[i]);
            }
        } else {
            v.extend_from_slice(&le[..n]);
        }
    }
    v
}

impl AnyWriter {
    /// Construct (under catch). `total` is in the writer's own unit (bytes for byte writers,
    /// interleaved samples for the sample writer, PCM frames for the channel writer).
    pub fn new(kind: Kind, stream: Shared, opts: Options, rate: u32, bps: u32, ch: u8, total: Option<u64>) -> (Out, Option<AnyWriter>) {
        match kind {
            Kind::ByteLe => out_of(catch(move || FlacByteWriter::endian(stream, LittleEndian, opts, rate, bps, ch, total).map(AnyWriter::BL))),
            Kind::ByteBe => out_of(catch(move || FlacByteWriter::endian(stream, BigEndian, opts, rate, bps, ch, total).map(AnyWriter::BB))),
            Kind::Sample => out_of(catch(move || FlacSampleWriter::new(stream, opts, rate, bps, ch, total).map(AnyWriter::S))),
            Kind::Channel => out_of(catch(move || FlacChannelWriter::new(stream, opts, rate, bps, ch, total).map(AnyWriter::C))),
        }
    }

    /// Write one chunk given as interleaved samples (whole PCM frames for the channel writer).
    /// For byte writers `raw` (if given) is written instead (allows chunks that end mid-sample).
    pub fn write(&mut self, samples: &[i32], raw: Option<&[u8]>, bps: u32, ch: usize) -> Out {
        let n = bytes_per_sample(bps.clamp(1, 32));
        let r = catch(|| -> Result<(), Error> {
            match self {
                AnyWriter::BL(w) => {
                    let owned;
                    let b: &[u8] = match raw {
                        Some(r) => r,
                        None => {
                            owned = samples_to_bytes(samples, n, false);
                            &owned
                        }
                    };
                    w.write_all(b).map_err(Error::from)
                }
                AnyWriter::BB(w) => {
                    let owned;
                    let b: &[u8] = match raw {
                        Some(r) => r,
                        None => {
                            owned = samples_to_bytes(samples, n, true);
                            &owned
                        }
                    };
                    w.write_all(b).map_err(Error::from)
                }
                AnyWriter::S(w) => w.write(samples),
                AnyWriter::C(w) => {
                    let frames = if ch == 0 { 0 } else { samples.len() / ch };
                    let chans: Vec<Vec<i32>> = (0..ch).map(|c| (0..frames).map(|i| samples[i * ch + c]).collect()).collect();
                    w.write(&chans)
                }
            }
        });
        out_of(r).0
    }

    /// Finalize (consumes).  On a panic the writer has been dropped during unwinding.
    pub fn finalize(self) -> Out {
        let r = catch(move || -> Result<(), Error> {
            match self {
                AnyWriter::BL(w) => w.finalize(),
                AnyWriter::BB(w) => w.finalize(),
                AnyWriter::S(w) => w.finalize(),
                AnyWriter::C(w) => w.finalize(),
            }
        });
        out_of(r).0
    }

    /// Leak the writer (used after a panic/error inside `write`, so that its Drop — which would
    /// run finalize on an inconsistent buffer — cannot abort the process with a double panic).
    pub fn forget(self) {
        std::mem::forget(self);
    }
}

/// Options built from optional setter arguments; returns the outcome of the setter chain.
#[derive(Clone, Debug, Default)]
pub struct OptSpec {
    pub block_size: Option<u16>,
    pub lpc: Option<Option<u8>>,
    pub po: Option<u32>,
    /// None = leave default; Some(None) = no_padding(); Some(Some(n)) = padding(n)
    pub padding: Option<Option<u32>>,
    /// None = leave default (10 s); Some("none") / Some("s:<n>") / Some("f:<n>")
    pub seek: Option<String>,
    pub fast: bool,
}
impl OptSpec {
    pub fn tag(&self) -> String {
        fn o<T: std::fmt::Display>(x: &Option<T>) -> String {
            match x {
                Some(v) => v.to_string(),
                None => "-".into(),
            }
        }
        format!(
            "bs={} lpc={} po={} pad={} seek={} fast={}",
            o(&self.block_size),
            match &self.lpc {
                None => "-".into(),
                Some(None) => "none".into(),
                Some(Some(v)) => v.to_string(),
            },
            o(&self.po),
            match &self.padding {
                None => "-".into(),
                Some(None) => "none".into(),
                Some(Some(v)) => v.to_string(),
            },
            o(&self.seek),
            if self.fast { 1 } else { 0 }
        )
    }
    pub fn build(&self) -> (Out, Option<Options>) {
        let s = self.clone();
        let r = catch(move || -> Result<Options, String> {
            let mut o = if s.fast { Options::fast() } else { Options::default() };
            if let Some(b) = s.block_size {
                o = o.block_size(b).map_err(|e| format!("{:?}", e))?;
            }
            if let Some(l) = s.lpc {
                o = o.max_lpc_order(l).map_err(|e| format!("{:?}", e))?;
            }
            if let Some(p) = s.po {
                o = o.max_partition_order(p).map_err(|e| format!("{:?}", e))?;
            }
            match s.padding {
                None => {}
                Some(None) => o = o.no_padding(),
                Some(Some(n)) => o = o.padding(n).map_err(|e| format!("{:?}", e))?,
            }
            if let Some(sk) = &s.seek {
                if sk == "none" {
                    o = o.no_seektable();
                } else if let Some(n) = sk.strip_prefix("s:") {
                    o = o.seektable_seconds(n.parse().unwrap());
                } else if let Some(n) = sk.strip_prefix("f:") {
                    o = o.seektable_frames(n.parse().unwrap());
                }
            }
            Ok(o)
        });
        match r {
            Ok(Ok(o)) => (Out::Ok, Some(o)),
            Ok(Err(e)) => (Out::Err(e), None),
            Err(p) => (Out::Panic(p), None),
        }
    }
}

/// little-endian sign-extended bytes of interleaved samples (the MD5 input the format defines)
pub fn md5_of_samples(samples: &[i32], bps: u32) -> [u8; 16] {
    let n = bytes_per_sample(bps);
    let b = samples_to_bytes(samples, n, false);
    md5::compute(&b).0
}
