//! C01 searcher: encode -> decode equality over the property's input space.
//!  (A) every length 1..=70 (PCM frames) x every PCM kind x a rotating set of configurations;
//!      very short final blocks (1..2*order samples) after whole blocks;
//!  (B) sweeps: every bits-per-sample 1..=32, every channel count, every sample-rate header
//!      coding, block-size codings (common / 8-bit / 16-bit uncommon), LPC orders, partition
//!      orders, windows, mid-side x exhaustive/fast, total known/unknown;
//!  (C) random configurations over the whole grid.
//! Each file is produced by one of the writer front-ends (samples, bytes LE/BE, channels; random
//! chunking of the write calls) and decoded by every reader front-end; samples, channel count,
//! sample rate and bits-per-sample must come back.
#[path = "c01_shared/mod.rs"]
mod shared;

use shared::io::*;
use shared::space::*;
use shared::*;
use std::collections::BTreeMap;
use vharness::json::{esc, ints, obj};
use vharness::*;

struct St {
    encodes: usize,
    decodes: usize,
    samples: u64,
    by_writer: BTreeMap<String, usize>,
    by_bps: BTreeMap<u32, usize>,
    by_ch: BTreeMap<u8, usize>,
    by_rate_class: BTreeMap<String, usize>,
    by_bs_class: BTreeMap<String, usize>,
    by_lpc: BTreeMap<String, usize>,
    by_po: BTreeMap<u32, usize>,
    by_kind: BTreeMap<String, usize>,
    lens: BTreeMap<usize, usize>,
    skipped_known: usize,
    samples_emitted: usize,
    struct_cases: usize,
    max_struct_cases: usize,
    enc_cases: usize,
}

fn enc_key(e: &str) -> String {
    if let Some(p) = e.strip_prefix("panic:") { format!("encode-panic:{}", panic_class(p)) } else { format!("encode-{}", e) }
}

fn one(out: &mut Out, st: &mut St, rng: &mut Rng, known: &Known, cfg: &Cfg, kind: &str, frames: usize, wr: Writer, all_readers: bool) {
    if cfg.hits_known_writer_defect(known) {
        st.skipped_known += 1;
        return;
    }
    let pcm = gen_pcm_ext(rng, kind, cfg.ch as usize, cfg.bps, frames);
    one_pcm(out, st, rng, known, cfg, kind, pcm, wr, all_readers);
}

fn one_pcm(out: &mut Out, st: &mut St, rng: &mut Rng, known: &Known, cfg: &Cfg, kind: &str, pcm: Vec<i32>, wr: Writer, all_readers: bool) {
    if cfg.hits_known_writer_defect(known) {
        st.skipped_known += 1;
        return;
    }
    let ch = cfg.ch as usize;
    let frames = pcm.len() / ch;
    let unit = if wr == Writer::Channels { (cfg.bs as usize).max(1) } else { (cfg.bs as usize * ch).max(1) };
    let total_units = if wr == Writer::Channels { frames } else { pcm.len() };
    let mode = rng.below(3);
    let chunks = chunking(rng, total_units, mode, unit.min(4000));
    st.encodes += 1;
    st.samples += pcm.len() as u64;
    *st.by_writer.entry(format!("{:?}", wr)).or_insert(0) += 1;
    *st.by_bps.entry(cfg.bps).or_insert(0) += 1;
    *st.by_ch.entry(cfg.ch).or_insert(0) += 1;
    *st.by_rate_class.entry(rate_class(cfg.rate).into()).or_insert(0) += 1;
    *st.by_bs_class.entry(bs_class(cfg.bs).into()).or_insert(0) += 1;
    *st.by_lpc.entry(match cfg.lpc { Some(l) => l.to_string(), None => "none".into() }).or_insert(0) += 1;
    *st.by_po.entry(cfg.po).or_insert(0) += 1;
    *st.by_kind.entry(kind.into()).or_insert(0) += 1;
    *st.lens.entry(frames.min(71)).or_insert(0) += 1;
    let input: Vec<(&str, String)> = vec![("cfg", cfg.json()), ("kind", esc(kind)), ("writer", esc(&format!("{:?}", wr))), ("chunks", ints(&chunks[..chunks.len().min(50)])), ("pcm", ints(&pcm[..pcm.len().min(5000)])), ("pcm_len", pcm.len().to_string())];
    clear_panic_loc();
    let bytes = match encode_to_vec(wr, cfg, &pcm, &chunks) {
        Ok(b) => b,
        Err(e) => {
            if let Some(p) = e.strip_prefix("panic:") {
                out.viol_panic("encode", p, &format!("encoding {} PCM frames ({}; {} ch, {} bps) panics: {}", frames, kind, cfg.ch, cfg.bps, p), &input);
            } else {
                out.viol(&enc_key(&e), &format!("encoding {} PCM frames ({}; {} ch, {} bps, writer {:?}) fails with {}", frames, kind, cfg.ch, cfg.bps, wr, e), &input);
            }
            return;
        }
    };
    let mut with_file = input.clone();
    if bytes.len() <= 4000 { with_file.push(("file", esc(&hex(&bytes)))); }
    let readers: Vec<&str> = if all_readers { READERS.to_vec() } else { vec!["sample_fill", READERS[st.encodes % READERS.len()]] };
    let mut base_err: Option<String> = None;
    for name in readers {
        st.decodes += 1;
        let mut o = run_reader(name, &bytes, 1 + (rng.below(5000) as usize));
        // the byte readers report crate errors as io::Error(InvalidData): name the class after
        // the sample reader's variant for the same file so that the key identifies the defect
        if let End::Err(e) = &o.end {
            if name == "sample_fill" { base_err = Some(e.clone()); } else if e.starts_with("Io:InvalidData") { if let Some(b) = &base_err { o.end = End::Err(b.clone()); } }
        }
        match &o.end {
            End::Panic(p) => out.viol_panic("roundtrip-decode", p, &format!("decoding the crate's own output ({} frames of {}, {} ch, {} bps) with reader {} panics: {}", frames, kind, cfg.ch, cfg.bps, name, p), &with_file),
            End::Err(e) => out.viol(
                &format!("roundtrip-decode-err:{}", e.split(':').next().unwrap_or(e)),
                &format!("file written by {:?} from {} PCM frames ({}; {} ch, {} bps, bs {}) is rejected by reader {} with {} after {} of {} samples", wr, frames, kind, cfg.ch, cfg.bps, cfg.bs, name, e, o.samples.len(), pcm.len()),
                &with_file,
            ),
            End::Eof => {
                if o.samples != pcm {
                    let at = o.samples.iter().zip(pcm.iter()).position(|(a, b)| a != b).unwrap_or(o.samples.len().min(pcm.len()));
                    out.viol("roundtrip-mismatch", &format!("reader {} returns {} samples for {} written ({}; {} ch, {} bps); first difference at {}", name, o.samples.len(), pcm.len(), kind, cfg.ch, cfg.bps, at), &with_file);
                } else if o.ch != cfg.ch || o.bps != cfg.bps || o.rate != cfg.rate {
                    out.viol("roundtrip-params", &format!("reader {} reports ch={} bps={} rate={} for a file written with ch={} bps={} rate={}", name, o.ch, o.bps, o.rate, cfg.ch, cfg.bps, cfg.rate), &with_file);
                }
            }
        }
    }
    if st.struct_cases < st.max_struct_cases && (st.encodes % 3 == 0 || frames < 20) {
        for line in encoder_struct_cases(&bytes, 3, 2500) { st.struct_cases += 1; out.case(line); }
    }
    // the same file for the model of the encoder (bounded in number and size)
    if st.enc_cases < st.max_struct_cases * 2 && bytes.len() < 60000 && pcm.len() <= 24000 {
        st.enc_cases += 1;
        out.case(enc_stream_case(&bytes, &pcm, cfg.json()));
    }
    if st.samples_emitted < 3 && bytes.len() < 600 && frames > 3 {
        st.samples_emitted += 1;
        println!("{}", obj(&[("t", esc("sample")), ("cfg", cfg.json()), ("kind", esc(kind)), ("pcm", ints(&pcm)), ("file", esc(&hex(&bytes)))]));
    }
}

fn main() {
    hook_panics();
    let seed = env_seed();
    let thorough = env_tier_thorough();
    let mut out = Out::new();
    let mut rng = Rng::new(seed, 0xC01);
    let mut st = St { encodes: 0, decodes: 0, samples: 0, by_writer: Default::default(), by_bps: Default::default(), by_ch: Default::default(), by_rate_class: Default::default(), by_bs_class: Default::default(), by_lpc: Default::default(), by_po: Default::default(), by_kind: Default::default(), lens: Default::default(), skipped_known: 0, samples_emitted: 0, struct_cases: 0, enc_cases: 0, max_struct_cases: scale(if thorough { 6000 } else { 700 }) };
    let kinds = all_kinds();
    let known = probe_known();
    clear_panic_loc();
    let full = scale(100) >= 100;

    // ---- (A) every length 1..=70 x kinds x rotating configurations
    let base_cfgs: Vec<Cfg> = vec![
        Cfg::default(), // 16-bit mono, default options (the F-C01a configuration)
        Cfg { ch: 2, ..Cfg::default() },
        Cfg { bps: 8, bs: 16, lpc: None, ..Cfg::default() },
        Cfg { bps: 24, ch: 2, bs: 32, lpc: Some(12), po: 6, fast: true, ..Cfg::default() },
        Cfg { bps: 32, bs: 16, lpc: Some(4), ..Cfg::default() },
        Cfg { bps: 32, ch: 2, bs: 24, lpc: Some(31), mid_side: false, declare_total: false, ..Cfg::default() },
        Cfg { bps: 12, ch: 3, bs: 17, lpc: Some(1), po: 0, ..Cfg::default() },
        Cfg { bps: 5, ch: 1, bs: 64, lpc: Some(16), po: 3, win: Win::Hann, ..Cfg::default() },
    ];
    let ncfg = if thorough { base_cfgs.len() } else if full { 4 } else { 2 };
    for len in 1..=70usize {
        for (ki, kind) in kinds.iter().enumerate() {
            for c in 0..ncfg {
                let cfg = &base_cfgs[if thorough { c } else if c == 0 { 0 } else { 1 + (len + ki + c) % (base_cfgs.len() - 1) }];
                let wr = WRITERS[(len + ki + c) % WRITERS.len()];
                one(&mut out, &mut st, &mut rng, &known, cfg, kind, len, wr, c == 0 && ki % 4 == 0);
            }
        }
    }
    // regression witnesses (DESIGN section 4): F-C01a
    for cfg in [Cfg { padding: None, seek: SeekPol::Default, ..Cfg::default() }, Cfg::default()] {
        one_pcm(&mut out, &mut st, &mut rng, &known, &cfg, "witness", vec![-6, -3, 2, 7], Writer::Samples, true);
    }
    // very short files: many signals per length (a block no longer than twice the predictor order)
    for len in 1..=14usize {
        for rep in 0..scale(if thorough { 400 } else { 60 }) {
            let kind = ["small", "poly", "walk", "ramp"][rep % 4];
            let cfg = match rep % 5 {
                0 | 1 => Cfg { padding: None, seek: SeekPol::Default, ..Cfg::default() },
                2 => Cfg { ch: 2, ..Cfg::default() },
                3 => Cfg { bps: *rng.pick(&[8u32, 12, 24, 32, 4]), lpc: None, ..Cfg::default() },
                _ => Cfg { bs: 16, po: rng.range(0, 6) as u32, ch: rng.range(1, 3) as u8, ..Cfg::default() },
            };
            one(&mut out, &mut st, &mut rng, &known, &cfg, kind, len, WRITERS[rep % WRITERS.len()], false);
        }
    }
    // short final blocks after whole blocks: k*bs + (1..=2*order)
    for order in [1u8, 2, 4, 8, 12, 31] {
        for tail in 1..=(2 * order as usize).min(if thorough { 62 } else { 24 }) {
            let bs = 16 + (tail as u16 % 3) * 8;
            let cfg = Cfg { bs, lpc: Some(order), bps: *rng.pick(&[8u32, 16, 24, 32]), ch: rng.range(1, 2) as u8, declare_total: tail % 2 == 0, ..Cfg::default() };
            let kind = kinds[(tail + order as usize) % kinds.len()];
            one(&mut out, &mut st, &mut rng, &known, &cfg, kind, bs as usize * 2 + tail, WRITERS[tail % WRITERS.len()], false);
        }
    }

    // ---- (B) sweeps
    for bps in 1..=32u32 {
        for ch in [1u8, 2] {
            for (k, kind) in ["noise", "fullscale", "wasted", "walk", "min_adjacent"].iter().enumerate() {
                if !thorough && !full && k > 1 { continue; }
                let cfg = Cfg { bps, ch, bs: *rng.pick(&[16u16, 20, 48]), rate: pick_rate(&mut rng), lpc: *rng.pick(&[None, Some(6u8), Some(8)]), fast: rng.chance(1, 2), mid_side: rng.chance(1, 2), ..Cfg::default() };
                let n = rng.range(30, 120) as usize;
                one(&mut out, &mut st, &mut rng, &known, &cfg, kind, n, WRITERS[(bps as usize + k) % WRITERS.len()], k == 0);
            }
        }
    }
    for ch in 1..=8u8 {
        for bps in [8u32, 16, 20, 32] {
            let cfg = Cfg { bps, ch, bs: 32, ..Cfg::default() };
            one(&mut out, &mut st, &mut rng, &known, &cfg, kinds[(ch as usize + bps as usize) % kinds.len()], 75, WRITERS[ch as usize % WRITERS.len()], true);
        }
    }
    for rates in [RATES_COMMON, RATES_KHZ, RATES_HZ, RATES_DHZ, RATES_SI] {
        for rate in rates {
            let cfg = Cfg { rate: *rate, bs: 16, ch: rng.range(1, 2) as u8, ..Cfg::default() };
            one(&mut out, &mut st, &mut rng, &known, &cfg, "sine", 40, Writer::Samples, false);
        }
    }
    let big_bs: Vec<u16> = if thorough { vec![192, 576, 1152, 2304, 4608, 256, 512, 1024, 2048, 4096, 8192, 16384, 32768, 255, 257, 1000, 65535, 40000] } else { vec![192, 576, 256, 512, 1152, 4096, 4608, 255, 257, 8192, 65535] };
    for bs in big_bs {
        let cfg = Cfg { bs, ch: 1, bps: *rng.pick(&[8u32, 16]), lpc: *rng.pick(&[None, Some(8u8)]), ..Cfg::default() };
        let n = bs as usize + rng.range(1, 40) as usize;
        let kind = *rng.pick(&["walk", "sine", "noise", "sparse"]);
        one(&mut out, &mut st, &mut rng, &known, &cfg, kind, n, Writer::Samples, false);
    }
    let lpcs: Vec<Option<u8>> = std::iter::once(None).chain((1..=32u8).map(Some)).collect();
    for lpc in lpcs {
        for kind in ["lpc_friendly", "noise"] {
            let cfg = Cfg { lpc, bs: 128, bps: *rng.pick(&[16u32, 24]), ch: rng.range(1, 2) as u8, win: rng.pick(WINDOWS).clone(), ..Cfg::default() };
            one(&mut out, &mut st, &mut rng, &known, &cfg, kind, 300, Writer::Samples, false);
        }
    }
    for po in 0..=15u32 {
        for bs in [64u16, 192, 4096] {
            if !thorough && !full && bs == 4096 { continue; }
            let cfg = Cfg { po, bs, bps: 16, ..Cfg::default() };
            one(&mut out, &mut st, &mut rng, &known, &cfg, "walk", bs as usize + 7, Writer::Samples, false);
        }
    }
    for w in WINDOWS {
        for ms in [false, true] {
            for fast in [false, true] {
                let cfg = Cfg { win: w.clone(), mid_side: ms, fast, ch: 2, bs: 96, bps: *rng.pick(&[16u32, 31, 32, 24]), ..Cfg::default() };
                let kind = *rng.pick(&["walk", "stereo_equal", "stereo_opposite", "sine"]);
                let wr = WRITERS[rng.below(4) as usize];
                one(&mut out, &mut st, &mut rng, &known, &cfg, kind, 200, wr, false);
            }
        }
    }

    // ---- (C) random configurations
    let nrand = scale(if thorough { 40000 } else { 500 });
    for i in 0..nrand {
        let cfg = random_cfg(&mut rng, &known);
        let kind = kinds[i % kinds.len()];
        let bs = cfg.bs as usize;
        let budget = (if thorough { 40000 } else { 9000 }) / cfg.ch as usize;
        let frames = match rng.below(5) {
            0 => rng.range(1, 70) as usize,
            1 => bs.min(budget) + rng.range(1, 2 * cfg.lpc.unwrap_or(4) as i64) as usize,
            2 => (bs * rng.range(1, 3) as usize).min(budget).max(1),
            _ => rng.range(1, (3 * bs).min(budget).max(2) as i64) as usize,
        };
        one(&mut out, &mut st, &mut rng, &known, &cfg, kind, frames, WRITERS[i % WRITERS.len()], i % 7 == 0);
    }

    let m = |m: &BTreeMap<String, usize>| format!("{{{}}}", m.iter().map(|(k, v)| format!("{}:{}", esc(k), v)).collect::<Vec<_>>().join(","));
    let mi = |m: &BTreeMap<u32, usize>| format!("{{{}}}", m.iter().map(|(k, v)| format!("\"{}\":{}", k, v)).collect::<Vec<_>>().join(","));
    println!(
        "{}",
        obj(&[
            ("t", esc("stat")), ("profile", esc(profile())), ("encodes", st.encodes.to_string()), ("decodes", st.decodes.to_string()), ("pcm_samples", st.samples.to_string()),
            ("skipped_known_writer_defects", st.skipped_known.to_string()), ("known_writer_defects_present", esc(&format!("{:?}", known))),
            ("by_writer", m(&st.by_writer)), ("by_bps", mi(&st.by_bps)), ("by_ch", format!("{{{}}}", st.by_ch.iter().map(|(k, v)| format!("\"{}\":{}", k, v)).collect::<Vec<_>>().join(","))),
            ("by_rate_class", m(&st.by_rate_class)), ("by_bs_class", m(&st.by_bs_class)), ("by_lpc", m(&st.by_lpc)), ("by_po", mi(&st.by_po)), ("by_kind", m(&st.by_kind)),
            ("struct_cases_emitted", st.struct_cases.to_string()), ("lengths_1_to_70_hit", st.lens.keys().filter(|k| **k <= 70).count().to_string()), ("viols", out.viols.to_string()), ("viol_keys", out.counts()),
        ])
    );
}
