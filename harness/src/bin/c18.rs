//! C18 harness: the same inputs and option sets are encoded by this binary built without and with the
//! `rayon` feature; the check runs the rayon build under RAYON_NUM_THREADS = 1, 2, 3, 8, 16 (several times
//! each) and compares, case by case, the outcome line: `ok:<len>:<fnv64 of the finished file>` |
//! `err:<class>` | `panic`.  Nothing else is compared (no timing, no thread ids).
//! `c18 --spec "<spec>" [--dump]` re-runs one case (and prints the file as hex).
use flac_codec::encode::{FlacChannelWriter, FlacSampleWriter, Options};
use flac_codec::Error;
use std::io::Cursor;
use vharness::json::{esc, obj};
use vharness::*;

fn fnv64(b: &[u8]) -> u64 {
    let mut h: u64 = 0xcbf29ce484222325;
    for x in b {
        h ^= *x as u64;
        h = h.wrapping_mul(0x100000001b3);
    }
    h
}

#[derive(Clone, Debug)]
struct Case {
    ch: u8,
    bps: u32,
    bs: u16,
    frames: usize,
    kind: String,
    ms: bool,
    exh: bool,
    lpc: i32, // -1 = None
    po: i32,  // -1 = default
    fe: String,
    seed: u64,
}
impl Case {
    fn spec(&self) -> String {
        format!("ch={} bps={} bs={} n={} kind={} ms={} exh={} lpc={} po={} fe={} seed={}", self.ch, self.bps, self.bs, self.frames, self.kind, self.ms as u8, self.exh as u8, self.lpc, self.po, self.fe, self.seed)
    }
    fn parse(s: &str) -> Case {
        let mut c = Case { ch: 1, bps: 16, bs: 4096, frames: 100, kind: "noise".into(), ms: true, exh: false, lpc: 8, po: -1, fe: "sample".into(), seed: 1 };
        for kv in s.split_whitespace() {
            let (k, v) = kv.split_once('=').unwrap();
            match k {
                "ch" => c.ch = v.parse().unwrap(),
                "bps" => c.bps = v.parse().unwrap(),
                "bs" => c.bs = v.parse().unwrap(),
                "n" => c.frames = v.parse().unwrap(),
                "kind" => c.kind = v.to_string(),
                "ms" => c.ms = v == "1",
                "exh" => c.exh = v == "1",
                "lpc" => c.lpc = v.parse().unwrap(),
                "po" => c.po = v.parse().unwrap(),
                "fe" => c.fe = v.to_string(),
                "seed" => c.seed = v.parse().unwrap(),
                _ => {}
            }
        }
        c
    }
}

fn run(c: &Case) -> (String, Vec<u8>) {
    let mut rng = Rng::new(c.seed, 0xC18);
    let pcm = gen_pcm(&mut rng, &c.kind, c.ch as usize, c.bps, c.frames);
    let r = catch(|| -> Result<Vec<u8>, Error> {
        let mut o = Options::default().block_size(c.bs).map_err(|_| Error::InvalidTotalBytes)?;
        o = o.mid_side(c.ms).fast_channel_correlation(!c.exh);
        o = o.max_lpc_order(if c.lpc < 0 { None } else { Some(c.lpc as u8) }).map_err(|_| Error::InvalidTotalBytes)?;
        if c.po >= 0 {
            o = o.max_partition_order(c.po as u32).map_err(|_| Error::InvalidTotalBytes)?;
        }
        let mut cur = Cursor::new(Vec::new());
        if c.fe == "channel" {
            let n = pcm.len() / c.ch as usize;
            let chans: Vec<Vec<i32>> = (0..c.ch as usize).map(|k| (0..n).map(|i| pcm[i * c.ch as usize + k]).collect()).collect();
            let mut w = FlacChannelWriter::new(&mut cur, o, 44100, c.bps, c.ch, Some(n as u64))?;
            // several writes, so that partial frames are buffered between calls
            let cut = n / 3;
            w.write(chans.iter().map(|v| &v[..cut]).collect::<Vec<_>>())?;
            w.write(chans.iter().map(|v| &v[cut..]).collect::<Vec<_>>())?;
            w.finalize()?;
        } else {
            let mut w = FlacSampleWriter::new(&mut cur, o, 44100, c.bps, c.ch, None)?;
            let cut = (pcm.len() / 2 / c.ch as usize) * c.ch as usize;
            w.write(&pcm[..cut])?;
            w.write(&pcm[cut..])?;
            w.finalize()?;
        }
        Ok(cur.into_inner())
    });
    match r {
        Ok(Ok(v)) => (format!("ok:{}:{:016x}", v.len(), fnv64(&v)), v),
        Ok(Err(e)) => (format!("err:{}", err_class(&e)), vec![]),
        Err(_) => ("panic".to_string(), vec![]),
    }
}

fn main() {
    quiet_panics();
    let seed = env_seed();
    let thorough = env_tier_thorough();
    let args: Vec<String> = std::env::args().collect();
    if args.len() >= 3 && args[1] == "--spec" {
        let c = Case::parse(&args[2]);
        let (out, bytes) = run(&c);
        println!("{}", obj(&[("t", esc("case")), ("spec", esc(&c.spec())), ("out", esc(&out)), ("rayon", cfg!(feature = "rayon").to_string()),
            ("file", esc(&if args.len() >= 4 { hex(&bytes) } else { String::new() }))]));
        return;
    }
    let mut cases: Vec<Case> = vec![];
    // ---- structured: every channel count x mid-side x exhaustive x a few LPC orders / block sizes
    let mut rng = Rng::new(seed, 0x18C);
    for ch in 1u8..=8 {
        for (ms, exh) in [(true, false), (false, false), (true, true), (false, true)] {
            if ch != 2 && (exh || !ms) && !(thorough || ch == 1 || ch == 3) {
                continue; // correlation options only matter for stereo; keep a few of the others
            }
            for (lpc, bs, bps) in [(-1i32, 256u16, 16u32), (8, 4096, 16), (12, 1152, 24), (32, 4096, 16), (1, 16, 8), (6, 4608, 32)] {
                if !thorough && ch > 2 && (lpc == 1 || lpc == 32) {
                    continue;
                }
                let kind = PCM_KINDS[(ch as usize + lpc.unsigned_abs() as usize + bs as usize) % PCM_KINDS.len()];
                let frames = (bs as usize) * 2 + (rng.below(bs as u64) as usize) + 1;
                cases.push(Case { ch, bps, bs, frames, kind: kind.to_string(), ms, exh, lpc, po: if lpc == 12 { 3 } else { -1 },
                    fe: if (ch as usize + bs as usize) % 3 == 0 { "channel".into() } else { "sample".into() }, seed: seed.wrapping_add(cases.len() as u64) });
            }
        }
    }
    // ---- stereo, every PCM kind, exhaustive and fast (the four correlation candidates and the tie-breaks)
    for (i, kind) in PCM_KINDS.iter().enumerate() {
        for exh in [false, true] {
            cases.push(Case { ch: 2, bps: if i % 2 == 0 { 16 } else { 24 }, bs: 4096, frames: 9000 + i * 37, kind: kind.to_string(), ms: true, exh, lpc: 8, po: -1, fe: "sample".into(), seed: seed + 1000 + i as u64 });
        }
    }
    // ---- tiny blocks: sizes of a few dozen bits, so that equal candidate sizes (ties in min_by_key) do occur
    for i in 0..(if thorough { 400 } else { 80 }) {
        let kind = PCM_KINDS[i % PCM_KINDS.len()];
        let bs = *rng.pick(&[16u16, 17, 20, 32]);
        cases.push(Case { ch: 1 + (i % 3) as u8, bps: *rng.pick(&[8u32, 12, 16]), bs, frames: bs as usize * (4 + i % 9) + i % 5, kind: kind.to_string(), ms: i % 2 == 0, exh: i % 4 < 2,
            lpc: *rng.pick(&[1i32, 2, 3, 4, 8]), po: *rng.pick(&[-1i32, 0, 1]), fe: "sample".into(), seed: seed + 9000 + i as u64 });
    }
    // ---- random
    let nr = if thorough { 3000 } else { 250 };
    for i in 0..nr {
        let ch = rng.range(1, 8) as u8;
        let bps = *rng.pick(&[8u32, 12, 16, 20, 24, 32]);
        let bs = *rng.pick(&[16u16, 192, 576, 1152, 4096, 4608, 8192]);
        let lpc = *rng.pick(&[-1i32, 1, 4, 8, 12, 16, 32]);
        cases.push(Case { ch, bps, bs, frames: bs as usize + rng.below(3 * bs as u64) as usize + 1, kind: rng.pick(PCM_KINDS).to_string(), ms: rng.chance(1, 2), exh: rng.chance(1, 2),
            lpc, po: *rng.pick(&[-1i32, 0, 2, 5]), fe: if rng.chance(1, 3) { "channel".into() } else { "sample".into() }, seed: seed + 5000 + i as u64 });
    }
    let mut ok = 0;
    let mut other = 0;
    for (i, c) in cases.iter().enumerate() {
        let (out, _) = run(c);
        if out.starts_with("ok") { ok += 1 } else { other += 1 }
        println!("{}", obj(&[("t", esc("case")), ("id", i.to_string()), ("spec", esc(&c.spec())), ("out", esc(&out))]));
    }
    println!("{}", obj(&[("t", esc("stat")), ("cases", cases.len().to_string()), ("ok", ok.to_string()), ("not_ok", other.to_string()),
        ("rayon", cfg!(feature = "rayon").to_string()), ("threads_env", esc(&std::env::var("RAYON_NUM_THREADS").unwrap_or_default()))]));
}
