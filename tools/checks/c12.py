"""C12 — metadata and auxiliary parsers are total on arbitrary input.

Proof: coq/metadata Total_proofs.v / Props_C12.v over the models Blocks.v, BlockList.v,
Cue.v, Accessors.v, Sniff.v (of the repaired code): no Panic outcome (overflow trap,
division by zero, unwrap, fuel exhaustion) for any byte string / text / profile.
Tie: the extracted model and a vm_compute sample are run on the cases of
harness/src/bin/c12.rs (arbitrary and near-valid metadata sections with every accessor,
cue texts, image headers) in release and debug builds and diffed (class strictly, payload
of every accepted input exactly).
Search: the harness runs every call under catch_unwind and checks a generous allocation
bound with a counting allocator."""
import vlib
from checks import metadata_common as mc

THEOREMS = ["Props_C12.C12_read_metadata_total", "Props_C12.C12_accessors_total", "Props_C12.C12_cue_parse_total",
            "Props_C12.C12_cue_accessors_total", "Props_C12.C12_sniff_total", "Props_C12.C12_block_size_bounded"]
FILES = ["Bytes.v", "Bytes_proofs.v", "Blocks.v", "BlockList.v", "Cue.v", "Accessors.v", "Sniff.v",
         "Blocks_proofs.v", "BlockList_proofs.v", "Total_proofs.v", "Props_C12.v", "Pins.v"]


def run(chk):
    chk.assumptions = [
        "the Coq models mirror src/metadata/mod.rs and cuesheet.rs function by function (checked by differential runs in both profiles, not proved)",
        "text is modelled as code points with std's lines/trim/split_once/integer FromStr; fidelity of the white-space class against std on exotic Unicode is by correspondence only",
        "UTF-8 validity is a Section variable of the reader theorems; the instance Utf8.v is tied by correspondence",
        "absence of hangs: every model function is a structural Fixpoint and fuel exhaustion is one of the excluded Panic outcomes; the allocation bound is a runtime check of the harness (64 MiB + 64 bytes per input byte; the largest declared-length allocation is the SEEKTABLE pre-allocation of at most ~22 MiB), not a theorem",
        "usize is 64 bits",
    ]
    proof_ok = mc.proof_stage(chk, requires=["FlacMeta.Props_C12", "FlacMeta.Pins"], theorems=THEOREMS, files=FILES)
    exe = mc.build_driver(chk) if proof_ok else None
    total_cases = bad_total = soft_total = 0
    stats, kinds, classes = {}, {}, {}
    samples = []
    vm_cases = []
    for profile in ("release", "debug"):
        lines = mc.run_harness(chk, "c12", profile)
        if lines is None:
            continue
        cases = [d for d in lines if d.get("t") == "case"]
        for d in lines:
            t = d.get("t")
            if t == "viol":
                chk.violation(d["key"], "[%s build] %s" % (profile, d["desc"]), {k: d[k] for k in d if k != "t"})
            elif t == "stat":
                stats[profile] = d
        for c in cases:
            kinds[c["k"]] = kinds.get(c["k"], 0) + 1
            kc = c["k"] + ":" + mc.klass(c["obs"])
            classes[kc] = classes.get(kc, 0) + 1
        if exe:
            model = mc.run_model(chk, exe, cases)
            if model is not None:
                bad, soft = mc.diff_cases(chk, cases, model, "c12:" + profile)
                bad_total += bad
                soft_total += soft
                total_cases += len(cases)
        if profile == "debug":
            img = [c for c in cases if c["k"] == "img" and len(c["in"]) <= 200]
            vm_cases = [c for c in img if c["obs"].startswith("ok")][:14] + [c for c in img if not c["obs"].startswith("ok")][:6]
            samples = [{"kind": c["k"], "input": c["in"][:300], "observation": c["obs"][:300]} for c in
                       ([c for c in cases if c["k"] == "rda" and c["obs"].startswith("ok")][:1] +
                        [c for c in cases if c["k"] == "cue" and c["obs"].startswith("ok")][:1] +
                        [c for c in cases if c["k"] == "img" and c["obs"].startswith("ok")][:1])]

    if proof_ok and vm_cases:
        defs, expected = [], []
        for i, c in enumerate(vm_cases):
            h = "" if c["in"] == "." else c["in"]
            lst = "; ".join(str(int(h[j:j + 2], 16)) for j in range(0, len(h), 2))
            defs.append('Goal True. let v := eval vm_compute in (match sniff Debug [%s] with '
                        'Ok m => (0, [m_kind m; m_width m; m_height m; m_depth m; m_colors m]) | Err _ => (1, []) | Panic _ => (2, []) end) '
                        'in idtac "@@%d=" v "@@". Abort.' % (lst, i))
            obs = c["obs"]
            if obs.startswith("ok "):
                f = obs[3:].split(",")
                kind = {"696d6167652f706e67": 0, "696d6167652f6a706567": 1, "696d6167652f676966": 2}[f[0]]
                expected.append("(0, [%d; %d; %d; %d; %d])" % (kind, int(f[1], 16), int(f[2], 16), int(f[3], 16), int(f[4], 16)))
            elif obs.startswith("err"):
                expected.append("(1, [])")
            else:
                expected.append("(2, [])")
        mc.vm_sample(chk, "c12", "\n".join(defs), expected, ["FlacMeta.Bytes", "FlacMeta.Sniff"])

    distinct = max([int(s.get("distinct_accepted", 0)) for s in stats.values()] or [0])
    chk.coverage.update({
        "evaluations": total_cases,
        "distinct_nontrivial": distinct,
        "rule": "distinct inputs (FNV hash) that were ACCEPTED by a parser (metadata section, cue text or image header) and therefore taken through every accessor; rejected and arbitrary inputs are counted under evaluations only (per build profile; the larger of the two profiles is reported)",
        "traces_validated_against_impl": total_cases,
        "disagreements_checked": bad_total,
        "error_variant_differences": soft_total,
        "case_kinds": kinds,
        "outcome_classes": classes,
        "searcher": {p: s.get("counts", {}) for p, s in stats.items()},
        "samples": samples,
        "vm_compute_sample": len(vm_cases),
    })
