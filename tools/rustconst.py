"""Evaluate the integer constant expressions the translators meet in the Rust source: decimal / hex / binary / octal
literals with `_` separators and type suffixes, combined with << >> * / + - | & and parentheses.  A respelling of a
constant (`1152` as `576 << 1`, `0b001` as `1`) then reads as the same value.  Returns None for anything else."""
import re

_SUFFIX = re.compile(r"(?<=[0-9a-fA-F_])(?:u8|u16|u32|u64|u128|usize|i8|i16|i32|i64|i128|isize)\b")
_OK = re.compile(r"^[0-9a-fA-FxXbBoO_\s()<>*/+\-|&]+$")
_LIT = re.compile(r"0[xX][0-9a-fA-F_]+|0[bB][01_]+|0[oO][0-7_]+|[0-9][0-9_]*")


def const(text):
    if text is None:
        return None
    t = _SUFFIX.sub("", text.strip())
    if not t or not _OK.match(t):
        return None

    def lit(m):
        s = m.group(0).replace("_", "")
        if s[:2].lower() == "0x":
            return str(int(s[2:], 16))
        if s[:2].lower() == "0b":
            return str(int(s[2:], 2))
        if s[:2].lower() == "0o":
            return str(int(s[2:], 8))
        return str(int(s))

    rest = _LIT.sub("", t)
    if re.search(r"[0-9a-zA-Z_]", rest):
        return None
    py = _LIT.sub(lit, t).replace("/", "//")
    try:
        v = eval(py, {"__builtins__": {}}, {})
    except Exception:
        return None
    return v if isinstance(v, int) else None


if __name__ == "__main__":
    for s, want in [("576 << 1", 1152), ("0b0000_1", 1), ("44_100 / 2", 22050), ("(1u16 << 12)", 4096), ("0xFF_FFFF", 0xFFFFFF),
                    ("(1 << 36) - 1", (1 << 36) - 1), ("s", None), ("u", None), ("7 + 258 * 8", 2071), ("0x100_0000 / 18", 932067)]:
        assert const(s) == want, (s, const(s), want)
    print("ok")


def const_in(expr, *texts, depth=4):
    """const(), with named constants (`Self::NAME`, `Type::NAME`, `NAME`, optionally followed by `as <int type>`) looked up as
    `const NAME: <type> = <expr>;` in the given source texts"""
    if expr is None:
        return None
    v = const(expr)
    if v is not None or depth == 0:
        return v
    w = re.fullmatch(r"\s*[A-Z]\w*\((.*)\)\s*", expr, re.S)      # a newtype constructor around the value: BlockSize(0x22)
    if w:
        return const_in(w.group(1), *texts, depth=depth)
    expr = re.sub(r"\b(u8|u16|u32|u64)::MAX\b", lambda m: str(2 ** int(m.group(1)[1:]) - 1), expr)
    expr = re.sub(r"^\s*\{(.*)\}\s*$", r"\1", expr, flags=re.S)          # a const-generic block: { 99 + 1 }
    v = const(expr)
    if v is not None:
        return v
    t = re.sub(r"\s+as\s+(?:u8|u16|u32|u64|u128|usize|i8|i16|i32|i64|i128|isize)\b", "", expr)
    t = re.sub(r"\b(?:u8|u16|u32|u64|usize)::from\(([^()]+)\)", r"(\1)", t)
    bad = []

    def sym(m):
        name = m.group(1)
        for tx in texts:
            d = re.search(r"\bconst\s+%s\s*:\s*[\w:<>]+\s*=\s*([^;]+);" % re.escape(name), tx or "")
            if d:
                val = const_in(d.group(1), *texts, depth=depth - 1)
                if val is not None:
                    return "(%d)" % val
        bad.append(name)
        return "0"

    t2 = re.sub(r"(?:\b[A-Za-z]\w*::)*\b([A-Z][A-Z0-9_]{2,})\b", sym, t)
    if bad:
        return None
    return const(t2)


def const_of_impl(text, type_name, const_name):
    """the expression of `const <const_name>: … = <expr>;` inside an `impl … <type_name>` block"""
    for m in re.finditer(r"\bconst\s+%s\s*:\s*[\w:<>]+\s*=\s*([^;]+);" % re.escape(const_name), text):
        heads = list(re.finditer(r"^impl(?:<[^>]*>)?\s+(?:[\w:<>]+\s+for\s+)?(\w+)", text[:m.start()], re.M))
        if heads and heads[-1].group(1) == type_name:
            return m.group(1)
    return None
