//! Reader front-ends, canonical observations ("case" lines), file assembly helpers.
use super::profile;
use flac_codec::byteorder::{BigEndian, LittleEndian};
use flac_codec::decode::{FlacByteReader, FlacChannelReader, FlacSampleReader, FlacStreamReader, Metadata};
use flac_codec::metadata::Streaminfo;
use flac_codec::stream::{ChannelAssignment, Frame, SubframeWidth};
use std::io::{BufRead, Cursor, Read};
use vharness::json::{arr, esc, ints, obj};
use vharness::*;

#[derive(Clone, Debug, PartialEq)]
pub struct Obs {
    pub samples: Vec<i32>,
    pub end: End,
    pub ch: u8,
    pub bps: u32,
    pub rate: u32,
    pub opened: bool,
}

fn end_of<T>(r: Result<Result<T, flac_codec::Error>, String>) -> (Option<T>, End) {
    match r {
        Ok(Ok(v)) => (Some(v), End::Eof),
        Ok(Err(e)) => (None, End::Err(err_class(&e))),
        Err(p) => (None, End::Panic(p)),
    }
}

/// `FlacSampleReader::read` with a caller buffer of `buf_len` samples
pub fn rd_sample_read(bytes: &[u8], buf_len: usize) -> Obs {
    let mut o = Obs { samples: vec![], end: End::Eof, ch: 0, bps: 0, rate: 0, opened: false };
    let r = catch(|| {
        let mut rd = match FlacSampleReader::new(Cursor::new(bytes)) {
            Ok(r) => r,
            Err(e) => { o.end = End::Err(err_class(&e)); return; }
        };
        o.opened = true;
        o.ch = rd.channel_count();
        o.bps = rd.bits_per_sample();
        o.rate = rd.sample_rate();
        let mut buf = vec![0i32; buf_len.max(1)];
        loop {
            match rd.read(&mut buf) {
                Ok(0) => { o.end = End::Eof; return; }
                Ok(n) => o.samples.extend_from_slice(&buf[..n]),
                Err(e) => { o.end = End::Err(err_class(&e)); return; }
            }
        }
    });
    if let Err(p) = r { o.end = End::Panic(p); }
    o
}

pub fn rd_sample_fill(bytes: &[u8]) -> Obs {
    let d = decode_all(bytes);
    Obs { samples: d.samples, end: d.end, ch: d.channels, bps: d.bps, rate: d.rate, opened: d.opened }
}

pub fn rd_iter(bytes: &[u8]) -> Obs {
    let mut o = Obs { samples: vec![], end: End::Eof, ch: 0, bps: 0, rate: 0, opened: false };
    let r = catch(|| {
        let rd = match FlacSampleReader::new(Cursor::new(bytes)) {
            Ok(r) => r,
            Err(e) => { o.end = End::Err(err_class(&e)); return; }
        };
        o.opened = true;
        o.ch = rd.channel_count();
        o.bps = rd.bits_per_sample();
        o.rate = rd.sample_rate();
        for s in rd.into_iter() {
            match s {
                Ok(v) => o.samples.push(v),
                Err(e) => { o.end = End::Err(err_class(&e)); return; }
            }
        }
    });
    if let Err(p) = r { o.end = End::Panic(p); }
    o
}

/// `FlacByteReader` through `Read::read` with a buffer of `buf_len` bytes
pub fn rd_bytes(bytes: &[u8], big: bool, buf_len: usize) -> Obs {
    let mut o = Obs { samples: vec![], end: End::Eof, ch: 0, bps: 0, rate: 0, opened: false };
    let r = catch(|| {
        let mut raw: Vec<u8> = vec![];
        let mut buf = vec![0u8; buf_len.max(1)];
        macro_rules! run {
            ($rd:expr) => {{
                let mut rd = match $rd {
                    Ok(r) => r,
                    Err(e) => { o.end = End::Err(err_class(&e)); return; }
                };
                o.opened = true;
                o.ch = rd.channel_count();
                o.bps = rd.bits_per_sample();
                o.rate = rd.sample_rate();
                loop {
                    match rd.read(&mut buf) {
                        Ok(0) => { o.end = End::Eof; break; }
                        Ok(n) => raw.extend_from_slice(&buf[..n]),
                        Err(e) => {
                            // the byte reader reports crate errors as io::Error(InvalidData, text)
                            o.end = End::Err(io_err_class(&e));
                            break;
                        }
                    }
                }
            }};
        }
        if big { run!(FlacByteReader::endian(Cursor::new(bytes), BigEndian)) } else { run!(FlacByteReader::endian(Cursor::new(bytes), LittleEndian)) }
        if o.bps >= 1 { o.samples = super::space::bytes_to_pcm(&raw, o.bps, big); }
    });
    if let Err(p) = r { o.end = End::Panic(p); }
    o
}

pub fn rd_channels(bytes: &[u8]) -> Obs {
    let mut o = Obs { samples: vec![], end: End::Eof, ch: 0, bps: 0, rate: 0, opened: false };
    let r = catch(|| {
        let mut rd = match FlacChannelReader::new(Cursor::new(bytes)) {
            Ok(r) => r,
            Err(e) => { o.end = End::Err(err_class(&e)); return; }
        };
        o.opened = true;
        o.ch = rd.channel_count();
        o.bps = rd.bits_per_sample();
        o.rate = rd.sample_rate();
        loop {
            match rd.fill_buf() {
                Ok(chs) => {
                    let n = chs.first().map(|c| c.len()).unwrap_or(0);
                    if n == 0 { o.end = End::Eof; return; }
                    for i in 0..n { for c in chs.iter() { o.samples.push(c[i]); } }
                    rd.consume(n);
                }
                Err(e) => { o.end = End::Err(err_class(&e)); return; }
            }
        }
    });
    if let Err(p) = r { o.end = End::Panic(p); }
    o
}

pub const READERS: &[&str] = &["sample_fill", "sample_read", "iter", "bytes_le", "bytes_be", "channels"];

pub fn run_reader(name: &str, bytes: &[u8], buf_len: usize) -> Obs {
    match name {
        "sample_fill" => rd_sample_fill(bytes),
        "sample_read" => rd_sample_read(bytes, buf_len),
        "iter" => rd_iter(bytes),
        "bytes_le" => rd_bytes(bytes, false, buf_len),
        "bytes_be" => rd_bytes(bytes, true, buf_len),
        _ => rd_channels(bytes),
    }
}

/// error class only: ok / err / panic
pub fn end_class(e: &End) -> &'static str {
    match e { End::Eof => "ok", End::Err(_) => "err", End::Panic(_) => "panic" }
}

// ---------------------------------------------------------------- case lines
pub fn dec_stream_case(bytes: &[u8], expect: Option<&[i32]>, extra: &[(&str, String)]) -> String {
    let d = decode_all(bytes);
    let mut f: Vec<(&str, String)> = vec![
        ("t", esc("case")), ("kind", esc("dec_stream")), ("profile", esc(profile())), ("bytes", esc(&hex(bytes))),
        ("end", esc(&d.end.tag())), ("samples", ints(&d.samples)), ("frame_lens", ints(&d.frame_lens)),
        ("ch", d.channels.to_string()), ("bps", d.bps.to_string()), ("rate", d.rate.to_string()), ("opened", d.opened.to_string()),
    ];
    if let Some(e) = expect { f.push(("expect", ints(e))); }
    f.extend(extra.iter().cloned());
    obj(&f)
}

/// A file the encoder produced together with its input and options, for the model of the ENCODER
/// (Coq Enc.enc_frame): the model must reproduce the frame bytes (kind enc_stream).
pub fn enc_stream_case(bytes: &[u8], pcm: &[i32], cfg_json: String) -> String {
    obj(&[("t", esc("case")), ("kind", esc("enc_stream")), ("profile", esc(profile())), ("src", esc("encoder")), ("bytes", esc(&hex(bytes))), ("expect", ints(pcm)), ("cfg", cfg_json)])
}

/// A raw frame stream FlacStreamWriter produced, with the parameters and samples of every write, for
/// the model of the encoder (kind enc_subset): frame k must be Enc.enc_frame_bytes of write k.
pub fn enc_subset_case(bytes: &[u8], frames: &[SubsetFrame], cfg_json: String) -> String {
    let fr: Vec<String> = frames.iter().map(|f| obj(&[("rate", f.rate.to_string()), ("ch", f.ch.to_string()), ("bps", f.bps.to_string()), ("samples", ints(&f.samples))])).collect();
    obj(&[("t", esc("case")), ("kind", esc("enc_subset")), ("profile", esc(profile())), ("src", esc("stream_writer")), ("bytes", esc(&hex(bytes))), ("frames", format!("[{}]", fr.join(","))), ("cfg", cfg_json)])
}

#[derive(Clone, Debug, PartialEq)]
pub struct SubsetFrame {
    pub samples: Vec<i32>,
    pub rate: u32,
    pub ch: u8,
    pub bps: u32,
}

/// `FlacStreamReader::read` over any BufRead until the first error (or `max_frames`).
pub fn run_subset<R: BufRead>(src: R, max_frames: usize) -> (Vec<SubsetFrame>, End) {
    let mut frames = vec![];
    let mut end = End::Eof;
    let r = catch(|| {
        let mut rd = FlacStreamReader::new(src);
        loop {
            if frames.len() >= max_frames { end = End::Err("harness:max-frames".into()); return; }
            match rd.read() {
                Ok(fb) => frames.push(SubsetFrame { samples: fb.samples.to_vec(), rate: fb.sample_rate, ch: fb.channels, bps: fb.bits_per_sample }),
                Err(e) => { end = End::Err(err_class(&e)); return; }
            }
        }
    });
    if let Err(p) = r { end = End::Panic(p); }
    (frames, end)
}

/// As `run_subset` but keeps reading after non-EOF errors (what a resynchronising client does).
/// Returns frames, the list of error classes met, and whether a panic ended the run.
pub fn run_subset_resync<R: BufRead>(src: R, max_calls: usize) -> (Vec<SubsetFrame>, Vec<String>, Option<String>, bool) {
    let mut frames = vec![];
    let mut errs = vec![];
    let mut exhausted = false;
    let r = catch(|| {
        let mut rd = FlacStreamReader::new(src);
        let mut calls = 0usize;
        loop {
            calls += 1;
            if calls > max_calls { exhausted = true; return; }
            match rd.read() {
                Ok(fb) => frames.push(SubsetFrame { samples: fb.samples.to_vec(), rate: fb.sample_rate, ch: fb.channels, bps: fb.bits_per_sample }),
                Err(e) => {
                    let c = err_class(&e);
                    let eof = c == "Io:UnexpectedEof";
                    errs.push(c);
                    if eof { return; }
                }
            }
        }
    });
    (frames, errs, r.err(), exhausted)
}

pub fn dec_subset_case(bytes: &[u8], extra: &[(&str, String)]) -> String {
    let (frames, end) = run_subset(bytes, 1 << 20);
    let fr: Vec<String> = frames.iter().map(|f| obj(&[("samples", ints(&f.samples)), ("rate", f.rate.to_string()), ("ch", f.ch.to_string()), ("bps", f.bps.to_string())])).collect();
    let mut f: Vec<(&str, String)> = vec![("t", esc("case")), ("kind", esc("dec_subset")), ("profile", esc(profile())), ("bytes", esc(&hex(bytes))), ("frames", arr(&fr)), ("end", esc(&end.tag()))];
    f.extend(extra.iter().cloned());
    obj(&f)
}

// ---------------------------------------------------------------- STREAMINFO / file assembly
#[derive(Clone, Debug)]
pub struct Si {
    pub min_bs: u16,
    pub max_bs: u16,
    pub min_fs: u32,
    pub max_fs: u32,
    pub rate: u32,
    pub ch: u8,
    pub bps: u32,
    pub total: u64,
    pub md5: [u8; 16],
}

impl Si {
    /// the 34-byte STREAMINFO body
    pub fn body(&self) -> Vec<u8> {
        let mut b = Vec::with_capacity(34);
        b.extend_from_slice(&self.min_bs.to_be_bytes());
        b.extend_from_slice(&self.max_bs.to_be_bytes());
        b.extend_from_slice(&self.min_fs.to_be_bytes()[1..]);
        b.extend_from_slice(&self.max_fs.to_be_bytes()[1..]);
        let v: u64 = ((self.rate as u64 & 0xFFFFF) << 44) | (((self.ch as u64 - 1) & 7) << 41) | (((self.bps as u64 - 1) & 31) << 36) | (self.total & 0xF_FFFF_FFFF);
        b.extend_from_slice(&v.to_be_bytes());
        b.extend_from_slice(&self.md5);
        b
    }
    pub fn to_streaminfo(&self) -> Streaminfo {
        Streaminfo {
            minimum_block_size: self.min_bs,
            maximum_block_size: self.max_bs,
            minimum_frame_size: std::num::NonZero::new(self.min_fs),
            maximum_frame_size: std::num::NonZero::new(self.max_fs),
            sample_rate: self.rate,
            channels: std::num::NonZero::new(self.ch).unwrap(),
            bits_per_sample: self.bps.try_into().unwrap(),
            total_samples: std::num::NonZero::new(self.total),
            md5: if self.md5 == [0u8; 16] { None } else { Some(self.md5) },
        }
    }
    /// `fLaC` + STREAMINFO (last block unless `padding` > 0, then a PADDING block follows)
    pub fn file_header(&self, padding: Option<usize>) -> Vec<u8> {
        let mut f = b"fLaC".to_vec();
        f.push(if padding.is_some() { 0x00 } else { 0x80 });
        f.extend_from_slice(&[0, 0, 34]);
        f.extend_from_slice(&self.body());
        if let Some(n) = padding {
            f.push(0x81);
            f.extend_from_slice(&(n as u32).to_be_bytes()[1..]);
            f.extend(std::iter::repeat(0u8).take(n));
        }
        f
    }
}

/// STREAMINFO body (34 bytes) of a file that starts with `fLaC` + STREAMINFO, and its parsed form
pub fn si_from_file(file: &[u8]) -> Option<(Vec<u8>, Si)> {
    if file.len() < 42 || &file[..4] != b"fLaC" || file[4] & 0x7F != 0 { return None; }
    let body = file[8..42].to_vec();
    let s = super::refdec::parse_si(&body).ok()?;
    Some((body, Si { min_bs: s.min_bs as u16, max_bs: s.max_bs as u16, min_fs: s.min_fs, max_fs: s.max_fs, rate: s.rate, ch: s.ch as u8, bps: s.bps, total: s.total, md5: s.md5 }))
}

/// "struct" cases (src = encoder) for the frames of an encoder-produced file: the tie that
/// lets the Coq theorems about well-formed frame trees apply to the encoder's actual output
/// (the model must find each frame well-formed, RFC-valid and canonically serialised).
pub fn encoder_struct_cases(file: &[u8], max_frames: usize, max_frame_bytes: usize) -> Vec<String> {
    let mut out = vec![];
    let Some((body, si)) = si_from_file(file) else { return out };
    let Some(bounds) = frame_boundaries(file) else { return out };
    let streaminfo = si.to_streaminfo();
    for w in bounds.windows(2).take(max_frames) {
        if w[1] - w[0] > max_frame_bytes { continue; }
        let fb = &file[w[0]..w[1]];
        let o = struct_obs(fb, Some(&streaminfo));
        if o.decoded.as_ref().map(|d| d.iter().map(|c| c.len()).sum::<usize>()).unwrap_or(0) > super::MODEL_MAX_SAMPLES { continue; }
        out.push(struct_case(fb, Some(&body), &o, &[("src", esc("encoder"))]));
    }
    out
}

/// MD5 of the little-endian sign-extended bytes (ceil(bps/8) bytes per sample) of interleaved PCM
pub fn pcm_md5(pcm: &[i32], bps: u32) -> [u8; 16] {
    let bytes = super::space::pcm_to_bytes(pcm, bps, false);
    md5::compute(&bytes).0
}

// ---------------------------------------------------------------- structural parser observations
pub struct StructObs {
    pub end: End,
    pub frame: Option<Frame>,
    pub consumed: usize,
    pub rewritten: Vec<u8>,
    pub rewrite_err: Option<String>,
    /// per subframe, `decode()` output (before undoing decorrelation); None when decode panicked
    pub decoded: Option<Vec<Vec<i64>>>,
    pub decode_panic: Option<String>,
}

pub fn struct_obs(bytes: &[u8], si: Option<&Streaminfo>) -> StructObs {
    let mut o = StructObs { end: End::Eof, frame: None, consumed: 0, rewritten: vec![], rewrite_err: None, decoded: None, decode_panic: None };
    let mut cur = Cursor::new(bytes);
    let r = catch(|| match si { Some(si) => Frame::read(&mut cur, si), None => Frame::read_subset(&mut cur) });
    o.consumed = cur.position() as usize;
    match r {
        Ok(Ok(fr)) => {
            let w = catch(|| {
                let mut v = vec![];
                let r = match si { Some(si) => fr.write(si, &mut v), None => fr.write_subset(&mut v) };
                r.map(|_| v)
            });
            match w {
                Ok(Ok(v)) => o.rewritten = v,
                Ok(Err(e)) => o.rewrite_err = Some(format!("err:{}", err_class(&e))),
                Err(p) => o.rewrite_err = Some(format!("panic:{}", p)),
            }
            let d = catch(|| {
                fr.subframes
                    .iter()
                    .map(|s| match s {
                        SubframeWidth::Common(s) => s.decode().map(|v| v as i64).collect::<Vec<i64>>(),
                        SubframeWidth::Wide(s) => s.decode().collect::<Vec<i64>>(),
                    })
                    .collect::<Vec<_>>()
            });
            match d {
                Ok(v) => o.decoded = Some(v),
                Err(p) => o.decode_panic = Some(p),
            }
            o.frame = Some(fr);
        }
        Ok(Err(e)) => o.end = End::Err(err_class(&e)),
        Err(p) => o.end = End::Panic(p),
    }
    o
}

/// Undo channel decorrelation on structurally decoded subframes -> interleaved i64 samples
/// (exact integer arithmetic; values outside i32 are kept as they are).
pub fn undo_decorrelation(assign: &ChannelAssignment, chans: &[Vec<i64>]) -> Option<Vec<i64>> {
    let n = chans.first()?.len();
    if chans.iter().any(|c| c.len() != n) { return None; }
    let out_ch: Vec<Vec<i64>> = match assign {
        ChannelAssignment::Independent(_) => chans.to_vec(),
        ChannelAssignment::LeftSide => vec![chans[0].clone(), (0..n).map(|i| chans[0][i] - chans[1][i]).collect()],
        ChannelAssignment::SideRight => vec![(0..n).map(|i| chans[0][i] + chans[1][i]).collect(), chans[1].clone()],
        ChannelAssignment::MidSide => {
            let mut l = vec![0i64; n];
            let mut r = vec![0i64; n];
            for i in 0..n {
                let sum = chans[0][i] * 2 + (chans[1][i] & 1);
                l[i] = (sum + chans[1][i]) >> 1;
                r[i] = (sum - chans[1][i]) >> 1;
            }
            vec![l, r]
        }
    };
    let mut inter = Vec::with_capacity(n * out_ch.len());
    for i in 0..n { for c in out_ch.iter() { inter.push(c[i]); } }
    Some(inter)
}

pub fn assignment_name(a: &ChannelAssignment) -> &'static str {
    match a {
        ChannelAssignment::Independent(_) => "independent",
        ChannelAssignment::LeftSide => "left_side",
        ChannelAssignment::SideRight => "side_right",
        ChannelAssignment::MidSide => "mid_side",
    }
}

pub fn struct_case(bytes: &[u8], si_body: Option<&[u8]>, o: &StructObs, extra: &[(&str, String)]) -> String {
    let end = match &o.end { End::Eof => "ok".to_string(), e => e.tag() };
    let dec: Vec<String> = o.decoded.as_ref().map(|d| d.iter().map(|c| ints(c)).collect()).unwrap_or_default();
    let mut f: Vec<(&str, String)> = vec![
        ("t", esc("case")), ("kind", esc("struct")), ("profile", esc(profile())), ("subset", si_body.is_none().to_string()),
        ("si", esc(&si_body.map(hex).unwrap_or_default())), ("bytes", esc(&hex(bytes))), ("end", esc(&end)),
        ("rewritten", esc(&hex(&o.rewritten))), ("decoded", arr(&dec)),
    ];
    if let Some(p) = &o.decode_panic { f.push(("decode_panic", esc(p))); }
    f.extend(extra.iter().cloned());
    obj(&f)
}

/// A `BufRead` that serves `data` in the given chunk sizes (then the remainder in one piece)
pub struct ChunkedReader<'a> {
    pub data: &'a [u8],
    pub pos: usize,
    pub bounds: Vec<usize>, // ascending absolute positions where a chunk ends
}
impl<'a> ChunkedReader<'a> {
    pub fn new(data: &'a [u8], chunk_sizes: &[usize]) -> Self {
        let mut bounds = vec![];
        let mut at = 0;
        for c in chunk_sizes {
            if *c == 0 { continue; }
            at += c;
            if at >= data.len() { break; }
            bounds.push(at);
        }
        ChunkedReader { data, pos: 0, bounds }
    }
    fn chunk_end(&self) -> usize {
        for b in &self.bounds { if *b > self.pos { return *b; } }
        self.data.len()
    }
}
impl<'a> Read for ChunkedReader<'a> {
    fn read(&mut self, buf: &mut [u8]) -> std::io::Result<usize> {
        let e = self.chunk_end();
        let n = (e - self.pos).min(buf.len());
        buf[..n].copy_from_slice(&self.data[self.pos..self.pos + n]);
        self.pos += n;
        Ok(n)
    }
}
impl<'a> BufRead for ChunkedReader<'a> {
    fn fill_buf(&mut self) -> std::io::Result<&[u8]> {
        let e = self.chunk_end();
        Ok(&self.data[self.pos..e])
    }
    fn consume(&mut self, amt: usize) {
        self.pos = (self.pos + amt).min(self.data.len());
    }
}
