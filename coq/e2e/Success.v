(* E2E/Success.v — the FlacSampleWriter run on samples in range never fails: every Encoder::encode step and
   finalize return Ok (no error, no panic, in either build profile), so "encoding succeeds" in C01 is a theorem
   about the composed models too. *)
From Coq Require Import List NArith ZArith Lia.
From FlacBase Require Import Res.
From FlacCodec Require Ast Stream Header Wf Enc Enc_proofs.
From FlacWriters Require Import Meta Params Params_proofs Finalize Writers Lists_proofs Writers_proofs New_proofs
     Encoder_proofs Finish_proofs Run_proofs.
From FlacWriters Require Props_C15.
From FlacE2E Require Import Bridge E2E Sample SampleE2E.
Import Props_C15.
Import ListNotations.
Open Scope N_scope.
Local Arguments N.add : simpl never.
Local Arguments N.mul : simpl never.
Local Arguments N.div : simpl never.
Local Arguments N.modulo : simpl never.
Local Arguments N.sub : simpl never.
Local Arguments N.pow : simpl never.

Module EP := FlacCodec.Enc_proofs.
Module EN := FlacCodec.Enc.

Section Success.
Variable o : EN.eopts.
Variable L : EN.oracle.
Variable md5 : list N -> list N.
Hypothesis md5_length : forall l, length (md5 l) = 16%nat.
Variable p : profile.
Variable rate bps ch : N.
Hypothesis Hrate : rate < 2 ^ 20.
Hypothesis Hb1 : 1 <= bps.
Hypothesis Hb32 : bps <= 32.
Hypothesis Hc1 : 1 <= ch.
Hypothesis Hc8 : ch <= 8.

Definition FB : N := 2 ^ 22.     (* no frame of <= 8 channels x 65535 samples x 32 bits is longer *)

Lemma code_of_rate_some : exists rc, EN.code_of_rate rate = Some rc.
Proof.
  unfold EN.code_of_rate. destruct (EN.code_lookup rate EN.rate_codes); [eauto|].
  destruct (_ && _); [eauto|]. destruct (_ && _); [eauto|]. destruct (rate <? 65535); [eauto|].
  destruct (N.ltb_spec rate (2 ^ 20)); [eauto|lia].
Qed.

Lemma u64_add_small a b : a + b < 2 ^ 64 -> u64_add p a b = Ok (a + b).
Proof. intros H. unfold u64_add. destruct (N.ltb_spec (a + b) (2 ^ 64)); [reflexivity|lia]. Qed.

Lemma update_md5_ok c : exists x, update_md5 c (bytes_per_sample_of bps) = Ok x.
Proof.
  unfold update_md5, bytes_per_sample_of.
  assert (H : 1 <= (bps + 7) / 8 <= 4).
  { split; [apply N.div_le_lower_bound; lia|]. apply N.lt_succ_r. apply N.div_lt_upper_bound; lia. }
  destruct (N.eqb_spec ((bps + 7) / 8) 1); [eauto|]. destruct (N.eqb_spec ((bps + 7) / 8) 2); [eauto|].
  destruct (N.eqb_spec ((bps + 7) / 8) 3); [eauto|]. destruct (N.eqb_spec ((bps + 7) / 8) 4); [eauto|lia].
Qed.

Lemma fill_ok c n : (1 <= n)%nat -> length c = (N.to_nat ch * n)%nat -> exists b, fill_from_samples ch c = Ok b.
Proof.
  intros Hn Hlen. unfold fill_from_samples. destruct (N.eqb_spec ch 0); [lia|].
  assert (Ecl : N.of_nat (length c) / ch = N.of_nat n).
  { rewrite Hlen. rewrite Nat2N.inj_mul, N2Nat.id. rewrite N.mul_comm. apply N.div_mul. lia. }
  rewrite Ecl. destruct (N.eqb_spec (N.of_nat n) 0); [lia|].
  assert (Ek : N.of_nat (length c) / N.of_nat n = ch).
  { rewrite Hlen. rewrite Nat2N.inj_mul, N2Nat.id. apply N.div_mul. lia. }
  rewrite Ek. destruct (N.ltb_spec 8 ch); [lia|]. eauto.
Qed.

(* the state after K blocks *)
Definition good (e0 e : encoder) (K : N) : Prop :=
  enc_inv e /\ enc_static e /\ frames_nonempty e /\ static_eq e0 e /\
  N.of_nat (length (e_frames_rev e)) = K /\ true_samples e <= K * 65535 /\ true_bytes e <= K * FB.

Definition si0 : FlacCodec.Ast.streaminfo :=
  {| FlacCodec.Ast.si_min_bs := 0; FlacCodec.Ast.si_max_bs := 65535; FlacCodec.Ast.si_min_fs := 0; FlacCodec.Ast.si_max_fs := 0;
     FlacCodec.Ast.si_rate := rate; FlacCodec.Ast.si_channels := ch; FlacCodec.Ast.si_bps := bps;
     FlacCodec.Ast.si_total := 0; FlacCodec.Ast.si_md5 := [] |}.

Lemma frame_size_le (bytes : list N) n (b : block) : length b = N.to_nat ch -> EN.block_len b = N.of_nat n -> N.of_nat n <= 65535 ->
  N.of_nat (length bytes) <= 16 + (N.of_nat (length b) * (8 + EN.block_len b * bps) + (if N.of_nat (length b) =? 2 then EN.block_len b else 0) + 7) / 8 + 2 ->
  N.of_nat (length bytes) <= FB.
Proof.
  intros Lb Ln Hn H. rewrite Lb, N2Nat.id, Ln in H.
  assert (A : ch * (8 + N.of_nat n * bps) <= 8 * (8 + 65535 * 32)).
  { apply N.mul_le_mono; [exact Hc8|]. apply N.add_le_mono_l. apply N.mul_le_mono; assumption. }
  assert (B : (if ch =? 2 then N.of_nat n else 0) <= 65535) by (destruct (ch =? 2); lia).
  eapply N.le_trans; [exact H|]. unfold FB. change (2 ^ 22) with 4194304.
  assert (D : (ch * (8 + N.of_nat n * bps) + (if ch =? 2 then N.of_nat n else 0) + 7) / 8 <= (8 * (8 + 65535 * 32) + 65535 + 7) / 8).
  { apply N.div_le_mono; lia. }
  change ((8 * (8 + 65535 * 32) + 65535 + 7) / 8) with 2105320 in D. lia.
Qed.

(* one block in range handed to Encoder::encode (after the front-end fed the MD5): it succeeds and the invariants
   carry on — shared by the three front-ends *)
Lemma block_step_ok e0 e K x (b : block) n :
  good e0 e K -> K < 2 ^ 36 -> EP.block_ok si0 bps b -> length b = N.to_nat ch ->
  EN.block_len b = N.of_nat n -> (1 <= n)%nat -> N.of_nat n <= 65535 ->
  N.of_nat n <= si_max_bs (e_si e0) ->
  (match si_total (e_si e0) with Some t => true_samples e + N.of_nat n <= t | None => True end) ->
  exists e', encoder_encode (encB o L rate bps) p (md5_consume e x) b = Ok e' /\
             good e0 e' (K + 1) /\ true_samples e' = true_samples e + N.of_nat n.
Proof.
  intros (I & S & Fn & Se & HK & Hs & Hby) HK36 Hbok Lb Hbl Hn Hnb Hmaxbs Htot.
  assert (Ebl : block_len b = N.of_nat n) by (rewrite <- Hbl; destruct b; reflexivity).
  pose proof (md5_consume_inv e x I) as I'.
  set (e1 := md5_consume e x) in *.
  assert (Ew : e_samples_written e1 = true_samples e) by (destruct I; assumption).
  assert (Ec : e_count e1 = true_bytes e) by (destruct I; assumption).
  assert (Enum : e_frame_number e1 = K) by (destruct I; cbn; lia).
  assert (Hpow : K * 65535 + 65535 < 2 ^ 64 /\ K * FB + FB < 2 ^ 64).
  { unfold FB. change (2 ^ 36) with 68719476736 in HK36. change (2 ^ 22) with 4194304. change (2 ^ 64) with 18446744073709551616. lia. }
  assert (Etot : si_total (e_si e1) = si_total (e_si e0)) by (destruct Se as (_ & _ & _ & _ & _ & _ & _ & _ & _ & T); exact T).
  assert (Hchk : match si_total (e_si e0) with Some t => t <? true_samples e + N.of_nat n | None => false end = false).
  { destruct (si_total (e_si e0)); [apply N.ltb_ge; exact Htot|reflexivity]. }
  destruct code_of_rate_some as [rc Hrc].
  destruct (EP.enc_frame_bytes_total o L si0 rate bps K b rc Hbok Hrc) as [bytes Hbytes].
  { unfold FlacCodec.Header.MAX_FRAME_NUMBER. lia. }
  pose proof (EP.enc_frame_size o L si0 rate bps K b bytes Hbytes Hbok) as Hsz. cbv zeta in Hsz.
  pose proof (frame_size_le bytes n b Lb Hbl ltac:(lia) Hsz) as Hfb.
  assert (Emax : si_max_bs (e_si e1) = si_max_bs (e_si e0)) by (destruct Se as (_ & _ & _ & _ & _ & _ & _ & _ & M & _); exact M).
  unfold encoder_encode. rewrite Emax, Ebl.
  destruct (N.ltb_spec (si_max_bs (e_si e0)) (N.of_nat n)) as [|_]; [lia|]. rewrite <- Ebl.
  rewrite Ew, Ebl, u64_add_small by lia. cbn [bind].
  rewrite Etot, Hchk, Lb, N2Nat.id. destruct (N.ltb_spec 8 ch); [lia|].
  unfold encB at 1. rewrite Enum, Hbytes. cbn [bind].
  rewrite Ec, u64_add_small by lia. cbn [bind].
  eexists. split; [reflexivity|].
  set (e' := {| e_prefix := e_prefix e1 |}).
  assert (Fi : frames_info e' = frames_info e ++ [(N.of_nat n, N.of_nat (length bytes))]).
  { rewrite <- Ebl. apply (frames_info_cons e1 b bytes e'); [destruct I'; assumption|reflexivity|reflexivity]. }
  assert (Ts : true_samples e' = true_samples e + N.of_nat n).
  { unfold true_samples. rewrite Fi, sum_fst_app. cbn. lia. }
  assert (Tb : true_bytes e' = true_bytes e + N.of_nat (length bytes)).
  { unfold true_bytes. rewrite Fi, sum_snd_app. cbn. lia. }
  assert (Hfit' : counters_fit e') by (unfold counters_fit; rewrite Ts, Tb; lia).
  assert (Henc : encoder_encode (encB o L rate bps) p e1 b = Ok e').
  { unfold encoder_encode. rewrite Emax, Ebl. destruct (N.ltb_spec (si_max_bs (e_si e0)) (N.of_nat n)) as [|_]; [lia|]. rewrite <- Ebl.
    rewrite Ew, Ebl, u64_add_small by lia. cbn [bind]. rewrite Etot, Hchk, Lb, N2Nat.id.
    destruct (N.ltb_spec 8 ch); [lia|]. unfold encB at 1. rewrite Enum, Hbytes. cbn [bind].
    rewrite Ec, u64_add_small by lia. cbn [bind]. reflexivity. }
  destruct (encoder_encode_inv (encB o L rate bps) p e1 b e' I' Henc ltac:(rewrite Ebl; lia) Hfit') as (Inv' & _).
  split; [|exact Ts].
  assert (Se1 : static_eq e e').
  { unfold static_eq. cbn [e' e_blocks e_interval e_prefix e_meta e_si].
    destruct (update_frame_sizes_static (e_si e1) (N.of_nat (length bytes))) as (A1 & A2 & A3 & A4 & A5 & A6). cbv zeta in *.
    repeat split; assumption. }
  split; [exact Inv'|]. split; [eapply static_eq_static; [exact Se1|exact S]|].
  split.
  { unfold frames_nonempty. rewrite Fi. apply Forall_app. split; [exact Fn|]. constructor; [cbn; lia|constructor]. }
  split; [eapply static_eq_trans; [exact Se|exact Se1]|].
  split; [cbn [e' e_frames_rev length]; cbn [e1 md5_consume e_frames_rev]; lia|].
  rewrite Ts, Tb. split; lia.
Qed.

(* one chunk of n whole PCM frames: Encoder::encode succeeds and the invariants carry on *)
Lemma chunk_step_ok e0 e K bs c :
  good e0 e K -> K < 2 ^ 36 -> bs <= 65535 -> bs <= si_max_bs (e_si e0) -> chunk_cond bps ch bs c ->
  (match si_total (e_si e0) with Some t => true_samples e + N.of_nat (length c) / ch <= t | None => True end) ->
  exists e', sample_encode_chunk (encB o L rate bps) p ch (bytes_per_sample_of bps) e c = Ok e' /\
             good e0 e' (K + 1) /\ true_samples e' = true_samples e + N.of_nat (length c) / ch.
Proof.
  intros G HK36 Hbs Hmx (n & Hn & Hnb & Hlen & Hfit) Htot.
  assert (En : N.of_nat (length c) / ch = N.of_nat n).
  { rewrite Hlen. rewrite Nat2N.inj_mul, N2Nat.id. rewrite N.mul_comm. apply N.div_mul. lia. }
  rewrite En in *.
  unfold sample_encode_chunk.
  destruct (update_md5_ok c) as [x ->]. cbn [bind].
  destruct (fill_ok c n Hn Hlen) as [b Hfill]. rewrite Hfill. cbn [bind].
  destruct (chunk_block_ok bps si0 ch 65535 c b n Hc1 Hc8 Hb1 Hb32 ltac:(lia) eq_refl eq_refl eq_refl Hn ltac:(lia) Hlen Hfit Hfill)
    as (Hbok & _ & Hbl).
  destruct (fill_from_samples_sem ch c n b Hc1 Hc8 Hn Hlen Hfill) as (Lb & _ & _ & _).
  apply (block_step_ok e0 e K x b n G HK36 Hbok Lb Hbl Hn ltac:(lia) ltac:(lia) Htot).
Qed.

Definition frames_of (cl : list (list Z)) : N := fold_right (fun c a => N.of_nat (length c) / ch + a) 0 cl.

Lemma chunks_run_ok e0 bs : bs <= 65535 -> bs <= si_max_bs (e_si e0) -> forall cl e K,
  good e0 e K -> K + N.of_nat (length cl) <= 2 ^ 36 -> Forall (chunk_cond bps ch bs) cl ->
  (match si_total (e_si e0) with Some t => true_samples e + frames_of cl <= t | None => True end) ->
  exists e', fold_res (sample_encode_chunk (encB o L rate bps) p ch (bytes_per_sample_of bps)) e cl = Ok e' /\
             good e0 e' (K + N.of_nat (length cl)) /\ true_samples e' = true_samples e + frames_of cl.
Proof.
  intros Hbs Hmx. induction cl as [|c cl IH]; intros e K G HK Hall Htot.
  - exists e. cbn [fold_res length frames_of fold_right]. rewrite !N.add_0_r. auto.
  - apply Forall_cons_iff in Hall. destruct Hall as [Hc Hrest]. cbn [length frames_of fold_right] in *. fold (frames_of cl) in *.
    destruct (chunk_step_ok e0 e K bs c G ltac:(lia) Hbs Hmx Hc) as (e1 & H1 & G1 & T1).
    { destruct (si_total (e_si e0)); [lia|exact I]. }
    destruct (IH e1 (K + 1) G1 ltac:(lia) Hrest) as (e2 & H2 & G2 & T2).
    { rewrite T1. destruct (si_total (e_si e0)); [lia|exact I]. }
    exists e2. cbn [fold_res]. rewrite H1. cbn [bind]. split; [exact H2|].
    split; [replace (K + N.of_nat (S (length cl))) with (K + 1 + N.of_nat (length cl)) by lia; exact G2|]. rewrite T2, T1. lia.
Qed.

(* "encoding succeeds": samples in range, at least one whole PCM frame, a declared total (if any) that is the
   number of samples in the whole PCM frames written => the run, under any chunking, returns a finished file *)
Theorem sample_run_succeeds wo total w chunks :
  options_wf wo ->
  sample_new p [] wo rate bps ch total = Ok w ->
  forallb (FlacCodec.Wf.fits bps) (concat chunks) = true ->
  let W := N.of_nat (length (concat chunks)) / ch in
  1 <= W -> N.of_nat (length (concat chunks)) < 2 ^ 36 ->
  match total with Some T => T = ch * W | None => True end ->
  exists f, sample_run (encB o L rate bps) md5 p w chunks = Ok f /\ counters_fit (f_enc f).
Proof.
  intros Hwf Hnew Hfits W HW1 Hlen36 Htotal.
  pose proof (sample_new_wf p [] wo rate bps ch total w Hwf Hnew) as Hsw.
  rewrite (sample_chunking (encB o L rate bps) md5 p w chunks Hsw).
  set (all := concat chunks) in *.
  pose proof Hwf as ((Hbs16 & Hbs64k) & _).
  unfold sample_new in Hnew. apply bind_ok in Hnew. destruct Hnew as (bps' & Hbps' & Hnew).
  apply bind_ok in Hnew. destruct Hnew as (t & Ht & Hnew). apply bind_ok in Hnew. destruct Hnew as (e0 & He0 & Hnew).
  injection Hnew as <-.
  assert (Eb : bps' = bps).
  { unfold signed_bit_count_32 in Hbps'. destruct (_ && _); [injection Hbps' as <-; reflexivity|discriminate]. }
  subst bps'.
  set (bs := o_block_size wo) in *.
  (* the declared total, in PCM frames *)
  assert (Et : t = match total with Some _ => Some W | None => None end /\ match t with Some q => 1 <= q | None => True end).
  { unfold sample_total in Ht. destruct total as [T|]; [|injection Ht as <-; split; [reflexivity|exact I]].
    assert (Ex : exact_div T ch = Some W).
    { rewrite Htotal. unfold exact_div. destruct (N.eqb_spec ch 0); [lia|]. rewrite (N.mul_comm ch W), N.mod_mul by lia.
      cbn [negb andb N.eqb]. rewrite N.div_mul by lia. reflexivity. }
    rewrite Ex in Ht. destruct (N.eqb_spec W 0); [lia|]. injection Ht as <-. split; [reflexivity|exact HW1]. }
  destruct Et as [Et Ht1].
  destruct (encoder_new_inv0 p [] wo rate bps ch t e0 Hwf ltac:(lia) Ht1 He0) as (I0 & S0 & Fi0 & _).
  destruct (encoder_new_fresh p rate bps wo ch t e0 He0) as (_ & F0 & _ & _ & _ & _ & _ & Mx & _ & St).
  assert (Hmx : o_block_size wo <= si_max_bs (e_si e0)) by (rewrite Mx; lia).
  assert (G0 : good e0 e0 0).
  { unfold good. split; [exact I0|]. split; [exact S0|]. split; [unfold frames_nonempty; rewrite Fi0; constructor|].
    split; [apply static_eq_refl|]. rewrite F0. unfold true_samples, true_bytes. rewrite Fi0. cbn. repeat split; lia. }
  assert (T0 : true_samples e0 = 0) by (unfold true_samples; rewrite Fi0; reflexivity).
  (* the single write *)
  unfold sample_run. cbn [fold_res bind].
  unfold sample_write. cbn [sw_buf sw_frame_sample_size sw_enc sw_channels sw_bytes_per_sample app].
  destruct (N.eqb_spec (ch * bs) 0) as [|Hk0]; [nia|].
  set (k := N.to_nat (ch * bs)) in *.
  assert (Hk : (0 < k)%nat) by (unfold k; lia).
  destruct (drain k all) as [cs rest] eqn:Ed.
  pose proof (drain_spec k Hk all cs rest Ed) as (Eall & Fcs & Lrest).
  assert (Hkk : k = (N.to_nat ch * N.to_nat bs)%nat) by (unfold k; lia).
  assert (Hfit_all : forall c, (exists a b, all = a ++ c ++ b) -> forallb (FlacCodec.Wf.fits bps) c = true).
  { intros c (a & b & E). apply forallb_forall. intros z Hz. rewrite forallb_forall in Hfits. apply Hfits. rewrite E.
    apply in_or_app. right. apply in_or_app. left. exact Hz. }
  assert (Hcs : Forall (chunk_cond bps ch bs) cs).
  { apply Forall_forall. intros c Hc. exists (N.to_nat bs). rewrite Forall_forall in Fcs.
    split; [lia|]. split; [lia|]. split; [rewrite (Fcs _ Hc); exact Hkk|].
    apply Hfit_all. apply in_split in Hc. destruct Hc as (l1 & l2 & ->). exists (concat l1), (concat l2 ++ rest).
    rewrite Eall, concat_app. cbn [concat]. rewrite <- !app_assoc. reflexivity. }
  assert (Lcs : length (concat cs) = (k * length cs)%nat).
  { clear - Fcs. induction Fcs as [|c l Hc _ IH]; cbn [concat length]; [lia|]. rewrite app_length, IH, Hc. lia. }
  assert (Fcs_frames : frames_of cs = bs * N.of_nat (length cs)).
  { clear - Fcs Hkk Hc1. induction Fcs as [|c l Hc _ IH]; cbn [frames_of fold_right length]; [lia|]. fold (frames_of l). rewrite IH, Hc, Hkk.
    rewrite Nat2N.inj_mul, !N2Nat.id, (N.mul_comm ch bs), N.div_mul by lia. lia. }
  set (len := N.of_nat (length rest)) in *.
  set (dq := len / ch) in *.
  assert (EW : W = bs * N.of_nat (length cs) + dq).
  { unfold W. rewrite Eall, app_length, Lcs, Hkk. rewrite Nat2N.inj_add, !Nat2N.inj_mul, !N2Nat.id.
    replace (ch * bs * N.of_nat (length cs) + N.of_nat (length rest)) with (bs * N.of_nat (length cs) * ch + N.of_nat (length rest)) by lia.
    rewrite N.div_add_l by lia. reflexivity. }
  assert (Hcount : N.of_nat (length cs) + 1 <= 2 ^ 36).
  { assert (length cs <= length all)%nat by (rewrite Eall, app_length, Lcs; nia). lia. }
  destruct (chunks_run_ok e0 bs ltac:(lia) Hmx cs e0 0 G0 ltac:(lia) Hcs) as (e1 & H1 & G1 & T1).
  { rewrite St, Et, T0, Fcs_frames. destruct total; cbv iota; [lia|exact I]. }
  rewrite H1. cbn [bind].
  (* finalize: the last partial block, then Encoder::finalize *)
  unfold sample_finalize. cbn [sw_buf sw_channels sw_bytes_per_sample sw_enc]. fold len.
  assert (Hlast : exists e2, (if ch <=? len then if ch =? 0 then Panic PDivZero else
                    sample_encode_chunk (encB o L rate bps) p ch (bytes_per_sample_of bps) e1 (firstn (N.to_nat (len - len mod ch)) rest)
                  else Ok e1) = Ok e2 /\
                  (exists K2, good e0 e2 K2 /\ K2 <= 2 ^ 36) /\ true_samples e2 = W).
  { destruct (N.leb_spec ch len) as [Hle|Hgt].
    - destruct (N.eqb_spec ch 0); [lia|].
      set (whole := firstn (N.to_nat (len - len mod ch)) rest).
      assert (Ew : N.to_nat (len - len mod ch) = (N.to_nat ch * (length rest / N.to_nat ch))%nat).
      { pose proof (N.div_mod len ch ltac:(lia)) as D. replace (len - len mod ch) with (ch * (len / ch)) by lia.
        unfold len. rewrite N2Nat.inj_mul, N2Nat.inj_div, Nat2N.id. reflexivity. }
      assert (Hq : (1 <= length rest / N.to_nat ch)%nat) by (apply Nat.div_le_lower_bound; unfold len in Hle; lia).
      assert (Hq2 : (length rest / N.to_nat ch < N.to_nat bs)%nat) by (apply Nat.div_lt_upper_bound; lia).
      assert (Lw : length whole = (N.to_nat ch * (length rest / N.to_nat ch))%nat).
      { unfold whole. rewrite firstn_length, Ew. pose proof (Nat.mul_div_le (length rest) (N.to_nat ch) ltac:(lia)). lia. }
      assert (Hwc : chunk_cond bps ch bs whole).
      { exists (length rest / N.to_nat ch)%nat. split; [exact Hq|]. split; [lia|]. split; [exact Lw|].
        apply Hfit_all. exists (concat cs), (skipn (N.to_nat (len - len mod ch)) rest). unfold whole. rewrite firstn_skipn. exact Eall. }
      assert (Ewf : N.of_nat (length whole) / ch = dq).
      { rewrite Lw, Nat2N.inj_mul, N2Nat.id, N.mul_comm, N.div_mul by lia. unfold dq, len. rewrite <- (N2Nat.id ch) at 2.
        rewrite <- Nat2N.inj_div. reflexivity. }
      destruct (chunk_step_ok e0 e1 _ bs whole G1 ltac:(lia) ltac:(lia) Hmx Hwc) as (e2 & H2 & G2 & T2).
      { rewrite St, Et, T1, T0, Fcs_frames, Ewf. destruct total; cbv iota; [lia|exact I]. }
      exists e2. split; [exact H2|]. split; [exists (0 + N.of_nat (length cs) + 1); split; [exact G2|lia]|]. rewrite T2, T1, T0, Fcs_frames, Ewf. lia.
    - exists e1. split; [reflexivity|]. split; [exists (0 + N.of_nat (length cs)); split; [exact G1|lia]|]. rewrite T1, T0, Fcs_frames.
      assert (dq = 0) by (unfold dq; apply N.div_small; lia). lia. }
  destruct Hlast as (e2 & H2 & (K2 & G2 & HK2) & T2). fold len. rewrite H2. cbn [bind].
  destruct G2 as (I2 & S2 & Fn2 & Se2 & _ & Hts2 & Htb2).
  pose proof (C15_finalize_contract md5 p e2 md5_length I2 S2 Fn2) as Hc.
  assert (Ew2 : e_samples_written e2 = W) by (destruct I2; congruence).
  assert (Et2 : si_total (e_si e2) = t) by (destruct Se2 as (_ & _ & _ & _ & _ & _ & _ & _ & _ & T); congruence).
  rewrite Et2, Et, Ew2 in Hc.
  assert (Hok : is_ok (encoder_finalize md5 p e2) = true).
  { destruct total.
    - rewrite N.eqb_refl in Hc. exact Hc.
    - assert (HW : W < MAX_SAMPLES).
      { unfold MAX_SAMPLES. change (2 ^ 36) with 68719476736 in Hlen36. unfold W.
        assert (N.of_nat (length all) / ch <= N.of_nat (length all)) by (apply N.div_le_upper_bound; nia). lia. }
      destruct (N.leb_spec 1 W); [|lia]. destruct (N.ltb_spec W MAX_SAMPLES); [|lia]. exact Hc. }
  destruct (encoder_finalize md5 p e2) as [f| |] eqn:Efin; try discriminate. exists f. split; [reflexivity|].
  assert (Ef : f_enc f = e2).
  { unfold encoder_finalize, encoder_finalize_gen in Efin. repeat (apply bind_ok in Efin; destruct Efin as (? & _ & Efin)). injection Efin as <-. reflexivity. }
  rewrite Ef. unfold counters_fit, FB in *. change (2 ^ 36) with 68719476736 in HK2. change (2 ^ 22) with 4194304 in Htb2.
  change (2 ^ 64) with 18446744073709551616. split; nia.
Qed.

End Success.

(* success and round trip together, hypotheses on the input only *)
Theorem sample_writer_lossless : forall o L md5, (forall l, length (md5 l) = 16%nat) ->
  forall p rate bps wo ch total w chunks,
  options_wf wo ->
  sample_new p [] wo rate bps ch total = Ok w ->
  forallb (FlacCodec.Wf.fits bps) (concat chunks) = true ->
  let W := N.of_nat (length (concat chunks)) / ch in
  1 <= W -> N.of_nat (length (concat chunks)) < 2 ^ 36 ->
  match total with Some T => T = ch * W | None => True end ->
  exists f blocks,
    sample_run (encB o L rate bps) md5 p w chunks = Ok f /\
    FlacCodec.Stream.dec_stream (f_stream f) =
      Some (conv_si (f_si f), map FlacCodec.Stream.interleave_frame blocks, FlacCodec.Stream.EndEof) /\
    concat (map FlacCodec.Stream.interleave_frame blocks) =
      firstn (N.to_nat ch * (length (concat chunks) / N.to_nat ch)) (concat chunks).
Proof.
  intros o L md5 Hmd p rate bps wo ch total w chunks Hwf Hnew Hfit W HW Hlen Htot.
  assert (Hr : rate < 2 ^ 20 /\ 1 <= bps /\ bps <= 32 /\ 1 <= ch /\ ch <= 8).
  { pose proof Hnew as H. unfold sample_new in H. apply bind_ok in H. destruct H as (bps' & Hb & H).
    apply bind_ok in H. destruct H as (t & _ & H). apply bind_ok in H. destruct H as (e0 & He0 & _).
    unfold signed_bit_count_32 in Hb. destruct ((1 <=? bps) && (bps <=? 32)) eqn:Eb; [|discriminate].
    apply andb_prop in Eb. destruct Eb as [B1 B2]. apply N.leb_le in B1, B2. injection Hb as <-.
    unfold encoder_new in He0. apply bind_ok in He0. destruct He0 as ([] & Hv & _). unfold encoder_new_validate in Hv.
    destruct (N.ltb_spec rate 1048576); [|discriminate]. destruct ((1 <=? ch) && (ch <=? 8)) eqn:Ec; [|discriminate].
    apply andb_prop in Ec. destruct Ec as [C1 C2]. apply N.leb_le in C1, C2. change (2 ^ 20) with 1048576. auto. }
  destruct Hr as (R & B1 & B2 & C1 & C2).
  destruct (sample_run_succeeds o L md5 Hmd p rate bps ch R B1 B2 C1 C2 wo total w chunks Hwf Hnew Hfit HW Hlen Htot) as [f [Hf _]].
  destruct (e2e_sample_pcm o L md5 Hmd p rate bps wo ch total w chunks f Hwf Hnew Hf Hfit Hlen) as (blocks & Hd & Hc & _).
  exists f, blocks. auto.
Qed.

(* C02 end to end, hypotheses on the input only: the file a FlacSampleWriter run leaves behind passes the strict
   stream validator of the codec area (every frame RFC-valid and canonical, numbering, block sizes, totals) *)
Theorem sample_writer_file_valid : forall o L md5, (forall l, length (md5 l) = 16%nat) ->
  forall p rate bps wo ch total w chunks,
  options_wf wo ->
  sample_new p [] wo rate bps ch total = Ok w ->
  forallb (FlacCodec.Wf.fits bps) (concat chunks) = true ->
  let W := N.of_nat (length (concat chunks)) / ch in
  1 <= W -> N.of_nat (length (concat chunks)) < 2 ^ 36 ->
  match total with Some T => T = ch * W | None => True end ->
  exists f blocks,
    sample_run (encB o L rate bps) md5 p w chunks = Ok f /\
    FlacCodec.Spec.spec_stream (f_stream f) = Ok (conv_si (f_si f), blocks) /\
    concat (map FlacCodec.Stream.interleave_frame blocks) =
      firstn (N.to_nat ch * (length (concat chunks) / N.to_nat ch)) (concat chunks).
Proof.
  intros o L md5 Hmd p rate bps wo ch total w chunks Hwf Hnew Hfit W HW Hlen Htot.
  destruct (sample_writer_lossless o L md5 Hmd p rate bps wo ch total w chunks Hwf Hnew Hfit HW Hlen Htot) as (f & _ & Hrun & _ & _).
  destruct (e2e_sample_pcm o L md5 Hmd p rate bps wo ch total w chunks f Hwf Hnew Hrun Hfit Hlen)
    as (blocks & _ & Hcat & _ & _ & _ & _ & _ & Hspec & _).
  exists f, blocks. auto.
Qed.
