(* Properties C01 + C10 composed — statement only (proof: WrittenEdited.v).  Hypotheses are about the options,
   the data handed to the writer and the edits; nothing is assumed about the file. *)
From FlacBase Require Import Res Bits.
From FlacMeta Require Import Bytes Bytes_proofs Blocks BlockList Blocks_proofs Blocks_level BlockList_proofs.
From FlacUpdIo Require GenUpd Update Update_proofs Update_cond.
From FlacCodec Require Ast Stream Spec Wf.
From FlacWriters Require Import Params Params_proofs Finalize Writers Encoder_proofs C09_proofs Bytes_proofs Writers_proofs Cross_proofs.
From FlacReaders Require Readers Spec Seek.
From FlacE2E Require Bridge E2E Success ReadBridge ReadersE2E Transfer ByteE2E ChannelE2E ChannelSuccess.
From FlacE2EMeta Require Import MetaBridge FinishedBlocks.
From FlacE2EUpd Require Import RealCodec CodecView UpdateE2E WrittenEdited WrittenEditedFronts WrittenEditedRead WrittenEditedValidFronts.
Open Scope N_scope.

Theorem C10_written_then_edited_lossless : forall (u : list N -> bool),
  (forall s, Forall (fun b => b < 128) s -> u s = true) ->
  forall o L md5, (forall l, length (md5 l) = 16%nat) -> (forall l, Forall (fun b => b < 256) (md5 l)) ->
  forall p rate bps ch, rate < 2 ^ 20 -> 1 <= bps -> bps <= 32 -> 1 <= ch -> ch <= 8 ->
  forall wo total w chunks,
  options_wf wo -> Forall plain (o_metadata wo) -> seektables (o_metadata wo) = 0%nat ->
  sample_new p [] wo rate bps ch total = Ok w ->
  forallb (FlacCodec.Wf.fits bps) (concat chunks) = true ->
  let W := N.of_nat (length (concat chunks)) / ch in
  1 <= W -> N.of_nat (length (concat chunks)) < 2 ^ 36 ->
  match total with Some T => T = ch * W | None => True end ->
  exists f blocks,
    sample_run (FlacE2E.E2E.encB o L rate bps) md5 p w chunks = Ok f /\
    concat (map FlacCodec.Stream.interleave_frame blocks) =
      firstn (N.to_nat ch * (length (concat chunks) / N.to_nat ch)) (concat chunks) /\
    forall edits fn rs,
      Forall (typed_edit u) edits -> Forall (U.keeps_streaminfo FlacMeta.Blocks.block) edits ->
      U.run_edits FlacMeta.Blocks.block psize_r ser_r uclass_r (read_blocks_r u) edits (f_stream f) = (fn, rs) ->
      FlacCodec.Stream.dec_stream fn =
        Some (FlacE2E.Bridge.conv_si (f_si f), map FlacCodec.Stream.interleave_frame blocks, FlacCodec.Stream.EndEof) /\
      FlacCodec.Spec.spec_stream fn = FlacCodec.Spec.spec_stream (f_stream f) /\
      exists meta_n, fn = meta_n ++ frames_bytes (f_enc f).
Proof. exact written_then_edited. Qed.

Print Assumptions C10_written_then_edited_lossless.

(* the same for the other two front-ends: FlacByteWriter (either byte order, any chunking of any byte string) and
   FlacChannelWriter (any list of well-formed write arguments); `samples` is what the written data spells *)
Theorem C10_byte_written_then_edited_lossless : forall (u : list N -> bool),
  (forall s, Forall (fun b => b < 128) s -> u s = true) ->
  forall o L md5, (forall l, length (md5 l) = 16%nat) -> (forall l, Forall (fun b => b < 256) (md5 l)) ->
  forall p rate bps ch, rate < 2 ^ 20 -> 1 <= bps -> bps <= 32 -> 1 <= ch -> ch <= 8 ->
  forall en wo total w (chunks : list (list N)),
  options_wf wo -> Forall plain (o_metadata wo) -> seektables (o_metadata wo) = 0%nat ->
  byte_new p en [] wo rate bps ch total = Ok w ->
  Forall byte_ok (concat chunks) ->
  let nb := bytes_per_sample_of bps in
  let samples := decoded en (N.to_nat nb) (concat chunks) in
  forallb (FlacCodec.Wf.fits bps) samples = true ->
  let W := N.of_nat (length samples) / ch in
  1 <= W -> N.of_nat (length samples) < 2 ^ 36 ->
  match total with Some T => T = nb * (ch * W) | None => True end ->
  exists f blocks,
    byte_run (FlacE2E.E2E.encB o L rate bps) md5 p w chunks = Ok f /\
    concat (map FlacCodec.Stream.interleave_frame blocks) =
      firstn (N.to_nat ch * (length samples / N.to_nat ch)) samples /\
    forall edits fn rs,
      Forall (typed_edit u) edits -> Forall (U.keeps_streaminfo FlacMeta.Blocks.block) edits ->
      U.run_edits FlacMeta.Blocks.block psize_r ser_r uclass_r (read_blocks_r u) edits (f_stream f) = (fn, rs) ->
      FlacCodec.Stream.dec_stream fn =
        Some (FlacE2E.Bridge.conv_si (f_si f), map FlacCodec.Stream.interleave_frame blocks, FlacCodec.Stream.EndEof) /\
      FlacCodec.Spec.spec_stream fn = FlacCodec.Spec.spec_stream (f_stream f) /\
      exists meta_n, fn = meta_n ++ frames_bytes (f_enc f).
Proof. exact byte_written_then_edited. Qed.

Print Assumptions C10_byte_written_then_edited_lossless.

Theorem C10_channel_written_then_edited_lossless : forall (u : list N -> bool),
  (forall s, Forall (fun b => b < 128) s -> u s = true) ->
  forall o L md5, (forall l, length (md5 l) = 16%nat) -> (forall l, Forall (fun b => b < 256) (md5 l)) ->
  forall p rate bps ch, rate < 2 ^ 20 -> 1 <= bps -> bps <= 32 -> 1 <= ch -> ch <= 8 ->
  forall wo total w (chunks : list (list (list Z))),
  options_wf wo -> Forall plain (o_metadata wo) -> seektables (o_metadata wo) = 0%nat ->
  channel_new p [] wo rate bps ch total = Ok w ->
  Forall (chunk_ok (N.to_nat ch)) chunks ->
  let samples := concat (multizip (cconcat (N.to_nat ch) chunks)) in
  forallb (FlacCodec.Wf.fits bps) samples = true ->
  let W := N.of_nat (length samples) / ch in
  1 <= W -> N.of_nat (length samples) < 2 ^ 36 ->
  match total with Some T => T = W | None => True end ->
  exists f blocks,
    channel_run (FlacE2E.E2E.encB o L rate bps) md5 p w chunks = Ok f /\
    concat (map FlacCodec.Stream.interleave_frame blocks) =
      firstn (N.to_nat ch * (length samples / N.to_nat ch)) samples /\
    forall edits fn rs,
      Forall (typed_edit u) edits -> Forall (U.keeps_streaminfo FlacMeta.Blocks.block) edits ->
      U.run_edits FlacMeta.Blocks.block psize_r ser_r uclass_r (read_blocks_r u) edits (f_stream f) = (fn, rs) ->
      FlacCodec.Stream.dec_stream fn =
        Some (FlacE2E.Bridge.conv_si (f_si f), map FlacCodec.Stream.interleave_frame blocks, FlacCodec.Stream.EndEof) /\
      FlacCodec.Spec.spec_stream fn = FlacCodec.Spec.spec_stream (f_stream f) /\
      exists meta_n, fn = meta_n ++ frames_bytes (f_enc f).
Proof. exact channel_written_then_edited. Qed.

Print Assumptions C10_channel_written_then_edited_lossless.

(* write, edit any number of times, read: the edited file decodes to blocks over which the FlacSampleReader model, under
   every seek-free history of read / fill_buf / consume / next calls, delivers exactly the whole PCM frames written *)
Theorem C10_written_edited_then_read : forall (u : list N -> bool),
  (forall s, Forall (fun b => b < 128) s -> u s = true) ->
  forall o L md5, (forall l, length (md5 l) = 16%nat) -> (forall l, Forall (fun b => b < 256) (md5 l)) ->
  forall p rate bps ch, rate < 2 ^ 20 -> 1 <= bps -> bps <= 32 -> 1 <= ch -> ch <= 8 ->
  forall wo total w chunks e rp,
  options_wf wo -> Forall plain (o_metadata wo) -> seektables (o_metadata wo) = 0%nat ->
  sample_new p [] wo rate bps ch total = Ok w ->
  forallb (FlacCodec.Wf.fits bps) (concat chunks) = true ->
  let W := N.of_nat (length (concat chunks)) / ch in
  let written := firstn (N.to_nat ch * (length (concat chunks) / N.to_nat ch)) (concat chunks) in
  1 <= W -> N.of_nat (length (concat chunks)) < 2 ^ 36 ->
  match total with Some T => T = ch * W | None => True end ->
  exists f blocks,
    sample_run (FlacE2E.E2E.encB o L rate bps) md5 p w chunks = Ok f /\
    (* the edited file still decodes to these blocks ... *)
    (forall edits fn rs,
      Forall (typed_edit u) edits -> Forall (U.keeps_streaminfo FlacMeta.Blocks.block) edits ->
      U.run_edits FlacMeta.Blocks.block psize_r ser_r uclass_r (read_blocks_r u) edits (f_stream f) = (fn, rs) ->
      FlacCodec.Stream.dec_stream fn =
        Some (FlacE2E.Bridge.conv_si (f_si f), map FlacCodec.Stream.interleave_frame blocks, FlacCodec.Stream.EndEof)) /\
    (* ... and the reader model over them delivers exactly what was written *)
    let F := FlacE2E.ReadBridge.file_of_blocks blocks ch bps (Some (FlacCodec.Enc_proofs.blocks_samples blocks)) e rp in
    RS.valid_file F /\ RS.pcm F = written /\
    forall ops, RS.no_sseek ops -> Forall RS.sop_ok (snd (FlacReaders.Seek.sample_run F ops)) ->
      let atr := map (RS.abs_s F) (snd (FlacReaders.Seek.sample_run F ops)) in
      Forall (RS.cur_ok written) atr /\ RS.chained 0 atr (RS.spos F (fst (FlacReaders.Seek.sample_run F ops))) /\
      RS.exactly_once written atr.
Proof. exact written_edited_then_read. Qed.

Print Assumptions C10_written_edited_then_read.

(* the same through the byte front-end and the byte reader: FlacByteWriter (either byte order, any chunking), any edits,
   FlacByteReader model — exactly the bytes of the whole PCM frames written *)
Theorem C10_byte_written_edited_then_read : forall (u : list N -> bool),
  (forall s, Forall (fun b => b < 128) s -> u s = true) ->
  forall o L md5, (forall l, length (md5 l) = 16%nat) -> (forall l, Forall (fun b => b < 256) (md5 l)) ->
  forall p rate bps ch, rate < 2 ^ 20 -> 1 <= bps -> bps <= 32 -> 1 <= ch -> ch <= 8 ->
  forall en wo total w (chunks : list (list N)) rp,
  options_wf wo -> Forall plain (o_metadata wo) -> seektables (o_metadata wo) = 0%nat ->
  byte_new p en [] wo rate bps ch total = Ok w ->
  Forall byte_ok (concat chunks) ->
  let nb := bytes_per_sample_of bps in
  let samples := FlacE2E.ByteE2E.decode_bytes en (N.to_nat nb) (concat chunks) in
  forallb (FlacCodec.Wf.fits bps) samples = true ->
  let W := N.of_nat (length samples) / ch in
  let written := firstn (N.to_nat nb * (N.to_nat ch * (length samples / N.to_nat ch))) (concat chunks) in
  1 <= W -> N.of_nat (length samples) < 2 ^ 36 ->
  match total with Some T => T = nb * ch * W | None => True end ->
  exists f blocks,
    byte_run (FlacE2E.E2E.encB o L rate bps) md5 p w chunks = Ok f /\
    (forall edits fn rs,
      Forall (typed_edit u) edits -> Forall (U.keeps_streaminfo FlacMeta.Blocks.block) edits ->
      U.run_edits FlacMeta.Blocks.block psize_r ser_r uclass_r (read_blocks_r u) edits (f_stream f) = (fn, rs) ->
      FlacCodec.Stream.dec_stream fn =
        Some (FlacE2E.Bridge.conv_si (f_si f), map FlacCodec.Stream.interleave_frame blocks, FlacCodec.Stream.EndEof)) /\
    let F := FlacE2E.ReadBridge.file_of_blocks blocks ch bps (Some (FlacCodec.Enc_proofs.blocks_samples blocks)) (FlacE2E.ReadersE2E.conv_endian en) rp in
    RS.valid_file F /\ RS.pcm_bytes F = written /\
    forall ops, RS.no_bseek ops -> Forall RS.bop_ok (snd (FlacReaders.Seek.byte_run F ops)) ->
      let atr := map (RS.abs_b F) (snd (FlacReaders.Seek.byte_run F ops)) in
      Forall (RS.cur_ok written) atr /\ RS.chained 0 atr (RS.bpos F (fst (FlacReaders.Seek.byte_run F ops))) /\
      RS.exactly_once written atr.
Proof. exact byte_written_edited_then_read. Qed.

Print Assumptions C10_byte_written_edited_then_read.

(* ... and through the channel pair: FlacChannelWriter (any list of well-formed write arguments), any edits,
   FlacChannelReader model — every channel delivered exactly once, in order, in well-shaped buffers *)
Theorem C10_channel_written_edited_then_read : forall (u : list N -> bool),
  (forall s, Forall (fun b => b < 128) s -> u s = true) ->
  forall o L md5, (forall l, length (md5 l) = 16%nat) -> (forall l, Forall (fun b => b < 256) (md5 l)) ->
  forall p rate bps ch, rate < 2 ^ 20 -> 1 <= bps -> bps <= 32 -> 1 <= ch -> ch <= 8 ->
  forall wo total w (chunks : list (list (list Z))) e rp,
  options_wf wo -> Forall plain (o_metadata wo) -> seektables (o_metadata wo) = 0%nat ->
  channel_new p [] wo rate bps ch total = Ok w ->
  Forall (chunk_ok (N.to_nat ch)) chunks ->
  let all := cconcat (N.to_nat ch) chunks in
  forallb (FlacCodec.Wf.fits bps) (concat all) = true ->
  let m := length (hd [] all) in
  (1 <= m)%nat -> ch * N.of_nat m < 2 ^ 36 ->
  match total with Some T => T = N.of_nat m | None => True end ->
  exists f blocks,
    channel_run (FlacE2E.E2E.encB o L rate bps) md5 p w chunks = Ok f /\
    (forall edits fn rs,
      Forall (typed_edit u) edits -> Forall (U.keeps_streaminfo FlacMeta.Blocks.block) edits ->
      U.run_edits FlacMeta.Blocks.block psize_r ser_r uclass_r (read_blocks_r u) edits (f_stream f) = (fn, rs) ->
      FlacCodec.Stream.dec_stream fn =
        Some (FlacE2E.Bridge.conv_si (f_si f), map FlacCodec.Stream.interleave_frame blocks, FlacCodec.Stream.EndEof)) /\
    let F := FlacE2E.ReadBridge.file_of_blocks blocks ch bps (Some (FlacCodec.Enc_proofs.blocks_samples blocks)) e rp in
    RS.valid_file F /\
    forall c, (c < N.to_nat ch)%nat ->
      RS.chan_pcm F c = nth c all [] /\
      forall ops, RS.no_cseek ops -> Forall RS.cop_ok (snd (FlacReaders.Seek.chan_run F ops)) ->
        let atr := map (RS.abs_c F c) (snd (FlacReaders.Seek.chan_run F ops)) in
        Forall (RS.cur_ok (nth c all [])) atr /\ RS.chained 0 atr (RS.cpos (fst (FlacReaders.Seek.chan_run F ops))) /\
        RS.exactly_once (nth c all []) atr /\ Forall (RS.chan_shape F) (snd (FlacReaders.Seek.chan_run F ops)).
Proof. exact channel_written_edited_then_read. Qed.

Print Assumptions C10_channel_written_edited_then_read.

(* C02 + C10: the edited file still passes the strict stream validator (Spec.spec_stream), with the blocks that spell the samples written *)
Theorem C10_written_then_edited_valid : forall (u : list N -> bool),
  (forall s, Forall (fun b => b < 128) s -> u s = true) ->
  forall o L md5, (forall l, length (md5 l) = 16%nat) -> (forall l, Forall (fun b => b < 256) (md5 l)) ->
  forall p rate bps ch, rate < 2 ^ 20 -> 1 <= bps -> bps <= 32 -> 1 <= ch -> ch <= 8 ->
  forall wo total w chunks,
  options_wf wo -> Forall plain (o_metadata wo) -> seektables (o_metadata wo) = 0%nat ->
  sample_new p [] wo rate bps ch total = Ok w ->
  forallb (FlacCodec.Wf.fits bps) (concat chunks) = true ->
  let W := N.of_nat (length (concat chunks)) / ch in
  1 <= W -> N.of_nat (length (concat chunks)) < 2 ^ 36 ->
  match total with Some T => T = ch * W | None => True end ->
  exists f blocks,
    sample_run (FlacE2E.E2E.encB o L rate bps) md5 p w chunks = Ok f /\
    concat (map FlacCodec.Stream.interleave_frame blocks) =
      firstn (N.to_nat ch * (length (concat chunks) / N.to_nat ch)) (concat chunks) /\
    forall edits fn rs,
      Forall (typed_edit u) edits -> Forall (U.keeps_streaminfo FlacMeta.Blocks.block) edits ->
      U.run_edits FlacMeta.Blocks.block psize_r ser_r uclass_r (read_blocks_r u) edits (f_stream f) = (fn, rs) ->
      FlacCodec.Spec.spec_stream fn = Ok (FlacE2E.Bridge.conv_si (f_si f), blocks).
Proof. exact written_then_edited_valid. Qed.

Print Assumptions C10_written_then_edited_valid.

(* ... the same for FlacByteWriter and FlacChannelWriter runs *)
Theorem C10_byte_written_then_edited_valid : forall (u : list N -> bool),
  (forall s, Forall (fun b => b < 128) s -> u s = true) ->
  forall o L md5, (forall l, length (md5 l) = 16%nat) -> (forall l, Forall (fun b => b < 256) (md5 l)) ->
  forall p rate bps ch, rate < 2 ^ 20 -> 1 <= bps -> bps <= 32 -> 1 <= ch -> ch <= 8 ->
  forall en wo total w (chunks : list (list N)),
  options_wf wo -> Forall plain (o_metadata wo) -> seektables (o_metadata wo) = 0%nat ->
  byte_new p en [] wo rate bps ch total = Ok w ->
  Forall byte_ok (concat chunks) ->
  let nb := bytes_per_sample_of bps in
  let samples := decoded en (N.to_nat nb) (concat chunks) in
  forallb (FlacCodec.Wf.fits bps) samples = true ->
  let W := N.of_nat (length samples) / ch in
  1 <= W -> N.of_nat (length samples) < 2 ^ 36 ->
  match total with Some T => T = nb * (ch * W) | None => True end ->
  exists f blocks,
    byte_run (FlacE2E.E2E.encB o L rate bps) md5 p w chunks = Ok f /\
    concat (map FlacCodec.Stream.interleave_frame blocks) =
      firstn (N.to_nat ch * (length samples / N.to_nat ch)) samples /\
    forall edits fn rs,
      Forall (typed_edit u) edits -> Forall (U.keeps_streaminfo FlacMeta.Blocks.block) edits ->
      U.run_edits FlacMeta.Blocks.block psize_r ser_r uclass_r (read_blocks_r u) edits (f_stream f) = (fn, rs) ->
      FlacCodec.Spec.spec_stream fn = Ok (FlacE2E.Bridge.conv_si (f_si f), blocks).
Proof. exact byte_written_then_edited_valid. Qed.

Theorem C10_channel_written_then_edited_valid : forall (u : list N -> bool),
  (forall s, Forall (fun b => b < 128) s -> u s = true) ->
  forall o L md5, (forall l, length (md5 l) = 16%nat) -> (forall l, Forall (fun b => b < 256) (md5 l)) ->
  forall p rate bps ch, rate < 2 ^ 20 -> 1 <= bps -> bps <= 32 -> 1 <= ch -> ch <= 8 ->
  forall wo total w (chunks : list (list (list Z))),
  options_wf wo -> Forall plain (o_metadata wo) -> seektables (o_metadata wo) = 0%nat ->
  channel_new p [] wo rate bps ch total = Ok w ->
  Forall (chunk_ok (N.to_nat ch)) chunks ->
  let samples := concat (multizip (cconcat (N.to_nat ch) chunks)) in
  forallb (FlacCodec.Wf.fits bps) samples = true ->
  let W := N.of_nat (length samples) / ch in
  1 <= W -> N.of_nat (length samples) < 2 ^ 36 ->
  match total with Some T => T = W | None => True end ->
  exists f blocks,
    channel_run (FlacE2E.E2E.encB o L rate bps) md5 p w chunks = Ok f /\
    concat (map FlacCodec.Stream.interleave_frame blocks) =
      firstn (N.to_nat ch * (length samples / N.to_nat ch)) samples /\
    forall edits fn rs,
      Forall (typed_edit u) edits -> Forall (U.keeps_streaminfo FlacMeta.Blocks.block) edits ->
      U.run_edits FlacMeta.Blocks.block psize_r ser_r uclass_r (read_blocks_r u) edits (f_stream f) = (fn, rs) ->
      FlacCodec.Spec.spec_stream fn = Ok (FlacE2E.Bridge.conv_si (f_si f), blocks).
Proof. exact channel_written_then_edited_valid. Qed.

Print Assumptions C10_byte_written_then_edited_valid.
Print Assumptions C10_channel_written_then_edited_valid.
