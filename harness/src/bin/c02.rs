//! C02: encoder output is conforming RFC 9639 FLAC that an independent decoder accepts.
//!  * emits `dec_stream` cases with `"expect"` (the PCM that was encoded) over the C01 space:
//!    the integrator's Coq-extracted RFC decoder judges them;
//!  * judges every file here as well with `refdec` -- an independent strict RFC 9639 decoder
//!    written for this harness (own bit reader, CRCs, tables; no crate code): it must accept
//!    the file and reconstruct exactly the input PCM;
//!  * checks directly through `stream::FrameIterator`: frames numbered consecutively from 0
//!    with the fixed-blocksize strategy bit, every non-final block has the advertised block
//!    size, CRC-8 / CRC-16 valid (crate CRC via hooks *and* the independent bitwise CRC), no
//!    residual equal to i32::MIN, re-serialisation equal to the original bytes (zero padding,
//!    minimal numbers);
//!  * raw frame streams from `FlacStreamWriter` are judged frame by frame the same way.
#[path = "c01_shared/mod.rs"]
mod shared;

use flac_codec::encode::FlacStreamWriter;
use flac_codec::stream::{FrameIterator, ResidualPartition, Residuals, Subframe, SubframeWidth};
use flac_codec::verif_hooks::{crc16, crc8};
use shared::io::*;
use shared::mutate::header_len;
use shared::space::*;
use shared::*;
use std::collections::BTreeMap;
use std::io::Cursor;
use vharness::json::{esc, ints, obj};
use vharness::*;

fn residuals_have_min<I: Copy + Into<i64>>(r: &Residuals<I>) -> bool {
    fn parts<const M: u32, I: Copy + Into<i64>>(p: &[ResidualPartition<M, I>]) -> bool {
        p.iter().any(|p| match p {
            ResidualPartition::Standard { residuals, .. } | ResidualPartition::Escaped { residuals, .. } => residuals.iter().any(|r| { let v: i64 = (*r).into(); v <= i32::MIN as i64 || v > i32::MAX as i64 }),
            _ => false,
        })
    }
    match r { Residuals::Method0 { partitions } => parts(partitions), Residuals::Method1 { partitions } => parts(partitions) }
}
fn sub_has_min<I: Copy + Into<i64>>(s: &Subframe<I>) -> bool {
    match s { Subframe::Fixed { residuals, .. } | Subframe::Lpc { residuals, .. } => residuals_have_min(residuals), _ => false }
}

struct St {
    files: usize,
    frames: usize,
    ref_accepts: usize,
    kinds: BTreeMap<String, usize>,
    cases: usize,
    max_cases: usize,
    skipped_known: usize,
}

fn judge_file(out: &mut Out, st: &mut St, cfg: &Cfg, kind: &str, wr: Writer, pcm: &[i32], file: &[u8]) {
    st.files += 1;
    let input: Vec<(&str, String)> = vec![("cfg", cfg.json()), ("kind", esc(kind)), ("writer", esc(&format!("{:?}", wr))), ("pcm", ints(&pcm[..pcm.len().min(5000)])), ("pcm_len", pcm.len().to_string()), ("file", esc(&hex(&file[..file.len().min(12000)])))];
    // ---- independent decoder
    match shared::refdec::stream(file) {
        Ok(rs) => {
            st.ref_accepts += 1;
            for f in &rs.frames { for k in &f.subframe_kinds { *st.kinds.entry(k.split('/').next().unwrap().trim_end_matches(char::is_numeric).to_string()).or_insert(0) += 1; } }
            let got: Vec<i64> = rs.pcm;
            if got.len() != pcm.len() || got.iter().zip(pcm.iter()).any(|(a, b)| *a != *b as i64) {
                let at = got.iter().zip(pcm.iter()).position(|(a, b)| *a != *b as i64).unwrap_or(got.len().min(pcm.len()));
                out.viol("independent-decoder-different-pcm", &format!("independent RFC 9639 decoder reconstructs {} samples, {} were encoded; first difference at {} ({}; {} ch {} bps)", got.len(), pcm.len(), at, kind, cfg.ch, cfg.bps), &input);
            }
            if rs.si.rate != cfg.rate || rs.si.ch != cfg.ch as u32 || rs.si.bps != cfg.bps {
                out.viol("streaminfo-parameters-wrong", &format!("STREAMINFO says rate {} ch {} bps {}, encoded with rate {} ch {} bps {}", rs.si.rate, rs.si.ch, rs.si.bps, cfg.rate, cfg.ch, cfg.bps), &input);
            }
        }
        Err(e) => {
            let class = if e.contains("residual") && e.contains("outside") { "residual-out-of-range".to_string() }
                else if e.contains("does not fit") { "sample-out-of-range".to_string() }
                else if e.contains("not divisible") || e.contains("not larger than predictor order") { "partition-layout".to_string() }
                else { e.split(':').last().unwrap_or("").trim().split(' ').take(3).collect::<Vec<_>>().join("-") };
            out.viol(&format!("independent-decoder-rejects:{}", class), &format!("independent RFC 9639 decoder rejects the encoder's output: {} ({}; {} ch {} bps, bs {})", e, kind, cfg.ch, cfg.bps, cfg.bs), &input);
        }
    }
    // ---- direct structural checks through the crate's frame iterator
    let it = match catch(|| FrameIterator::new(Cursor::new(file))) {
        Ok(Ok(it)) => it,
        other => { out.viol("frame-iterator-open", &format!("FrameIterator::new fails on encoder output: {:?}", other.map(|r| r.map(|_| ()).map_err(|e| err_class(&e)))), &input); return; }
    };
    let si = it.metadata().streaminfo().clone();
    let r = catch(|| { let mut v = vec![]; for r in it { let stop = r.is_err(); v.push(r); if stop { break; } } v });
    let items = match r { Ok(v) => v, Err(p) => { out.viol_panic("frame-iterator", &p, &format!("FrameIterator panics on encoder output: {}", p), &input); return; } };
    let mut offs: Vec<usize> = vec![];
    let mut frames = vec![];
    for it in items {
        match it {
            Ok((f, o)) => { offs.push(o as usize); frames.push(f); }
            Err(e) => { out.viol(&format!("frame-iterator-err:{}", err_class(&e)), &format!("structural parser rejects frame {} of the encoder's output: {}", frames.len(), err_class(&e)), &input); return; }
        }
    }
    offs.push(file.len());
    let nfr = frames.len();
    let mut total = 0u64;
    for (k, f) in frames.iter().enumerate() {
        st.frames += 1;
        let h = &f.header;
        let n = u16::from(h.block_size);
        total += n as u64;
        if h.blocking_strategy { out.viol("strategy-bit-variable", &format!("frame {} carries the variable-blocksize strategy bit", k), &input); }
        if h.frame_number.0 != k as u64 { out.viol("frame-number-not-consecutive", &format!("frame {} is numbered {}", k, h.frame_number.0), &input); }
        if k + 1 < nfr && n != cfg.bs { out.viol("non-final-block-size", &format!("non-final frame {} has {} samples, advertised block size {}", k, n, cfg.bs), &input); }
        if k + 1 == nfr && n > cfg.bs { out.viol("final-block-too-long", &format!("final frame has {} samples, block size {}", n, cfg.bs), &input); }
        let fb = &file[offs[k]..offs[k + 1]];
        if let Some(hl) = header_len(fb) {
            if hl > fb.len() || crc8(&fb[..hl - 1]) != fb[hl - 1] || shared::refdec::crc8(&fb[..hl - 1]) != fb[hl - 1] { out.viol("crc8-wrong", &format!("frame {}: header CRC-8 does not verify", k), &input); }
        }
        let c16 = ((fb[fb.len() - 2] as u16) << 8) | fb[fb.len() - 1] as u16;
        if crc16(&fb[..fb.len() - 2]) != c16 || shared::refdec::crc16(&fb[..fb.len() - 2]) != c16 { out.viol("crc16-wrong", &format!("frame {}: CRC-16 does not verify", k), &input); }
        if f.subframes.iter().any(|s| match s { SubframeWidth::Common(s) => sub_has_min(s), SubframeWidth::Wide(s) => sub_has_min(s) }) {
            out.viol("residual-i32-min-coded", &format!("frame {} stores a residual outside (-2^31, 2^31), which the format excludes", k), &input);
        }
        let mut again = vec![];
        if let Ok(Ok(())) = catch(|| f.write(&si, &mut again)) {
            if again != fb { out.viol("not-canonical-serialisation", &format!("frame {} differs from its own re-serialisation (padding bits or number coding)", k), &input); }
        }
    }
    if total != (pcm.len() / cfg.ch as usize) as u64 { out.viol("sample-count-wrong", &format!("frames hold {} samples per channel, {} were encoded", total, pcm.len() / cfg.ch as usize), &input); }
    if si.minimum_block_size != cfg.bs || si.maximum_block_size != cfg.bs { out.viol("streaminfo-block-size", &format!("STREAMINFO block size {}..{} for option {}", si.minimum_block_size, si.maximum_block_size, cfg.bs), &input); }
    if st.cases < st.max_cases && file.len() < 12000 && pcm.len() <= MODEL_MAX_SAMPLES {
        st.cases += 1;
        out.case(dec_stream_case(file, Some(pcm), &[("src", esc("encoder")), ("cfg", cfg.json())]));
        out.case(enc_stream_case(file, pcm, cfg.json()));
    }
}

/// a Write + Seek sink that takes at most `max` bytes per write call
struct ShortSink { inner: Cursor<Vec<u8>>, max: usize }
impl std::io::Write for ShortSink {
    fn write(&mut self, buf: &[u8]) -> std::io::Result<usize> { let n = buf.len().min(self.max); self.inner.write(&buf[..n]) }
    fn flush(&mut self) -> std::io::Result<()> { self.inner.flush() }
}
impl std::io::Seek for ShortSink {
    fn seek(&mut self, pos: std::io::SeekFrom) -> std::io::Result<u64> { self.inner.seek(pos) }
}

fn main() {
    hook_panics();
    let seed = env_seed();
    let thorough = env_tier_thorough();
    let mut out = Out::new();
    let mut rng = Rng::new(seed, 0xC02);
    let kinds = all_kinds();
    let known = probe_known();
    clear_panic_loc();
    let mut st = St { files: 0, frames: 0, ref_accepts: 0, kinds: Default::default(), cases: 0, max_cases: scale(if thorough { 6000 } else { 2500 }), skipped_known: 0 };

    let mut run = |out: &mut Out, st: &mut St, rng: &mut Rng, cfg: &Cfg, kind: &str, frames: usize, wr: Writer| {
        if cfg.hits_known_writer_defect(&known) { st.skipped_known += 1; return; }
        let pcm = gen_pcm_ext(rng, kind, cfg.ch as usize, cfg.bps, frames);
        let unit = if wr == Writer::Channels { cfg.bs as usize } else { cfg.bs as usize * cfg.ch as usize };
        let total_units = if wr == Writer::Channels { frames } else { pcm.len() };
        let mode = rng.below(3);
        let chunks = chunking(rng, total_units, mode, unit.min(4000));
        // an encoder failure is C01's finding; here only successful output is judged
        if let Ok(file) = encode_to_vec(wr, cfg, &pcm, &chunks) { judge_file(out, st, cfg, kind, wr, &pcm, &file); }
    };

    // every short length x kinds (rotating configurations)
    let cfgs: Vec<Cfg> = vec![
        Cfg { padding: None, seek: SeekPol::Default, ..Cfg::default() },
        Cfg { ch: 2, ..Cfg::default() },
        Cfg { bps: 32, bs: 16, lpc: Some(4), ..Cfg::default() },
        Cfg { bps: 24, ch: 2, bs: 32, lpc: Some(12), po: 6, fast: true, ..Cfg::default() },
        Cfg { bps: 8, bs: 16, lpc: None, ..Cfg::default() },
        Cfg { bps: 32, ch: 2, bs: 24, lpc: Some(31), mid_side: false, declare_total: false, ..Cfg::default() },
    ];
    for len in 1..=70usize {
        for (ki, kind) in kinds.iter().enumerate() {
            if !thorough && (len + ki) % 2 == 1 { continue; }
            let cfg = &cfgs[(len + ki) % cfgs.len()];
            run(&mut out, &mut st, &mut rng, cfg, kind, len, WRITERS[(len + ki) % 4]);
        }
    }
    // option values outside the documented set: if the API accepts one, its output is judged like any other
    // (e.g. a block size below 16 gives non-final blocks the format forbids)
    for bs in [1u16, 2, 8, 15] {
        let cfg = Cfg { bs, lpc: None, ..Cfg::default() };
        run(&mut out, &mut st, &mut rng, &cfg, "walk", bs as usize * 3 + 1, Writer::Samples);
    }
    // coded-number boundaries: enough frames that the frame number crosses the 1/2- and 2/3-byte
    // (thorough: 3/4-byte) forms of the UTF-8-style coding (127|128, 2047|2048, 65535|65536)
    for nframes in [130usize, 2050, if thorough { 65540 } else { 300 }] {
        let cfg = Cfg { bs: 16, lpc: None, ..Cfg::default() };
        run(&mut out, &mut st, &mut rng, &cfg, "small", 16 * nframes - 3, Writer::Samples);
    }
    for len in 1..=12usize {
        for rep in 0..scale(if thorough { 200 } else { 30 }) {
            let kind = ["small", "poly", "walk", "min_adjacent"][rep % 4];
            let cfg = Cfg { bps: if rep % 4 == 3 { 32 } else { 16 }, ch: 1 + (rep % 2) as u8, ..cfgs[0].clone() };
            run(&mut out, &mut st, &mut rng, &cfg, kind, len, Writer::Samples);
        }
    }
    // every bits-per-sample, both channel layouts
    for bps in 1..=32u32 {
        for ch in [1u8, 2] {
            for kind in ["noise", "fullscale", "min_adjacent", "wasted"] {
                let cfg = Cfg { bps, ch, bs: *rng.pick(&[16u16, 20, 48]), rate: pick_rate(&mut rng), lpc: *rng.pick(&[None, Some(6u8), Some(8)]), fast: rng.chance(1, 2), mid_side: rng.chance(1, 2), ..Cfg::default() };
                let n = rng.range(30, 120) as usize;
                run(&mut out, &mut st, &mut rng, &cfg, kind, n, WRITERS[(bps as usize) % 4]);
            }
        }
    }
    // F-C02a shape: a single most-negative sample in an otherwise flat 32-bit block
    for (pre, post) in [(100usize, 3995usize), (3, 12), (0, 15), (15, 0), (40, 40)] {
        for ch in [1u8, 2] {
            let cfg = Cfg { bps: 32, ch, bs: 4096, lpc: None, ..Cfg::default() };
            let mut pcm = vec![1i32; (pre + 1 + post) * ch as usize];
            pcm[pre * ch as usize] = i32::MIN;
            if let Ok(file) = encode_to_vec(Writer::Samples, &cfg, &pcm, &[pcm.len()]) { judge_file(&mut out, &mut st, &cfg, "flat-with-i32-min", Writer::Samples, &pcm, &file); }
        }
    }
    // full-width ramps that wrap around once near a block edge (an overflowing 32-bit counter): a
    // low-order LPC predictor extrapolates past the 32-bit range exactly where the signal jumps to
    // the other end; the residual must then be taken from the true prediction, not a wrapped one
    for lpc in [2u8, 3] {
        for p in (1..12).chain(246..256) {
            let n = 256i64;
            let d = (1i64 << 32) / n + 611;
            let base = (1i64 << 31) - d * p + d / 3;
            let pcm: Vec<i32> = (0..n).map(|t| (base + d * t) as i32).collect();
            let cfg = Cfg { bps: 32, ch: 1, bs: 256, lpc: Some(lpc), ..Cfg::default() };
            if let Ok(file) = encode_to_vec(Writer::Samples, &cfg, &pcm, &[pcm.len()]) { judge_file(&mut out, &mut st, &cfg, "ramp-wrapping-at-block-edge", Writer::Samples, &pcm, &file); }
            // the same in the side channel of a 31-bit stereo stream (left - right spans 32 bits)
            let mut st_pcm = vec![];
            for x in &pcm { let (l, r) = ((*x as i64 + 1) >> 1, -((*x as i64) >> 1)); st_pcm.push(l as i32); st_pcm.push(r as i32); }
            let cfg = Cfg { bps: 31, ch: 2, bs: 256, lpc: Some(lpc), ..Cfg::default() };
            if let Ok(file) = encode_to_vec(Writer::Samples, &cfg, &st_pcm, &[st_pcm.len()]) { judge_file(&mut out, &mut st, &cfg, "ramp-wrapping-at-block-edge-in-side-channel", Writer::Samples, &st_pcm, &file); }
        }
    }
    // sinks that accept fewer bytes than offered (legal for std::io::Write): the file that arrives must be the
    // same conforming file a plain Vec receives
    for (k, wr) in [(1usize, Writer::Samples), (3, Writer::BytesLe), (7, Writer::Channels), (64, Writer::BytesBe)] {
        let cfg = Cfg { ch: 2, bs: 32, ..Cfg::default() };
        let pcm = gen_pcm_ext(&mut rng, "walk", 2, 16, 150);
        let chunks = [pcm.len()];
        let plain = encode_to_vec(wr, &cfg, &pcm, &chunks);
        let short = catch(|| -> Result<Vec<u8>, flac_codec::Error> {
            let mut sink = ShortSink { inner: Cursor::new(Vec::new()), max: k };
            encode_with(&mut sink, wr, &cfg, &pcm, &chunks, true)?;
            Ok(sink.inner.into_inner())
        });
        match (plain, short) {
            (Ok(a), Ok(Ok(b))) => {
                if a != b { out.viol("short-write-sink-changes-file", &format!("a sink accepting at most {} byte(s) per write call receives a different file ({} vs {} bytes)", k, b.len(), a.len()), &[("cfg", cfg.json()), ("file", esc(&hex(&b)))]); }
                judge_file(&mut out, &mut st, &cfg, "short-write-sink", wr, &pcm, &b);
            }
            (Ok(_), other) => out.viol("short-write-sink-fails", &format!("encoding into a sink accepting at most {} byte(s) per call: {:?}", k, other.map(|r| r.map(|v| v.len()).map_err(|e| err_class(&e)))), &[("cfg", cfg.json())]),
            _ => {}
        }
    }
    // regression witnesses (DESIGN section 4)
    for (pcm, cfg) in [(vec![-6i32, -3, 2, 7], Cfg { padding: None, seek: SeekPol::Default, ..Cfg::default() }), (vec![-6i32, -3, 2, 7], Cfg::default())] {
        if let Ok(file) = encode_to_vec(Writer::Samples, &cfg, &pcm, &[pcm.len()]) { judge_file(&mut out, &mut st, &cfg, "witness", Writer::Samples, &pcm, &file); }
    }
    // random configurations
    let nrand = scale(if thorough { 25000 } else { 450 });
    for i in 0..nrand {
        let cfg = random_cfg(&mut rng, &known);
        let bs = cfg.bs as usize;
        let budget = (if thorough { 40000 } else { 9000 }) / cfg.ch as usize;
        let frames = match rng.below(4) { 0 => rng.range(1, 70) as usize, 1 => bs.min(budget) + rng.range(1, 2 * cfg.lpc.unwrap_or(4) as i64) as usize, _ => rng.range(1, (3 * bs).min(budget).max(2) as i64) as usize };
        run(&mut out, &mut st, &mut rng, &cfg, kinds[i % kinds.len()], frames, WRITERS[i % 4]);
    }

    // ---- raw frame streams from FlacStreamWriter, judged frame by frame
    let mut stream_frames = 0usize;
    for i in 0..scale(if thorough { 8000 } else { 200 }) {
        let cfg = random_cfg(&mut rng, &known);
        let Ok(opts) = cfg.options() else { continue };
        let mut cur = Cursor::new(Vec::new());
        let mut sw = FlacStreamWriter::new(&mut cur, opts);
        let mut written: Vec<SubsetFrame> = vec![];
        for _ in 0..rng.range(1, 4) {
            let ch = rng.range(1, 8) as u8;
            let bps = *rng.pick(&[8u32, 12, 16, 20, 24, 32]);
            let rate = loop { let r = pick_rate(&mut rng); if rate_class(r) != "streaminfo" { break r; } };
            let n = rng.range(1, 90) as usize;
            let pcm = gen_pcm_ext(&mut rng, kinds[i % kinds.len()], ch as usize, bps, n);
            if let Ok(Ok(())) = catch(|| sw.write(rate, ch, bps, &pcm)) { written.push(SubsetFrame { samples: pcm, rate, ch, bps }); } else { break; }
        }
        drop(sw);
        let bytes = cur.into_inner();
        let mut at = 0usize;
        for (k, wfr) in written.iter().enumerate() {
            stream_frames += 1;
            match shared::refdec::frame(&bytes[at..], None) {
                Ok(rf) => {
                    let mut inter = vec![];
                    for i in 0..rf.bs as usize { for c in 0..rf.ch as usize { inter.push(rf.chans[c][i] as i32); } }
                    if inter != wfr.samples || rf.rate != wfr.rate || rf.bps != wfr.bps || rf.ch != wfr.ch as u32 {
                        out.viol("stream-frame-independent-decoder-differs", &format!("independent decoder gets different samples/parameters for raw frame {}", k), &[("bytes", esc(&hex(&bytes)))]);
                    }
                    if rf.number != k as u64 || rf.variable { out.viol("stream-frame-number", &format!("raw frame {} is numbered {} (variable={})", k, rf.number, rf.variable), &[("bytes", esc(&hex(&bytes)))]); }
                    at += rf.len;
                }
                Err(e) => { out.viol("stream-frame-independent-decoder-rejects", &format!("independent decoder rejects raw frame {}: {}", k, e), &[("bytes", esc(&hex(&bytes)))]); break; }
            }
        }
        if st.cases < st.max_cases + 60 && bytes.len() < 2500 && !bytes.is_empty() && written.iter().map(|f| f.samples.len()).sum::<usize>() <= MODEL_MAX_SAMPLES { st.cases += 1; out.case(dec_subset_case(&bytes, &[("src", esc("stream_writer"))])); out.case(enc_subset_case(&bytes, &written, cfg.json())); }
    }

    // the same boundaries through FlacStreamWriter (one frame per write)
    for nframes in [130usize, 2050, if thorough { 65540 } else { 300 }] {
        let mut cur = Cursor::new(Vec::new());
        let mut sw = FlacStreamWriter::new(&mut cur, Cfg::default().options().unwrap());
        let mut written: Vec<Vec<i32>> = vec![];
        for _ in 0..nframes {
            let n = rng.range(1, 3) as usize;
            let pcm = gen_pcm_ext(&mut rng, "small", 1, 16, n);
            if let Ok(Ok(())) = catch(|| sw.write(44100, 1, 16, &pcm)) { written.push(pcm); } else { break; }
        }
        drop(sw);
        let bytes = cur.into_inner();
        let mut at = 0usize;
        for (k, pcm) in written.iter().enumerate() {
            stream_frames += 1;
            let lo = at.saturating_sub(0);
            match shared::refdec::frame(&bytes[at..], None) {
                Ok(rf) => {
                    let got: Vec<i32> = rf.chans[0].iter().map(|x| *x as i32).collect();
                    if &got != pcm || rf.number != k as u64 || rf.variable { out.viol("stream-frame-number", &format!("raw frame {} of a {}-frame stream decodes as number {} (variable={}) / other samples", k, nframes, rf.number, rf.variable), &[("bytes", esc(&hex(&bytes[lo..(at + rf.len).min(bytes.len())]))), ("frame_index", k.to_string())]); break; }
                    at += rf.len;
                }
                Err(e) => { out.viol("stream-frame-independent-decoder-rejects", &format!("independent decoder rejects raw frame {} of a {}-frame stream: {}", k, nframes, e), &[("bytes", esc(&hex(&bytes[at..(at + 64).min(bytes.len())]))), ("frame_index", k.to_string())]); break; }
            }
        }
    }

    let m = |m: &BTreeMap<String, usize>| format!("{{{}}}", m.iter().map(|(k, v)| format!("{}:{}", esc(k), v)).collect::<Vec<_>>().join(","));
    println!(
        "{}",
        obj(&[
            ("t", esc("stat")), ("profile", esc(profile())), ("files", st.files.to_string()), ("frames", st.frames.to_string()), ("independent_decoder_accepts", st.ref_accepts.to_string()),
            ("raw_stream_frames", stream_frames.to_string()), ("subframe_kinds", m(&st.kinds)), ("skipped_known_writer_defects", st.skipped_known.to_string()),
            ("known_writer_defects_present", esc(&format!("{:?}", known))), ("cases_emitted", out.cases.to_string()), ("viols", out.viols.to_string()), ("viol_keys", out.counts()),
        ])
    );
}
