(* e2eupd/WrittenBytes.v — the file a writer model run finishes is a byte string (every element < 256): the metadata
   region is the metadata area's serialisation of STREAMINFO / PADDING / SEEKTABLE values, the frames are what the codec
   area's frame writer packs from bits plus its two checksums.  This discharges, for a freshly written file, the typing
   hypothesis `Forall byte` that the readers' inversion lemmas and the fault model's devices carry. *)
From FlacBase Require Import Res Bits Crc.
From FlacMeta Require Import Bytes Bytes_proofs Blocks BlockList Blocks_proofs Blocks_level BlockList_proofs.
From FlacCodec Require Ast Stream Spec Wf Header Write Enc Roundtrip_frame.
From FlacWriters Require Import Params Params_proofs Finalize Writers Encoder_proofs C09_proofs Bytes_proofs Writers_proofs Cross_proofs.
From FlacE2E Require Bridge E2E Success Transfer.
From FlacE2EMeta Require Import MetaBridge FinishedBlocks.
Open Scope N_scope.

Local Notation mbyte := FlacMeta.Bytes.byte.

Lemma ok_inj {A} (a b : A) : @Ok A a = Ok b -> a = b.
Proof. intros H. injection H. auto. Qed.

(* ---- frames *)
Lemma crc_byte_is_byte m : Forall FlacBase.Crc.byte m <-> Forall mbyte m.
Proof. split; intros H; exact H. Qed.

Lemma with_crc16_bytes all : Forall mbyte all ->
  Forall mbyte (all ++ [N.shiftr (crc16 all) 8; N.land (crc16 all) 255]).
Proof.
  intros Hall. pose proof (FlacCodec.Roundtrip_frame.crc16_lt _ Hall) as Hc.
  apply Forall_app. split; [exact Hall|].
  constructor; [|constructor; [|constructor]]; unfold mbyte.
  - rewrite N.shiftr_div_pow2. apply N.div_lt_upper_bound; [discriminate|]. exact Hc.
  - change 255 with (N.ones 8). rewrite N.land_ones. apply N.mod_lt. discriminate.
Qed.

Lemma write_frame_bytes f x : FlacCodec.Write.write_frame f = Some x -> Forall mbyte x.
Proof.
  unfold FlacCodec.Write.write_frame. destruct (FlacCodec.Header.write_header_fields _) as [hb|]; [|discriminate].
  cbv zeta. intros H. injection H as <-.
  apply with_crc16_bytes. rewrite !Forall_app. repeat split; try apply bytes_of_bits_bytes.
  constructor; [apply FlacCodec.Roundtrip_frame.crc8_lt; apply bytes_of_bits_bytes|constructor].
Qed.

Lemma enc_blocks_bytes o L rate bps : forall bl k bytes,
  FlacCodec.Enc.enc_blocks o L rate bps k bl = Some bytes -> Forall mbyte bytes.
Proof.
  induction bl as [|b r IH]; intros k bytes H; cbn [FlacCodec.Enc.enc_blocks] in H.
  - injection H as <-. constructor.
  - destruct (FlacCodec.Enc.enc_frame_bytes o L rate bps k b) as [x|] eqn:E; [|discriminate].
    destruct (FlacCodec.Enc.enc_blocks o L rate bps (k + 1) r) as [y|] eqn:E2; [|discriminate].
    injection H as <-. apply Forall_app. split; [|exact (IH _ _ E2)].
    unfold FlacCodec.Enc.enc_frame_bytes in E. destruct (FlacCodec.Enc.enc_frame _ _ _ _ _ _) as [f|]; [|discriminate].
    exact (write_frame_bytes _ _ E).
Qed.

(* ---- metadata: the three block types a writer run produces (and APPLICATION) *)
Definition simple (b : FlacMeta.Blocks.block) : Prop :=
  match b with
  | FlacMeta.Blocks.BStreaminfo s => match FlacMeta.Blocks.si_md5 s with Some m => Forall mbyte m | None => True end
  | FlacMeta.Blocks.BPadding _ | FlacMeta.Blocks.BSeekTable _ => True
  | FlacMeta.Blocks.BApplication a => Forall mbyte (app_data a)
  | _ => False
  end.

Lemma write_seekpoint_bytes sp : Forall mbyte (FlacMeta.Blocks.write_seekpoint sp).
Proof. destruct sp; cbn [FlacMeta.Blocks.write_seekpoint]; rewrite !Forall_app; repeat split; apply be_bytes_bytes. Qed.

Lemma write_seekpoints_bytes : forall l lo m, FlacMeta.Blocks.write_seekpoints lo l = Ok m -> Forall mbyte m.
Proof.
  induction l as [|sp r IH]; intros lo m H; cbn [FlacMeta.Blocks.write_seekpoints] in H.
  - apply ok_inj in H. subst m. constructor.
  - assert (K : forall lo', (rest <- FlacMeta.Blocks.write_seekpoints lo' r ;; Ok (FlacMeta.Blocks.write_seekpoint sp ++ rest))%res = Ok m -> Forall mbyte m).
    { intros lo' H'. apply bind_ok in H'. destruct H' as (rest & Hr & H'). apply ok_inj in H'. subst m.
      apply Forall_app. split; [apply write_seekpoint_bytes|exact (IH _ _ Hr)]. }
    destruct sp as [so bo fs|].
    + destruct (so =? FlacMeta.Blocks.U64_MAX); [discriminate|]. destruct lo as [lo|]; [destruct (lo <? so); [|discriminate]|]; eapply K; exact H.
    + eapply K; exact H.
Qed.

Lemma write_body_simple_bytes b m : simple b -> FlacMeta.Blocks.write_body b = Ok m -> Forall mbyte m.
Proof.
  destruct b as [s|n|a|l|v|c|x]; cbn [simple FlacMeta.Blocks.write_body]; intros S H; try contradiction.
  - unfold FlacMeta.Blocks.write_streaminfo in H.
    repeat match type of H with (if ?c then _ else _) = _ => destruct c; [discriminate|] end.
    destruct (FlacMeta.Blocks.bitcount_checked_sub 31 (FlacMeta.Blocks.si_bps s) 1) as [cnt|]; [|discriminate].
    repeat match type of H with (if ?c then _ else _) = _ => destruct c; [discriminate|] end.
    apply ok_inj in H. subst m. rewrite !Forall_app. repeat split; try apply be_bytes_bytes; try apply bytes_of_bits_bytes.
    destruct (FlacMeta.Blocks.si_md5 s); [exact S|apply zerosN_bytes].
  - unfold FlacMeta.Blocks.write_padding in H. apply ok_inj in H. subst m. apply zerosN_bytes.
  - unfold FlacMeta.Blocks.write_application in H. apply ok_inj in H. subst m. apply Forall_app. split; [apply be_bytes_bytes|exact S].
  - exact (write_seekpoints_bytes _ _ _ H).
Qed.

Lemma write_header_bytes h : Forall mbyte (FlacMeta.Blocks.write_header h).
Proof. unfold FlacMeta.Blocks.write_header. apply Forall_app. split; [apply bytes_of_bits_bytes|apply be_bytes_bytes]. Qed.

Lemma write_block_simple_bytes last b m : simple b -> FlacMeta.Blocks.write_block last b = Ok m -> Forall mbyte m.
Proof.
  intros S H. unfold FlacMeta.Blocks.write_block in H. apply bind_ok in H. destruct H as (n & _ & H).
  destruct (FlacMeta.Blocks.BLOCKSIZE_MAX <? n); [discriminate|]. apply bind_ok in H. destruct H as (body & Hb & H). apply ok_inj in H. subst m.
  apply Forall_app. split; [apply write_header_bytes|exact (write_body_simple_bytes _ _ S Hb)].
Qed.

Lemma write_rest_simple_bytes : forall l sk vc png icon m, Forall simple l ->
  FlacMeta.BlockList.write_rest sk vc png icon l = Ok m -> Forall mbyte m.
Proof.
  induction l as [|b r IH]; intros sk vc png icon m S H; cbn [FlacMeta.BlockList.write_rest] in H.
  - apply ok_inj in H. subst m. constructor.
  - inversion S as [|? ? Sb Sr]; subst.
    assert (K : forall sk' vc' png' icon',
               (x <- FlacMeta.Blocks.write_block (match r with [] => true | _ => false end) b ;; y <- FlacMeta.BlockList.write_rest sk' vc' png' icon' r ;; Ok (x ++ y))%res = Ok m ->
               Forall mbyte m).
    { intros sk' vc' png' icon' H'. apply bind_ok in H'. destruct H' as (x & Hx & H'). apply bind_ok in H'. destruct H' as (y & Hy & H').
      apply ok_inj in H'. subst m. apply Forall_app. split; [exact (write_block_simple_bytes _ _ _ Sb Hx)|exact (IH _ _ _ _ _ Sr Hy)]. }
    destruct b as [s|n|a|l|v|c|x]; cbn [simple] in Sb; try contradiction; try discriminate.
    + eapply K; exact H.
    + eapply K; exact H.
    + destruct sk; [discriminate|]. eapply K; exact H.
Qed.

Lemma write_blocks_simple_bytes l m : Forall simple l -> FlacMeta.BlockList.write_blocks l = Ok m -> Forall mbyte m.
Proof.
  intros S H. unfold FlacMeta.BlockList.write_blocks in H. destruct l as [|[s|n|a|pts|v|c|x] r]; try discriminate.
  inversion S as [|? ? Sb Sr]; subst.
  apply bind_ok in H. destruct H as (x & Hx & H). apply bind_ok in H. destruct H as (y & Hy & H). apply ok_inj in H. subst m.
  rewrite !Forall_app. repeat split.
  - repeat constructor.
  - exact (write_block_simple_bytes _ _ _ Sb Hx).
  - exact (write_rest_simple_bytes _ _ _ _ _ _ Sr Hy).
Qed.

Lemma convB_simple b : simple (convB b).
Proof. destruct b; exact I. Qed.

(* ---- the finished file *)
Theorem sample_written_file_is_bytes : forall o L md5, (forall l, length (md5 l) = 16%nat) -> (forall l, Forall (fun b => b < 256) (md5 l)) ->
  forall p wo rate bps ch total w chunks f,
  options_wf wo -> Forall plain (o_metadata wo) -> seektables (o_metadata wo) = 0%nat ->
  sample_new p [] wo rate bps ch total = Ok w ->
  sample_run (FlacE2E.E2E.encB o L rate bps) md5 p w chunks = Ok f -> counters_fit (f_enc f) ->
  Forall mbyte (f_stream f).
Proof.
  intros o L md5 Hmd5 Hmd5b p wo rate bps ch total w chunks f Hwf Hpl Hs0 Hnew Hrun Hfit.
  destruct (sample_writer_file_typed (FlacE2E.E2E.encB o L rate bps) md5 Hmd5 Hmd5b p (fun _ => true) wo rate bps ch total w chunks f
              Hwf Hpl Hs0 Hnew Hrun Hfit) as (meta' & Hs & Hw & T & _).
  rewrite Hs. apply Forall_app. split.
  - refine (write_blocks_simple_bytes _ _ _ Hw). constructor.
    + inversion T as [|? ? Tsi _]; subst. cbn [ty_block] in Tsi. unfold ty_streaminfo in Tsi.
      cbn [simple]. destruct (FlacMeta.Blocks.si_md5 (convM (f_si f))); [|exact I].
      destruct Tsi as (_ & _ & _ & _ & _ & _ & _ & _ & _ & Hm). exact Hm.
    + apply Forall_forall. intros b Hb. apply in_map_iff in Hb. destruct Hb as (b0 & <- & _). apply convB_simple.
  - destruct (FlacE2E.E2E.e2e_sample_writer o L md5 Hmd5 p rate bps wo ch total w chunks f Hnew Hrun) as (bl & Hr & _).
    destruct (FlacE2E.E2E.reach_inv o L md5 Hmd5 p rate bps _ _ _ Hr) as (_ & _ & _ & _ & _ & _ & _ & _ & _ & bytes & Hb & Hf).
    assert (He0 : exists t, encoder_new p [] wo rate bps ch t = Ok (sw_enc w)).
    { pose proof Hnew as Hn. unfold sample_new in Hn. apply bind_ok in Hn. destruct Hn as (b' & Hb' & Hn).
      apply bind_ok in Hn. destruct Hn as (t & _ & Hn). apply bind_ok in Hn. destruct Hn as (e0 & He0 & Hn).
      assert (Ew : sw_enc w = e0) by (injection Hn as <-; reflexivity). rewrite Ew.
      assert (Eb : b' = bps). { unfold signed_bit_count_32 in Hb'. destruct (_ && _); [injection Hb' as <-; reflexivity|discriminate]. }
      subst b'. exists t. exact He0. }
    destruct He0 as [t He0].
    destruct (FlacE2E.E2E.encoder_new_fresh p rate bps wo ch t _ He0) as (_ & F0 & _).
    rewrite Hf. unfold frames_bytes at 1. rewrite F0. cbn [rev concat app].
    exact (enc_blocks_bytes _ _ _ _ _ _ _ Hb).
Qed.

(* the other two front-ends, by equality of runs *)
Theorem byte_written_file_is_bytes : forall o L md5, (forall l, length (md5 l) = 16%nat) -> (forall l, Forall (fun b => b < 256) (md5 l)) ->
  forall p en wo rate bps ch tb wb chunks f,
  options_wf wo -> Forall plain (o_metadata wo) -> seektables (o_metadata wo) = 0%nat ->
  byte_new p en [] wo rate bps ch tb = Ok wb -> Forall byte_ok (concat chunks) ->
  byte_run (FlacE2E.E2E.encB o L rate bps) md5 p wb chunks = Ok f -> counters_fit (f_enc f) ->
  Forall mbyte (f_stream f).
Proof.
  intros o L md5 H1 H2 p en wo rate bps ch tb wb chunks f Hwf Hpl Hs0 Hnew Hbytes Hrun Hfit.
  destruct (FlacE2E.Transfer.byte_new_sample_new p en wo rate bps ch tb wb Hnew) as (ts & ws & Hs & Et).
  rewrite (byte_writer_is_sample_writer (FlacE2E.E2E.encB o L rate bps) md5 p en wo rate bps ch tb ts wb ws chunks Hwf Hnew Hs Et Hbytes) in Hrun.
  exact (sample_written_file_is_bytes o L md5 H1 H2 p wo rate bps ch ts ws _ f Hwf Hpl Hs0 Hs Hrun Hfit).
Qed.

Theorem channel_written_file_is_bytes : forall o L md5, (forall l, length (md5 l) = 16%nat) -> (forall l, Forall (fun b => b < 256) (md5 l)) ->
  forall p wo rate bps ch tc wc chunks f,
  options_wf wo -> Forall plain (o_metadata wo) -> seektables (o_metadata wo) = 0%nat ->
  channel_new p [] wo rate bps ch tc = Ok wc -> Forall (chunk_ok (N.to_nat ch)) chunks ->
  channel_run (FlacE2E.E2E.encB o L rate bps) md5 p wc chunks = Ok f -> counters_fit (f_enc f) ->
  Forall mbyte (f_stream f).
Proof.
  intros o L md5 H1 H2 p wo rate bps ch tc wc chunks f Hwf Hpl Hs0 Hnew Hchunks Hrun Hfit.
  destruct (FlacE2E.Transfer.channel_new_sample_new p wo rate bps ch tc wc Hnew) as (ts & ws & Hs & Et).
  rewrite (channel_writer_is_sample_writer (FlacE2E.E2E.encB o L rate bps) md5 p wo rate bps ch tc ts wc ws chunks Hwf Hnew Hs Et Hchunks) in Hrun.
  exact (sample_written_file_is_bytes o L md5 H1 H2 p wo rate bps ch ts ws _ f Hwf Hpl Hs0 Hs Hrun Hfit).
Qed.
