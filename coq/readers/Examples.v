(* readers/Examples.v — a concrete valid file and concrete histories (non-vacuity of the hypotheses
   of the C06 / C07 theorems), and the three defects of the original revision as computations. *)
From FlacReaders Require Import Spec Lists_proofs.
Open Scope N_scope.

(* 2 channels, 16 bit, frames of 3, 3 and 2 PCM frames, a seek table with a point at frame 0 and at
   frame 2 (sample 6) and a trailing placeholder *)
Definition ex_slots : list slot :=
  [SFrame [[1; 2; 3]; [-1; -2; -3]]%Z; SFrame [[4; 5; 6]; [-4; -5; -6]]%Z; SFrame [[700; 8]; [-700; -8]]%Z].

Definition ex_file (rev : revision) : file :=
  {| f_slots := ex_slots; f_channels := 2; f_bps := 16; f_total := Some 8;
     f_table := Some [Defined 0 0; Defined 6 2; Placeholder];
     f_seekable := true; f_endian := LE; f_profile := Debug; f_usize_bits := 64; f_rev := rev |}.

Lemma ex_file_valid : valid_file (ex_file Repaired).
Proof.
  constructor; cbn; try lia; try reflexivity.
  - split; vm_compute; congruence.
  - repeat constructor; eexists; (split; [reflexivity|]); (split; [reflexivity|]);
      (split; [reflexivity|]); repeat constructor.
  - intros o i [H|[H|[H|[]]]]; inversion H; subst; vm_compute; split; congruence.
Qed.

Definition ex_sample_ops : list sop :=
  [SRead 4; SFill; SConsume 1; SRead 0; SNext; SFill; SConsume 6; SRead 100; SRead 5; SFill; SNext; SRead 1].

Definition ex_seek_ops : list sop :=
  [SRead 5; SSeek 7; SFill; SSeek 2; SRead 3; SSeek 8; SFill; SSeek 9; SFill; SSeek 0; SNext].

Definition ex_byte_ops : list bop :=
  [BRead 5; BSeek (End_ (-4)); BFill; BSeek (Current (-27)); BRead 3; BSeek (Current 0); BSeek (Start 33);
   BRead 2; BSeek (End_ 0); BFill; BSeek (Current (-33)); BSeek (End_ 1)].

Definition ex_chan_ops : list cop :=
  [CFill; CConsume 2; CFill; CSeek 7; CFill; CConsume 1; CFill; CFill; CSeek 4; CFill; CSeek 9; CFill].

(* evaluate a concrete history and check the op preconditions entry by entry *)
Ltac forall_trace :=
  match goal with
  | |- Forall ?P ?t =>
      let t' := eval vm_compute in t in
      change (Forall P t');
      repeat (apply Forall_cons; [cbv [sop_ok bop_ok cop_ok seekfrom_ok]; try exact I; vm_compute; try exact I; try reflexivity; try (split; congruence); try congruence|]);
      apply Forall_nil
  end.
