(* Codec/Stream.v — the stream level: minimal metadata reading (fLaC tag, STREAMINFO first,
   other blocks skipped), Decoder::read_frame (decode.rs:1382-1430) iterated to the end, and
   FlacStreamReader::read (decode.rs:1169-1234) over a raw frame stream. *)
From FlacCodec Require Export Dec.
Open Scope N_scope.

Fixpoint be_num (l : list N) (acc : N) : N := match l with [] => acc | b :: r => be_num r (acc * 256 + b) end.

(* STREAMINFO body (34 bytes): 16,16,24,24 | 20 rate, 3 channels-1, 5 bps-1, 36 total | md5 *)
Definition parse_streaminfo (b : list N) : option streaminfo :=
  if negb (length b =? 34)%nat then None else
  let s := bits_of_bytes b in
  match rd 16 s with Some (minb, s) =>
  match rd 16 s with Some (maxb, s) =>
  match rd 24 s with Some (minf, s) =>
  match rd 24 s with Some (maxf, s) =>
  match rd 20 s with Some (rate, s) =>
  match rd 3 s with Some (ch, s) =>
  match rd 5 s with Some (bps, s) =>
  match rd 36 s with Some (total, s) =>
    Some {| si_min_bs := minb; si_max_bs := maxb; si_min_fs := minf; si_max_fs := maxf;
            si_rate := rate; si_channels := ch + 1; si_bps := bps + 1; si_total := total;
            si_md5 := skipn 18 b |}
  | None => None end | None => None end | None => None end | None => None end
  | None => None end | None => None end | None => None end | None => None end.

(* skip metadata blocks after STREAMINFO until the one flagged last; fuel = number of bytes *)
Fixpoint skip_blocks (fuel : nat) (last : bool) (b : list N) : option (list N) :=
  if last then Some b else
  match fuel with
  | O => None
  | S f => match b with
           | hd :: l1 :: l2 :: l3 :: rest =>
               let len := N.to_nat (be_num [l1; l2; l3] 0) in
               if (length rest <? len)%nat then None
               else skip_blocks f (128 <=? hd) (skipn len rest)
           | _ => None
           end
  end.
Definition read_metadata_min (b : list N) : option (streaminfo * list N) :=
  match b with
  | 102 :: 76 :: 97 :: 67 :: hd :: 0 :: 0 :: 34 :: rest =>       (* "fLaC", block type 0, length 34 *)
      if negb ((hd =? 0) || (hd =? 128)) then None else
      match parse_streaminfo (firstn 34 rest) with
      | Some si => match skip_blocks (length rest) (128 <=? hd) (skipn 34 rest) with
                   | Some audio => Some (si, audio) | None => None end
      | None => None
      end
  | _ => None
  end.

Definition interleave_frame (chans : list (list Z)) : list Z :=
  (fix go (n : nat) (cs : list (list Z)) : list Z :=
     match n with O => [] | S k =>
       if existsb (fun c => match c with [] => true | _ => false end) cs then []
       else map (hd 0%Z) cs ++ go k (map (@tl Z) cs) end) (match chans with c :: _ => length c | [] => O end) chans.

Section Stream.

  (* one Decoder::read_frame step: None = end of stream *)
  Definition read_frame (si : streaminfo) (current : N) (bytes : list N)
    : res (option (list (list Z) * N * list N)) :=
    if si_total si =? 0 then
      (* unknown total: an EOF before the first header byte is the end of the stream (repo fix a9b7cf4) *)
      match bytes with
      | [] => Ok None
      | _ => '(h, chans, rest) <- dec_frame (Some si) (fun _ => Ok tt) bytes ;;
             Ok (Some (chans, current + h_bs h, rest))
      end
    else
      (* total.get().checked_sub(current_sample).ok_or(TooManySamples)   (repo fix 1ddf45d) *)
      if si_total si <? current then Err ETooManySamples else
      let remaining := (Z.of_N (si_total si) - Z.of_N current)%Z in
      if (remaining =? 0)%Z then Ok None else
      '(h, chans, rest) <- dec_frame (Some si)
          (fun h => if (Z.of_N (h_bs h) =? remaining)%Z || (14 <? h_bs h) then Ok tt else Err EShortBlock) bytes ;;
      Ok (Some (chans, current + h_bs h, rest)).

  (* decode a whole stream; result: frames delivered (interleaved) and how it ended *)
  Inductive stream_end := EndEof | EndErr (e : err) | EndPanic (k : panic_kind).
  Fixpoint dec_frames (fuel : nat) (si : streaminfo) (current : N) (bytes : list N) (acc : list (list Z))
    : list (list Z) * stream_end :=
    match fuel with
    | O => (rev acc, EndPanic PFuel)
    | S f => match read_frame si current bytes with
             | Ok None => (rev acc, EndEof)
             | Ok (Some (chans, cur', rest)) => dec_frames f si cur' rest (interleave_frame chans :: acc)
             | Err e => (rev acc, EndErr e)
             | Panic k => (rev acc, EndPanic k)
             end
    end.
  Definition dec_stream (file : list N) : option (streaminfo * list (list Z) * stream_end) :=
    match read_metadata_min file with
    | None => None
    | Some (si, audio) => let '(frames, e) := dec_frames (S (length audio)) si 0 audio [] in Some (si, frames, e)
    end.

  (* a clean raw frame stream (FlacStreamWriter output) read frame by frame with read_subset
     headers; the sync-scanning of FlacStreamReader::read over garbage is not modelled here *)
  Fixpoint dec_subset_frames (fuel : nat) (bytes : list N) (acc : list (header * list Z))
    : list (header * list Z) * stream_end :=
    match fuel with
    | O => (rev acc, EndPanic PFuel)
    | S f => match bytes with
             | [] => (rev acc, EndErr EEof)
             | _ => match dec_frame None (fun _ => Ok tt) bytes with
                    | Ok (h, chans, rest) => dec_subset_frames f rest ((h, interleave_frame chans) :: acc)
                    | Err e => (rev acc, EndErr e)
                    | Panic k => (rev acc, EndPanic k)
                    end
             end
    end.
End Stream.
