(* Codec/Ast.v — syntax tree of a FLAC frame (the shape of stream::Frame) and STREAMINFO. *)
From FlacCodec Require Export Num.

Record streaminfo := {
  si_min_bs : N; si_max_bs : N; si_min_fs : N; si_max_fs : N;
  si_rate : N; si_channels : N; si_bps : N; si_total : N; si_md5 : list N }.

(* frame header: codes as written plus decoded values *)
Record header := {
  h_variable : bool;      (* blocking strategy bit *)
  h_bs_code : N;          (* 4-bit block size code *)
  h_bs : N;               (* block size in samples *)
  h_rate_code : N;        (* 4-bit sample rate code *)
  h_rate : N;             (* sample rate in Hz *)
  h_assign : N;           (* 4-bit channel assignment code: 0..7 independent n+1, 8 L/S, 9 S/R, 10 M/S *)
  h_bps_code : N;         (* 3-bit sample size code *)
  h_bps : N;              (* bits per sample *)
  h_number : N            (* frame or sample number *)
}.

Definition assign_channels (a : N) : N := if (a <? 8)%N then (a + 1)%N else 2%N.

Inductive part :=
| PRice (k : N) (rs : list Z)        (* Rice-coded partition with parameter k *)
| PEsc (w : N) (rs : list Z)         (* escaped partition, w >= 1 bits per residual *)
| PZero (n : nat).                   (* escaped partition with 0 bits: n zero residuals *)

Record residual := { r_method : N (* 0 = 4-bit Rice parameters, 1 = 5-bit *); r_parts : list part }.

Inductive body :=
| BConst (v : Z)
| BVerb (xs : list Z)
| BFixed (order : N) (warm : list Z) (r : residual)
| BLpc (order : N) (warm : list Z) (prec : N) (shift : N) (coefs : list Z) (r : residual).

Record subframe := { sf_wasted : N; sf_body : body }.
Record frame := { f_hdr : header; f_subs : list subframe }.

Definition part_residuals (p : part) : list Z :=
  match p with PRice _ rs => rs | PEsc _ rs => rs | PZero n => repeat 0%Z n end.
Definition residual_values (r : residual) : list Z := flat_map part_residuals (r_parts r).
