(* Base/Res.v — three-valued results and the bit-parser monad.
   Ok: a value; Err: a reported error (flac_codec::Error class); Panic: the Rust
   code would panic (overflow trap, unwrap, chunk size 0, ...). *)
From Coq Require Export List NArith ZArith Bool Lia.
Export ListNotations.

Inductive err :=
| EEof            (* std::io::ErrorKind::UnexpectedEof *)
| EIo             (* any other io error *)
| ESync | EBlockSize | ESampleRate | ENonSubsetRate | ENonSubsetBps
| EChannels | EBps | EFrameNumber | ECrc8 | ECrc16
| EBlockSizeMismatch | ERateMismatch | EChannelsMismatch | EBpsMismatch
| EShortBlock | ESubframeHeader | ESubframeType | EWastedBits
| ECodingMethod | EPartitionOrder | EFixedOrder | ELpcOrder | EQlpPrecision
| ENegativeShift | ETooManySamples | EResidualOverflow | EOther.

Inductive panic_kind := POverflow | PDivZero | PChunkZero | PUnwrap | PCapacity | PSlice | PAssert | PFuel.

Inductive res (A : Type) :=
| Ok (a : A)
| Err (e : err)
| Panic (k : panic_kind).
Arguments Ok {A} a.
Arguments Err {A} e.
Arguments Panic {A} k.

Definition bind {A B} (x : res A) (f : A -> res B) : res B :=
  match x with Ok a => f a | Err e => Err e | Panic k => Panic k end.
Definition rmap {A B} (f : A -> B) (x : res A) : res B := bind x (fun a => Ok (f a)).

Declare Scope res_scope.
Delimit Scope res_scope with res.
Notation "x <- a ;; b" := (bind a (fun x => b)) (at level 61, a at next level, right associativity) : res_scope.
Notation "' p <- a ;; b" := (bind a (fun p => b)) (at level 61, p pattern, a at next level, right associativity) : res_scope.
Open Scope res_scope.

Definition is_ok {A} (x : res A) : bool := match x with Ok _ => true | _ => false end.
Definition is_panic {A} (x : res A) : bool := match x with Panic _ => true | _ => false end.
Definition is_err {A} (x : res A) : bool := match x with Err _ => true | _ => false end.

Lemma bind_ok {A B} (x : res A) (f : A -> res B) b :
  bind x f = Ok b -> exists a, x = Ok a /\ f a = Ok b.
Proof. destruct x; cbn; intros H; try discriminate; eauto. Qed.

Lemma bind_not_panic {A B} (x : res A) (f : A -> res B) :
  is_panic x = false -> (forall a, x = Ok a -> is_panic (f a) = false) -> is_panic (bind x f) = false.
Proof. destruct x; cbn; intros; auto. Qed.

Definition of_option {A} (e : err) (o : option A) : res A :=
  match o with Some a => Ok a | None => Err e end.
