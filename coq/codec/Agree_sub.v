(* Codec/Agree_sub.v — on every well-formed, RFC-valid subframe the streaming decoder
   (decode.rs read_subframe, Release arithmetic) returns exactly the samples the format defines. *)
From FlacCodec Require Import Parser_proofs Dec Spec Roundtrip_sub Agree_arith Agree_layout.
Open Scope N_scope.

Lemma encodes_dec_partitions method : forall parts,
  forallb (wf_part method) parts = true ->
  encodes (dec_partitions method (map part_len parts))
          (flat_map (write_part method) parts) (flat_map part_residuals parts).
Proof.
  induction parts as [|pt parts IH]; intros H; cbn [map dec_partitions flat_map].
  - apply encodes_ret.
  - cbn [forallb] in H. apply andb_prop in H. destruct H as [Hp Hps].
    pose proof (encodes_partition method pt Hp) as E.
    intros r. rewrite <- app_assoc.
    unfold encodes, pbind in E. specialize (E (flat_map (write_part method) parts ++ r)). cbv beta in E.
    unfold pbind.
    destruct (p_part_header method (write_part method pt ++ flat_map (write_part method) parts ++ r)) as [[h s1]| |]; try discriminate.
    destruct (p_partition h (part_len pt) s1) as [[rs s2]| |] eqn:Ep; try discriminate.
    unfold pret in E. injection E as E1 E2. rewrite E2. rewrite (IH Hps r). unfold pret.
    f_equal. f_equal. f_equal.
    destruct h as [k|w|].
    + rewrite <- E1. reflexivity.
    + rewrite <- E1. reflexivity.
    + cbn [p_partition] in Ep. unfold pret in Ep. injection Ep as Ers _. subst rs.
      destruct pt as [k rs|w rs|n]; try discriminate.
      unfold part_len. cbn [part_residuals]. rewrite repeat_length. reflexivity.
Qed.

Lemma spec_residual_facts bs order r : spec_residual bs order r = true ->
  let po := N.log2 (N.of_nat (length (r_parts r))) in
  bs mod 2 ^ po = 0 /\ order < bs / 2 ^ po.
Proof.
  unfold spec_residual. intros H. apply andb_prop in H. destruct H as [H _].
  apply andb_prop in H. destruct H as [H1 H2]. apply N.eqb_eq in H1. apply N.ltb_lt in H2. auto.
Qed.

Lemma encodes_dec_residuals bs order r :
  wf_residual bs order r = true -> spec_residual bs order r = true ->
  encodes (dec_residuals (N.to_nat order) (N.to_nat bs - N.to_nat order)) (write_residual r) (residual_values r).
Proof.
  intros Hwf Hsp. destruct (spec_residual_facts _ _ _ Hsp) as [Hdiv Hord].
  unfold wf_residual in Hwf.
  apply andb_prop in Hwf. destruct Hwf as [H Hparts]. apply andb_prop in H. destruct H as [H Hlens].
  apply andb_prop in H. destruct H as [H _]. apply andb_prop in H. destruct H as [Hm Hpo].
  apply N.ltb_lt in Hm. apply N.ltb_lt in Hpo.
  apply lens_eqb_spec in Hlens.
  destruct (layout_agree _ _ _ _ Hdiv Hord Hlens) as (L1 & L2 & L3). cbv zeta in L1, L2, L3.
  unfold dec_residuals, write_residual, residual_values.
  set (po := N.log2 (N.of_nat (length (r_parts r)))) in *.
  eapply encodes_bind. { apply encodes_rd. change (2 ^ N.of_nat 2) with 4. lia. }
  eapply encodes_bind_nil. { apply encodes_guard. apply N.ltb_lt. exact Hm. }
  eapply encodes_bind. { apply encodes_rd. change (2 ^ N.of_nat 4) with 16. exact Hpo. }
  assert (En : (N.to_nat order + (N.to_nat bs - N.to_nat order))%nat = N.to_nat bs).
  { assert (order < bs); [|lia]. eapply N.lt_le_trans; [exact Hord|]. apply N.div_le_upper_bound; [apply N.pow_nonzero; discriminate|].
    assert (2 ^ po <> 0) by (apply N.pow_nonzero; discriminate). nia. }
  rewrite En.
  eapply encodes_bind_nil. { apply encodes_guard. apply Nat.eqb_eq. exact L1. }
  rewrite L2.
  eapply encodes_bind_nil. { apply encodes_guard. apply Nat.eqb_eq. exact L3. }
  apply encodes_dec_partitions. exact Hparts.
Qed.

Lemma encodes_bind_r {A B} (p : P A) (f : A -> P B) w x y :
  encodes p w x -> encodes (f x) [] y -> encodes (pbind p f) w y.
Proof. intros H1 H2. rewrite <- (app_nil_r w). eapply encodes_bind; eauto. Qed.

(* ---- range helpers ---- *)
Lemma fits_range n z : fits n z = true -> 1 <= n /\ (- 2 ^ (Z.of_N n - 1) <= z < 2 ^ (Z.of_N n - 1))%Z.
Proof.
  unfold fits. intros H. apply andb_prop in H. destruct H as [H H3]. apply andb_prop in H. destruct H as [H1 H2].
  apply N.leb_le in H1. apply Z.leb_le in H2. apply Z.ltb_lt in H3. auto.
Qed.
Lemma fits_in_s n w z : fits n z = true -> (Z.of_N n <= w)%Z -> in_s w z = true.
Proof.
  intros H Hw. apply fits_range in H. destruct H as [H1 H2]. apply in_s_spec.
  assert (2 ^ (Z.of_N n - 1) <= 2 ^ (w - 1))%Z by (apply Z.pow_le_mono_r; lia). lia.
Qed.
Lemma fits_small_x n z : fits n z = true -> n <= 33 -> small_x z.
Proof.
  intros H Hn. apply fits_range in H. destruct H as [H1 H2]. unfold small_x.
  assert (2 ^ (Z.of_N n - 1) <= 2 ^ 32)%Z by (apply Z.pow_le_mono_r; lia). lia.
Qed.
Lemma fits_small_c n z : fits n z = true -> n <= 15 -> small_c z.
Proof.
  intros H Hn. apply fits_range in H. destruct H as [H1 H2]. unfold small_c.
  assert (2 ^ (Z.of_N n - 1) <= 2 ^ 14)%Z by (apply Z.pow_le_mono_r; lia). lia.
Qed.
Lemma fits_shifted n k w z : fits n z = true -> (Z.of_N n + Z.of_N k <= w)%Z ->
  wrap_s w (z * 2 ^ Z.of_N k) = (z * 2 ^ Z.of_N k)%Z.
Proof.
  intros H Hw. apply fits_range in H. destruct H as [H1 H2].
  apply wrap_s_id; [lia|]. apply in_s_spec.
  assert (E : (2 ^ (Z.of_N n - 1) * 2 ^ Z.of_N k = 2 ^ (Z.of_N n - 1 + Z.of_N k))%Z) by (rewrite Z.pow_add_r; lia).
  assert (2 ^ (Z.of_N n - 1 + Z.of_N k) <= 2 ^ (w - 1))%Z by (apply Z.pow_le_mono_r; lia).
  assert (0 < 2 ^ Z.of_N k)%Z by (apply Z.pow_pos_nonneg; lia).
  nia.
Qed.
Lemma forallb_Forall {A} (f : A -> bool) (P : A -> Prop) l :
  (forall x, f x = true -> P x) -> forallb f l = true -> Forall P l.
Proof. intros H Hf. rewrite forallb_forall in Hf. apply Forall_forall. auto. Qed.

Lemma fixed_coeffs_small o : Forall small_c (fixed_coeffs o) /\ (length (fixed_coeffs o) <= 32)%nat.
Proof.
  unfold fixed_coeffs, small_c.
  destruct o as [|[[[]|[]|]|[[]|[]|]|]]; cbn [length]; (split; [|lia]);
    repeat constructor; cbn; lia.
Qed.

Definition width_ok (w : Z) (bps : N) : Prop := (w = 32%Z /\ bps <= 32) \/ (w = 64%Z /\ bps <= 33).

Theorem dec_subframe_agree bs bps w sf :
  width_ok w bps -> wf_subframe bs bps sf = true -> spec_subframe bs bps sf = true ->
  encodes (dec_subframe w bps (N.to_nat bs)) (write_subframe bps sf) (sem_subframe bs sf).
Proof.
  intros Hwid Hwf Hsp. unfold wf_subframe in Hwf.
  apply andb_prop in Hwf. destruct Hwf as [H Hbody]. apply andb_prop in H. destruct H as [Hb Hw].
  apply N.leb_le in Hb. apply N.leb_le in Hw.
  unfold spec_subframe in Hsp. apply andb_prop in Hsp. destruct Hsp as [Hfit Hres].
  destruct sf as [wasted b]. cbn [sf_wasted sf_body] in *.
  unfold dec_subframe, write_subframe, sem_subframe. cbn [sf_wasted sf_body].
  assert (Hw32 : (w = 32 \/ w = 64)%Z) by (destruct Hwid as [[? _]|[? _]]; auto).
  assert (Hbw : (Z.of_N bps <= w)%Z) by (destruct Hwid as [[-> ?]|[-> ?]]; lia).
  assert (Hb33 : bps <= 33) by (destruct Hwid as [[_ ?]|[_ ?]]; lia).
  set (eb := bps - wasted) in *.
  assert (Hty : type_ok b = true).
  { destruct b; cbn [type_ok wf_body] in *; auto.
    - repeat (apply andb_prop in Hbody; destruct Hbody as [Hbody ?]). assumption.
    - repeat (apply andb_prop in Hbody; destruct Hbody as [Hbody ?]). apply andb_true_intro. split; assumption. }
  pose proof (encodes_subframe_header b wasted Hty) as Hh.
  (* the final shift by the wasted bits *)
  assert (Hfinal : forall xs, forallb (fits eb) xs = true ->
     (if wasted =? 0 then pret xs else pret (map (fun x => wrap_s w (x * 2 ^ Z.of_N wasted)) xs)) =
     pret (map (fun x => (x * 2 ^ Z.of_N wasted)%Z) xs)).
  { intros xs Hxs. destruct (N.eqb_spec wasted 0) as [->|Hw0].
    - f_equal. cbn. rewrite <- (map_id xs) at 1. apply map_ext. intros. lia.
    - f_equal. apply map_ext_in. intros x Hx. rewrite forallb_forall in Hxs.
      apply (fits_shifted eb wasted w x (Hxs x Hx)). unfold eb. lia. }
  destruct b as [v|xs|o warm r|o warm prec shift coefs r]; cbn [type_code type_of wf_body sem_body] in *.
  - (* CONSTANT *)
    eapply encodes_bind; [exact Hh|]. cbv beta iota.
    eapply encodes_bind_nil; [apply encodes_lift, effective_bps_ok; assumption|].
    rewrite <- (app_nil_r (wr_s _ v)). eapply encodes_bind.
    { eapply encodes_bind_r; [apply encodes_fits; exact Hbody|]. apply encodes_ret. }
    rewrite (Hfinal _ Hfit). apply encodes_ret.
  - (* VERBATIM *)
    apply andb_prop in Hbody. destruct Hbody as [HL Hxs]. apply Nat.eqb_eq in HL.
    eapply encodes_bind; [exact Hh|]. cbv beta iota.
    eapply encodes_bind_nil; [apply encodes_lift, effective_bps_ok; assumption|].
    rewrite <- (app_nil_r (flat_map _ xs)). rewrite <- HL.
    eapply encodes_bind; [apply encodes_fits_list; exact Hxs|].
    rewrite (Hfinal _ Hfit). apply encodes_ret.
  - (* FIXED *)
    apply andb_prop in Hbody. destruct Hbody as [Hbody Hwr].
    apply andb_prop in Hbody. destruct Hbody as [Hbody Hwarm].
    apply andb_prop in Hbody. destruct Hbody as [Ho4 HL]. apply Nat.eqb_eq in HL. apply N.leb_le in Ho4.
    destruct (spec_residual_facts _ _ _ Hres) as [Hdiv Hord].
    assert (Hon : (N.to_nat o <= N.to_nat bs)%nat).
    { assert (o < bs); [|lia]. eapply N.lt_le_trans; [exact Hord|]. apply N.div_le_upper_bound; [apply N.pow_nonzero; discriminate|].
      assert (2 ^ N.log2 (N.of_nat (length (r_parts r))) <> 0) by (apply N.pow_nonzero; discriminate). nia. }
    eapply encodes_bind; [exact Hh|]. cbv beta iota.
    eapply encodes_bind_nil; [apply encodes_lift, effective_bps_ok; assumption|].
    eapply encodes_bind_r.
    { eapply encodes_bind_nil; [apply encodes_guard, Nat.leb_le; exact Hon|].
      rewrite <- HL at 1. eapply encodes_bind; [apply encodes_fits_list; exact Hwarm|].
      rewrite <- (app_nil_r (write_residual r)).
      eapply encodes_bind; [apply encodes_dec_residuals; assumption|].
      apply encodes_lift. apply predict_release; auto; try lia; try apply fixed_coeffs_small.
      + apply Forall_rev. eapply forallb_Forall; [|exact Hwarm]. intros x Hx. eapply fits_small_x; [exact Hx|unfold eb; lia].
      + rewrite predict_z_split, rev_involutive, forallb_app in Hfit. apply andb_prop in Hfit. destruct Hfit as [_ Hfit].
        eapply forallb_Forall; [|exact Hfit]. intros x Hx. split.
        * eapply fits_in_s; [exact Hx|unfold eb; lia].
        * eapply fits_small_x; [exact Hx|unfold eb; lia]. }
    rewrite (Hfinal _ Hfit). apply encodes_ret.
  - (* LPC *)
    apply andb_prop in Hbody. destruct Hbody as [Hbody Hwr].
    apply andb_prop in Hbody. destruct Hbody as [Hbody Hcoefs].
    apply andb_prop in Hbody. destruct Hbody as [Hbody HLc]. apply Nat.eqb_eq in HLc.
    apply andb_prop in Hbody. destruct Hbody as [Hbody Hshift]. apply N.leb_le in Hshift.
    apply andb_prop in Hbody. destruct Hbody as [Hbody Hp2]. apply N.leb_le in Hp2.
    apply andb_prop in Hbody. destruct Hbody as [Hbody Hp1]. apply N.leb_le in Hp1.
    apply andb_prop in Hbody. destruct Hbody as [Hbody Hwarm].
    apply andb_prop in Hbody. destruct Hbody as [Hbody HL]. apply Nat.eqb_eq in HL.
    apply andb_prop in Hbody. destruct Hbody as [Ho1 Ho32]. apply N.leb_le in Ho1. apply N.leb_le in Ho32.
    destruct (spec_residual_facts _ _ _ Hres) as [Hdiv Hord].
    assert (Hon : (N.to_nat o <= N.to_nat bs)%nat).
    { assert (o < bs); [|lia]. eapply N.lt_le_trans; [exact Hord|]. apply N.div_le_upper_bound; [apply N.pow_nonzero; discriminate|].
      assert (2 ^ N.log2 (N.of_nat (length (r_parts r))) <> 0) by (apply N.pow_nonzero; discriminate). nia. }
    eapply encodes_bind; [exact Hh|]. cbv beta iota.
    eapply encodes_bind_nil; [apply encodes_lift, effective_bps_ok; assumption|].
    eapply encodes_bind_r.
    { eapply encodes_bind_nil; [apply encodes_guard, Nat.leb_le; exact Hon|].
      rewrite <- HL at 1. eapply encodes_bind; [apply encodes_fits_list; exact Hwarm|].
      eapply encodes_bind; [apply precision_roundtrip; assumption|].
      eapply encodes_bind; [apply shift_roundtrip; assumption|].
      rewrite <- HLc at 1. eapply encodes_bind; [apply encodes_fits_list; exact Hcoefs|].
      rewrite <- (app_nil_r (write_residual r)).
      eapply encodes_bind; [apply encodes_dec_residuals; assumption|].
      apply encodes_lift. apply predict_release; auto; try lia.
      + eapply forallb_Forall; [|exact Hcoefs]. intros x Hx. eapply fits_small_c; [exact Hx|lia].
      + apply Forall_rev. eapply forallb_Forall; [|exact Hwarm]. intros x Hx. eapply fits_small_x; [exact Hx|unfold eb; lia].
      + rewrite predict_z_split, rev_involutive, forallb_app in Hfit. apply andb_prop in Hfit. destruct Hfit as [_ Hfit].
        eapply forallb_Forall; [|exact Hfit]. intros x Hx. split.
        * eapply fits_in_s; [exact Hx|unfold eb; lia].
        * eapply fits_small_x; [exact Hx|unfold eb; lia]. }
    rewrite (Hfinal _ Hfit). apply encodes_ret.
Qed.
