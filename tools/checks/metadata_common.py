"""Shared by the checks of area `metadata` (C11, C12, C20): proof stage over coq/base +
coq/metadata, build of the extracted model driver, harness runs in both profiles, and the
model/implementation diff."""
import json
import os
import re
import shutil

import vlib
from vlib import VERIF, CACHE, sh

BASE = os.path.join(VERIF, "coq", "base")
AREA = os.path.join(VERIF, "coq", "metadata")
HARNESS = os.path.join(VERIF, "harness")
QFLAGS = "-Q ../base FlacBase -Q . FlacMeta"


def proof_stage(chk, requires, theorems, files, e2e_theorems=None):
    gen = os.path.join(VERIF, "tools", "gen_metadata.py")
    steps = ["python3 %s/tools/gen_crc.py %s %s/GenCrc.v" % (VERIF, vlib.REPO, BASE)]
    if os.path.exists(gen):
        steps.append("python3 %s %s %s/GenMeta.v" % (gen, vlib.REPO, AREA))
    if e2e_theorems:
        # the property also claims theorems of the composed development coq/e2emeta: writers' metadata model x this area's
        cq = lambda d: os.path.join(VERIF, "coq", d)
        steps.append("python3 %s/tools/gen_stream.py %s %s/GenStream.v" % (VERIF, vlib.REPO, cq("codec")))
        steps.append("python3 %s/tools/gen_writers.py %s %s/GenWriters.v" % (VERIF, vlib.REPO, cq("writers")))
        return vlib.proof_stage(
            chk, coq_dirs=[BASE, cq("codec"), cq("writers"), cq("readers"), cq("e2e"), AREA, cq("e2emeta")], build_dir=cq("e2emeta"),
            qflags="-Q ../base FlacBase -Q ../codec FlacCodec -Q ../writers FlacWriters -Q ../readers FlacReaders -Q ../e2e FlacE2E -Q ../metadata FlacMeta -Q . FlacE2EMeta",
            requires=["Coq.Lists.List", "Coq.NArith.NArith"] + requires + ["FlacE2EMeta.MetaBridge", "FlacE2EMeta.Props_E2EMeta"],
            theorems=theorems + e2e_theorems,
            obligation_files=[(AREA, files), (cq("e2emeta"), vlib.coq_files(cq("e2emeta")))], gen_steps=steps)
    return vlib.proof_stage(
        chk, coq_dirs=[BASE, AREA], build_dir=AREA, qflags=QFLAGS,
        requires=["Coq.Lists.List", "Coq.NArith.NArith"] + requires, theorems=theorems,
        obligation_files=[(AREA, files)], gen_steps=steps)


def build_driver(chk):
    mdir = os.path.join(CACHE, "ocaml", "metadata_" + vlib.repo_tag())
    os.makedirs(mdir, exist_ok=True)
    for f in ("metadata_model.ml", "metadata_model.mli"):
        shutil.copy(os.path.join(AREA, f), mdir)
    shutil.copy(os.path.join(VERIF, "ocaml", "metadata_driver.ml"), mdir)
    okb, exe, bout = vlib.ocaml_build(mdir, ["metadata_model.mli", "metadata_model.ml", "metadata_driver.ml"], "metadata_driver")
    if not okb:
        chk.broken_tie("ocaml-build", bout)
        return None
    return exe


def run_harness(chk, name, profile):
    """Build and run one harness binary; returns parsed JSON lines or None."""
    ok, binp, out = vlib.cargo_build(HARNESS, name, profile)
    if not ok:
        chk.broken_tie("harness-build:%s:%s" % (name, profile), out)
        return None
    rc, out = sh([binp], timeout=3000, env={"VERIF_SEED": str(chk.seed), "VERIF_TIER": chk.tier})
    if rc != 0:
        chk.broken_tie("harness-run:%s:%s" % (name, profile), out[-4000:])
        return None
    lines = []
    for ln in out.splitlines():
        if ln.startswith("{"):
            try:
                lines.append(json.loads(ln))
            except ValueError:
                chk.broken_tie("harness-output:%s:%s" % (name, profile), ln[:500])
                return None
    return lines


def run_model(chk, exe, cases):
    """cases: list of dicts with k, p, in.  Returns list of model result strings (or None)."""
    if not cases:
        return []
    inp = "\n".join(("%s %s %s" % (c["k"], c["p"], c["in"])).rstrip() for c in cases) + "\n"
    rc, out = sh([exe], stdin=inp, timeout=3000)
    res = out.split("\n")
    if rc != 0 or len(res) < len(cases):
        chk.broken_tie("model-run", "rc=%s lines=%d cases=%d %s" % (rc, len(res), len(cases), out[-1000:]))
        return None
    return res[:len(cases)]


def klass(obs):
    """ok / err / panic class of an observation string"""
    if obs.startswith("ok"):
        return "ok"
    if obs.startswith("err"):
        return "err"
    if obs.startswith("panic"):
        return "panic"
    return "?"


def diff_cases(chk, cases, model, stage, key_prefix="correspondence"):
    """Strict on class and on every payload of an ok result; soft on error variant.
    Returns (number of disagreements, number of soft variant differences)."""
    bad = soft = 0
    for c, m in zip(cases, model):
        exp = c["obs"]
        if exp == m:
            continue
        ke, km = klass(exp), klass(m)
        if ke == km and ke in ("err", "panic") and exp.split(" ")[1:] == m.split(" ")[1:]:
            # same class; compare the coarse variant the model distinguishes (Eof / Io / Other)
            if ke == "err" and ":" in exp.split(" ")[0] and ":" in m.split(" ")[0]:
                iv = exp.split(" ")[0].split(":", 1)[1]
                coarse = "Eof" if iv == "Io:UnexpectedEof" else ("Io" if iv.startswith("Io") else "Other")
                if coarse != m.split(" ")[0].split(":", 1)[1]:
                    soft += 1
            continue
        bad += 1
        if bad == 1:
            chk.violation("%s:%s" % (key_prefix, stage),
                          "model and implementation disagree on a %s case (profile %s): implementation %s, model %s" % (
                              c["k"], c["p"], exp[:300], m[:300]),
                          {"kind": c["k"], "profile": c["p"], "input": c["in"][:20000], "implementation": exp[:20000], "model": m[:20000]})
    return bad, soft


def vm_sample(chk, tag, defs, expected, requires):
    """Evaluate a small sample inside coqc with vm_compute and compare with `expected`
    (list of strings, compared after whitespace normalisation)."""
    vfile = os.path.join(CACHE, "assum", "MetaCases_%s_%s.v" % (tag, vlib.repo_tag()))
    os.makedirs(os.path.dirname(vfile), exist_ok=True)
    open(vfile, "w").write("\n".join("Require Import %s." % r for r in requires) + "\nOpen Scope N_scope.\n" + defs + "\n")
    rc, vout = sh("coqc -noglob %s %s" % (QFLAGS, vfile), cwd=AREA, timeout=600)
    if rc != 0:
        chk.broken_tie("vm-sample:" + tag, vout[-3000:])
        return False
    got = re.findall(r"@@(\d+)=\s*(.*?)\s*@@", " ".join(vout.split()))
    gotd = {int(i): v for i, v in got}
    okall = True
    for i, e in enumerate(expected):
        if gotd.get(i) != e:
            okall = False
            chk.violation("correspondence:vm:" + tag,
                          "vm_compute evaluation of the model disagrees with the implementation on sample %d: coq %r, implementation %r" % (i, gotd.get(i), e),
                          {"sample": i, "coq": gotd.get(i), "implementation": e})
            break
    return okall
