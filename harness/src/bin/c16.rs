//! C16 searcher: raw frame streams are self-describing; the stream reader fabricates no frame.
//!  * frames written by `FlacStreamWriter::write` with independently varying rate / channels /
//!    bits-per-sample / length; each frame decodes alone (FlacStreamReader and Frame::read_subset)
//!    and carries no STREAMINFO-referenced code;
//!  * a clean concatenation reads back exactly, in order;
//!  * garbage before / between / after frames: without the sync pattern `FF F8|F9` it must cost
//!    no frame; with sync-like bytes every returned frame must still be one of the written
//!    frames, in original order;
//!  * every segmentation of the BufRead source that was tried (all single split points and all
//!    1-byte reads of small sources, splits inside every sync code, random chunkings) gives
//!    the same result as the unsegmented source.
#[path = "c01_shared/mod.rs"]
mod shared;

use flac_codec::encode::{FlacStreamWriter, Options};
use flac_codec::stream::{BitsPerSample, Frame, SampleRate};
use shared::io::*;
use shared::space::*;
use shared::*;
use std::collections::BTreeMap;
use std::io::Cursor;
use vharness::json::{esc, ints, obj};
use vharness::*;

const SUBSET_BPS: &[u32] = &[8, 12, 16, 20, 24, 32];

fn subset_rate(rng: &mut Rng) -> u32 {
    loop {
        let r = pick_rate(rng);
        if rate_class(r) != "streaminfo" && r > 0 { return r; }
    }
}

struct Written {
    bytes: Vec<u8>,
    offsets: Vec<usize>,
    frames: Vec<SubsetFrame>,
}

fn write_frames(out: &mut Out, rng: &mut Rng, opts: Options, n: usize, max_len: usize, kinds: &[&str]) -> Option<Written> {
    let mut w = Written { bytes: vec![], offsets: vec![], frames: vec![] };
    let mut cur = Cursor::new(Vec::new());
    let mut sw = FlacStreamWriter::new(&mut cur, opts);
    for _ in 0..n {
        let ch = match rng.below(4) { 0 => 1u8, 1 | 2 => 2, _ => rng.range(1, 8) as u8 };
        let bps = *rng.pick(SUBSET_BPS);
        let rate = subset_rate(rng);
        let len = match rng.below(5) { 0 => rng.range(1, 15) as usize, 1 => *rng.pick(&[16usize, 192, 256, 576]).min(&max_len), _ => rng.range(1, max_len as i64) as usize };
        let kind = *rng.pick(kinds);
        let pcm = gen_pcm_ext(rng, kind, ch as usize, bps, len);
        clear_panic_loc();
        let r = catch(|| sw.write(rate, ch, bps, &pcm));
        let input: Vec<(&str, String)> = vec![("rate", rate.to_string()), ("ch", ch.to_string()), ("bps", bps.to_string()), ("pcm", ints(&pcm[..pcm.len().min(4000)])), ("kind", esc(kind))];
        match r {
            Ok(Ok(())) => {}
            Ok(Err(e)) => { out.viol(&format!("stream-write-err:{}", err_class(&e)), &format!("FlacStreamWriter::write({} Hz, {} ch, {} bps, {} samples) fails: {}", rate, ch, bps, pcm.len(), err_class(&e)), &input); return None; }
            Err(p) => { out.viol_panic("stream-write", &p, &format!("FlacStreamWriter::write({} Hz, {} ch, {} bps, {} samples) panics: {}", rate, ch, bps, pcm.len(), p), &input); return None; }
        }
        w.frames.push(SubsetFrame { samples: pcm, rate, ch, bps });
    }
    drop(sw);
    let bytes = cur.into_inner();
    // frame boundaries from the structural parser
    let mut c = Cursor::new(&bytes[..]);
    for _ in 0..w.frames.len() {
        w.offsets.push(c.position() as usize);
        match catch(|| Frame::read_subset(&mut c)) {
            Ok(Ok(_)) => {}
            other => {
                out.viol("emitted-frame-not-self-describing", &format!("Frame::read_subset on the writer's output: {:?}", other.map(|r| r.map(|_| ()).map_err(|e| err_class(&e)))), &[("bytes", esc(&hex(&bytes)))]);
                return None;
            }
        }
    }
    w.offsets.push(c.position() as usize);
    if c.position() as usize != bytes.len() {
        out.viol("emitted-extra-bytes", "the stream writer emitted bytes beyond the frames the structural parser finds", &[("bytes", esc(&hex(&bytes)))]);
        return None;
    }
    w.bytes = bytes;
    Some(w)
}

/// index-wise subsequence check: every returned frame is one of `written`, in order
fn ordered_subsequence(got: &[SubsetFrame], written: &[SubsetFrame]) -> Result<Vec<usize>, usize> {
    let mut idx = vec![];
    let mut p = 0usize;
    for (k, g) in got.iter().enumerate() {
        let mut found = None;
        for j in p..written.len() { if written[j] == *g { found = Some(j); break; } }
        match found { Some(j) => { idx.push(j); p = j + 1; } None => return Err(k) }
    }
    Ok(idx)
}

fn has_sync(b: &[u8]) -> bool {
    b.windows(2).any(|w| w[0] == 0xFF && (w[1] == 0xF8 || w[1] == 0xF9))
}

/// garbage of `len` bytes. kind 0: no 0xFF at all; 1: 0xFF present but never followed by F8/F9;
/// 2: sync-like; 3: a real header (valid CRC-8) cut short; 4: bytes of a real frame with one bit flipped
fn garbage(rng: &mut Rng, kind: u64, len: usize, donor: &[u8]) -> Vec<u8> {
    match kind {
        0 => (0..len).map(|_| { let b = rng.next() as u8; if b == 0xFF { 0x7F } else { b } }).collect(),
        1 => {
            let mut v: Vec<u8> = (0..len).map(|_| if rng.chance(1, 4) { 0xFF } else { rng.next() as u8 }).collect();
            for i in 1..v.len() { if v[i - 1] == 0xFF && (v[i] == 0xF8 || v[i] == 0xF9) { v[i] = 0xFA; } }
            v
        }
        2 => {
            let mut v: Vec<u8> = rng.bytes(len);
            let mut i = 0;
            while i + 1 < v.len() { if rng.chance(1, 6) { v[i] = 0xFF; v[i + 1] = 0xF8 | (rng.below(2) as u8); i += 2; } else { i += 1; } }
            v
        }
        3 => { let n = rng.range(2, (donor.len() as i64 - 1).max(2)) as usize; donor[..n.min(donor.len())].to_vec() }
        _ => { let mut v = donor.to_vec(); if !v.is_empty() { let p = rng.below(v.len() as u64) as usize; v[p] ^= 1 << rng.below(8); } v }
    }
}


/// Blocks at and beyond the largest frame a header can announce (65535 samples per channel): one
/// `write` call must either be refused leaving the sink untouched, or emit frames that decode from
/// their own headers to exactly the samples handed in.  Returns how many calls were tried.
fn block_size_limits(out: &mut Out, rng: &mut Rng) -> (usize, usize) {
    let (mut tried, mut refused) = (0usize, 0usize);
    for &(len, ch) in &[(65535usize, 1u8), (65536, 1), (65537, 1), (65551, 2), (70000, 1), (131072 + 19, 1), (65535, 2)] {
        let bps = *rng.pick(&[8u32, 16]);
        let rate = *rng.pick(&[8000u32, 44100, 96000]);
        let amp = 1i32 << (bps - 2);
        let pcm: Vec<i32> = (0..len * ch as usize).map(|i| ((i as i32 * 37) % (2 * amp)) - amp).collect();
        let mut cur = Cursor::new(Vec::new());
        clear_panic_loc();
        let r = catch(|| { let mut sw = FlacStreamWriter::new(&mut cur, Options::fast()); sw.write(rate, ch, bps, &pcm) });
        tried += 1;
        let input: Vec<(&str, String)> = vec![("rate", rate.to_string()), ("ch", ch.to_string()), ("bps", bps.to_string()), ("samples_per_channel", len.to_string()), ("pcm_rule", esc("((i*37) mod 2A) - A, A = 2^(bps-2), interleaved"))];
        let bytes = cur.into_inner();
        match r {
            Err(p) => { out.viol_panic("stream-write", &p, &format!("FlacStreamWriter::write of {} samples per channel panics: {}", len, p), &input); }
            Ok(Err(e)) => {
                refused += 1;
                if len <= 65535 { out.viol(&format!("stream-write-err:{}", err_class(&e)), &format!("FlacStreamWriter::write of {} samples per channel (a legal block size) fails: {}", len, err_class(&e)), &input); }
                if !bytes.is_empty() { out.viol("refused-block-left-bytes", &format!("write() of {} samples per channel returned {} but left {} bytes in the sink", len, err_class(&e), bytes.len()), &input); }
            }
            Ok(Ok(())) => {
                let (got, end) = run_subset(&bytes[..], 16);
                let all: Vec<i32> = if ch == 1 { got.iter().flat_map(|f| f.samples.iter().copied()).collect() } else { got.iter().flat_map(|f| f.samples.iter().copied()).collect() };
                let params_ok = got.iter().all(|f| f.rate == rate && f.ch == ch && f.bps == bps);
                if matches!(end, End::Panic(_)) || end != End::Err("Io:UnexpectedEof".into()) || all != pcm || !params_ok {
                    out.viol("oversize-block-not-decodable", &format!("write() of {} samples per channel returned Ok, but the {} emitted bytes read back as {} frame(s) with {} samples then {} (expected exactly the {} samples written)", len, bytes.len(), got.len(), all.len(), end.tag(), pcm.len()), &input);
                }
            }
        }
    }
    (tried, refused)
}

fn main() {
    hook_panics();
    let seed = env_seed();
    let thorough = env_tier_thorough();
    let mut out = Out::new();
    let mut rng = Rng::new(seed, 0xC16);
    let kinds = all_kinds();
    let known = probe_known();
    clear_panic_loc();
    let (mut n_streams, mut n_frames, mut n_alone, mut n_clean, mut n_garbage, mut n_seg, mut cases) = (0usize, 0usize, 0usize, 0usize, 0usize, 0usize, 0usize);
    let mut garbage_kinds: BTreeMap<u64, usize> = BTreeMap::new();
    let mut lost_with_synclike = 0usize;
    let mut garbage_cases = 0usize;
    let max_garbage_cases = scale(if thorough { 2500 } else { 400 });
    let mut garbage_with_valid_frame = 0usize;
    let mut params_seen: BTreeMap<String, usize> = BTreeMap::new();

    let nstreams = scale(if thorough { 8000 } else { 160 });
    for s in 0..nstreams {
        let cfg = random_cfg(&mut rng, &known);
        let Ok(opts) = cfg.options() else { continue };
        let nfr = rng.range(1, 5) as usize;
        let max_len = if thorough && s % 25 == 0 { 4608 } else if s % 3 == 0 { 20 } else { 70 };
        let Some(w) = write_frames(&mut out, &mut rng, opts, nfr, max_len, &kinds) else { continue };
        n_streams += 1;
        n_frames += w.frames.len();
        for f in &w.frames { *params_seen.entry(format!("{}ch/{}bps/{}", f.ch, f.bps, rate_class(f.rate))).or_insert(0) += 1; }
        let base: Vec<(&str, String)> = vec![("bytes", esc(&hex(&w.bytes[..w.bytes.len().min(8000)])))];

        // ---- each frame alone
        for k in 0..w.frames.len() {
            let fb = &w.bytes[w.offsets[k]..w.offsets[k + 1]];
            n_alone += 1;
            let (got, end) = run_subset(fb, 10);
            if let End::Panic(p) = &end { out.viol_panic("stream-read", p, &format!("FlacStreamReader panics on a single emitted frame: {}", p), &[("bytes", esc(&hex(fb)))]); continue; }
            if got.len() != 1 || got[0] != w.frames[k] || end != End::Err("Io:UnexpectedEof".into()) {
                out.viol("frame-alone-wrong", &format!("frame {} decoded alone gives {} frame(s) then {} (expected exactly the written samples and parameters)", k, got.len(), end.tag()), &[("bytes", esc(&hex(fb)))]);
            }
            // header must not refer to STREAMINFO
            let mut c = Cursor::new(fb);
            if let Ok(Ok(fr)) = catch(|| Frame::read_subset(&mut c)) {
                if matches!(fr.header.sample_rate, SampleRate::Streaminfo(_)) || matches!(fr.header.bits_per_sample, BitsPerSample::Streaminfo(_)) {
                    out.viol("emitted-frame-refers-to-streaminfo", "an emitted frame header uses a STREAMINFO-referenced code", &[("bytes", esc(&hex(fb)))]);
                }
                // structural decode agrees too
                let o = struct_obs(fb, None);
                if let (Some(d), Some(fr)) = (&o.decoded, &o.frame) {
                    if let Some(inter) = undo_decorrelation(&fr.header.channel_assignment, d) {
                        if inter.iter().map(|v| *v as i32).collect::<Vec<_>>() != w.frames[k].samples {
                            out.viol("frame-alone-struct-decode-wrong", "Frame::read_subset + Subframe::decode of an emitted frame differs from the written samples", &[("bytes", esc(&hex(fb)))]);
                        }
                    }
                }
            }
        }

        // ---- clean concatenation
        n_clean += 1;
        let (got, end) = run_subset(&w.bytes[..], 100);
        if let End::Panic(p) = &end {
            out.viol_panic("stream-read", p, &format!("FlacStreamReader panics on a clean concatenation: {}", p), &base);
        } else if got != w.frames || end != End::Err("Io:UnexpectedEof".into()) {
            let k = got.iter().zip(w.frames.iter()).position(|(a, b)| a != b).unwrap_or(got.len().min(w.frames.len()));
            out.viol("clean-concat-wrong", &format!("clean concatenation of {} frames reads back {} frames then {}; first difference at frame {}", w.frames.len(), got.len(), end.tag(), k), &base);
        }
        if cases < scale(if thorough { 600 } else { 120 }) && w.bytes.len() < 3000 && w.frames.iter().map(|f| f.samples.len()).sum::<usize>() <= MODEL_MAX_SAMPLES {
            cases += 1;
            out.case(dec_subset_case(&w.bytes, &[("src", esc("stream_writer"))]));
            out.case(enc_subset_case(&w.bytes, &w.frames, cfg.json()));
        }

        // ---- segmentations of the clean stream
        let mut segs: Vec<Vec<usize>> = vec![];
        if w.bytes.len() <= 400 {
            for cut in 1..w.bytes.len() { segs.push(vec![cut]); }
            segs.push(vec![1; w.bytes.len()]);
        }
        for o in &w.offsets[..w.offsets.len() - 1] {
            // split inside the two-byte sync code, and right around it
            segs.push(vec![o + 1]);
            if *o > 0 { segs.push(vec![*o, 1]); segs.push(vec![o - 1, 2]); }
            segs.push(vec![o + 1, 1, 1, 1]);
        }
        for _ in 0..6 { let unit = rng.range(1, 40) as usize; segs.push(chunking(&mut rng, w.bytes.len(), 2, unit)); }
        for sg in segs.iter() {
            n_seg += 1;
            let (got, end) = run_subset(ChunkedReader::new(&w.bytes, sg), 100);
            if let End::Panic(p) = &end { out.viol_panic("stream-read", p, &format!("FlacStreamReader panics with source segmentation {:?}: {}", &sg[..sg.len().min(8)], p), &base); continue; }
            if got != w.frames || end != End::Err("Io:UnexpectedEof".into()) {
                out.viol("segmentation-changes-result", &format!("source served in chunks {:?}: {} of {} frames then {}", &sg[..sg.len().min(12)], got.len(), w.frames.len(), end.tag()), &[("bytes", esc(&hex(&w.bytes))), ("chunks", ints(&sg[..sg.len().min(64)]))]);
            }
        }

        // ---- garbage
        for rep in 0..8u64 {
            let gk = rep % 5;
            let mut stream: Vec<u8> = vec![];
            let mut frame_pos: Vec<usize> = vec![];
            let place = rng.below(4); // 0 before, 1 between, 2 after, 3 everywhere
            let donor = &w.bytes[w.offsets[0]..w.offsets[1]];
            for k in 0..=w.frames.len() {
                let want = match place { 0 => k == 0, 1 => k > 0 && k < w.frames.len(), 2 => k == w.frames.len(), _ => true };
                if want {
                    let glen = rng.range(1, 40) as usize;
                    let mut g = garbage(&mut rng, gk, glen, donor);
                    if gk <= 1 && !g.is_empty() {
                        // the junction with the previous frame's last byte must not form a sync code
                        if stream.last() == Some(&0xFF) && (g[0] == 0xF8 || g[0] == 0xF9) { g[0] = 0x00; }
                    }
                    stream.extend_from_slice(&g);
                }
                if k < w.frames.len() { frame_pos.push(stream.len()); stream.extend_from_slice(&w.bytes[w.offsets[k]..w.offsets[k + 1]]); }
            }
            n_garbage += 1;
            *garbage_kinds.entry(gk).or_insert(0) += 1;
            if garbage_cases < max_garbage_cases && stream.len() < 3000 && w.frames.iter().map(|f| f.samples.len()).sum::<usize>() <= MODEL_MAX_SAMPLES {
                garbage_cases += 1;
                out.case(dec_subset_case(&stream, &[("src", esc("garbage")), ("garbage_kind", gk.to_string())]));
            }
            let sg = if rng.chance(1, 2) { vec![] } else { let unit = rng.range(1, 30) as usize; chunking(&mut rng, stream.len(), 2, unit) };
            let (got, errs, panic, exhausted) = run_subset_resync(ChunkedReader::new(&stream, &sg), stream.len() + 8);
            let input: Vec<(&str, String)> = vec![("bytes", esc(&hex(&stream[..stream.len().min(8000)]))), ("frame_offsets", ints(&frame_pos)), ("garbage_kind", gk.to_string()), ("chunks", ints(&sg[..sg.len().min(64)]))];
            if let Some(p) = panic { out.viol_panic("stream-read", &p, &format!("FlacStreamReader panics on frames with garbage (kind {}): {}", gk, p), &input); continue; }
            if exhausted { out.viol("stream-read-no-progress", "FlacStreamReader::read was called more often than the source has bytes without reaching its end", &input); continue; }
            // garbage derived from real frames (kinds 3, 4) can, together with the bytes that follow
            // it, spell a complete checksum-valid frame (e.g. a copy cut one byte short whose missing
            // CRC byte equals the next frame's 0xFF).  The independent decoder decides: if a valid
            // frame starts anywhere other than at a written frame's offset, the reader may return it
            // (DESIGN C16_gate) and only membership is required of the returned frames.
            let contaminated = gk >= 2 && (0..stream.len().saturating_sub(1)).any(|i| stream[i] == 0xFF && (stream[i + 1] == 0xF8 || stream[i + 1] == 0xF9) && !frame_pos.contains(&i) && shared::refdec::frame(&stream[i..], None).is_ok());
            if contaminated {
                garbage_with_valid_frame += 1;
                if let Some(k) = got.iter().position(|g| !w.frames.contains(g)) {
                    out.viol("fabricated-frame", &format!("returned frame {} ({} samples, {} Hz, {} ch, {} bps) is not one of the written frames (garbage kind {} containing a valid frame)", k, got[k].samples.len(), got[k].rate, got[k].ch, got[k].bps, gk), &input);
                }
                continue;
            }
            match ordered_subsequence(&got, &w.frames) {
                Err(k) => out.viol("fabricated-frame", &format!("returned frame {} ({} samples, {} Hz, {} ch, {} bps) is not one of the written frames in order (garbage kind {})", k, got[k].samples.len(), got[k].rate, got[k].ch, got[k].bps, gk), &input),
                Ok(idx) => {
                    if gk <= 1 {
                        // no sync pattern in the garbage: no frame may be lost
                        if idx.len() != w.frames.len() {
                            let missing: Vec<usize> = (0..w.frames.len()).filter(|j| !idx.contains(j)).collect();
                            out.viol("syncless-garbage-costs-frame", &format!("garbage without the sync pattern (kind {}) made the reader lose frame(s) {:?} of {}; errors met: {:?}", gk, missing, w.frames.len(), &errs[..errs.len().min(6)]), &input);
                        } else if errs.len() != 1 {
                            out.viol("syncless-garbage-raises-error", &format!("garbage without the sync pattern (kind {}) made the reader report {:?} before the end of the source", gk, &errs[..errs.len().min(6)]), &input);
                        }
                    } else if idx.len() != w.frames.len() {
                        lost_with_synclike += 1;
                    }
                }
            }
        }
    }
    let _ = has_sync;
    let (limit_tried, limit_refused) = block_size_limits(&mut out, &mut rng);
    let m = |m: &BTreeMap<String, usize>| format!("{{{}}}", m.iter().map(|(k, v)| format!("{}:{}", esc(k), v)).collect::<Vec<_>>().join(","));
    println!(
        "{}",
        obj(&[
            ("t", esc("stat")), ("profile", esc(profile())), ("streams", n_streams.to_string()), ("frames", n_frames.to_string()), ("frames_alone", n_alone.to_string()),
            ("clean_concatenations", n_clean.to_string()), ("segmentations", n_seg.to_string()), ("garbage_streams", n_garbage.to_string()),
            ("garbage_kinds", format!("{{{}}}", garbage_kinds.iter().map(|(k, v)| format!("\"{}\":{}", k, v)).collect::<Vec<_>>().join(","))),
            ("streams_losing_frames_to_synclike_garbage", lost_with_synclike.to_string()), ("garbage_streams_containing_a_valid_frame", garbage_with_valid_frame.to_string()), ("frame_params", m(&params_seen)), ("cases_emitted", out.cases.to_string()), ("garbage_cases_emitted", garbage_cases.to_string()), ("block_size_limit_writes", limit_tried.to_string()), ("block_size_limit_refused", limit_refused.to_string()),
            ("viols", out.viols.to_string()), ("viol_keys", out.counts()),
        ])
    );
}
