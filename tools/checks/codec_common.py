"""Shared proof/model stage for the codec properties (C01-C05, C14, C16, C17, C19).
Owned by the integrator.  Checks call:

    from checks import codec_common
    ok = codec_common.proof_stage(chk, pid, theorems=[...])   # builds coq/base + coq/codec, Print Assumptions
    res = codec_common.run_model(chk, kind, cases)            # extracted model on cases -> list of result dicts
    bad = codec_common.compare(case, res)                     # None if they agree, else a reason string

kinds: "dec_stream", "dec_subset", "struct" (case formats: tools/AGENT_GUIDE.md / codech prompt)."""
import json
import os
import shutil

import vlib
from vlib import VERIF, CACHE, sh

BASE = os.path.join(VERIF, "coq", "base")
CODEC = os.path.join(VERIF, "coq", "codec")
MODEL_FILES = ["Num.v", "Ast.v", "Parser.v", "Header.v", "Subframe.v", "Struct.v", "Dec.v", "Write.v", "Stream.v"]
_driver = {}


def coq_files():
    return [f for f in vlib.coq_files(CODEC) if f not in ("Extract.v", "GenStream.v")]


CODEC_REQUIRES = ["FlacCodec.Wf", "FlacCodec.Spec", "FlacCodec.Stream", "FlacCodec.Progress", "FlacCodec.EncChoice", "FlacCodec.Damage", "FlacCodec.Prefix", "FlacCodec.Interrupted", "FlacCodec.Inverse", "FlacCodec.Inverse_frame", "FlacCodec.StreamRd", "FlacCodec.StreamRd_proofs", "FlacCodec.Lengths", "FlacCodec.ParseWf", "FlacCodec.Admissible", "FlacCodec.DecLengths", "FlacCodec.MustReject", "FlacCodec.Props_codec", "FlacCodec.Pins"]
BASE_THEOREMS = ["crc16_valid_single_bit_detected", "crc8_valid_single_bit_detected"]
# property -> theorems of coq/codec/Props_codec.v claimed for it (grows as proofs land)
THEOREMS = {
    "C01": ["C01_encoder_file_lossless", "ex_encoder_file", "C01_encoder_frame_lossless", "C01_encoder_stream_lossless", "C01_encoder_never_fails", "ex_encoder_roundtrip", "ex_block_ok", "C01_every_block_has_an_admissible_frame", "C03_complete_stream", "C01_decoders_agree", "C03_decoder_follows_format", "C17_parse_inverts_write", "ex_frame_roundtrip"],
    "C02": ["C02_encoder_file_valid", "ex_encoder_file_valid", "C02_encoder_frame_valid", "C01_encoder_frame_lossless", "C02_reference_decoder_accepts", "C17_parse_inverts_write", "crc16_append", "crc8_append"],
    "C03": ["C03_decoder_follows_format", "C03_complete_stream", "C17_parse_inverts_write", "ex_frame_spec"],
    "C04": ["C04_frame_total", "C04_stream_total", "C04_frame_progress", "C04_decoded_frame_size", "C16_no_fabricated_frame"],
    "C05": BASE_THEOREMS + ["C05_flipped_frame_rejected", "C05_truncated_frame_is_error", "C05_reject_block_size_code_0", "C05_reject_rate_code_15", "C05_reject_reserved_subframe_type", "C05_reject_coding_method", "C05_reject_negative_shift", "crc16_single_bit", "crc16_append", "crc8_append"],
    "C14": ["C14_encoder_interrupted_file", "C14_interrupted_file", "C14_interrupted_stream", "C05_truncated_frame_is_error", "C03_decoder_follows_format"],
    "C16": ["C16_encoder_stream_read_back", "ex_stream_read_back", "C16_encoder_frames_scanned", "C16_encoder_frames_self_describing", "ex_encoder_scanned", "C16_no_fabricated_frame", "C16_syncless_garbage_costs_no_frame", "C16_self_describing"],
    "C17": ["C17_parse_inverts_write", "C17_write_inverts_parse", "C17_subframe_write_inverts_parse", "C17_subframe_expands_to_block_size", "C17_parsed_frames_are_well_formed", "C17_parsed_subframes_expand_to_block_size", "ex_frame_wf", "ex_frame_roundtrip"],
    "C19": ["C19_encoder_frame_bound", "C19_encoder_constant_block", "C19_encoder_subframe_bound", "C19_subframe_bound", "C19_frame_bound", "C17_parse_inverts_write"],
}


WRITERS = os.path.join(VERIF, "coq", "writers")
READERS = os.path.join(VERIF, "coq", "readers")
E2E = os.path.join(VERIF, "coq", "e2e")
E2E_THEOREMS = ["C01_written_bytes_are_read", "C01_written_channels_are_read", "C01_byte_writer_lossless", "C01_channel_writer_lossless", "C01_end_to_end_bytes", "C01_end_to_end_channels", "C01_written_samples_are_read", "C01_sample_writer_lossless", "C01_end_to_end_samples", "C01_end_to_end_encoder", "C01_end_to_end_sample_writer", "C01_written_metadata_is_read", "C01_end_to_end_nonvacuous"]
E2E_THEOREMS_BY = {"C01": E2E_THEOREMS, "C19": ["C19_written_audio_size_bounded", "C19_byte_written_audio_size_bounded", "C19_channel_written_audio_size_bounded"], "C04": ["C04_stream_output_bounded", "C04_any_file_readers_never_panic"], "C05": ["C05_damaged_file_is_read", "C05_damaged_file_is_read_bytes_channels", "C07_decoded_file_is_read"], "C03": ["C03_valid_file_is_read", "C07_decoded_file_is_read"], "C14": ["C14_sample_writer_interrupted", "C14_byte_writer_interrupted", "C14_channel_writer_interrupted", "C14_end_to_end_interrupted", "C01_written_metadata_is_read"], "C02": ["C02_sample_writer_file_valid", "C02_byte_writer_file_valid", "C02_channel_writer_file_valid", "C01_end_to_end_samples", "C01_written_metadata_is_read"]}
E2E_REQUIRES = ["FlacWriters.Meta", "FlacWriters.Params", "FlacWriters.Finalize", "FlacWriters.Writers", "FlacE2E.Bridge", "FlacE2E.E2E", "FlacE2E.Props_E2E"]


def proof_stage(chk, pid, theorems=None, requires=None):
    thms = theorems or THEOREMS.get(pid) or BASE_THEOREMS
    reqs = ["Coq.Lists.List", "Coq.NArith.NArith", "Coq.ZArith.ZArith", "FlacBase.Bits", "FlacBase.Crc", "FlacBase.Pins"] + CODEC_REQUIRES + (requires or [])
    gen = ["python3 %s/tools/gen_crc.py %s %s/GenCrc.v" % (VERIF, vlib.REPO, BASE),
           "python3 %s/tools/gen_stream.py %s %s/GenStream.v" % (VERIF, vlib.REPO, CODEC)]
    if pid in E2E_THEOREMS_BY:
        # C01 (and C02 for file-level validity) also claim the end-to-end composition (coq/e2e): writers' Encoder x codec's block encoder x codec's stream decoder / validator
        gen.append("python3 %s/tools/gen_writers.py %s %s/GenWriters.v" % (VERIF, vlib.REPO, WRITERS))
        return vlib.proof_stage(
            chk, coq_dirs=[BASE, CODEC, WRITERS, READERS, E2E], build_dir=E2E,
            qflags="-Q ../base FlacBase -Q ../codec FlacCodec -Q ../writers FlacWriters -Q ../readers FlacReaders -Q . FlacE2E",
            requires=reqs + E2E_REQUIRES, theorems=E2E_THEOREMS_BY[pid] + thms,
            obligation_files=[(BASE, ["Res.v", "Bits.v", "Crc.v", "Pins.v"]), (CODEC, coq_files()), (E2E, vlib.coq_files(E2E))],
            gen_steps=gen)
    return vlib.proof_stage(
        chk, coq_dirs=[BASE, CODEC], build_dir=CODEC, qflags="-Q ../base FlacBase -Q . FlacCodec",
        requires=reqs, theorems=thms,
        obligation_files=[(BASE, ["Res.v", "Bits.v", "Crc.v", "Pins.v"]), (CODEC, coq_files())],
        gen_steps=gen)


def build_driver(chk):
    """Build (once per process) the OCaml driver from the freshly extracted model."""
    if "exe" in _driver:
        return _driver["exe"]
    ok, out = vlib.coq_make(BASE)
    ok2, out2 = vlib.coq_make(CODEC) if ok else (False, out)
    if not (ok and ok2):
        chk.broken_tie("coq-build:codec-model", out2)
        _driver["exe"] = None
        return None
    mdir = os.path.join(CACHE, "ocaml", "codec")
    os.makedirs(mdir, exist_ok=True)
    for f in ("codec_model.ml", "codec_model.mli"):
        shutil.copy(os.path.join(CODEC, f), mdir)
    shutil.copy(os.path.join(VERIF, "ocaml", "codec_driver.ml"), mdir)
    shutil.copy(os.path.join(VERIF, "ocaml", "codec_gen.ml"), mdir)
    okb, exe, bout = vlib.ocaml_build(mdir, ["codec_model.mli", "codec_model.ml", "codec_gen.ml", "codec_driver.ml"], "codec_driver")
    if not okb:
        chk.broken_tie("ocaml-build:codec", bout)
        exe = None
    _driver["exe"] = exe
    return exe


def run_model(chk, kind, cases, shards=None):
    """Run the extracted model on harness cases (dicts with "kind").  Returns a list of result
    dicts aligned with `cases`, or None when the model cannot be run (a broken tie is recorded)."""
    if kind not in ("dec_stream", "dec_subset", "struct", "spec_stream", "enc_stream", "enc_subset"):
        return None
    exe = build_driver(chk)
    if exe is None:
        return None
    if not cases:
        return []
    import concurrent.futures
    n = shards or min(vlib.NCPU, max(1, len(cases) // 8))
    chunks = [cases[i::n] for i in range(n)]

    def work(chunk):
        data = "\n".join(json.dumps(dict(c, kind=kind)) for c in chunk) + "\n"
        rc, out = sh("ulimit -s unlimited 2>/dev/null || ulimit -s 1000000; exec %s" % exe, stdin=data, timeout=3000)
        lines = [l for l in out.split("\n") if l.startswith("{")]
        if rc != 0 or len(lines) != len(chunk):
            return None, out[-2000:]
        return [json.loads(l) for l in lines], ""

    with concurrent.futures.ThreadPoolExecutor(max_workers=n) as ex:
        outs = list(ex.map(work, chunks))
    res = [None] * len(cases)
    for k, (r, msg) in enumerate(outs):
        if r is None:
            chk.broken_tie("model-run:" + kind, msg)
            return None
        for j, v in enumerate(r):
            res[k + j * n] = v
    return res


def _cls(e):
    return e.split(":")[0]


def compare(case, r):
    """Compare one harness case with the model result.  Returns (disagreement or None, variant_note or None).
    Class of the ending (eof/ok | err | panic) and all payloads must agree exactly; the error
    variant is compared softly."""
    k = case["kind"]
    note = None
    if r is None:
        return "no model result", None
    if r.get("end", "").startswith(("driver-", "unknown-kind")):
        return "model driver: " + r["end"], None
    if k == "dec_stream":
        if r["end"] == "badmeta":
            # the minimal metadata reader of the model rejects; the implementation must not have opened
            # the file either (full metadata rules belong to C11/C12)
            if case.get("opened", True) and case["end"] != "err:badmeta":
                return None, "metadata accepted by the implementation but not by the minimal model reader"
            return None, None
        if not case.get("opened", True):
            return None, "metadata rejected by the implementation only (rules outside the codec model)"
        for f in ("samples", "frame_lens", "ch", "bps", "rate"):
            if case[f] != r[f]:
                return "field %s differs: impl %s model %s" % (f, str(case[f])[:200], str(r[f])[:200]), None
        if _cls(case["end"]) != _cls(r["end"]):
            return "ending differs: impl %s model %s" % (case["end"], r["end"]), None
        if case["end"] != r["end"] and _cls(case["end"]) != "panic":
            note = "error variant: impl %s model %s" % (case["end"], r["end"])
        return None, note
    if k == "dec_subset":
        if case["frames"] != r["frames"]:
            return "frames differ: impl %s model %s" % (str(case["frames"])[:300], str(r["frames"])[:300]), None
        if _cls(case["end"]) != _cls(r["end"]):
            return "ending differs: impl %s model %s" % (case["end"], r["end"]), None
        if case["end"] != r["end"]:
            note = "error variant: impl %s model %s" % (case["end"], r["end"])
        return None, note
    if k == "struct":
        if _cls(case["end"]) != _cls(r["end"]):
            return "ending differs: impl %s model %s" % (case["end"], r["end"]), None
        if case["end"] == "ok":
            if r.get("wf") is False:
                return "the structural parser (model and implementation) accepts a frame whose tree the model finds not well-formed", None
            if case["decoded"] != r["decoded"]:
                return "decoded subframes differ", None
            if r.get("canonical") and case.get("rewritten", "") not in ("", "!") and case["rewritten"] != case["bytes"][:len(case["rewritten"])]:
                return "frame is canonical (reserved bit 0, minimal number, zero padding) but the implementation's re-serialisation differs from the original bytes", None
            if case.get("rewritten", "") not in ("", "!") and case["rewritten"] != r["rewritten"]:
                return "re-serialisation differs: impl %s model %s" % (case["rewritten"][:200], r["rewritten"][:200]), None
        elif case["end"] != r["end"]:
            note = "error variant: impl %s model %s" % (case["end"], r["end"])
        return None, note
    return None, None


def model_streams(chk, count=None, mutate=False):
    """Valid-by-construction streams for C03: the OCaml generator (ocaml/codec_gen.ml) chooses every
    syntactic alternative of the frame grammar independently and derives residuals from arbitrary
    target PCM; the extracted Coq writer serialises; only trees accepted by the extracted Coq
    predicates wf_frame && spec_frame are kept; the expected PCM is sem_frame of the tree.
    Returns a list of {"id","bytes","kind","expect","md5"} (kind dec_stream|dec_subset)."""
    exe = build_driver(chk)
    if exe is None:
        return []
    n = count or (400 if chk.tier == "thorough" else 90)
    reqs = []
    shards = 8
    m1, m2 = ("mutate", "mutate_subset") if mutate else (None, "subset")
    for k in range(shards):
        r1 = {"kind": "gen", "seed": chk.seed * 1000 + k, "count": max(1, n * 2 // (3 * shards))}
        if m1:
            r1["mode"] = m1
        reqs.append(r1)
        reqs.append({"kind": "gen", "seed": chk.seed * 1000 + k, "count": max(1, n // (3 * shards)), "mode": m2})
    import concurrent.futures

    def work(req):
        rc, out = sh("ulimit -s unlimited 2>/dev/null || ulimit -s 1000000; exec %s" % exe, stdin=json.dumps(req) + "\n", timeout=1500)
        return [d for d in (json.loads(l) for l in out.split("\n") if l.startswith("{")) if "id" in d]

    res = []
    with concurrent.futures.ThreadPoolExecutor(max_workers=vlib.NCPU) as ex:
        for r in ex.map(work, reqs):
            res.extend(r)
    for r in res:
        r["id"] = r["kind"].split(":")[0] + "-" + r["id"]
        k = r["kind"].split(":")
        r["kind"] = k[0]
        r["md5"] = k[1] if len(k) > 1 else ""
    return res


class _Bits:
    def __init__(self):
        self.bits = []

    def put(self, n, v):
        v &= (1 << n) - 1
        self.bits.extend((v >> i) & 1 for i in range(n - 1, -1, -1))

    def unary_rice(self, k, r):
        u = 2 * r if r >= 0 else -2 * r - 1
        self.bits.extend([0] * (u >> k))
        self.bits.append(1)
        if k:
            self.put(k, u & ((1 << k) - 1))

    def align(self):
        while len(self.bits) % 8:
            self.bits.append(0)

    def bytes(self):
        assert len(self.bits) % 8 == 0
        return bytes(int("".join(map(str, self.bits[i:i + 8])), 2) for i in range(0, len(self.bits), 8))


def _crc(data, width, poly):
    c, top, mask = 0, 1 << (width - 1), (1 << width) - 1
    for b in data:
        c ^= b << (width - 8)
        for _ in range(8):
            c = ((c << 1) ^ poly) & mask if c & top else (c << 1) & mask
    return c


def short_partition_streams(seed, count):
    """Hand-built (byte-level, outside what the model's frame tree can express) checksum-valid files of
    one mono frame whose FIXED/LPC subframe announces a partition order with
    (block size >> partition order) <= predictor order — RFC 9639 9.2.7 requires it to be larger.
    Two serialisations each: only the partitions that still hold residuals are present, or all 2^po are
    (the leading ones empty).  Decoder and model must both reject every one."""
    import random
    rng = random.Random(seed * 7919 + 5)
    out = []
    for n in range(count):
        lpc = rng.random() < 0.4
        order = rng.choice([1, 2, 3, 4]) if not lpc else rng.choice([1, 2, 3, 4, 5, 8, 12, 16, 32])
        po = rng.randrange(0, 7)
        while (order << po) < 16 or (order << po) > 4096:
            po = rng.randrange(0, 9)
        bs = order << po
        # equal (the boundary) most of the time; sometimes a strictly smaller partition size
        if rng.random() < 0.25 and po < 8 and bs % (1 << (po + 1)) == 0:
            po += 1
        psize = bs >> po
        # second family (every third stream): 2^po does NOT divide the block size, and the predictor order absorbs the
        # remainder — block size = psize * 2^po + order with 0 < order < 2^po, so the residuals still split into 2^po
        # equal partitions (RFC 9639 9.2.7.2: the block size must be evenly divisible by the number of partitions)
        uneven = n % 3 == 2
        if uneven:
            lpc = rng.random() < 0.3
            order = rng.choice([1, 2, 3, 4]) if not lpc else rng.choice([1, 2, 3, 5, 8, 12])
            po = rng.randrange(order.bit_length(), order.bit_length() + 3)      # 2^po > order
            psize = rng.randrange(max(order + 1, (16 >> po) + 1), max(order + 2, (16 >> po) + 2) + 12)
            bs = psize * (1 << po) + order
        bps = rng.choice([8, 12, 16, 24])
        wasted = rng.choice([0, 0, 0, 1, 2])
        full = rng.random() < 0.5
        b = _Bits()
        b.put(14, 0b11111111111110); b.put(1, 0); b.put(1, 0)
        b.put(4, 0b0110 if bs <= 256 else 0b0111)
        b.put(4, 0b1001)
        b.put(4, 0)
        b.put(3, {8: 1, 12: 2, 16: 4, 24: 6}[bps]); b.put(1, 0)
        b.put(8, 0)
        b.put(8 if bs <= 256 else 16, bs - 1)
        b.put(8, _crc(b.bytes(), 8, 0x07))
        b.put(1, 0)
        b.put(6, (0b001000 + order) if not lpc else (31 + order))
        if wasted:
            b.put(1, 1); b.put(wasted, 1)
        else:
            b.put(1, 0)
        for _ in range(order):
            b.put(bps - wasted, rng.randrange(-4, 5))
        if lpc:
            prec = rng.choice([2, 3, 5])
            b.put(4, prec - 1); b.put(5, rng.randrange(0, 3))
            for _ in range(order):
                b.put(prec, rng.randrange(-1, 2))
        esc5 = rng.random() < 0.3
        b.put(2, 1 if esc5 else 0)
        b.put(4, po)
        nres = bs - order
        sizes = []
        rest = nres
        while rest > 0:
            sizes.append(min(psize, rest)); rest -= psize
        sizes.reverse()
        if full and not uneven:
            sizes = [0] * ((1 << po) - len(sizes)) + sizes
        for sz in sizes:
            k = rng.randrange(0, 3)
            b.put(5 if esc5 else 4, k)
            for _ in range(sz):
                b.unary_rice(k, rng.randrange(-2, 3))
        b.align()
        fr = b.bytes()
        fr += _crc(fr, 16, 0x8005).to_bytes(2, "big")
        h = _Bits()
        for c in b"fLaC":
            h.put(8, c)
        h.put(1, 1); h.put(7, 0); h.put(24, 34)
        h.put(16, bs); h.put(16, bs); h.put(24, 0); h.put(24, 0)
        h.put(20, 44100); h.put(3, 0); h.put(5, bps - 1); h.put(36, bs); h.put(128, 0)
        out.append({"id": "dec_stream-hb-%d" % n, "bytes": (h.bytes() + fr).hex(), "kind": "dec_stream", "md5": "",
                    "mutation": ("partition-count-does-not-divide-block-size:" + ("lpc" if lpc else "fixed")) if uneven else
                    ("partition-size-not-above-order:" + ("lpc" if lpc else "fixed") + (":all-partitions" if full else ":short"))})
    return out


def run_mutants(chk, profiles=("release",), count=None):
    """Checksum-valid MALFORMED streams: a valid tree from the generator with one field pushed to a
    reserved / illegal value (negative LPC shift, precision 16, reserved FIXED order, coding method 2-3,
    wrong partition order, excess wasted bits, reserved header codes, STREAMINFO mismatches), serialised
    by the extracted Coq writer (CRCs recomputed).  The real readers (harness bin c03 --stdin) and the
    model decoder must agree on every one; a frame the model rejects and the implementation decodes
    silently is reported as must-reject-accepted:<mutation>.  Returns a stats dict."""
    muts = model_streams(chk, count=count or (600 if chk.tier == "thorough" else 160), mutate=True)
    if muts:
        muts.extend(short_partition_streams(chk.seed, 240 if chk.tier == "thorough" else 60))
    stats = {"inputs": len(muts), "by_mutation": {}, "disagreements": 0, "model_rejects": 0}
    if not muts:
        return stats
    by_id = {m["id"]: m for m in muts}
    for m in muts:
        stats["by_mutation"][m["mutation"]] = stats["by_mutation"].get(m["mutation"], 0) + 1
    for prof in profiles:
        ok, binp, out = vlib.cargo_build(os.path.join(VERIF, "harness"), "c03", prof)
        if not ok:
            chk.broken_tie("harness-build:c03", out)
            return stats
        data = "\n".join(json.dumps({"id": m["id"], "bytes": m["bytes"], "kind": m["kind"]}) for m in muts) + "\n"
        rc, o = sh([binp, "--stdin"], stdin=data, timeout=1500)
        cases = []
        for ln in o.splitlines():
            if ln.startswith("{"):
                try:
                    d = json.loads(ln)
                except ValueError:
                    continue
                if d.get("t") == "case" and d.get("id") in by_id:
                    cases.append(d)
                elif d.get("t") == "viol":
                    # the runner's cross-reader consistency check presumes a valid stream: on a malformed
                    # one the byte readers truncate out-of-range samples to the declared width, by design
                    if d.get("key", "").startswith("readers-disagree"):
                        stats["out_of_range_sample_streams"] = stats.get("out_of_range_sample_streams", 0) + 1
                        continue
                    chk.violation("mutants:" + d.get("key", "?"), d.get("desc", ""), {k: d[k] for k in d if k != "t"})
        for kind in ("dec_stream", "dec_subset"):
            ks = [c for c in cases if c["kind"] == kind]
            res = run_model(chk, kind, ks)
            if res is None:
                return stats
            for c, r in zip(ks, res):
                m = by_id[c["id"]]
                dis, note = compare(c, r)
                if r.get("end", "").startswith("err"):
                    stats["model_rejects"] += 1
                if dis:
                    stats["disagreements"] += 1
                    silent = r.get("end", "").startswith("err") and (c["end"] == "eof" or (kind == "dec_subset" and len(c.get("frames", [])) > len(r.get("frames", []))))
                    key = ("must-reject-accepted:" if silent else "correspondence:mutants:") + m["mutation"]
                    chk.violation(key, "checksum-valid malformed stream (%s, %s build): implementation %s, model %s — %s" % (
                        m["mutation"], prof, c["end"], r.get("end"), dis), {"bytes": m["bytes"], "mutation": m["mutation"], "impl": c["end"], "model": r.get("end")})
    return stats


def encoder_model_tie(chk, cases):
    """Correspondence of the ENCODER model (Coq Enc.enc_frame, extracted) with the implementation:
    for every enc_stream case (a file the encoder produced + its PCM + options) the model must
    reproduce every frame byte for byte (LPC parameters are an oracle read from the file; for
    exhaustive stereo with LPC, where unchosen candidates are unknown, every subframe must be what
    Enc.enc_sub produces for the announced channel signals).  A mismatch is a broken tie (the
    theorems C01_encoder_* are about a model the code no longer follows), reported with the input."""
    sel = [c for c in cases if c.get("kind") == "enc_stream" and isinstance(c.get("cfg"), dict)]
    sub = [c for c in cases if c.get("kind") == "enc_subset" and isinstance(c.get("cfg"), dict)]
    out = {"encoder_model_files": 0, "encoder_model_frames": 0, "encoder_model_frames_byte_exact": 0,
           "encoder_model_frames_subframe_exact": 0, "encoder_model_files_lpc_off": 0, "encoder_model_mismatching_files": 0}
    if not sel and not sub:
        return out
    res = (run_model(chk, "enc_stream", sel) if sel else []) 
    res2 = (run_model(chk, "enc_subset", sub) if sub else [])
    if res is None or res2 is None:
        return out
    out["encoder_model_raw_streams"] = len(sub)
    bad = 0
    for c, r in list(zip(sel, res)) + list(zip(sub, res2)):
        out["encoder_model_files"] += 1
        if r is None or r.get("end") != "ok":
            why = "model: %s" % (r or {}).get("end")
        else:
            out["encoder_model_frames"] += r["frames"]
            out["encoder_model_frames_byte_exact"] += r["frame_match"]
            out["encoder_model_frames_subframe_exact"] += r["subs_match"]
            if not r["lpc"]:
                out["encoder_model_files_lpc_off"] += 1
            why = None
            if "first_mismatch" in r:
                fm = r["first_mismatch"]
                why = "frame %d: %s differs (model %s... / implementation %s...)" % (fm["frame"], fm["what"], fm["model"][:60], fm["actual"][:60])
        if why:
            bad += 1
            if bad <= 3:
                chk.violation("tie:encoder-model-correspondence",
                              "the encoder no longer produces what the Coq model of the encoder (Enc.enc_frame, theorems C01_encoder_*) produces: %s" % why,
                              {"stage": "encoder-model-correspondence", "theorem": "C01_encoder_frame_lossless / C02_encoder_frame_valid (coq/codec/Props_codec.v)",
                               "file_hex": c["bytes"], "pcm": c.get("expect", c.get("frames")), "cfg": c["cfg"], "model": r}, no_input=True)
    out["encoder_model_mismatching_files"] = bad
    return out

_e2e_driver = {}


def build_e2e_driver(chk):
    """Build (once per process) the OCaml driver of the COMPOSED model (coq/e2e/Extract.v)."""
    if "exe" in _e2e_driver:
        return _e2e_driver["exe"]
    for d in (BASE, CODEC, WRITERS, READERS, E2E):
        ok, out = vlib.coq_make(d)
        if not ok:
            chk.broken_tie("coq-build:composed-model", out)
            _e2e_driver["exe"] = None
            return None
    mdir = os.path.join(CACHE, "ocaml", "e2e")
    os.makedirs(mdir, exist_ok=True)
    for f in ("e2e_model.ml", "e2e_model.mli"):
        shutil.copy(os.path.join(E2E, f), mdir)
    shutil.copy(os.path.join(VERIF, "ocaml", "e2e_driver.ml"), mdir)
    okb, exe, bout = vlib.ocaml_build(mdir, ["e2e_model.mli", "e2e_model.ml", "e2e_driver.ml"], "e2e_driver")
    if not okb:
        chk.broken_tie("ocaml-build:composed-model", bout)
        exe = None
    _e2e_driver["exe"] = exe
    return exe


def composed_model_tie(chk, cases):
    """Whole-file correspondence of the COMPOSED model (coq/e2e: the writers area's three front-ends — FlacSampleWriter,
    FlacByteWriter in both byte orders, FlacChannelWriter, each run on the same input — and
    Encoder — constructor, metadata region, bookkeeping, finalize with its seek-table and padding cases — with the codec
    area's block encoder plugged in, MD5 = OCaml Digest, LPC analysis = oracle read from the file): for every file the
    real encoder produced, the model run on the same options and PCM must produce THE SAME FILE, byte for byte.  For
    exhaustive stereo with LPC the oracle is incomplete (unchosen candidates are unknown) and a difference is only
    counted.  A difference otherwise is a broken tie: the theorems of coq/e2e are about a model the code no longer follows."""
    sel = [c for c in cases if c.get("kind") == "enc_stream" and isinstance(c.get("cfg"), dict)]
    out = {"composed_model_files": 0, "composed_model_files_byte_exact": 0, "composed_model_files_incomplete_oracle": 0,
           "composed_model_incomplete_oracle_differences": 0, "composed_model_mismatching_files": 0, "composed_model_layouts": {}}
    if not sel:
        return out
    exe = build_e2e_driver(chk)
    if exe is None:
        return out
    import concurrent.futures
    n = min(vlib.NCPU, max(1, len(sel) // 8))
    chunks = [sel[i::n] for i in range(n)]

    def work(chunk):
        data = "\n".join(json.dumps(dict(c, kind="enc_stream")) for c in chunk) + "\n"
        rc, o = vlib.sh("ulimit -s unlimited 2>/dev/null; %s" % exe, timeout=1800, stdin=data)
        lines = [l for l in o.splitlines() if l.startswith("{")]
        return [json.loads(l) for l in lines] if len(lines) == len(chunk) else None

    with concurrent.futures.ThreadPoolExecutor(max_workers=n) as ex:
        parts = list(ex.map(work, chunks))
    if any(p is None for p in parts):
        chk.broken_tie("composed-model-run", "the composed-model driver did not answer every case")
        return out
    res = [None] * len(sel)
    for i, p in enumerate(parts):
        for j, r in enumerate(p):
            res[i + j * n] = r
    bad = 0
    for c, r in zip(sel, res):
        out["composed_model_files"] += 1
        cfg = c["cfg"]
        lay = "seek=%s padding=%s total=%s" % (str(cfg.get("seek"))[:7], "default" if cfg.get("padding") is None else ("none" if cfg.get("padding") == 0 else "n"), "declared" if cfg.get("declare_total") else "unknown")
        out["composed_model_layouts"][lay] = out["composed_model_layouts"].get(lay, 0) + 1
        why = None
        if r.get("end") != "ok":
            why = "the model run ends with %s where the implementation produced a file" % r.get("end")
        elif r["match"] and not (r.get("match_bytes_le", True) and r.get("match_bytes_be", True) and r.get("match_channels", True)):
            why = "the FlacSampleWriter model reproduces the file, but not every other front-end model does (byte writer LE: %s, BE: %s, channel writer: %s)" % (
                r.get("match_bytes_le"), r.get("match_bytes_be"), r.get("match_channels"))
        elif r["match"]:
            out["composed_model_files_byte_exact"] += 1
            out["composed_model_front_end_runs"] = out.get("composed_model_front_end_runs", 0) + 4
            if not r["complete_oracle"]:
                out["composed_model_files_incomplete_oracle"] += 1
        elif not r["complete_oracle"]:
            out["composed_model_files_incomplete_oracle"] += 1
            out["composed_model_incomplete_oracle_differences"] += 1
        else:
            why = "first difference at byte %d of %d (metadata region: %d bytes): model %s... / implementation %s..." % (
                r["first_diff"], r["file_len"], r["meta_len"], r["model_at"], r["file_at"])
        if why:
            bad += 1
            if bad <= 3:
                chk.violation("tie:composed-model-file",
                              "the file the encoder writes is no longer the file the composed Coq model (coq/e2e: FlacSampleWriter model x Encoder model x block encoder model) writes: %s" % why,
                              {"stage": "composed-model-correspondence", "theorem": "C01_sample_writer_lossless / C02_sample_writer_file_valid / C09_sample_writer_seekpoints (coq/e2e/Props_E2E.v)",
                               "file_hex": c["bytes"], "pcm": c.get("expect"), "cfg": cfg, "model": r}, no_input=True)
    out["composed_model_mismatching_files"] = bad
    return out



def composed_prefix_tie(chk, cases):
    """The bytes a writer has put on its sink BEFORE finalize (kind e2e_prefix: provisional metadata region + the
    frames of every whole block written so far) must be the composed model's `stream` after the same writes — the
    object the theorems C14_end_to_end_interrupted / C14_sample_writer_interrupted speak about."""
    sel = [c for c in cases if c.get("kind") == "e2e_prefix" and isinstance(c.get("cfg"), dict)]
    out = {"composed_model_unfinished_streams": 0, "composed_model_unfinished_streams_byte_exact": 0,
           "composed_model_unfinished_incomplete_oracle_differences": 0, "composed_model_unfinished_mismatching": 0}
    if not sel:
        return out
    exe = build_e2e_driver(chk)
    if exe is None:
        return out
    data = "\n".join(json.dumps(c) for c in sel) + "\n"
    rc, o = vlib.sh("ulimit -s unlimited 2>/dev/null; %s" % exe, timeout=1800, stdin=data)
    lines = [l for l in o.splitlines() if l.startswith("{")]
    if len(lines) != len(sel):
        chk.broken_tie("composed-model-run", "the composed-model driver did not answer every unfinished-stream case")
        return out
    bad = 0
    for c, l in zip(sel, lines):
        r = json.loads(l)
        out["composed_model_unfinished_streams"] += 1
        why = None
        if r.get("end") != "ok":
            why = "the model ends with %s where the implementation wrote a stream" % r.get("end")
        elif r["match"]:
            out["composed_model_unfinished_streams_byte_exact"] += 1
        elif not r["complete_oracle"]:
            out["composed_model_unfinished_incomplete_oracle_differences"] += 1
        else:
            why = "first difference at byte %d (model %d bytes, implementation %d bytes, metadata region %d bytes)" % (r["first_diff"], r["model_len"], r["file_len"], r["meta_len"])
        if why:
            bad += 1
            if bad <= 3:
                chk.violation("tie:composed-model-unfinished-stream",
                              "what the writer has put on the sink before finalize is no longer what the composed Coq model's `stream` holds after the same writes: %s" % why,
                              {"stage": "composed-model-correspondence", "theorem": "C14_sample_writer_interrupted / C14_end_to_end_interrupted (coq/e2e/Props_E2E.v)",
                               "stream_hex": c["bytes"], "pcm": c.get("expect"), "cfg": c["cfg"], "writer": c.get("writer"), "model": r}, no_input=True)
    out["composed_model_unfinished_mismatching"] = bad
    return out
