"""C13 — success is only reported when the output really reached the underlying stream.

Proof: coq/updateio/{IoFault,IoFault_proofs,Props_C13}.v — a device driven by fault schedules, write_all,
BufWriter (with the drop that discards the flush error), the writer programs of encode+finalize and
write_blocks, update_file over two devices; theorems: Ok => the device holds the complete result, no panic.
Tie: the extracted model is run on the programs the harness observes at the writer interface (a spy between
the encoder and its writer) under exactly the fault schedules applied to the implementation; outcome class and
device bytes are compared.  For update_file the model runs over a size-only codec: class and device lengths.
Search: harness/src/bin/c13.rs — exhaustive n-th write/flush/seek/read call failing (permanent, once,
Interrupted, short, zero-length) over encode+finalize (3 front-ends x bare device / BufWriter::new = `create` /
tiny BufWriter), write_blocks, update_file in place and rebuilt, decoding."""
import json
import os
import re

import vlib
from vlib import VERIF, CACHE, sh
from checks import c10 as c10mod

AREA = c10mod.AREA
THEOREMS = ["C13_writer_ok_means_delivered", "C13_encode_finalize", "C13_write_blocks", "C13_create_unfixed_refuted"]
OPTIONAL_THEOREMS = ["C13_update_file", "C13_no_panic", "C13_update_inplace_unfixed_refuted"]


def declared_theorems():
    txt = open(os.path.join(AREA, "Props_C13.v")).read()
    names = re.findall(r"^(?:Theorem|Example)\s+(\w+)", txt, re.M)
    return names


def run(chk):
    chk.assumptions = [
        "the model stops at the Read/Write/Seek trait boundary: what the OS does after write(2) returned is outside",
        "std's BufWriter/BufReader/write_all/read_exact/io::copy are modelled at their documented behaviour (buffer, flush_buf loop, drop discards the error); checked only through the differential run",
        "how bitstream-io cuts output into write calls is a parameter of the programs (theorems hold for all chunkings); the differential run uses the chunking observed by the spy",
        "a read returning Ok(0) is end of file by definition (a device that lies about EOF is outside the property)",
    ]
    names = declared_theorems()
    missing = [t for t in THEOREMS if t not in names]
    theorems = [t for t in names]
    proof_ok = c10mod.proof_stage(chk, theorems, ["FlacUpdIo.IoFault", "FlacUpdIo.IoFault_proofs", "FlacUpdIo.Props_C13"], composed=True,
                                  composed_theorems=["C13_real_codec_update_file", "C13_real_codec_inplace", "C13_real_codec_rebuilt", "C13_real_codec_example",
                                                    "C13_written_edited_then_faulty_update", "C13_written_then_faulty_update",
                                                    "C13_sample_written_file_is_bytes", "C13_byte_written_file_is_bytes", "C13_channel_written_file_is_bytes",
                                                    "C13_byte_written_edited_then_faulty_update", "C13_channel_written_edited_then_faulty_update",
                                                    "C13_byte_written_then_faulty_update", "C13_channel_written_then_faulty_update"],
                                  composed_requires=["FlacE2EUpd.Props_FaultsE2E", "FlacE2EUpd.Props_WrittenFaults"])
    if missing:
        proof_ok = False
        chk.broken_tie("theorems-missing", "Props_C13.v no longer states: " + ", ".join(missing))

    ok, binp, out = vlib.cargo_build(os.path.join(VERIF, "harness"), "c13", "release")
    if not ok:
        chk.broken_tie("harness-build", out)
        return
    rc, out = sh([binp], timeout=3000, env={"VERIF_SEED": str(chk.seed), "VERIF_TIER": chk.tier})
    if rc != 0:
        chk.broken_tie("harness-run", out[-3000:])
        return
    progs, cases, uprogs, ucases, viols, stat, notes = {}, [], {}, [], [], {}, []
    for ln in out.splitlines():
        if not ln.startswith("{"):
            continue
        d = json.loads(ln)
        t = d.get("t")
        if t == "prog":
            progs[d["scenario"]] = d
        elif t == "case":
            cases.append(d)
        elif t == "uprog":
            uprogs[d["scenario"]] = d
        elif t == "ucase":
            ucases.append(d)
        elif t == "viol":
            viols.append(d)
        elif t == "stat":
            stat = d
        elif t == "note":
            notes.append(d["msg"])
    if not stat or not cases:
        chk.broken_tie("harness-output", "no cases/stat produced: " + out[-2000:])
        return

    viol_at = set()
    for v in viols:
        viol_at.add((v.get("scenario"), v.get("sched")))
        rep = {k: v[k] for k in v if k != "t"}
        if v.get("scenario") in progs:
            rep["program_at_writer_interface"] = progs[v["scenario"]]["prog"][:4000]
        chk.violation(v["key"], v["desc"], rep)

    disagreements = soft = 0
    validated = 0
    if proof_ok:
        exe = c10mod.build_driver(chk)
        if exe:
            lines, expect = [], []
            for scn, p in progs.items():
                lines.append("c13p id=%s stack=%s prog=%s" % (scn, p["stack"], p["prog"]))
                expect.append(None)
            for c in cases:
                if c["scenario"] not in progs:
                    continue
                lines.append("c13r id=%s %s" % (c["scenario"], c["sched"]))
                expect.append(c)
            for c in ucases:
                u = uprogs.get(c["scenario"])
                if not u or u["len"] >= 8192:
                    continue  # beyond one BufReader/BufWriter fill the device call pattern is std's business: searcher only
                sched = c["sched"]
                if c["dev"] == 2:
                    m = re.match(r"w=(\S+) f=(\S+) ", sched)
                    sched = "w=/o f=/o s=/o r=/o w2=%s f2=%s" % (m.group(1), m.group(2))
                elif c.get("sched2"):
                    m = re.match(r"w=(\S+) f=(\S+) ", c["sched2"])
                    sched = "%s w2=%s f2=%s" % (sched, m.group(1), m.group(2))
                lines.append("c13u fixed=1 off=%d len=%d si=%d before=%s after=%s rb=1 %s" % (u["audio_off"], u["len"], u["si"], u["before"] or ";", u["after"] or ";", sched))
                expect.append(c)
            rc, mout = sh([exe], stdin="\n".join(lines) + "\n", timeout=1200)
            mlines = [x.strip() for x in mout.split("\n") if x.strip() != ""]
            want = [e for e in expect if e is not None]
            if rc != 0 or len(mlines) != len(want):
                chk.broken_tie("ocaml-run", "rc=%d, %d result lines for %d cases: %s" % (rc, len(mlines), len(want), mout[-1500:]))
            else:
                for c, ml in zip(want, mlines):
                    validated += 1
                    if c["t"] == "case":
                        mclass, mdev = ml.split(" ")
                        iclass = c["class"]
                        same = (mclass == iclass) and (mdev == c["dev"] or iclass != "ok")
                        if mclass == iclass and iclass != "ok" and mdev != c["dev"]:
                            soft += 1  # after an error the partial content is not part of the property
                        desc = "writer program %s under %s: implementation %s %s, model %s" % (c["scenario"], c["sched"], iclass, c["dev"], ml)
                    else:
                        mclass, l1, l2 = ml.split(" ")
                        iclass = c["class"] if c["class"].startswith("ok") else c["class"].split(":")[0]
                        il1, il2 = c["d1"].split(":")[0], c["d2"].split(":")[0]
                        same = (mclass == iclass) and ((l1, l2) == (il1, il2) or not iclass.startswith("ok"))
                        if mclass == iclass and not iclass.startswith("ok") and (l1, l2) != (il1, il2):
                            soft += 1
                        desc = "update_file %s under dev%s %s: implementation %s lengths %s/%s, model %s" % (c["scenario"], c["dev"], c["sched"], iclass, il1, il2, ml)
                    if not same:
                        disagreements += 1
                        if (c["scenario"], c["sched"]) in viol_at or any(v.get("scenario") == c["scenario"] for v in viols):
                            continue  # the searcher already produced a property violation on this scenario
                        rep = {"scenario": c["scenario"], "sched": c["sched"], "implementation": c, "model": ml}
                        if c["scenario"] in progs:
                            rep["program_at_writer_interface"] = progs[c["scenario"]]["prog"][:4000]
                        chk.violation("correspondence:io-model", desc, rep)
                        if disagreements > 5:
                            break
            # vm_compute cross-check of the extraction on a small sample of writer runs
            small = [(c, progs[c["scenario"]]) for c in cases if c["scenario"] in progs and len(progs[c["scenario"]]["prog"]) < 1200]
            step = max(1, len(small) // 30)
            sample = small[::step][:36]
            if sample:
                vfile = os.path.join(CACHE, "assum", "IoCases.v")
                os.makedirs(os.path.dirname(vfile), exist_ok=True)
                body = []
                for c, p in sample:
                    body.append("Eval vm_compute in (let '(r, d) := d_run_writer %s %s %s in (is_ok r, length d))." % (coq_stack(p["stack"]), coq_prog(p["prog"]), coq_sched(c["sched"])))
                open(vfile, "w").write("Require Import FlacBase.Res FlacBase.Bits FlacUpdIo.Update FlacUpdIo.IoFault.\nOpen Scope N_scope.\n" + "\n".join(body) + "\n")
                rc, vout = sh("coqc -noglob %s %s" % (c10mod.QFLAGS, vfile), cwd=AREA, timeout=600)
                got = re.findall(r"=\s*\((true|false),\s*(\d+)(?:%nat)?\)", vout)
                exp = [("true" if c["class"] == "ok" else "false", c["dev"].split(":")[0]) for c, _ in sample]
                # after an error only the class is compared
                got = [(a, b if a == "true" else "*") for a, b in got]
                exp = [(a, b if a == "true" else "*") for a, b in exp]
                if rc != 0 or got != exp:
                    bad = next((i for i, (a, b) in enumerate(zip(got, exp)) if a != b), None)
                    chk.violation("correspondence:io-model-vm", "vm_compute evaluation of the I/O model disagrees with the implementation",
                                  {"coq_output": vout[-2000:], "first_difference": None if bad is None else {"case": sample[bad][0], "coq": got[bad], "impl": exp[bad]},
                                   "n_got": len(got), "n_expected": len(exp)})

    chk.coverage.update({
        "evaluations": stat.get("runs", 0),
        "distinct_nontrivial": stat.get("runs", 0),
        "rule": "each run is a distinct (scenario, call kind, call index, failure mode) — exhaustive over the call indices of the fault-free run plus one; all are non-trivial (a fault is injected)",
        "exhaustive": True,
        "traces_validated_against_impl": validated,
        "disagreements_checked": disagreements,
        "error_path_content_differences_not_compared": soft,
        "searcher": {k: stat[k] for k in stat if k != "t"},
        "samples": [{"scenario": s, "stack": p["stack"], "program": p["prog"][:300], "calls_w_f_s_r": p["counts"]} for s, p in list(progs.items())[:3]] +
                   [{"case": cases[i]} for i in range(min(3, len(cases)))],
    })
    chk.notes.extend(notes)


def coq_stack(s):
    return {"raw": "SRaw", "buf": "(SBuf 8192)", "buf16": "(SBuf 16)"}[s]


def coq_bytes(h):
    return "[" + "; ".join(str(int(h[i:i + 2], 16)) for i in range(0, len(h), 2)) + "]"


def coq_prog(t):
    items = []
    for it in [x for x in t.split(",") if x]:
        k, rest = it[0], it[1:]
        if k == "a":
            items.append("WWriteAll %s" % coq_bytes(rest))
        elif k == "l":
            items.append("WWriteLoop %s" % coq_bytes(rest))
        elif k == "f":
            items.append("WFlush")
        elif k == "c":
            items.append("WSeekCur")
        elif k == "s":
            items.append("WSeek %s" % rest)
    return "[" + "; ".join(items) + "]"


def coq_stream(t):
    p, d = t.split("/")
    out, i = [], 0
    while i < len(p):
        ch = p[i]
        if ch == "o":
            out.append("FOk"); i += 1
        elif ch == "e":
            out.append("FErr"); i += 1
        elif ch == "i":
            out.append("FIntr"); i += 1
        elif ch == "s":
            j = p.index(",", i)
            out.append("FShort %s" % p[i + 1:j]); i = j + 1
        else:
            raise ValueError(t)
    return "{| pending := [%s]; dflt_err := %s |}" % ("; ".join(out), "true" if d == "e" else "false")


def coq_sched(t):
    kv = dict(x.split("=", 1) for x in t.split())
    return "{| sw := %s; sf := %s; ss := %s; sr := %s |}" % tuple(coq_stream(kv[k]) for k in ("w", "f", "s", "r"))
