(* Codec/Prefix.v — locality and prefix-EOF of the bit parsers: a parser's result depends only on the
   bits it consumed, and on any proper prefix of those bits it reports end-of-input (Err EEof).
   Lifted to whole frames: a valid frame cut anywhere is an error, never a (shorter) frame.
   Used by C05(d) (truncation) and C14 (interrupted encode). *)
From FlacCodec Require Import Parser_proofs Dec Progress.
From FlacBase Require Import Crc.
Open Scope N_scope.

Definition wb {A} (p : P A) : Prop :=
  forall s a r, p s = Ok (a, r) ->
    exists c, s = c ++ r /\
              (forall r', p (c ++ r') = Ok (a, r')) /\
              (forall c1 c2, c = c1 ++ c2 -> c2 <> [] -> p c1 = Err EEof).

Lemma wb_ret {A} (a : A) : wb (pret a).
Proof.
  intros s a' r H. inversion H; subst. exists []. split; [reflexivity|]. split; [reflexivity|].
  intros c1 c2 E Hn. destruct c1, c2; try discriminate. congruence.
Qed.
Lemma wb_fail {A} e : wb (@pfail A e).
Proof. intros s a r H. discriminate. Qed.
Lemma wb_guard b e : wb (p_guard b e).
Proof. destruct b; [apply wb_ret|apply wb_fail]. Qed.
Lemma wb_lift {A} (x : res A) : wb (plift x).
Proof.
  intros s a r H. unfold plift in *. destruct x; inversion H; subst. exists []. split; [reflexivity|].
  split; [reflexivity|]. intros c1 c2 E Hn. destruct c1, c2; try discriminate. congruence.
Qed.

Lemma app_split_cases {A} (a b c1 c2 : list A) : a ++ b = c1 ++ c2 ->
  (exists d, a = c1 ++ d /\ c2 = d ++ b) \/ (exists d, d <> [] /\ c1 = a ++ d /\ b = d ++ c2).
Proof.
  revert c1. induction a as [|x a IH]; intros c1 E; cbn in E.
  - destruct c1 as [|y c1]; [left; exists []; auto|]. right. exists (y :: c1). repeat split; auto. discriminate.
  - destruct c1 as [|y c1]; cbn in E.
    + left. exists (x :: a). subst. auto.
    + injection E as -> E. destruct (IH c1 E) as [(d & -> & ->)|(d & Hd & -> & ->)].
      * left. exists d. auto.
      * right. exists d. auto.
Qed.

Lemma wb_bind {A B} (p : P A) (f : A -> P B) : wb p -> (forall a, wb (f a)) -> wb (pbind p f).
Proof.
  intros Hp Hf s b r H. unfold pbind in H.
  destruct (p s) as [[a s1]| |] eqn:Ep; try discriminate.
  destruct (Hp _ _ _ Ep) as (cp & -> & Lp & Pp).
  destruct (Hf a _ _ _ H) as (cf & -> & Lf & Pf).
  exists (cp ++ cf). split; [rewrite app_assoc; reflexivity|]. split.
  - intros r'. unfold pbind. rewrite <- app_assoc, Lp. apply Lf.
  - intros c1 c2 E Hn. unfold pbind.
    destruct (app_split_cases _ _ _ _ E) as [(d & E1 & E2)|(d & Hd & E1 & E2)].
    + (* c1 is a prefix of cp *)
      destruct d as [|x d].
      * (* c1 = cp: then f must hit the end *)
        rewrite app_nil_r in E1. subst c1. cbn in E2. subst c2.
        rewrite <- (app_nil_r cp), Lp. apply (Pf [] cf); auto.
      * rewrite (Pp c1 (x :: d)); auto. discriminate.
    + subst c1. rewrite Lp. apply (Pf d c2); auto.
Qed.

Lemma wb_rd n : wb (p_rd n).
Proof.
  intros s a r H. unfold p_rd in H. destruct (rd n s) as [[v r0]|] eqn:E; inversion H; subst.
  unfold rd in E. pose proof (rd_acc_split _ _ _ _ _ E) as (c & -> & L).
  exists c. split; [reflexivity|]. split.
  - intros r'. unfold p_rd, rd. rewrite (rd_acc_app n 0 c a r r' E L). reflexivity.
  - intros c1 c2 Ec Hn. unfold p_rd, rd.
    assert (Hl : (length c1 < n)%nat).
    { subst c. rewrite app_length in L. destruct c2; [congruence|]. cbn in L. lia. }
    apply (proj2 (rd_acc_none n 0 c1)) in Hl. rewrite Hl. reflexivity.
Qed.
Lemma wb_rds n : wb (p_rds n).
Proof.
  intros s a r H. unfold p_rds, rd_s in H. destruct (rd n s) as [[v r0]|] eqn:E; inversion H; subst.
  unfold rd in E. pose proof (rd_acc_split _ _ _ _ _ E) as (c & -> & L).
  exists c. split; [reflexivity|]. split.
  - intros r'. unfold p_rds, rd_s, rd. rewrite (rd_acc_app n 0 c v r r' E L). reflexivity.
  - intros c1 c2 Ec Hn. unfold p_rds, rd_s, rd.
    assert (Hl : (length c1 < n)%nat).
    { subst c. rewrite app_length in L. destruct c2; [congruence|]. cbn in L. lia. }
    apply (proj2 (rd_acc_none n 0 c1)) in Hl. rewrite Hl. reflexivity.
Qed.
Lemma wb_bit : wb p_bit.
Proof.
  intros [|b s] a r H; inversion H; subst. exists [a]. split; [reflexivity|]. split; [reflexivity|].
  intros c1 c2 E Hn. destruct c1 as [|x c1]; [reflexivity|]. destruct c1, c2; try discriminate. congruence.
Qed.
Lemma rd_unary_wb stop : forall s k r, rd_unary stop s = Some (k, r) ->
  exists c, s = c ++ r /\ (forall r', rd_unary stop (c ++ r') = Some (k, r')) /\
            (forall c1 c2, c = c1 ++ c2 -> c2 <> [] -> rd_unary stop c1 = None).
Proof.
  induction s as [|b s IH]; intros k r H; cbn [rd_unary] in H; [discriminate|].
  destruct (Bool.eqb b stop) eqn:Eb.
  - inversion H; subst. exists [b]. split; [reflexivity|]. split.
    + intros r'. cbn [app rd_unary]. rewrite Eb. reflexivity.
    + intros c1 c2 E Hn. destruct c1 as [|x c1]; [reflexivity|]. destruct c1, c2; try discriminate. congruence.
  - destruct (rd_unary stop s) as [[k0 r0]|] eqn:Er; inversion H; subst.
    destruct (IH k0 r eq_refl) as (c & -> & L & Pf).
    exists (b :: c). split; [reflexivity|]. split.
    + intros r'. cbn [app rd_unary]. rewrite Eb, L. reflexivity.
    + intros c1 c2 E Hn. destruct c1 as [|x c1]; [reflexivity|]. cbn in E. injection E as -> E.
      cbn [rd_unary]. rewrite Eb, (Pf c1 c2 E Hn). reflexivity.
Qed.
Lemma wb_unary stop : wb (p_unary stop).
Proof.
  intros s a r H. unfold p_unary in H. destruct (rd_unary stop s) as [[k r0]|] eqn:E; inversion H; subst.
  destruct (rd_unary_wb stop _ _ _ E) as (c & -> & L & Pf).
  exists c. split; [reflexivity|]. split.
  - intros r'. unfold p_unary. rewrite L. reflexivity.
  - intros c1 c2 Ec Hn. unfold p_unary. rewrite (Pf c1 c2 Ec Hn). reflexivity.
Qed.
Lemma wb_repeat {A} n (p : P A) : wb p -> wb (p_repeat n p).
Proof.
  intros Hp. induction n as [|n IH]; cbn [p_repeat]; [apply wb_ret|].
  apply wb_bind; [exact Hp|]. intros a. apply wb_bind; [exact IH|]. intros. apply wb_ret.
Qed.

Ltac wb_step :=
  match goal with
  | |- wb (pret _) => apply wb_ret
  | |- wb (pfail _) => apply wb_fail
  | |- wb (p_rd _) => apply wb_rd
  | |- wb (p_rds _) => apply wb_rds
  | |- wb p_bit => apply wb_bit
  | |- wb (p_unary _) => apply wb_unary
  | |- wb (p_guard _ _) => apply wb_guard
  | |- wb (plift _) => apply wb_lift
  | |- wb (p_repeat _ _) => apply wb_repeat
  | |- wb (pbind _ _) => apply wb_bind; [|intros ?]
  | |- wb (if ?c then _ else _) => destruct c
  | |- wb (match ?x with _ => _ end) => destruct x
  end.
Ltac solve_wb := repeat wb_step.

Lemma wb_part_header m : wb (p_part_header m). Proof. unfold p_part_header. solve_wb. Qed.
Lemma wb_rice k : wb (p_rice k). Proof. unfold p_rice. solve_wb. Qed.
Lemma wb_partition h n : wb (p_partition h n).
Proof. destruct h; cbn [p_partition]; solve_wb; apply wb_rice. Qed.
Lemma wb_dec_partitions m : forall lens, wb (dec_partitions m lens).
Proof.
  induction lens as [|n rest IH]; cbn [dec_partitions]; [apply wb_ret|].
  apply wb_bind; [apply wb_part_header|]. intros h. apply wb_bind; [apply wb_partition|]. intros rs.
  apply wb_bind; [exact IH|]. intros. apply wb_ret.
Qed.
Lemma wb_dec_residuals order nres : wb (dec_residuals order nres).
Proof. unfold dec_residuals. solve_wb; apply wb_dec_partitions. Qed.
Lemma wb_subframe_header : wb p_subframe_header. Proof. unfold p_subframe_header. solve_wb. Qed.
Lemma wb_qlp_precision : wb p_qlp_precision. Proof. unfold p_qlp_precision. solve_wb. Qed.
Lemma wb_qlp_shift : wb p_qlp_shift. Proof. unfold p_qlp_shift. solve_wb. Qed.
Lemma wb_dec_subframe w bps n : wb (dec_subframe w bps n).
Proof.
  unfold dec_subframe. apply wb_bind; [apply wb_subframe_header|]. intros [ty wasted].
  apply wb_bind; [apply wb_lift|]. intros eb. apply wb_bind.
  - destruct ty; solve_wb;
      first [apply wb_dec_partitions | apply wb_dec_residuals | apply wb_qlp_precision | apply wb_qlp_shift | idtac].
  - intros xs. destruct (wasted =? 0); apply wb_ret.
Qed.
Lemma wb_dec_subframes h : wb (dec_subframes h).
Proof.
  unfold dec_subframes.
  repeat match goal with |- wb (if ?c then _ else _) => destruct c end; solve_wb; apply wb_dec_subframe.
Qed.
Lemma wb_frame_number : wb p_frame_number.
Proof.
  unfold p_frame_number. apply wb_bind; [apply wb_unary|]. intros ones.
  destruct (ones =? 0); [apply wb_rd|]. destruct ((ones =? 1) || (7 <? ones)); [apply wb_fail|].
  apply wb_bind; [apply wb_rd|]. intros first.
  generalize (N.to_nat ones - 1)%nat as k. intros k. revert first.
  induction k as [|k IH]; intros acc; cbn [p_number_cont]; [apply wb_ret|].
  apply wb_bind; [apply wb_rd|]. intros tag. apply wb_bind; [apply wb_guard|]. intros _.
  apply wb_bind; [apply wb_rd|]. intros v. apply IH.
Qed.
Lemma wb_header si : wb (parse_header_fields si).
Proof. unfold parse_header_fields. repeat (first [apply wb_frame_number | wb_step]). Qed.

(* ---- frames cut short ---- *)
Lemma bits_of_bytes_firstn m : forall bytes, (m <= length bytes)%nat ->
  bits_of_bytes (firstn m bytes) = firstn (8 * m) (bits_of_bytes bytes).
Proof.
  induction m as [|m IH]; intros bytes Hm; [reflexivity|].
  destruct bytes as [|b bytes]; [cbn in Hm; lia|].
  change (bits_of_bytes (b :: bytes)) with (byte_bits b ++ bits_of_bytes bytes).
  change (firstn (S m) (b :: bytes)) with (b :: firstn m bytes).
  change (bits_of_bytes (b :: firstn m bytes)) with (byte_bits b ++ bits_of_bytes (firstn m bytes)).
  assert (Lb : length (byte_bits b) = 8%nat) by (unfold byte_bits; apply wr_length).
  rewrite firstn_app, Lb. rewrite (@firstn_all2 _ (8 * S m) (byte_bits b)) by (rewrite Lb; clear; lia).
  replace (8 * S m - 8)%nat with (8 * m)%nat by lia.
  rewrite IH by (cbn in Hm; lia). reflexivity.
Qed.

Lemma firstn_app_le {A} (a b : list A) k : (k <= length a)%nat -> firstn k (a ++ b) = firstn k a.
Proof. intros H. rewrite firstn_app. replace (k - length a)%nat with 0%nat by lia. cbn. apply app_nil_r. Qed.
Lemma firstn_app_ge {A} (a b : list A) k : (length a <= k)%nat -> firstn k (a ++ b) = a ++ firstn (k - length a) b.
Proof. intros H. rewrite firstn_app, firstn_all2 by lia. reflexivity. Qed.

(* a parser run on a cut of its input: either it already has everything it consumed, or it reports EOF *)
Lemma wb_cut {A} (p : P A) : wb p -> forall s a r (k : nat), p s = Ok (a, r) ->
  ((length s - length r <= k)%nat -> p (firstn k s) = Ok (a, firstn (k - (length s - length r)) r)) /\
  ((k < length s - length r)%nat -> p (firstn k s) = Err EEof).
Proof.
  intros Hp s a r k H. destruct (Hp _ _ _ H) as (c & -> & L & Pf).
  rewrite app_length. replace (length c + length r - length r)%nat with (length c) by lia. split; intros Hk.
  - rewrite firstn_app_ge by lia. apply L.
  - rewrite firstn_app_le by lia.
    apply (Pf (firstn k c) (skipn k c)); [symmetry; apply firstn_skipn|].
    intros E. apply (f_equal (@length bool)) in E. rewrite skipn_length in E. cbn in E. lia.
Qed.

Theorem truncated_frame_is_eof si chk bytes h c rest m :
  dec_frame si chk bytes = Ok (h, c, rest) ->
  (m < length bytes - length rest)%nat ->
  dec_frame si chk (firstn m bytes) = Err EEof.
Proof.
  unfold dec_frame. intros H Hm.
  assert (Hmb : (m <= length bytes)%nat) by lia.
  rewrite (bits_of_bytes_firstn m bytes Hmb).
  pose proof (bits_of_bytes_length bytes) as L0. set (s0 := bits_of_bytes bytes) in *.
  destruct (parse_header_fields si s0) as [[h0 s1]| |] eqn:Eh; try discriminate.
  destruct (wb_cut _ (wb_header si) _ _ _ (8 * m) Eh) as [Hge Hlt].
  pose proof (consuming_header si _ _ _ Eh) as Sh. apply suffix_length in Sh.
  destruct (Nat.lt_ge_cases (8 * m) (length s0 - length s1)) as [Hc|Hc]; [rewrite (Hlt Hc); reflexivity|].
  rewrite (Hge Hc). clear Hge Hlt.
  destruct (match si with Some i => header_checks i h0 | None => Ok h0 end) as [h1| |]; try discriminate.
  cbn [bind] in *.
  (* the header bytes are the same *)
  set (t := firstn (8 * m - (length s0 - length s1)) s1).
  assert (Lt : length t = (8 * m - (length s0 - length s1))%nat) by (unfold t; rewrite firstn_length; lia).
  assert (Ecb : consumed_bytes (firstn m bytes) t = consumed_bytes bytes s1).
  { unfold consumed_bytes. rewrite firstn_length, Lt. replace (Nat.min m (length bytes)) with m by lia.
    (* both are ceil((len s0 - len s1)/8) *)
    remember (length s0 - length s1)%nat as hc.
    assert (length s1 = 8 * length bytes - hc)%nat by lia.
    replace (length s1) with (8 * length bytes - hc)%nat by lia.
    pose proof (Nat.div_mod hc 8 ltac:(lia)) as D. pose proof (Nat.mod_upper_bound hc 8 ltac:(lia)) as M.
    remember (hc / 8)%nat as q. remember (hc mod 8)%nat as rr.
    destruct (Nat.eq_dec rr 0) as [R0|R0].
    - assert (E1 : ((8 * m - hc) / 8 = m - q)%nat).
      { replace (8 * m - hc)%nat with ((m - q) * 8)%nat by lia. apply Nat.div_mul. lia. }
      assert (E2 : ((8 * length bytes - hc) / 8 = length bytes - q)%nat).
      { replace (8 * length bytes - hc)%nat with ((length bytes - q) * 8)%nat by lia. apply Nat.div_mul. lia. }
      rewrite E1, E2. lia.
    - assert (E1 : ((8 * m - hc) / 8 = m - q - 1)%nat).
      { symmetry. apply (Nat.div_unique _ 8 _ (8 - rr)); lia. }
      assert (E2 : ((8 * length bytes - hc) / 8 = length bytes - q - 1)%nat).
      { symmetry. apply (Nat.div_unique _ 8 _ (8 - rr)); lia. }
      rewrite E1, E2. lia. }
  rewrite Ecb.
  assert (Ecn : (consumed_bytes bytes s1 <= m)%nat).
  { rewrite <- Ecb. unfold consumed_bytes. rewrite firstn_length. lia. }
  rewrite firstn_firstn. replace (Nat.min (consumed_bytes bytes s1) m) with (consumed_bytes bytes s1) by lia.
  destruct (negb _); [discriminate|].
  destruct (chk h1); try discriminate. cbn [bind] in *.
  (* the body *)
  unfold pbind in *.
  destruct (dec_subframes h1 s1) as [[ch s2]| |] eqn:Eb; try discriminate.
  destruct (wb_cut _ (wb_dec_subframes h1) _ _ _ (length t) Eb) as [Bge Blt].
  pose proof (consuming_dec_subframes h1 _ _ _ Eb) as Sb. apply suffix_length in Sb.
  assert (Et : firstn (length t) s1 = t) by (unfold t at 2; rewrite Lt; reflexivity).
  rewrite Et in Bge, Blt.
  destruct (Nat.lt_ge_cases (length t) (length s1 - length s2)) as [Hb|Hb]; [rewrite (Blt Hb); reflexivity|].
  rewrite (Bge Hb). clear Bge Blt.
  set (u := firstn (length t - (length s1 - length s2)) s2).
  assert (Lu : length u = (length t - (length s1 - length s2))%nat) by (unfold u; rewrite firstn_length; lia).
  (* alignment and the CRC-16 field *)
  unfold p_align in *. unfold p_rd in *. 
  destruct (rd 16 (skipn (length s2 mod 8) s2)) as [[v s4]|] eqn:Er; try discriminate.
  apply rd_consumes in Er. rewrite skipn_length in Er. unfold pret in H.
  destruct (crc16 _ =? 0); [|discriminate]. inversion H; subst. clear H.
  rewrite skipn_length in Hm. unfold consumed_bytes in Hm.
  (* the cut input does not hold 16 bits after the padding *)
  assert (Hshort : (length (skipn (length u mod 8) u) < 16)%nat).
  { rewrite skipn_length.
    pose proof (Nat.div_mod (length s2) 8 ltac:(lia)) as D2. pose proof (Nat.mod_upper_bound (length s2) 8 ltac:(lia)) as M2.
    remember (length s2 / 8)%nat as q2. remember (length s2 mod 8)%nat as pad.
    pose proof (Nat.div_mod (length s4) 8 ltac:(lia)) as D4. pose proof (Nat.mod_upper_bound (length s4) 8 ltac:(lia)) as M4.
    remember (length s4 / 8)%nat as q4. remember (length s4 mod 8)%nat as r4.
    assert (Ey : length u = (8 * (m + q2 - length bytes) + pad)%nat) by lia.
    assert (Epad : (length u mod 8 = pad)%nat).
    { rewrite Ey. symmetry. apply (Nat.mod_unique _ 8 (m + q2 - length bytes)); lia. }
    rewrite Epad. lia. }
  apply (proj2 (rd_acc_none 16 0 _)) in Hshort. unfold rd. rewrite Hshort. reflexivity.
Qed.
