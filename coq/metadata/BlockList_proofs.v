(* metadata/BlockList_proofs.v — BlockIterator / write_blocks theorems. *)
From FlacMeta Require Import Bytes Bytes_proofs Blocks BlockList Blocks_proofs Blocks_proofs2 Blocks_level.
Open Scope N_scope.

Section ListLevel.
Variable utf8_valid : list N -> bool.
Hypothesis utf8_ascii : forall s, Forall (fun b => b < 128) s -> utf8_valid s = true.

Local Notation ty_block := (ty_block utf8_valid).

Lemma lenN_write_header h : lenN (write_header h) = 4.
Proof.
  unfold write_header. rewrite lenN_app, lenN_be_bytes.
  rewrite lenN_bytes_of_bits by (rewrite app_length, !wr_length; reflexivity). reflexivity.
Qed.

(* one block: header + body is read back, the stream continues after it *)
Lemma block_write_read last b bs rest : ty_block b -> canon_block b ->
  write_block last b = Ok bs ->
  read_block utf8_valid (bs ++ rest) = Ok (last, b, rest).
Proof.
  intros T C W. destruct (write_block_inv utf8_valid last b bs T W) as (body & Wb & Le & Sz & ->).
  unfold read_block. rewrite <- app_assoc.
  rewrite read_header_write by (cbn [h_size]; unfold BLOCKSIZE_MAX in Le; change (2 ^ 24) with 16777216; lia).
  cbn [h_size h_type h_last]. rewrite takeN_app, dropN_app.
  pose proof (body_write_read utf8_valid utf8_ascii b body [] T C Wb) as R. rewrite app_nil_r in R. rewrite R.
  cbn [lenN]. replace (lenN body - (lenN body - 0)) with 0 by lia. reflexivity.
Qed.

(* what read_block returns can be written again, and reads back the same *)
Lemma read_body_inv ty size body b leftover : Forall byte body ->
  read_body utf8_valid ty size body = Ok (b, leftover) ->
  size <= BLOCKSIZE_MAX ->
  ty = block_type b /\ ty_block b /\ canon_block b /\
  exists bs', write_body b = Ok bs' /\ lenN body = lenN bs' + lenN leftover.
Proof.
  intros Hb H Hsz. destruct ty; cbn [read_body] in H; inv_bind H; unfold pret in H; apply Ok_inj in H;
    injection H as H1 H2; subst b s; cbn [block_type Blocks_level.ty_block canon_block write_body].
  - apply streaminfo_read_inv in E; [|exact Hb]. destruct E as (T & C & bs & W & ->).
    split; [reflexivity|]. split; [exact T|]. split; [exact C|]. exists bs. rewrite lenN_app. auto.
  - apply padding_read_inv in E. destruct E as (-> & c & -> & Lc).
    split; [reflexivity|]. split; [exact Hsz|]. split; [exact I|]. exists (zerosN size).
    split; [reflexivity|]. rewrite lenN_app, lenN_zerosN, Lc. reflexivity.
  - apply application_read_inv in E; [|exact Hb]. destruct E as (T & Hge & Ld & ->).
    split; [reflexivity|]. split; [exact T|]. split; [exact I|]. eexists. split; [reflexivity|].
    rewrite !lenN_app. lia.
  - apply seektable_read_inv in E; [|exact Hb]. destruct E as (T & Hs & W & Len & _).
    split; [reflexivity|]. split; [exact T|]. split; [exact I|]. eexists. split; [exact W|]. exact Len.
  - apply vorbis_read_inv in E; [|exact Hb]. destruct E as (T & bs & W & Len).
    split; [reflexivity|]. split; [exact T|]. split; [exact I|]. exists bs. auto.
  - apply cuesheet_read_inv in E; [|exact Hb]. destruct E as (T & bs & W & Len).
    split; [reflexivity|]. split; [exact T|]. split; [exact I|]. exists bs. auto.
  - apply picture_read_inv in E; [|exact Hb]. destruct E as (T & bs & W & ->).
    split; [reflexivity|]. split; [exact T|]. split; [exact I|]. exists bs. rewrite lenN_app. auto.
Qed.

Lemma read_block_inv s last b rest : Forall byte s ->
  read_block utf8_valid s = Ok (last, b, rest) ->
  ty_block b /\ canon_block b /\ Forall byte rest /\ (lenN rest + 4 <= lenN s) /\
  exists bs', write_block last b = Ok bs' /\ lenN bs' + lenN rest = lenN s.
Proof.
  intros Hs H. unfold read_block in H.
  destruct (read_header s) as [[h s1]| |] eqn:RH; try discriminate.
  apply read_header_inv in RH; [|exact Hs]. destruct RH as [-> Hsz].
  pose proof (Forall_app_r _ _ _ Hs) as Hs1.
  destruct (read_body utf8_valid (h_type h) (h_size h) (takeN (h_size h) s1)) as [[b' leftover]| |] eqn:RB; try discriminate.
  destruct (N.eqb_spec (h_size h - (lenN (takeN (h_size h) s1) - lenN leftover)) 0) as [Hz|]; [|discriminate].
  apply Ok_inj in H. injection H as <- <- <-.
  pose proof (lenN_takeN_le (h_size h) s1) as Hle.
  assert (Hb : Forall byte (takeN (h_size h) s1)).
  { rewrite <- (takeN_dropN (h_size h) s1) in Hs1. eapply Forall_app_l. exact Hs1. }
  change (2 ^ 24) with 16777216 in Hsz.
  apply read_body_inv in RB; [|exact Hb|unfold BLOCKSIZE_MAX; lia].
  destruct RB as (Ety & T & C & bs' & W & Lbs).
  assert (Lb : lenN (takeN (h_size h) s1) = h_size h /\ lenN bs' = h_size h) by lia.
  destruct Lb as [Lb Lbs'].
  assert (Hrest : Forall byte (dropN (h_size h) s1)).
  { rewrite <- (takeN_dropN (h_size h) s1) in Hs1. eapply Forall_app_r. exact Hs1. }
  assert (Ls1 : lenN s1 = h_size h + lenN (dropN (h_size h) s1)).
  { rewrite <- (takeN_dropN (h_size h) s1) at 1. rewrite lenN_app, Lb. reflexivity. }
  split; [exact T|]. split; [exact C|]. split; [exact Hrest|].
  split. { rewrite lenN_app, lenN_write_header. lia. }
  unfold write_block. pose proof (body_size_write utf8_valid b' T) as S. rewrite W in S. rewrite S. cbn [bind].
  rewrite Lbs'. destruct (N.ltb_spec BLOCKSIZE_MAX (h_size h)) as [Hx|_]; [unfold BLOCKSIZE_MAX in Hx; lia|].
  rewrite W. cbn [bind]. eexists. split; [reflexivity|].
  rewrite !lenN_app, !lenN_write_header. lia.
Qed.

Lemma write_block_length last b bs : write_block last b = Ok bs -> (4 <= length bs)%nat.
Proof.
  unfold write_block. intros H. destruct (body_size b) as [n| |]; cbn [bind] in H; try discriminate.
  destruct (BLOCKSIZE_MAX <? n); [discriminate|].
  destruct (write_body b) as [body| |]; cbn [bind] in H; try discriminate.
  apply Ok_inj in H. subst bs. rewrite app_length.
  pose proof (lenN_write_header (mkHeader last (block_type b) n)) as L. rewrite lenN_length in L. lia.
Qed.

Lemma write_rest_cons sk vc png icon b l bs : write_rest sk vc png icon (b :: l) = Ok bs ->
  exists x y sk' vc' png' icon',
    write_block (match l with [] => true | _ => false end) b = Ok x /\
    write_rest sk' vc' png' icon' l = Ok y /\ bs = x ++ y /\
    match b with
    | BStreaminfo _ => False
    | BVorbis _ => vc = false /\ (sk', vc', png', icon') = (sk, true, png, icon)
    | BSeekTable _ => sk = false /\ (sk', vc', png', icon') = (true, vc, png, icon)
    | BPicture pic =>
      if pic_type pic =? 1 then png = false /\ (sk', vc', png', icon') = (sk, vc, true, icon)
      else if pic_type pic =? 2 then icon = false /\ (sk', vc', png', icon') = (sk, vc, png, true)
      else (sk', vc', png', icon') = (sk, vc, png, icon)
    | _ => (sk', vc', png', icon') = (sk, vc, png, icon)
    end.
Proof.
  intros H. cbn [write_rest] in H.
  set (last := match l with [] => true | _ => false end) in *.
  assert (G : forall sk' vc' png' icon',
    (x <- write_block last b ;; y <- write_rest sk' vc' png' icon' l ;; Ok (x ++ y))%res = Ok bs ->
    exists x y, write_block last b = Ok x /\ write_rest sk' vc' png' icon' l = Ok y /\ bs = x ++ y).
  { intros sk' vc' png' icon' G. destruct (write_block last b) as [x| |]; cbn [bind] in G; try discriminate.
    destruct (write_rest sk' vc' png' icon' l) as [y| |]; cbn [bind] in G; try discriminate.
    apply Ok_inj in G. eauto. }
  destruct b as [si|n|a|pts|v|c|pic].
  - discriminate.
  - apply G in H. destruct H as (x & y & ? & ? & ?). exists x, y, sk, vc, png, icon. auto.
  - apply G in H. destruct H as (x & y & ? & ? & ?). exists x, y, sk, vc, png, icon. auto.
  - destruct sk; [discriminate|]. apply G in H. destruct H as (x & y & ? & ? & ?). exists x, y, true, vc, png, icon. auto.
  - destruct vc; [discriminate|]. apply G in H. destruct H as (x & y & ? & ? & ?). exists x, y, sk, true, png, icon. auto.
  - apply G in H. destruct H as (x & y & ? & ? & ?). exists x, y, sk, vc, png, icon. auto.
  - destruct (pic_type pic =? 1).
    + destruct png; [discriminate|]. apply G in H. destruct H as (x & y & ? & ? & ?). exists x, y, sk, vc, true, icon. auto.
    + destruct (pic_type pic =? 2).
      * destruct icon; [discriminate|]. apply G in H. destruct H as (x & y & ? & ? & ?). exists x, y, sk, vc, png, true. auto.
      * apply G in H. destruct H as (x & y & ? & ? & ?). exists x, y, sk, vc, png, icon. auto.
Qed.

Lemma collect_write_rest : forall l sk vc png icon bs tail acc fuel,
  Forall ty_block l -> Forall canon_block l ->
  write_rest sk vc png icon l = Ok bs ->
  (length l <= length fuel)%nat ->
  collect utf8_valid fuel
    (mkIter (bs ++ tail) false true true sk vc png icon (match l with [] => true | _ => false end)) acc
  = Ok (rev acc ++ l).
Proof.
  induction l as [|b l IH]; intros sk vc png icon bs tail acc fuel T C W F.
  - destruct fuel; cbn; rewrite app_nil_r; reflexivity.
  - apply write_rest_cons in W. destruct W as (x & y & sk' & vc' & png' & icon' & Wb & Wr & -> & Fl).
    inversion T as [|? ? Tb Tl]; inversion C as [|? ? Nb Nl]; subst.
    destruct fuel as [|f0 fuel]; [cbn in F; lia|].
    pose proof (block_write_read _ b x (y ++ tail) Tb Nb Wb) as RB. rewrite app_assoc in RB.
    cbn [collect]. unfold iter_next. cbn [it_failed it_tag_read negb].
    unfold next_tagged. cbn [it_streaminfo_read negb]. unfold it_read_block. cbn [it_finished it_reader].
    rewrite RB.
    cbn [it_failed it_tag_read it_streaminfo_read it_seektable_read it_vorbiscomment_read it_png_read it_icon_read it_finished it_reader].
    assert (IH' : collect utf8_valid fuel
              (mkIter (y ++ tail) false true true sk' vc' png' icon' (match l with [] => true | _ => false end)) (b :: acc)
            = Ok (rev acc ++ b :: l)).
    { rewrite (IH sk' vc' png' icon' y tail (b :: acc) fuel Tl Nl Wr); [|cbn in F; lia].
      cbn [rev]. rewrite <- app_assoc. reflexivity. }
    destruct b as [si|n|a|pts|v|c|pic]; try contradiction;
      repeat match goal with
             | |- context [pic_type ?q =? ?k] => destruct (pic_type q =? k)
             end;
      match type of Fl with _ /\ _ => destruct Fl as [-> Fl] | _ => idtac end;
      injection Fl as -> -> -> ->; cbn [negb]; exact IH'.
Qed.

Lemma write_rest_length : forall l sk vc png icon bs, write_rest sk vc png icon l = Ok bs ->
  (length l <= length bs)%nat.
Proof.
  induction l as [|b l IH]; intros sk vc png icon bs W; [cbn; lia|].
  apply write_rest_cons in W. destruct W as (x & y & sk' & vc' & png' & icon' & Wb & Wr & -> & _).
  apply write_block_length in Wb. apply IH in Wr. rewrite app_length. cbn [length]. lia.
Qed.

Lemma take_tag rest : take 4 (FLAC_TAG ++ rest) = Ok (FLAC_TAG, rest).
Proof. apply take_app_len. reflexivity. Qed.

Theorem write_blocks_read_blocks l bs tail :
  Forall ty_block l -> Forall canon_block l ->
  write_blocks l = Ok bs -> read_blocks utf8_valid (bs ++ tail) = Ok l.
Proof.
  intros T C W. unfold write_blocks in W.
  destruct l as [|b r]; [discriminate|]. destruct b as [si| | | | | |]; try discriminate.
  destruct (write_block (match r with [] => true | _ => false end) (BStreaminfo si)) as [x| |] eqn:Wb;
    cbn [bind] in W; try discriminate.
  destruct (write_rest false false false false r) as [y| |] eqn:Wr; cbn [bind] in W; try discriminate.
  apply Ok_inj in W. subst bs.
  inversion T as [|? ? Tb Tl]; inversion C as [|? ? Nb Nl]; subst.
  unfold read_blocks. rewrite <- !app_assoc. cbn [collect].
  unfold iter_next, iter_new. cbn [it_failed it_tag_read it_reader negb].
  rewrite take_tag. cbn [forallb combine FLAC_TAG fst snd N.eqb Pos.eqb andb].
  cbn [it_failed it_tag_read it_streaminfo_read it_seektable_read it_vorbiscomment_read it_png_read it_icon_read it_finished it_reader].
  unfold next_tagged. cbn [it_streaminfo_read negb]. unfold it_read_block. cbn [it_finished it_reader].
  rewrite (block_write_read _ _ x (y ++ tail) Tb Nb Wb).
  cbn [it_failed it_tag_read it_streaminfo_read it_seektable_read it_vorbiscomment_read it_png_read it_icon_read it_finished it_reader].
  rewrite (collect_write_rest r false false false false y tail [BStreaminfo si] _ Tl Nl Wr).
  - reflexivity.
  - apply write_rest_length in Wr. rewrite !app_length. cbn [length FLAC_TAG]. lia.
Qed.

(* ---- the reverse direction *)
Lemma read_block_rest_bytes s last b rest : Forall byte s -> read_block utf8_valid s = Ok (last, b, rest) -> Forall byte rest.
Proof. intros Hs H. pose proof (read_block_inv s last b rest Hs H). tauto. Qed.

Lemma collect_inv : forall fuel s sk vc png icon fin acc out,
  Forall byte s ->
  collect utf8_valid fuel (mkIter s false true true sk vc png icon fin) acc = Ok out ->
  exists l, out = rev acc ++ l /\ fin = match l with [] => true | _ => false end /\
    Forall ty_block l /\ Forall canon_block l /\ exists bs', write_rest sk vc png icon l = Ok bs'.
Proof.
  induction fuel as [|f0 fuel IH]; intros s sk vc png icon fin acc out Hs H.
  - cbn [collect] in H. unfold iter_next in H. cbn [it_failed it_tag_read negb] in H.
    unfold next_tagged in H. cbn [it_streaminfo_read negb] in H. unfold it_read_block in H.
    cbn [it_finished it_reader] in H.
    destruct fin.
    + apply Ok_inj in H. subst out. exists []. rewrite app_nil_r. split; [reflexivity|]. split; [reflexivity|].
      split; [constructor|]. split; [constructor|]. exists []. reflexivity.
    + destruct (read_block utf8_valid s) as [[[last b] rest]| |]; [|discriminate|discriminate].
      destruct b as [si|n|a|pts|v|c|pic];
        cbn [it_failed it_tag_read it_streaminfo_read it_seektable_read it_vorbiscomment_read it_png_read it_icon_read it_finished it_reader] in H;
        repeat match type of H with
               | context [pic_type ?q =? ?k] => destruct (pic_type q =? k)
               | context [negb ?f] => destruct f; cbn [negb] in H
               end; discriminate.
  - cbn [collect] in H. unfold iter_next in H. cbn [it_failed it_tag_read negb] in H.
    unfold next_tagged in H. cbn [it_streaminfo_read negb] in H. unfold it_read_block in H.
    cbn [it_finished it_reader] in H.
    destruct fin.
    + apply Ok_inj in H. subst out. exists []. rewrite app_nil_r. split; [reflexivity|]. split; [reflexivity|].
      split; [constructor|]. split; [constructor|]. exists []. reflexivity.
    + destruct (read_block utf8_valid s) as [[[last b] rest]| |] eqn:RB; [|discriminate|discriminate].
      assert (Step : forall sk' vc' png' icon',
        collect utf8_valid fuel (mkIter rest false true true sk' vc' png' icon' last) (b :: acc) = Ok out ->
        (forall l bs', write_block (match l with [] => true | _ => false end) b = Ok bs' ->
                       forall y, write_rest sk' vc' png' icon' l = Ok y ->
                       exists z, write_rest sk vc png icon (b :: l) = Ok z) ->
        exists l, out = rev acc ++ l /\ false = match l with [] => true | _ => false end /\
          Forall ty_block l /\ Forall canon_block l /\ exists bs', write_rest sk vc png icon l = Ok bs').
      { intros sk' vc' png' icon' Hc Hw.
        destruct (read_block_inv s last b rest Hs RB) as (Tb & Nb & Hrest & _ & bs' & Wb & _).
        apply IH in Hc; [|exact Hrest]. destruct Hc as (l & -> & Hfin & Tl & Nl & y & Wy).
        exists (b :: l). cbn [rev]. rewrite <- app_assoc. split; [reflexivity|]. split; [reflexivity|].
        split; [constructor; assumption|]. split; [constructor; assumption|].
        rewrite Hfin in Wb. eapply Hw; eauto. }
      destruct b as [si|n|a|pts|v|c|pic];
        cbn [it_failed it_tag_read it_streaminfo_read it_seektable_read it_vorbiscomment_read it_png_read it_icon_read it_finished it_reader] in H;
        repeat match type of H with
               | context [pic_type ?q =? ?k] => destruct (pic_type q =? k) eqn:?
               | context [negb ?f] => destruct f; cbn [negb] in H
               end; try discriminate;
        (eapply Step; [exact H|]);
        intros l bs' Wb y Wy; cbn [write_rest];
        repeat match goal with
               | E : (pic_type ?q =? ?k) = _ |- _ => rewrite E; clear E
               end;
        rewrite Wb, Wy; cbn [bind]; eauto.
Qed.

Lemma tag_check_eq tag : lenN tag = 4 ->
  forallb (fun ab : N * N => fst ab =? snd ab) (combine tag FLAC_TAG) = true -> tag = FLAC_TAG.
Proof.
  intros L H. destruct tag as [|a [|b [|c [|d [|e t]]]]]; cbn [lenN] in L; try lia.
  cbn [combine FLAC_TAG forallb fst snd] in H.
  repeat (apply andb_prop in H; destruct H as [? H]).
  repeat match goal with E : (_ =? _) = true |- _ => apply N.eqb_eq in E end. subst. reflexivity.
Qed.

Theorem read_blocks_write_blocks bs l : Forall byte bs ->
  read_blocks utf8_valid bs = Ok l ->
  Forall ty_block l /\ Forall canon_block l /\
  exists bs', write_blocks l = Ok bs' /\ read_blocks utf8_valid bs' = Ok l.
Proof.
  intros Hs H. unfold read_blocks in H. cbn [collect] in H.
  unfold iter_next, iter_new in H. cbn [it_failed it_tag_read it_reader negb] in H.
  destruct (take 4 bs) as [[tag rest]| |] eqn:TK; [|discriminate|discriminate].
  apply take_ok in TK. destruct TK as [-> Lt]. pose proof (Forall_app_r _ _ _ Hs) as Hr.
  destruct (forallb (fun ab : N * N => fst ab =? snd ab) (combine tag FLAC_TAG)) eqn:TG; [|discriminate].
  unfold next_tagged in H. cbn [it_streaminfo_read negb] in H. unfold it_read_block in H.
  cbn [it_finished it_reader] in H.
  destruct (read_block utf8_valid rest) as [[[last b] rest']| |] eqn:RB; [|discriminate|discriminate].
  destruct b as [si| | | | | |]; try discriminate.
  cbn [it_failed it_tag_read it_streaminfo_read it_seektable_read it_vorbiscomment_read it_png_read it_icon_read it_finished it_reader] in H.
  destruct (read_block_inv rest last (BStreaminfo si) rest' Hr RB) as (Tb & Nb & Hr' & _ & x & Wx & _).
  apply collect_inv in H; [|exact Hr']. destruct H as (l' & -> & Hfin & Tl & Nl & y & Wy).
  cbn [rev app] in *.
  assert (W : write_blocks (BStreaminfo si :: l') = Ok (FLAC_TAG ++ x ++ y)).
  { unfold write_blocks. rewrite <- Hfin, Wx, Wy. reflexivity. }
  split; [constructor; assumption|]. split; [constructor; assumption|].
  eexists. split; [exact W|].
  rewrite <- (app_nil_r (FLAC_TAG ++ x ++ y)).
  apply write_blocks_read_blocks; try exact W; constructor; assumption.
Qed.

(* ---- writers never panic on typed values; rule-breaking lists are refused *)
Lemma write_block_no_panic last b : ty_block b -> is_panic (write_block last b) = false.
Proof.
  intros T. unfold write_block. pose proof (body_size_write utf8_valid b T) as S.
  pose proof (write_body_no_panic utf8_valid b T) as P.
  destruct (write_body b) as [body|e|k]; [|destruct S as [e' S]|discriminate]; rewrite S; cbn [bind]; [|reflexivity].
  destruct (BLOCKSIZE_MAX <? lenN body); reflexivity.
Qed.

Lemma write_rest_no_panic : forall l sk vc png icon, Forall ty_block l ->
  is_panic (write_rest sk vc png icon l) = false.
Proof.
  induction l as [|b l IH]; intros sk vc png icon T; [reflexivity|].
  pose proof (Forall_inv T) as Tb. pose proof (Forall_inv_tail T) as Tl.
  assert (G : forall sk' vc' png' icon',
    is_panic (x <- write_block (match l with [] => true | _ => false end) b ;;
              y <- write_rest sk' vc' png' icon' l ;; Ok (x ++ y))%res = false).
  { intros. pose proof (write_block_no_panic (match l with [] => true | _ => false end) b Tb) as P.
    destruct (write_block _ b); try discriminate; cbn [bind]; [|reflexivity].
    pose proof (IH sk' vc' png' icon' Tl) as Q. destruct (write_rest sk' vc' png' icon' l); try discriminate; reflexivity. }
  cbn [write_rest]. destruct b; try reflexivity; try apply G;
    repeat match goal with |- context [if ?c then _ else _] => destruct c end; try reflexivity; apply G.
Qed.

Theorem write_blocks_no_panic l : Forall ty_block l -> is_panic (write_blocks l) = false.
Proof.
  intros T. unfold write_blocks. destruct l as [|b r]; [reflexivity|]. destruct b; try reflexivity.
  pose proof (write_block_no_panic (match r with [] => true | _ => false end) _ (Forall_inv T)) as P.
  destruct (write_block _ _); try discriminate; cbn [bind]; [|reflexivity].
  pose proof (write_rest_no_panic r false false false false (Forall_inv_tail T)) as Q.
  destruct (write_rest _ _ _ _ r); try discriminate; reflexivity.
Qed.

(* the format's rules, stated by counting *)
Definition is_si (b : block) := match b with BStreaminfo _ => true | _ => false end.
Definition is_seektable (b : block) := match b with BSeekTable _ => true | _ => false end.
Definition is_vorbis (b : block) := match b with BVorbis _ => true | _ => false end.
Definition is_png (b : block) := match b with BPicture x => pic_type x =? 1 | _ => false end.
Definition is_icon (b : block) := match b with BPicture x => pic_type x =? 2 | _ => false end.
Definition countb (f : block -> bool) (l : list block) : N := lenN (filter f l).
Definition rules_ok (l : list block) : Prop :=
  match l with
  | BStreaminfo _ :: r =>
    countb is_si r = 0 /\ countb is_seektable r <= 1 /\ countb is_vorbis r <= 1 /\
    countb is_png r <= 1 /\ countb is_icon r <= 1
  | _ => False
  end.

Lemma write_rest_rules : forall l sk vc png icon bs, write_rest sk vc png icon l = Ok bs ->
  countb is_si l = 0 /\ countb is_seektable l + b2n sk <= 1 /\ countb is_vorbis l + b2n vc <= 1 /\
  countb is_png l + b2n png <= 1 /\ countb is_icon l + b2n icon <= 1.
Proof.
  induction l as [|b l IH]; intros sk vc png icon bs W.
  - unfold countb. cbn. destruct sk, vc, png, icon; cbn; lia.
  - apply write_rest_cons in W. destruct W as (x & y & sk' & vc' & png' & icon' & _ & Wr & _ & Fl).
    apply IH in Wr. destruct Wr as (R0 & R1 & R2 & R3 & R4). unfold countb in *.
    destruct b as [si|n|a|pts|v|c|pic]; try contradiction; cbn [filter is_si is_seektable is_vorbis is_png is_icon].
    1-5: match type of Fl with _ /\ _ => destruct Fl as [-> Fl] | _ => idtac end;
         injection Fl as -> -> -> ->; cbn [lenN b2n] in *; repeat split; lia.
    destruct (N.eqb_spec (pic_type pic) 1) as [E1|E1].
    + destruct (N.eqb_spec (pic_type pic) 2) as [E2|E2]; [lia|].
      destruct Fl as [-> Fl]. injection Fl as -> -> -> ->. cbn [lenN b2n] in *. repeat split; lia.
    + destruct (N.eqb_spec (pic_type pic) 2) as [E2|E2].
      * destruct Fl as [-> Fl]. injection Fl as -> -> -> ->. cbn [lenN b2n] in *. repeat split; lia.
      * injection Fl as -> -> -> ->. repeat split; lia.
Qed.

Theorem write_blocks_rules l bs : write_blocks l = Ok bs -> rules_ok l.
Proof.
  unfold write_blocks, rules_ok. destruct l as [|b r]; [discriminate|]. destruct b; try discriminate.
  intros W. destruct (write_block _ _); cbn [bind] in W; try discriminate.
  destruct (write_rest false false false false r) as [y| |] eqn:Wr; cbn [bind] in W; try discriminate.
  apply write_rest_rules in Wr. cbn [b2n] in Wr. rewrite !N.add_0_r in Wr. exact Wr.
Qed.

(* size rule: no block of an accepted list has a body longer than 2^24 - 1 bytes *)
Theorem write_blocks_sizes : forall l bs, Forall ty_block l -> write_blocks l = Ok bs ->
  Forall (fun b => exists body, write_body b = Ok body /\ lenN body <= BLOCKSIZE_MAX) l.
Proof.
  assert (R : forall l sk vc png icon bs, Forall ty_block l ->
              write_rest sk vc png icon l = Ok bs ->
              Forall (fun b => exists body, write_body b = Ok body /\ lenN body <= BLOCKSIZE_MAX) l).
  { induction l as [|b l IH]; intros sk vc png icon bs T W; [constructor|].
    apply write_rest_cons in W. destruct W as (x & y & sk' & vc' & png' & icon' & Wb & Wr & _ & _).
    constructor.
    - destruct (write_block_inv utf8_valid _ b x (Forall_inv T) Wb) as (body & ? & ? & _). eauto.
    - eapply IH; [exact (Forall_inv_tail T)|exact Wr]. }
  intros l bs T W. unfold write_blocks in W. destruct l as [|b r]; [discriminate|]. destruct b; try discriminate.
  destruct (write_block _ _) as [x| |] eqn:Wb; cbn [bind] in W; try discriminate.
  destruct (write_rest false false false false r) as [y| |] eqn:Wr; cbn [bind] in W; try discriminate.
  constructor.
  - destruct (write_block_inv utf8_valid _ _ x (Forall_inv T) Wb) as (body & ? & ? & _). eauto.
  - eapply R; [exact (Forall_inv_tail T)|exact Wr].
Qed.
End ListLevel.

(* ---- the known aliasing class: STREAMINFO { md5: Some([0; 16]) } *)
Definition known_class (b : block) : Prop :=
  match b with
  | BStreaminfo si => match si_md5 si with Some m => all_zero m = true | None => False end
  | _ => False
  end.

Definition C11_statement_full : Prop :=
  forall (utf8_valid : list N -> bool) b bs r,
    (forall s, Forall (fun b => b < 128) s -> utf8_valid s = true) ->
    ty_block utf8_valid b -> write_body b = Ok bs ->
    read_body utf8_valid (block_type b) (lenN bs) (bs ++ r) = Ok (b, r).

Definition md5_zero_witness : streaminfo :=
  mkSI 4096 4096 0 0 44100 2 16 0 (Some (zerosN 16)).

Lemma c11_refuted : ~ C11_statement_full.
Proof.
  intros H.
  specialize (H (fun _ => true) (BStreaminfo md5_zero_witness)).
  assert (W : exists bs, write_body (BStreaminfo md5_zero_witness) = Ok bs).
  { vm_compute. eexists. reflexivity. }
  destruct W as [bs W]. specialize (H bs [] (fun _ _ => eq_refl)).
  assert (T : ty_block (fun _ => true) (BStreaminfo md5_zero_witness)).
  { cbn. unfold ty_streaminfo. cbn. repeat split; try lia. repeat constructor; unfold byte; lia. }
  specialize (H T W). revert H. vm_compute in W. apply Ok_inj in W. subst bs. vm_compute. discriminate.
Qed.

Lemma c11_outside_known (utf8_valid : list N -> bool) b bs r :
  (forall s, Forall (fun b => b < 128) s -> utf8_valid s = true) ->
  ty_block utf8_valid b -> ~ known_class b -> write_body b = Ok bs ->
  read_body utf8_valid (block_type b) (lenN bs) (bs ++ r) = Ok (b, r).
Proof.
  intros U T K W. apply body_write_read; try assumption.
  destruct b; cbn [canon_block known_class] in *; try exact I.
  unfold canon_streaminfo. destruct (si_md5 s) as [m|]; [|exact I].
  destruct (all_zero m); [contradiction K; reflexivity|reflexivity].
Qed.
