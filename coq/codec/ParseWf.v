(* Codec/ParseWf.v — whatever the structural parser accepts is a well-formed tree (the wf predicates): so the
   theorems stated for well-formed trees (C17 both directions, block-size expansion) hold for every
   frame the parser accepts. *)
From FlacCodec Require Import Parser_proofs Struct Write Wf Roundtrip_sub Inverse.
Open Scope N_scope.

Lemma sext_fits n v : (0 < n)%nat -> v < 2 ^ N.of_nat n -> fits (N.of_nat n) (sext n v) = true.
Proof.
  intros Hn Hv. unfold fits, sext.
  assert (HN : Z.of_N (2 ^ N.of_nat n) = (2 ^ Z.of_nat n)%Z) by (rewrite N2Z.inj_pow; f_equal; lia).
  assert (E2 : (2 ^ Z.of_nat n = 2 * 2 ^ (Z.of_N (N.of_nat n) - 1))%Z).
  { replace (Z.of_nat n) with (Z.succ (Z.of_N (N.of_nat n) - 1)) by lia. rewrite Z.pow_succ_r by lia. reflexivity. }
  assert (Hp : (0 < 2 ^ (Z.of_N (N.of_nat n) - 1))%Z) by (apply Z.pow_pos_nonneg; lia).
  rewrite (testbit_top n v Hn Hv).
  assert (HN1 : Z.of_N (2 ^ N.of_nat (n - 1)) = (2 ^ (Z.of_N (N.of_nat n) - 1))%Z).
  { rewrite N2Z.inj_pow. f_equal. lia. }
  apply andb_true_intro. split; [apply andb_true_intro; split|].
  - apply N.leb_le. lia.
  - apply Z.leb_le. destruct (N.leb_spec (2 ^ N.of_nat (n - 1)) v); lia.
  - apply Z.ltb_lt. destruct (N.leb_spec (2 ^ N.of_nat (n - 1)) v); lia.
Qed.

Lemma rds_fits n s z r : (0 < n)%nat -> p_rds n s = Ok (z, r) -> fits (N.of_nat n) z = true.
Proof.
  intros Hn H. unfold p_rds, rd_s in H. destruct (rd n s) as [[v r0]|] eqn:E; inversion H; subst.
  apply rd_bound in E. apply sext_fits; assumption.
Qed.

Lemma repeat_rds_fits k : (0 < k)%nat -> forall n s xs r, p_repeat n (p_rds k) s = Ok (xs, r) ->
  forallb (fits (N.of_nat k)) xs = true /\ length xs = n.
Proof.
  intros Hk. induction n as [|n IH]; intros s xs r H; cbn [p_repeat] in H.
  - unfold pret in H. inversion H; subst. auto.
  - unfold pbind in H. destruct (p_rds k s) as [[x s1]| |] eqn:E1; try discriminate.
    destruct (p_repeat n (p_rds k) s1) as [[ys s2]| |] eqn:E2; try discriminate.
    unfold pret in H. inversion H; subst. apply (rds_fits k _ _ _ Hk) in E1. apply IH in E2. destruct E2 as [F L].
    cbn [forallb length]. rewrite E1, F. auto.
Qed.

Lemma zigzag_decode_fits u : u < 2 ^ 32 -> fits 32 (zigzag_decode u) = true.
Proof.
  intros Hu. change (2 ^ 32) with 4294967296 in Hu. unfold fits, zigzag_decode.
  pose proof (N.div_mod u 2 ltac:(discriminate)). pose proof (N.mod_upper_bound u 2 ltac:(discriminate)).
  change (2 ^ (Z.of_N 32 - 1))%Z with 2147483648%Z.
  apply andb_true_intro. split; [apply andb_true_intro; split|].
  - reflexivity.
  - apply Z.leb_le. destruct (N.odd u); lia.
  - apply Z.ltb_lt. destruct (N.odd u); lia.
Qed.

Lemma rice_fits k s z r : p_rice k s = Ok (z, r) -> fits 32 z = true.
Proof.
  unfold p_rice, pbind. intros H.
  destruct (p_unary true s) as [[msb s1]| |]; try discriminate.
  destruct (p_rd (N.to_nat k) s1) as [[lsb s2]| |] eqn:E2; try discriminate.
  destruct (N.leb_spec msb ((2 ^ 32 - 1) / 2 ^ k)) as [Hm|]; cbn [p_guard] in H; [|discriminate].
  unfold pret in H. inversion H; subst.
  unfold p_rd in E2. destruct (rd (N.to_nat k) s1) as [[v r0]|] eqn:E; inversion E2; subst.
  apply rd_bound in E. rewrite N2Nat.id in E.
  apply zigzag_decode_fits.
  assert (Hp : 2 ^ k <> 0) by (apply N.pow_nonzero; discriminate).
  pose proof (N.mul_div_le (2 ^ 32 - 1) (2 ^ k) Hp) as Hd.
  change (2 ^ 32) with 4294967296 in *.
  assert (msb * 2 ^ k <= 2 ^ k * (4294967295 / 2 ^ k)) by nia. nia.
Qed.

Lemma repeat_rice_fits k : forall n s xs r, p_repeat n (p_rice k) s = Ok (xs, r) ->
  forallb (fits 32) xs = true /\ length xs = n.
Proof.
  induction n as [|n IH]; intros s xs r H; cbn [p_repeat] in H.
  - unfold pret in H. inversion H; subst. auto.
  - unfold pbind in H. destruct (p_rice k s) as [[x s1]| |] eqn:E1; try discriminate.
    destruct (p_repeat n (p_rice k) s1) as [[ys s2]| |] eqn:E2; try discriminate.
    unfold pret in H. inversion H; subst. apply rice_fits in E1. apply IH in E2. destruct E2 as [F L].
    cbn [forallb length]. rewrite E1, F. auto.
Qed.

Lemma struct_partitions_wf method : method < 2 -> forall lens s parts r,
  struct_partitions method lens s = Ok (parts, r) ->
  forallb (wf_part method) parts = true /\ map (fun p => Some (part_len p)) parts = lens.
Proof.
  intros Hmeth. induction lens as [|[n|] lens IH]; intros s parts r H; cbn [struct_partitions] in H.
  - unfold pret in H. inversion H; subst. auto.
  - unfold pbind in H.
    destruct (p_part_header method s) as [[h s1]| |] eqn:E1; try discriminate.
    destruct (p_partition h n s1) as [[rs s2]| |] eqn:E2; try discriminate.
    destruct (struct_partitions method lens s2) as [[ps s3]| |] eqn:E3; try discriminate.
    unfold pret in H. inversion H; subst. apply IH in E3. destruct E3 as [F M].
    cbn [forallb map]. rewrite F, M.
    (* the header: parameter below the escape code; escape width 1..31 *)
    unfold p_part_header, pbind in E1.
    destruct (p_rd _ s) as [[k t1]| |] eqn:Ek; try discriminate.
    unfold p_rd in Ek. destruct (rd _ s) as [[k' t']|] eqn:Rk; inversion Ek; subst. apply rd_bound in Rk.
    destruct (N.eqb_spec k (if method =? 0 then 15 else 31)) as [Ee|Ne].
    + destruct (p_rd 5 t1) as [[w t2]| |] eqn:Ew; try discriminate.
      unfold p_rd in Ew. destruct (rd 5 t1) as [[w' t'']|] eqn:Rw; inversion Ew; subst. apply rd_bound in Rw.
      change (2 ^ N.of_nat 5) with 32 in Rw.
      destruct (N.eqb_spec w 0) as [->|Nw]; unfold pret in E1; inversion E1; subst; cbn [p_partition] in E2.
      * unfold pret in E2. inversion E2; subst. cbn [wf_part]. split; [reflexivity|]. reflexivity.
      * destruct (repeat_rds_fits (N.to_nat w) ltac:(lia) _ _ _ _ E2) as [Fx Lx]. rewrite N2Nat.id in Fx.
        cbn [wf_part]. unfold part_len. cbn [part_residuals]. rewrite Lx, Fx.
        destruct (N.leb_spec 1 w); [|lia]. destruct (N.leb_spec w 31); [|lia]. auto.
    + unfold pret in E1. inversion E1; subst. cbn [p_partition] in E2.
      destruct (repeat_rice_fits _ _ _ _ _ E2) as [Fx Lx].
      cbn [wf_part]. unfold part_len. cbn [part_residuals]. rewrite Lx, Fx.
      assert (Hk : k < (if method =? 0 then 15 else 31)).
      { destruct (N.eqb_spec method 0); [change (2 ^ N.of_nat 4) with 16 in Rk|change (2 ^ N.of_nat 5) with 32 in Rk]; lia. }
      apply N.ltb_lt in Hk. rewrite Hk. auto.
  - discriminate.
Qed.

Lemma lens_eqb_refl l : lens_eqb (map Some l) l = true.
Proof.
  unfold lens_eqb. rewrite map_length, Nat.eqb_refl. cbn [andb].
  induction l as [|x l IH]; cbn; auto. rewrite Nat.eqb_refl. exact IH.
Qed.

Lemma struct_residuals_wf bs order s res r : struct_residuals bs order s = Ok (res, r) -> wf_residual bs order res = true.
Proof.
  unfold struct_residuals, pbind. intros H.
  destruct (p_rd 2 s) as [[method s1]| |] eqn:E1; try discriminate.
  destruct (N.ltb_spec method 2) as [Hm|]; cbn [p_guard] in H; [|discriminate]. unfold pret at 1 in H.
  destruct (p_rd 4 s1) as [[po s2]| |] eqn:E2; try discriminate.
  unfold p_rd in E2. destruct (rd 4 s1) as [[po' t']|] eqn:Rp; inversion E2; subst. apply rd_bound in Rp. change (2 ^ N.of_nat 4) with 16 in Rp.
  destruct (N.eqb_spec (bs mod 2 ^ po) 0) as [Hdiv|]; cbn [p_guard] in H; [|discriminate]. unfold pret at 1 in H.
  destruct (struct_partitions method _ s2) as [[ps s3]| |] eqn:E3; try discriminate.
  unfold pret in H. inversion H; subst.
  destruct (struct_partitions_wf method Hm _ _ _ _ E3) as [F M].
  pose proof (struct_partitions_inv _ _ _ _ _ E3) as [_ L]. rewrite struct_part_lens_length in L.
  unfold wf_residual. cbn [r_method r_parts].
  assert (Elog : N.log2 (N.of_nat (length ps)) = po).
  { rewrite L, N2Nat.id. apply N.log2_pow2. lia. }
  rewrite Elog. rewrite <- M. rewrite <- map_map. rewrite lens_eqb_refl.
  apply N.ltb_lt in Hm. apply N.ltb_lt in Rp. rewrite Hm, Rp, Hdiv, F. reflexivity.
Qed.
