(* Extraction of the writers model for the correspondence driver (ExtrOcamlBasic only;
   numbers stay the inductive positive/N/Z). *)
From Coq Require Extraction ExtrOcamlBasic.
From FlacWriters Require Import Meta Params Finalize Writers.
Extraction Language OCaml.
Extraction "writers_model.ml"
  N.add N.mul N.div_eucl N.of_nat Z.opp
  options_default options_fast options_best
  options_block_size options_max_lpc_order options_max_partition_order options_padding
  options_no_padding options_seektable_seconds options_seektable_frames options_no_seektable
  new_validate documented_args
  autocorrelate_guard best_partitions_guard
  sample_new sample_write sample_finalize sample_run
  byte_new byte_write byte_finalize byte_run
  channel_new channel_write channel_finalize channel_run
  encoder_new encoder_finalize emitted md5_input stream frames_bytes seekpoints
  generate_seektable frame_seekpoints meta_len write_blocks.
