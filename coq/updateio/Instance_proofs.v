(* updateio/Instance_proofs.v — the concrete codec of Instance.v satisfies the hypotheses of the C10
   theorems, so C10 holds for it without hypotheses; plus whole-file runs inside Coq. *)
From FlacBase Require Import Res Bits.
From FlacUpdIo Require Import GenUpd Update Update_proofs Instance.
Open Scope N_scope.

Lemma i_ser_len p : lenN (i_ser p) = i_psize p.
Proof. reflexivity. Qed.

(* the 24-bit size field *)
Lemma size_bytes size : hdr_size (size / 65536) ((size / 256) mod 256) (size mod 256) = size.
Proof.
  unfold hdr_size.
  assert (NZ : 256 <> 0) by discriminate.
  pose proof (N.div_mod size 256 NZ) as E1.
  pose proof (N.div_mod (size / 256) 256 NZ) as E2.
  replace (size / 65536) with (size / 256 / 256) by (rewrite N.div_div by discriminate; reflexivity).
  remember (size / 256) as q. remember (q / 256) as q2. remember (q mod 256) as r2. remember (size mod 256) as r.
  lia.
Qed.

Lemma hdr_last_ok (last : bool) ty : ty < 128 -> hdr_last ((if last then 128 else 0) + ty) = last.
Proof. intros H. unfold hdr_last. destruct last; [apply N.leb_le; lia|apply N.leb_gt; lia]. Qed.
Lemma hdr_type_ok (last : bool) ty : ty < 128 -> hdr_type ((if last then 128 else 0) + ty) = ty.
Proof.
  intros H. unfold hdr_type. destruct last.
  - replace (128 <=? 128 + ty) with true by (symmetry; apply N.leb_le; lia). lia.
  - replace (128 <=? 0 + ty) with false by (symmetry; apply N.leb_gt; lia). lia.
Qed.

Lemma otype_small (b : oblock ipayload) : otype ipayload b < 128.
Proof. destruct b as [n|k p]; [reflexivity|destruct k; reflexivity]. Qed.

Lemma kind_of_otype (b : oblock ipayload) :
  kind_of (otype ipayload b) = Some (match b with OPadding _ => None | OOther k _ => Some k end).
Proof. destruct b as [n|k p]; [reflexivity|destruct k; reflexivity]. Qed.

Lemma firstn_body (body x : list N) : firstn (N.to_nat (lenN body)) (body ++ x) = body.
Proof. unfold lenN. rewrite Nat2N.id, firstn_app, firstn_all, Nat.sub_diag. cbn. apply app_nil_r. Qed.
Lemma skipn_body (body x : list N) : skipn (N.to_nat (lenN body)) (body ++ x) = x.
Proof. unfold lenN. rewrite Nat2N.id, skipn_app, skipn_all, Nat.sub_diag. reflexivity. Qed.
Lemma not_short (body x : list N) : (lenN (body ++ x) <? lenN body) = false.
Proof. apply N.ltb_ge. rewrite lenN_app. lia. Qed.

Lemma obody_len_i (b : oblock ipayload) : lenN (obody ipayload i_ser b) = osize ipayload i_psize b.
Proof. apply (obody_len ipayload i_psize i_ser i_ser_len). Qed.

(* reading inverts writing, block list part *)
Lemma read_write_opt bs : forall seen bytes rest fuel, bs <> [] ->
  write_opt ipayload i_psize i_ser i_uclass seen bs = Ok bytes -> (length bs <= fuel)%nat ->
  read_opt fuel (bytes ++ rest) = Ok (bs, rest).
Proof.
  induction bs as [|b r IH]; intros seen bytes rest fuel NE W L; [congruence|].
  cbn [write_opt] in W.
  destruct (check_unique ipayload i_uclass seen b) as [seen'|e|k]; cbn [bind] in W; try discriminate.
  unfold write_block in W. destruct (osize ipayload i_psize b <=? BLOCK_MAX) eqn:SZ; cbn [bind] in W; [|discriminate].
  destruct (write_opt ipayload i_psize i_ser i_uclass seen' r) as [rest'|e|k] eqn:WR; cbn [bind] in W; try discriminate.
  inversion W; subst bytes; clear W.
  destruct fuel as [|f]; [cbn in L; lia|]. cbn [length] in L.
  set (last := match r with [] => true | _ => false end) in *.
  unfold header. cbn [app]. cbn [read_opt].
  rewrite size_bytes. rewrite <- !app_assoc.
  rewrite <- (obody_len_i b). rewrite not_short, firstn_body, skipn_body.
  rewrite hdr_type_ok by apply otype_small. rewrite kind_of_otype.
  rewrite hdr_last_ok by apply otype_small.
  assert (BLK : match (match b with OPadding _ => None | OOther k _ => Some k end) with
                | None => OPadding (lenN (obody ipayload i_ser b))
                | Some k => OOther k (obody ipayload i_ser b) end = b).
  { destruct b as [n|k p]; cbn [obody i_ser]; [|reflexivity]. rewrite lenN_repeat, N2Nat.id. reflexivity. }
  rewrite BLK. destruct r as [|b2 r2].
  - cbn in WR. inversion WR; subst. reflexivity.
  - subst last. cbv iota. rewrite (IH seen' rest' rest f); [reflexivity|discriminate|exact WR|cbn [length] in *; lia].
Qed.

Lemma write_opt_blocks_le bs : forall seen bytes, write_opt ipayload i_psize i_ser i_uclass seen bs = Ok bytes ->
  (length bs <= length bytes)%nat.
Proof.
  induction bs as [|b r IH]; intros seen bytes W; [cbn; lia|]. cbn [write_opt] in W.
  destruct (check_unique ipayload i_uclass seen b) as [seen'|e|k]; cbn [bind] in W; try discriminate.
  unfold write_block in W. destruct (osize ipayload i_psize b <=? BLOCK_MAX); cbn [bind] in W; [|discriminate].
  destruct (write_opt ipayload i_psize i_ser i_uclass seen' r) as [rest'|e|k] eqn:WR; cbn [bind] in W; try discriminate.
  inversion W; subst. apply IH in WR. unfold header. cbn [app length]. rewrite !app_length. cbn [length]. lia.
Qed.

(* reading inverts writing and leaves exactly what followed the last block *)
Theorem i_read_write bl bytes rest : i_write_blocks bl = Ok bytes -> i_read (bytes ++ rest) = Ok (bl, rest).
Proof.
  unfold i_write_blocks, write_blocks. destruct bl as [si bs]. cbn [bl_si bl_blocks].
  unfold write_block. destruct (i_psize si <=? BLOCK_MAX) eqn:SZ; cbn [bind]; [|discriminate].
  destruct (write_opt ipayload i_psize i_ser i_uclass [] bs) as [rest'|e|k] eqn:WR; cbn [bind]; try discriminate.
  intros H. inversion H; subst bytes; clear H.
  unfold header, FLAC_TAG. cbn [app]. unfold i_read. cbn [list_eqb N.eqb Pos.eqb andb negb].
  change (list_eqb [102; 76; 97; 67] [102; 76; 97; 67]) with true. cbn [negb].
  change TY_STREAMINFO with 0. rewrite hdr_type_ok by reflexivity. cbn [N.eqb negb].
  rewrite size_bytes. rewrite <- !app_assoc. unfold i_psize, i_ser in *.
  rewrite not_short, firstn_body, skipn_body. rewrite hdr_last_ok by reflexivity.
  destruct bs as [|b r].
  - cbn in WR. inversion WR; subst. reflexivity.
  - rewrite (read_write_opt (b :: r) [] rest' rest); [reflexivity|discriminate|exact WR|].
    apply write_opt_blocks_le in WR. rewrite app_length. lia.
Qed.

(* ================================================================ C10 for this codec, no hypotheses left *)
Theorem i_update_file_inplace edit pre meta audio bl st :
  i_read (meta ++ audio) = Ok (bl, audio) ->
  i_update_file edit (length pre) (pre ++ meta ++ audio) = (st, Ok false) ->
  exists bl1 bl2 meta',
    edit bl = Ok bl1 /\ st = {| orig := pre ++ meta' ++ audio; rebuilt := None |} /\
    length meta' = length meta /\ i_write_blocks bl2 = Ok meta' /\ i_read (meta' ++ audio) = Ok (bl2, audio) /\
    (bl2 = bl1 \/ exists n n', first_padding ipayload (bl_blocks ipayload bl1) = Some n /\ bl2 = with_first_padding ipayload n' bl1).
Proof. exact (update_file_inplace_spec ipayload i_psize i_ser i_uclass i_read i_ser_len i_read_write edit pre meta audio bl st). Qed.

Theorem i_histories edits audio file fn rs :
  file_inv ipayload i_read audio file -> i_run_edits edits file = (fn, rs) -> file_inv ipayload i_read audio fn.
Proof. exact (run_edits_audio_constant ipayload i_psize i_ser i_uclass i_read i_ser_len i_read_write edits audio file fn rs). Qed.

(* ---- whole files inside Coq *)
Definition demo_si : ipayload := repeat 7 34.
Definition demo_audio : list N := [255; 248; 1; 2; 3; 4; 5; 6].
Definition demo_bl : blocklist ipayload :=
  {| bl_si := demo_si; bl_blocks := [OOther KVorbisComment [1; 2; 3]; OPadding 10; OOther KApplication [9; 9; 9; 9; 5]; OPadding 4] |}.
Definition demo_file : list N := match i_write_blocks demo_bl with Ok m => m ++ demo_audio | _ => [] end.
(* grow the comment by d bytes *)
Definition grow_comment (d : nat) (bl : blocklist ipayload) : res (blocklist ipayload) :=
  Ok {| bl_si := bl_si ipayload bl;
        bl_blocks := map (fun b => match b with OOther KVorbisComment p => OOther KVorbisComment (p ++ repeat 1 d) | o => o end) (bl_blocks ipayload bl) |}.

Example demo_reads : i_read demo_file = Ok (demo_bl, demo_audio).
Proof. vm_compute. reflexivity. Qed.

(* +10 bytes: exactly the first padding; +11: rebuilt; callback error: untouched *)
Example demo_exact_fit :
  let '(st, r) := i_update_file (grow_comment 10) 0 demo_file in
  r = Ok false /\ length (orig st) = length demo_file /\
  skipn (length (orig st) - 8) (orig st) = demo_audio /\
  option_map (fun x => map (fun b => (otype ipayload b, osize ipayload i_psize b)) (bl_blocks ipayload (fst x)))
             (match i_read (orig st) with Ok x => Some x | _ => None end) = Some [(4, 13); (1, 0); (2, 5); (1, 4)].
Proof. vm_compute. repeat split. Qed.
Example demo_one_too_many :
  let '(st, r) := i_update_file (grow_comment 11) 0 demo_file in
  r = Ok true /\ orig st = demo_file /\
  option_map (fun f => skipn (length f - 8) f) (rebuilt st) = Some demo_audio /\
  option_map (@length N) (rebuilt st) = Some (length demo_file + 11)%nat.
Proof. vm_compute. repeat split. Qed.
Example demo_callback_error :
  i_update_file (fun _ => Err EOther) 0 demo_file = ({| orig := demo_file; rebuilt := None |}, Err EOther).
Proof. vm_compute. reflexivity. Qed.
(* a history: use some padding, overflow what is left (rebuild), fail, fit again — the frames never move *)
Example demo_history :
  let '(fn, rs) := i_run_edits [grow_comment 3; grow_comment 8; (fun _ => Err EOther); grow_comment 1] demo_file in
  rs = [Ok false; Ok true; Err EOther; Ok false] /\ skipn (length fn - 8) fn = demo_audio.
Proof. vm_compute. repeat split. Qed.
