#!/usr/bin/env python3
"""Show a replay file (the failing input / broken stage recorded by a check)."""
import json, sys
d = json.load(open(sys.argv[1]))
print(json.dumps(d, indent=1)[:20000])
