(* metadata/Accessors.v — the accessors of C12 on parsed block lists, with Rust integer
   semantics explicit: Metadata::decoded_len / duration (mod.rs:85-107, after fix F-C12a),
   BlockList::channel_mask (mod.rs:4679-4685), ChannelMask::from_channels / from_str
   (mod.rs:4935-5005), VorbisComment::get (mod.rs:2256-2325), Cuesheet::track_offsets /
   track_sample_ranges / track_byte_ranges (mod.rs:3299-3411, after fix F-C12f) and
   Cuesheet::display (mod.rs:2973-3078).  No proofs here. *)
From FlacMeta Require Export Blocks.
Open Scope N_scope.

(* u64 `*` : traps under Debug, wraps under Release *)
Definition mul64 (p : profile) := mul_w p 64.
Definition sat_add64 (a b : N) : N := N.min (a + b) U64_MAX.
Definition sat_mul64 (a b : N) : N := N.min (a * b) U64_MAX.
Definition div_ceil (a b : N) : N := (a + b - 1) / b.

(* mod.rs:85-89: s * u64::from(channels) * u64::from(bps.div_ceil(8)) *)
Definition decoded_len (p : profile) (si : streaminfo) : res (option N) :=
  if si_total si =? 0 then Ok None else
  (a <- mul64 p (si_total si) (si_ch si) ;;
   b <- mul64 p a (div_ceil (si_bps si) 8) ;;
   Ok (Some b))%res.

(* mod.rs:92-107 (after fix F-C12a): (seconds, nanoseconds) *)
Definition duration (p : profile) (si : streaminfo) : res (option (N * N)) :=
  let rate := si_rate si in
  if si_total si =? 0 then Ok None else
  if negb (0 <? rate) then Ok None else
  (secs <- div_w (si_total si) rate ;;
   r <- rem_w (si_total si) rate ;;
   m <- mul64 p r 1000000000 ;;
   q <- div_w m rate ;;
   (* u32::try_from(..).unwrap_or_default() *)
   Ok (Some (secs, if q <? 2 ^ 32 then q else 0)))%res.

(* mod.rs:4935-4991; the channel bits are Channel discriminants *)
Definition from_channels (ch : N) : res N :=
  match ch with
  | 1 => Ok 4 | 2 => Ok 3 | 3 => Ok 7 | 4 => Ok 51 | 5 => Ok 1543 | 6 => Ok 1551
  | 7 => Ok 1807 | 8 => Ok 1599
  | _ => Panic PAssert (* panic!("undefined channel count") *)
  end.

(* ---- strings of a VORBIS_COMMENT field, on UTF-8 bytes (all separators are ASCII) *)
Fixpoint split_once_b (sep : N) (s : list N) : option (list N * list N) :=
  match s with
  | [] => None
  | c :: r => if c =? sep then Some ([], r)
              else match split_once_b sep r with Some (a, b) => Some (c :: a, b) | None => None end
  end.
Definition to_ascii_lower (c : N) : N := if (65 <=? c) && (c <=? 90) then c + 32 else c.
Fixpoint eq_ignore_ascii_case (a b : list N) : bool :=
  match a, b with
  | [], [] => true
  | x :: a', y :: b' => (to_ascii_lower x =? to_ascii_lower y) && eq_ignore_ascii_case a' b'
  | _, _ => false
  end.

(* VorbisComment::get: first field KEY=value whose key matches *)
Fixpoint vc_get (fields : list (list N)) (key : list N) : option (list N) :=
  match fields with
  | [] => None
  | f :: r => match split_once_b 61 f with
              | Some (k, v) => if eq_ignore_ascii_case k key then Some v else vc_get r key
              | None => vc_get r key
              end
  end.

(* u32::from_str_radix(s, 16): optional '+', at least one hex digit, overflow is an error *)
Definition hex_digit (c : N) : option N :=
  if (48 <=? c) && (c <=? 57) then Some (c - 48)
  else if (97 <=? c) && (c <=? 102) then Some (c - 87)
  else if (65 <=? c) && (c <=? 70) then Some (c - 55)
  else None.
Fixpoint hex_val (acc : N) (s : list N) : option N :=
  match s with
  | [] => Some acc
  | c :: r => match hex_digit c with Some d => hex_val (acc * 16 + d) r | None => None end
  end.
Definition parse_hex_u32 (s : list N) : option N :=
  let digits := match s with 43 :: r => r | _ => s end in
  match digits with
  | [] => None
  | _ => match hex_val 0 digits with Some v => if v <? 2 ^ 32 then Some v else None | None => None end
  end.
(* mod.rs:4997-5004 *)
Definition channel_mask_from_str (s : list N) : option N :=
  match split_once_b 120 s with
  | Some ([48], hex) => parse_hex_u32 hex
  | _ => None
  end.

Definition CHANNEL_MASK_KEY : list N :=
  [87;65;86;69;70;79;82;77;65;84;69;88;84;69;78;83;73;66;76;69;95;67;72;65;78;78;69;76;95;77;65;83;75].

Fixpoint first_vorbis (l : list block) : option vorbis :=
  match l with [] => None | BVorbis v :: _ => Some v | _ :: r => first_vorbis r end.

(* mod.rs:4679-4685: `unwrap_or(from_channels(..))` evaluates its argument eagerly *)
Definition channel_mask (si : streaminfo) (rest : list block) : res N :=
  (dflt <- from_channels (si_ch si) ;;
   Ok match first_vorbis rest with
      | Some v => match vc_get (vc_fields v) CHANNEL_MASK_KEY with
                  | Some m => match channel_mask_from_str m with Some x => x | None => dflt end
                  | None => dflt
                  end
      | None => dflt
      end)%res.

(* ---- cue sheet ranges, mod.rs:3299-3411 (after fix F-C12f: saturating) *)
Definition cue_tracks (c : cuesheet) : list track :=
  match c with CueCDDA _ _ ts _ => ts | CueNonCDDA _ ts _ => ts end.
Definition cue_leadout (c : cuesheet) : leadout :=
  match c with CueCDDA _ _ _ lo => lo | CueNonCDDA _ _ lo => lo end.

Definition track_offsets (c : cuesheet) : list N :=
  map (fun t => sat_add64 (tr_off t) (ix_off (iv_01 (tr_ix t)))) (cue_tracks c) ++ [lo_off (cue_leadout c)].

(* zip(offsets, offsets.skip(1)) *)
Fixpoint pair_up (l : list N) : list (N * N) :=
  match l with
  | a :: (b :: _) as r => (a, b) :: pair_up r
  | _ => []
  end.
Definition track_sample_ranges (c : cuesheet) : list (N * N) := pair_up (track_offsets c).

Definition track_byte_ranges (c : cuesheet) (channel_count bits_per_sample : N) : res (list (N * N)) :=
  if channel_count =? 0 then Panic PAssert else
  if bits_per_sample =? 0 then Panic PAssert else
  let multiplier := channel_count * div_ceil bits_per_sample 8 in
  Ok (map (fun se => (sat_mul64 (fst se) multiplier, sat_mul64 (snd se) multiplier)) (track_sample_ranges c)).

(* ---- text rendering, mod.rs:2973-3078 *)
Fixpoint dec_digits (fuel : nat) (n : N) : list N :=
  match fuel with
  | O => []
  | S f => if n <? 10 then [48 + n] else dec_digits f (n / 10) ++ [48 + n mod 10]
  end.
Definition dec (n : N) : list N := dec_digits 20 n.        (* u64 has at most 20 digits *)
Definition dec02 (n : N) : list N := if n <? 10 then 48 :: dec n else dec n.   (* {:02} *)

(* Timestamp::from(u64) and its Display *)
Definition timestamp (offset : N) : list N :=
  let total_frames := offset / 588 in
  let minutes := (total_frames / 75) / 60 in
  let seconds := (total_frames / 75) mod 60 in
  let frames := total_frames mod 75 in
  dec02 minutes ++ [58] ++ dec02 seconds ++ [58] ++ dec02 frames.

Definition str_FILE : list N := [70; 73; 76; 69; 32; 34].            (* FILE + quote *)
Definition str_FLAC : list N := [34; 32; 70; 76; 65; 67; 10].        (* quote + FLAC + newline *)
Definition str_TRACK : list N := [32; 32; 84; 82; 65; 67; 75; 32].   (*   TRACK  *)
Definition str_AUDIO : list N := [65; 85; 68; 73; 79].
Definition str_NON_AUDIO : list N := [78; 79; 78; 95; 65; 85; 68; 73; 79].
Definition str_INDEX : list N := [32; 32; 32; 32; 73; 78; 68; 69; 88; 32].

Definition display_track (t : track) : list N :=
  str_TRACK ++ dec (tr_num t) ++ [32] ++ (if tr_non_audio t then str_NON_AUDIO else str_AUDIO) ++ [10] ++
  flat_map (fun i => str_INDEX ++ dec02 (ix_num i) ++ [32] ++ timestamp (sat_add64 (ix_off i) (tr_off t)) ++ [10])
           (indexvec_list (tr_ix t)).

Definition display (c : cuesheet) (filename : list N) : list N :=
  str_FILE ++ filename ++ str_FLAC ++ flat_map display_track (cue_tracks c).

(* catalog_number(): the digits *)
Definition catalog_text (c : cuesheet) : list N :=
  match c with
  | CueCDDA (Some d) _ _ _ => d
  | CueCDDA None _ _ _ => []
  | CueNonCDDA d _ _ => d
  end.
