(* readers/Examples.v — a concrete valid file and concrete histories (non-vacuity of the hypotheses
   of the C06 / C07 theorems), and the three defects of the original revision as computations. *)
From FlacReaders Require Import Spec Lists_proofs.
Open Scope N_scope.

(* 2 channels, 16 bit, frames of 15, 15 and 2 PCM frames (only the last block may be short), a seek
   table with a point at frame 0 and at frame 2 (sample 30) and a trailing placeholder *)
Definition ramp (a : Z) (n : nat) : list Z := map (fun i => (a + Z.of_nat i)%Z) (seq 0 n).
Definition ex_slots : list slot :=
  [SFrame [ramp 1 15; ramp (-100) 15]; SFrame [ramp 16 15; ramp (-200) 15]; SFrame [[700; 8]; [-700; -8]]%Z].

Definition ex_file (rev : revision) : file :=
  {| f_slots := ex_slots; f_channels := 2; f_bps := 16; f_total := Some 32;
     f_table := Some [Defined 0 0; Defined 30 2; Placeholder];
     f_seekable := true; f_endian := LE; f_profile := Debug; f_usize_bits := 64; f_rev := rev |}.

(* expected data, by position *)
Definition seg (p k : N) : list Z := takeN k (dropN p (pcm (ex_file Repaired))).
Definition bseg (p k : N) : list N := takeN k (dropN p (pcm_bytes (ex_file Repaired))).
Definition cseg (p k : N) : list (list Z) :=
  [takeN k (dropN p (chan_pcm (ex_file Repaired) 0)); takeN k (dropN p (chan_pcm (ex_file Repaired) 1))].

Lemma ex_file_valid : valid_file (ex_file Repaired).
Proof.
  constructor; cbn -[ex_slots]; try lia; try reflexivity.
  - split; vm_compute; congruence.
  - unfold ex_slots. repeat constructor; eexists; (split; [reflexivity|]); (split; [reflexivity|]);
      (split; [reflexivity|]); repeat constructor.
  - intros _ pre s post E Hne. unfold ex_slots in E.
    destruct pre as [|a [|b [|c pre]]]; cbn in E; inversion E; subst; try (vm_compute; reflexivity).
    + congruence.
    + destruct pre; discriminate.
  - intros o i [H|[H|[H|[]]]]; inversion H; subst; vm_compute; split; congruence.
Qed.

Definition ex_sample_ops : list sop :=
  [SRead 4; SFill; SConsume 25; SRead 0; SNext; SFill; SConsume 30; SRead 100; SRead 5; SFill; SNext; SRead 1].

Definition ex_seek_ops : list sop :=
  [SRead 5; SSeek 31; SFill; SSeek 14; SRead 3; SSeek 32; SFill; SSeek 33; SFill; SSeek 0; SNext].

Definition ex_byte_ops : list bop :=
  [BRead 5; BSeek (End_ (-4)); BFill; BSeek (Current (-123)); BRead 3; BSeek (Current 0); BSeek (Start 129);
   BRead 2; BSeek (End_ 0); BFill; BSeek (Current (-129)); BSeek (End_ 1)].

Definition ex_chan_ops : list cop :=
  [CFill; CConsume 14; CFill; CSeek 31; CFill; CConsume 1; CFill; CFill; CSeek 29; CFill; CSeek 33; CFill].

(* evaluate a concrete history and check the op preconditions entry by entry *)
Ltac forall_trace :=
  match goal with
  | |- Forall ?P ?t =>
      let t' := eval vm_compute in t in
      change (Forall P t');
      repeat (apply Forall_cons; [cbv [sop_ok bop_ok cop_ok seekfrom_ok]; try exact I; vm_compute; try exact I; try reflexivity; try (split; congruence); try congruence|]);
      apply Forall_nil
  end.
