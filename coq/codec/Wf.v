(* Codec/Wf.v — well-formedness of syntax trees.
   wf_*   : what the writer can serialise such that the structural parser reads it back
            (the round-trip hypothesis; executable booleans).
   spec_* : the additional RFC 9639 validity rules (strict). *)
From FlacCodec Require Export Write.
Open Scope N_scope.

Definition fits (n : N) (z : Z) : bool :=          (* z is representable in n >= 1 bits, two's complement *)
  (1 <=? n) && (- 2 ^ (Z.of_N n - 1) <=? z)%Z && (z <? 2 ^ (Z.of_N n - 1))%Z.

Definition part_len (pt : part) : nat := length (part_residuals pt).

Definition wf_part (method : N) (pt : part) : bool :=
  match pt with
  | PRice k rs => (k <? (if method =? 0 then 15 else 31)) && forallb (fits 32) rs
  | PEsc w rs => (1 <=? w) && (w <=? 31) && forallb (fits w) rs
  | PZero _ => true
  end.

Definition lens_eqb (a : list (option nat)) (b : list nat) : bool :=
  (length a =? length b)%nat &&
  forallb (fun p => match fst p with Some n => (n =? snd p)%nat | None => false end) (combine a b).

Definition wf_residual (block_size order : N) (r : residual) : bool :=
  let po := N.log2 (N.of_nat (length (r_parts r))) in
  (r_method r <? 2) && (po <? 16) && (block_size mod 2 ^ po =? 0) &&
  lens_eqb (struct_part_lens block_size order po) (map part_len (r_parts r)) &&
  forallb (wf_part (r_method r)) (r_parts r).

Definition wf_body (block_size eb : N) (b : body) : bool :=
  match b with
  | BConst v => fits eb v
  | BVerb xs => (length xs =? N.to_nat block_size)%nat && forallb (fits eb) xs
  | BFixed o warm r => (o <=? 4) && (length warm =? N.to_nat o)%nat && forallb (fits eb) warm &&
                       wf_residual block_size o r
  | BLpc o warm prec shift coefs r =>
      (1 <=? o) && (o <=? 32) && (length warm =? N.to_nat o)%nat && forallb (fits eb) warm &&
      (1 <=? prec) && (prec <=? 15) && (shift <=? 15) &&
      (length coefs =? N.to_nat o)%nat && forallb (fits prec) coefs &&
      wf_residual block_size o r
  end.

Definition wf_subframe (block_size bps : N) (sf : subframe) : bool :=
  (1 <=? bps) && (sf_wasted sf <=? bps - 1) && wf_body block_size (bps - sf_wasted sf) (sf_body sf).

Fixpoint wf_subframes (h : header) (i : nat) (subs : list subframe) : bool :=
  match subs with
  | [] => true
  | sf :: rest => wf_subframe (h_bs h) (subframe_bps (h_assign h) (h_bps h) i) sf && wf_subframes h (S i) rest
  end.

(* header: codes consistent with values, as FrameHeader::parse produces them *)
Definition wf_header (si : option streaminfo) (h : header) : bool :=
  (h_bs_code h <? 16) && (h_rate_code h <? 16) && (h_bps_code h <? 8) &&
  (* block size *)
  (match bs_of_code (h_bs_code h) with
   | Some v => h_bs h =? v
   | None => if h_bs_code h =? 6 then (1 <=? h_bs h) && (h_bs h <=? 256)
             else if h_bs_code h =? 7 then (1 <=? h_bs h) && (h_bs h <=? 65535) else false
   end) &&
  (* sample rate *)
  (match rate_of_code (h_rate_code h) with
   | Some v => h_rate h =? v
   | None => if h_rate_code h =? 0 then match si with Some i => h_rate h =? si_rate i | None => false end
             else if h_rate_code h =? 12 then (h_rate h mod 1000 =? 0) && (h_rate h / 1000 <? 256)
             else if h_rate_code h =? 13 then h_rate h <? 65536
             else if h_rate_code h =? 14 then (h_rate h mod 10 =? 0) && (h_rate h / 10 <? 65536)
             else false
   end) &&
  (h_assign h <? 11) &&
  (match bps_of_code (h_bps_code h) with
   | Some v => h_bps h =? v
   | None => if h_bps_code h =? 0 then match si with Some i => h_bps h =? si_bps i | None => false end else false
   end) &&
  (h_number h <=? MAX_FRAME_NUMBER).

Definition wf_frame (si : option streaminfo) (f : frame) : bool :=
  wf_header si (f_hdr f) &&
  (length (f_subs f) =? N.to_nat (assign_channels (h_assign (f_hdr f))))%nat &&
  wf_subframes (f_hdr f) 0 (f_subs f) &&
  match si with Some i => is_ok (header_checks i (f_hdr f)) | None => true end.
