(* writers/Writers_proofs.v — C08: chunking invariance of the three writer front-ends. *)
From FlacWriters Require Import Writers Lists_proofs.
Open Scope nat_scope.

(* two drains in sequence over a carried remainder = one drain over the concatenation *)
Lemma drain_fold_compose {A S R} (step : S -> list A -> res S) k (Hk : 0 < k)
      (buf c d : list A) (e : S) (K : S -> list A -> res R) :
  (let '(cs1, r1) := drain k (buf ++ c) in
   e1 <- fold_res step e cs1;;
   let '(cs2, r2) := drain k (r1 ++ d) in
   e2 <- fold_res step e1 cs2;; K e2 r2)
  = (let '(cs, r) := drain k (buf ++ c ++ d) in e' <- fold_res step e cs;; K e' r).
Proof.
  rewrite (app_assoc buf c d), (drain_app k Hk (buf ++ c) d).
  destruct (drain k (buf ++ c)) as [cs1 r1]. destruct (drain k (r1 ++ d)) as [cs2 r2].
  rewrite fold_res_app, bind_assoc. reflexivity.
Qed.

Section Proofs.
Variable enc_block : N -> block -> res (list N).
Variable md5 : list N -> list N.
Variable p : profile.

Notation sample_write := (sample_write enc_block p).
Notation sample_finalize := (sample_finalize enc_block md5 p).
Notation sample_run := (sample_run enc_block md5 p).
Notation byte_write := (byte_write enc_block p).
Notation byte_finalize := (byte_finalize enc_block md5 p).
Notation byte_run := (byte_run enc_block md5 p).
Notation channel_write := (channel_write enc_block p).
Notation channel_finalize := (channel_finalize enc_block md5 p).
Notation channel_run := (channel_run enc_block md5 p).

(* ================= sample writer ================= *)

(* invariant between calls: the buffer holds less than one FLAC frame of samples *)
Definition sw_wf (w : swriter) : Prop :=
  0 < N.to_nat (sw_frame_sample_size w) /\ length (sw_buf w) < N.to_nat (sw_frame_sample_size w).

Definition sw_set (w : swriter) (e : encoder) (r : list Z) : swriter :=
  {| sw_enc := e; sw_buf := r; sw_channels := sw_channels w;
     sw_frame_sample_size := sw_frame_sample_size w; sw_bytes_per_sample := sw_bytes_per_sample w |}.

Lemma sample_write_eq w c : 0 < N.to_nat (sw_frame_sample_size w) ->
  sample_write w c =
  (let '(cs, r) := drain (N.to_nat (sw_frame_sample_size w)) (sw_buf w ++ c) in
   e <- fold_res (sample_encode_chunk enc_block p (sw_channels w) (sw_bytes_per_sample w)) (sw_enc w) cs;;
   Ok (sw_set w e r)).
Proof.
  intros H. unfold Writers.sample_write.
  destruct (N.eqb_spec (sw_frame_sample_size w) 0) as [E|E]; [rewrite E in H; cbn in H; lia|].
  reflexivity.
Qed.

Lemma sample_write_wf w c w' : sw_wf w -> sample_write w c = Ok w' -> sw_wf w'.
Proof.
  intros [Hk Hb] H. rewrite sample_write_eq in H by exact Hk.
  destruct (drain _ (sw_buf w ++ c)) as [cs r] eqn:D.
  apply bind_ok in H. destruct H as (e & _ & H). inversion H; subst. unfold sw_wf, sw_set; cbn.
  apply drain_spec in D; auto. tauto.
Qed.

(* the writes of a chunk list are one write of the concatenation *)
Lemma sample_write_concat : forall chunks w, sw_wf w ->
  fold_res sample_write w chunks = sample_write w (concat chunks).
Proof.
  induction chunks as [|c chunks IH]; intros w Hw.
  - cbn [fold_res concat]. destruct Hw as [Hk Hb]. rewrite sample_write_eq by exact Hk.
    rewrite app_nil_r, drain_small by auto. cbn. destruct w; reflexivity.
  - cbn [fold_res concat].
    rewrite (bind_ext _ _ (fun w' => sample_write w' (concat chunks)))
      by (intros w' E; apply IH; eapply sample_write_wf; eauto).
    destruct Hw as [Hk Hb].
    rewrite (sample_write_eq w c), (sample_write_eq w (c ++ concat chunks)) by exact Hk.
    rewrite <- (drain_fold_compose _ _ Hk (sw_buf w) c (concat chunks) (sw_enc w)
                  (fun e r => Ok (sw_set w e r))).
    destruct (drain _ (sw_buf w ++ c)) as [cs1 r1]. rewrite bind_assoc.
    apply bind_ext. intros e1 _. cbn [bind].
    rewrite sample_write_eq by exact Hk. cbn [sw_set sw_buf sw_enc sw_frame_sample_size sw_channels sw_bytes_per_sample].
    reflexivity.
Qed.

Theorem sample_chunking w chunks : sw_wf w -> sample_run w chunks = sample_run w [concat chunks].
Proof.
  intros Hw. unfold Writers.sample_run. rewrite (sample_write_concat chunks w Hw).
  rewrite (sample_write_concat [concat chunks] w Hw). cbn [concat]. rewrite app_nil_r. reflexivity.
Qed.

(* ================= byte writer ================= *)

Definition bw_wf (w : bwriter) : Prop :=
  0 < N.to_nat (bw_frame_byte_size w) /\ length (bw_buf w) < N.to_nat (bw_frame_byte_size w).

Definition bw_set (w : bwriter) (e : encoder) (r : list N) : bwriter :=
  {| bw_enc := e; bw_buf := r; bw_endian := bw_endian w; bw_channels := bw_channels w;
     bw_bytes_per_sample := bw_bytes_per_sample w; bw_pcm_frame_size := bw_pcm_frame_size w;
     bw_frame_byte_size := bw_frame_byte_size w |}.

Lemma byte_write_eq w c : 0 < N.to_nat (bw_frame_byte_size w) ->
  byte_write w c =
  (let '(cs, r) := drain (N.to_nat (bw_frame_byte_size w)) (bw_buf w ++ c) in
   e <- fold_res (byte_encode_chunk enc_block p (bw_endian w) (bw_channels w) (bw_bytes_per_sample w)) (bw_enc w) cs;;
   Ok (bw_set w e r)).
Proof.
  intros H. unfold Writers.byte_write.
  destruct (N.eqb_spec (bw_frame_byte_size w) 0) as [E|E]; [rewrite E in H; cbn in H; lia|].
  reflexivity.
Qed.

Lemma byte_write_wf w c w' : bw_wf w -> byte_write w c = Ok w' -> bw_wf w'.
Proof.
  intros [Hk Hb] H. rewrite byte_write_eq in H by exact Hk.
  destruct (drain _ (bw_buf w ++ c)) as [cs r] eqn:D.
  apply bind_ok in H. destruct H as (e & _ & H). inversion H; subst. unfold bw_wf, bw_set; cbn.
  apply drain_spec in D; auto. tauto.
Qed.

Lemma byte_write_concat : forall chunks w, bw_wf w ->
  fold_res byte_write w chunks = byte_write w (concat chunks).
Proof.
  induction chunks as [|c chunks IH]; intros w Hw.
  - cbn [fold_res concat]. destruct Hw as [Hk Hb]. rewrite byte_write_eq by exact Hk.
    rewrite app_nil_r, drain_small by auto. cbn. destruct w; reflexivity.
  - cbn [fold_res concat].
    rewrite (bind_ext _ _ (fun w' => byte_write w' (concat chunks)))
      by (intros w' E; apply IH; eapply byte_write_wf; eauto).
    destruct Hw as [Hk Hb].
    rewrite (byte_write_eq w c), (byte_write_eq w (c ++ concat chunks)) by exact Hk.
    rewrite <- (drain_fold_compose _ _ Hk (bw_buf w) c (concat chunks) (bw_enc w)
                  (fun e r => Ok (bw_set w e r))).
    destruct (drain _ (bw_buf w ++ c)) as [cs1 r1]. rewrite bind_assoc.
    apply bind_ext. intros e1 _. cbn [bind].
    rewrite byte_write_eq by exact Hk.
    cbn [bw_set bw_buf bw_enc bw_frame_byte_size bw_channels bw_bytes_per_sample bw_endian bw_pcm_frame_size].
    reflexivity.
Qed.

Theorem byte_chunking w chunks : bw_wf w -> byte_run w chunks = byte_run w [concat chunks].
Proof.
  intros Hw. unfold Writers.byte_run. rewrite (byte_write_concat chunks w Hw).
  rewrite (byte_write_concat [concat chunks] w Hw). cbn [concat]. rewrite app_nil_r. reflexivity.
Qed.

(* ================= channel writer ================= *)

Lemma cdrain_fold_compose {S R} (step : S -> block -> res S) bs (Hbs : 0 < bs)
      (buf c d : list (list Z)) (e : S) (K : S -> list (list Z) -> res R) :
  buf <> [] -> length c = length buf -> length d = length buf ->
  (let '(cs1, r1) := cdrain bs (zip_app buf c) in
   e1 <- fold_res step e cs1;;
   let '(cs2, r2) := cdrain bs (zip_app r1 d) in
   e2 <- fold_res step e1 cs2;; K e2 r2)
  = (let '(cs, r) := cdrain bs (zip_app buf (zip_app c d)) in e' <- fold_res step e cs;; K e' r).
Proof.
  intros Hne Hc Hd.
  rewrite <- zip_app_assoc by lia.
  assert (La : length (zip_app buf c) = length buf) by (apply zip_app_length; lia).
  rewrite (cdrain_app bs Hbs (zip_app buf c) d); [| |lia].
  - destruct (cdrain bs (zip_app buf c)) as [cs1 r1]. destruct (cdrain bs (zip_app r1 d)) as [cs2 r2].
    rewrite fold_res_app, bind_assoc. reflexivity.
  - intros E. rewrite E in La. destruct buf; [congruence|discriminate].
Qed.

Definition uniform (c : list (list Z)) : Prop := exists m, Forall (fun x => length x = m) c.
(* a well-formed argument of FlacChannelWriter::write: n channels of one length *)
Definition chunk_ok (n : nat) (c : list (list Z)) : Prop := length c = n /\ uniform c.

Definition cw_chan (w : cwriter) : nat := N.to_nat (si_channels (e_si (cw_enc w))).
Definition cw_wf (w : cwriter) : Prop :=
  0 < N.to_nat (cw_frame_sample_size w) /\ 0 < cw_chan w /\ length (cw_bufs w) = cw_chan w /\
  has_short (N.to_nat (cw_frame_sample_size w)) (cw_bufs w) = true.

Definition cw_set (w : cwriter) (e : encoder) (r : list (list Z)) : cwriter :=
  {| cw_enc := e; cw_bufs := r; cw_channels := cw_channels w;
     cw_frame_sample_size := cw_frame_sample_size w; cw_bytes_per_sample := cw_bytes_per_sample w |}.

Lemma encoder_encode_channels e b e' :
  encoder_encode enc_block p e b = Ok e' -> si_channels (e_si e') = si_channels (e_si e).
Proof.
  unfold encoder_encode. intros H.
  destruct (si_max_bs (e_si e) <? block_len b)%N; [discriminate|].
  apply bind_ok in H. destruct H as (wr & _ & H).
  destruct (match si_total (e_si e) with Some t => (t <? wr)%N | None => false end); [discriminate|].
  destruct (8 <? N.of_nat (length b))%N; [discriminate|].
  apply bind_ok in H. destruct H as (bytes & _ & H).
  apply bind_ok in H. destruct H as (cnt & _ & H). inversion H; subst; cbn.
  unfold update_frame_sizes. destruct (_ && _ && _); reflexivity.
Qed.

Lemma channel_chunk_channels ch bytes e b e' :
  channel_encode_chunk enc_block p ch bytes e b = Ok e' -> si_channels (e_si e') = si_channels (e_si e).
Proof.
  unfold channel_encode_chunk. intros H.
  apply bind_ok in H. destruct H as (m & _ & H). apply bind_ok in H. destruct H as (f & _ & H).
  apply encoder_encode_channels in H. exact H.
Qed.

Lemma fold_channels ch bytes : forall bl e e',
  fold_res (channel_encode_chunk enc_block p ch bytes) e bl = Ok e' ->
  si_channels (e_si e') = si_channels (e_si e).
Proof.
  induction bl as [|b bl IH]; intros e e' H; cbn [fold_res] in H.
  - inversion H; reflexivity.
  - apply bind_ok in H. destruct H as (e1 & H1 & H). apply IH in H. apply channel_chunk_channels in H1. congruence.
Qed.

Lemma uniform_no_mismatch first rest : uniform (first :: rest) ->
  existsb (fun c => negb (length c =? length first)) rest = false.
Proof.
  intros [m F]. inversion F as [|? ? Hf Fr]; subst. clear F.
  induction Fr as [|c r Hc Fr IH]; cbn [existsb]; [reflexivity|].
  rewrite IH, Hc, Nat.eqb_refl. reflexivity.
Qed.

Lemma channel_write_eq w c : cw_wf w -> chunk_ok (cw_chan w) c ->
  channel_write w c =
  (let '(cs, r) := cdrain (N.to_nat (cw_frame_sample_size w)) (zip_app (cw_bufs w) c) in
   e <- fold_res (channel_encode_chunk enc_block p (cw_channels w) (cw_bytes_per_sample w)) (cw_enc w) cs;;
   Ok (cw_set w e r)).
Proof.
  intros (Hbs & Hn & Hl & Hs) [Lc Uc]. unfold Writers.channel_write.
  destruct c as [|first rest]; [cbn in Lc; lia|].
  unfold cw_chan in *.
  replace (N.of_nat (length (first :: rest)) =? si_channels (e_si (cw_enc w)))%N with true
    by (symmetry; apply N.eqb_eq; rewrite Lc; apply N2Nat.id).
  rewrite (uniform_no_mismatch first rest Uc).
  destruct (N.eqb_spec (cw_frame_sample_size w) 0) as [E|E]; [rewrite E in Hbs; cbn in Hbs; lia|].
  reflexivity.
Qed.

Lemma channel_write_wf w c w' : cw_wf w -> chunk_ok (cw_chan w) c ->
  channel_write w c = Ok w' -> cw_wf w' /\ cw_chan w' = cw_chan w /\
  cw_frame_sample_size w' = cw_frame_sample_size w.
Proof.
  intros Hw Hc H. rewrite channel_write_eq in H by assumption.
  destruct Hw as (Hbs & Hn & Hl & Hs). destruct Hc as [Lc Uc].
  destruct (cdrain _ (zip_app (cw_bufs w) c)) as [cs r] eqn:D.
  apply bind_ok in H. destruct H as (e & He & H). inversion H; subst.
  apply fold_channels in He.
  assert (Lz : length (zip_app (cw_bufs w) c) = cw_chan w) by (rewrite zip_app_length; lia).
  apply cdrain_spec in D; auto.
  2:{ intros E. rewrite E in Lz. cbn in Lz. lia. }
  destruct D as (_ & _ & Lr & Sr).
  unfold cw_wf, cw_chan, cw_set in *; cbn. rewrite He. repeat split; auto; lia.
Qed.

(* the per-channel concatenation of a list of write arguments *)
Definition cconcat (n : nat) (chunks : list (list (list Z))) : list (list Z) :=
  fold_right zip_app (repeat [] n) chunks.

Lemma uniform_zip_app a : forall b, length a = length b -> uniform a -> uniform b -> uniform (zip_app a b).
Proof.
  intros b L [m Fa] [m' Fb]. exists (m + m'). revert b L Fb.
  induction Fa as [|x a Hx Fa IH]; intros [|y b] L Fb; cbn in *; try lia; [constructor|].
  inversion Fb; subst. constructor; [rewrite app_length; lia|]. apply IH; auto; lia.
Qed.

Lemma cconcat_ok n chunks : Forall (chunk_ok n) chunks -> chunk_ok n (cconcat n chunks).
Proof.
  induction 1 as [|c chunks [Lc Uc] F [Ll Ul]]; cbn [cconcat fold_right].
  - split; [apply repeat_length|]. exists 0. apply Forall_forall. intros x Hx.
    apply repeat_spec in Hx. subst. reflexivity.
  - fold (cconcat n chunks). split; [rewrite zip_app_length; lia|].
    apply uniform_zip_app; auto; lia.
Qed.

Lemma channel_write_concat : forall chunks w, cw_wf w -> Forall (chunk_ok (cw_chan w)) chunks ->
  fold_res channel_write w chunks = channel_write w (cconcat (cw_chan w) chunks).
Proof.
  induction chunks as [|c chunks IH]; intros w Hw F.
  - cbn [fold_res cconcat fold_right].
    rewrite channel_write_eq; [|exact Hw|apply (cconcat_ok _ [])]; [|constructor].
    destruct Hw as (Hbs & Hn & Hl & Hs).
    rewrite <- Hl, zip_app_nil_r.
    pose proof (cdrain_unique _ Hbs [] (cw_bufs w) (cw_chan w) Hn (Forall_nil _) Hl Hs) as E.
    cbn [stack fold_right] in E. rewrite E. cbn. destruct w; reflexivity.
  - inversion F as [|? ? Hc F']; subst. cbn [fold_res].
    rewrite (bind_ext _ _ (fun w' => channel_write w' (cconcat (cw_chan w) chunks))).
    2:{ intros w' E. destruct (channel_write_wf _ _ _ Hw Hc E) as (Hw' & En & _).
        rewrite <- En. apply IH; auto. rewrite En. exact F'. }
    pose proof (cconcat_ok _ _ F') as Hcc.
    assert (Hcc' : chunk_ok (cw_chan w) (cconcat (cw_chan w) (c :: chunks))) by (apply cconcat_ok; exact F).
    rewrite (channel_write_eq w c Hw Hc), (channel_write_eq w _ Hw Hcc').
    destruct Hw as (Hbs & Hn & Hl & Hs). destruct Hc as [Lc Uc]. destruct Hcc as [Lcc Ucc].
    cbn [cconcat fold_right]. fold (cconcat (cw_chan w) chunks).
    rewrite <- (cdrain_fold_compose _ _ Hbs (cw_bufs w) c (cconcat (cw_chan w) chunks) (cw_enc w)
                  (fun e r => Ok (cw_set w e r))); try lia.
    2:{ intros E. rewrite E in Hl. cbn in Hl. lia. }
    destruct (cdrain _ (zip_app (cw_bufs w) c)) as [cs1 r1] eqn:D. rewrite bind_assoc.
    apply bind_ext. intros e1 He1. cbn [bind].
    assert (Lz : length (zip_app (cw_bufs w) c) = cw_chan w) by (rewrite zip_app_length; lia).
    apply cdrain_spec in D; auto.
    2:{ intros E. rewrite E in Lz. cbn in Lz. lia. }
    destruct D as (_ & _ & Lr & Sr). apply fold_channels in He1.
    rewrite channel_write_eq.
    + cbn [cw_set cw_bufs cw_enc cw_frame_sample_size cw_channels cw_bytes_per_sample]. reflexivity.
    + unfold cw_wf, cw_chan, cw_set in *; cbn. rewrite He1. repeat split; auto; lia.
    + unfold cw_chan, cw_set in *; cbn. rewrite He1. split; auto.
Qed.

Theorem channel_chunking w chunks : cw_wf w -> Forall (chunk_ok (cw_chan w)) chunks ->
  channel_run w chunks = channel_run w [cconcat (cw_chan w) chunks].
Proof.
  intros Hw F. unfold Writers.channel_run. rewrite (channel_write_concat chunks w Hw F).
  assert (F1 : Forall (chunk_ok (cw_chan w)) [cconcat (cw_chan w) chunks])
    by (constructor; [apply cconcat_ok; exact F|constructor]).
  rewrite (channel_write_concat [cconcat (cw_chan w) chunks] w Hw F1).
  cbn [cconcat fold_right]. fold (cconcat (cw_chan w) chunks).
  destruct (cconcat_ok _ _ F) as [L _].
  set (cc := cconcat (cw_chan w) chunks) in *. rewrite <- L. rewrite zip_app_nil_r. reflexivity.
Qed.

End Proofs.
