"""Property theorems of the writers area whose assumptions are printed and pinned by the checks."""
C08 = ["C08_byte_run_is_sample_run", "C08_byte_write_is_sample_write", "C08_channel_write_is_sample_write", "C08_channel_run_is_sample_run", "C08_chunking_sample", "C08_chunking_byte", "C08_chunking_channel", "C08_frontends_channel_block",
       "C08_frontends_byte_le_block", "C08_frontends_byte_be_block", "C08_partial_dropped_sample",
       "C08_no_panic_sample_debug", "C08_nonvacuous"]
C15 = ["C15_options_block_size", "C15_options_max_lpc_order", "C15_options_max_partition_order",
       "C15_options_padding", "C15_new_validate", "C15_sweep_block_size", "C15_sweep_lpc", "C15_sweep_po",
       "C15_sweep_new", "C15_sweep_partitions", "C15_new_sample", "C15_new_byte", "C15_new_channel",
       "C15_options_wf_presets", "C15_options_wf_setters", "C15_lpc_guard", "C15_partition_guard",
       "C15_length_contract_sample", "C15_finalize_contract", "C15_overfill_refused", "C15_contract_nonvacuous"]
C09 = ["C09_layout_sample", "C09_layout_byte", "C09_layout_channel", "C09_layout_cases", "C09_sample",
       "C09_streaminfo", "C09_points", "C09_frame_size_extrema", "C09_nonvacuous"]
