(* Codec/Progress.v — parsers only consume input; a decoded frame uses at least two bytes, so the
   stream loop's fuel (number of input bytes + 1) never runs out. *)
From FlacCodec Require Import Parser_proofs Stream Totality.
From FlacBase Require Import Crc.
Open Scope N_scope.

Ltac cons_step :=
  match goal with
  | |- consuming (pret _) => apply consuming_ret
  | |- consuming (pfail _) => apply consuming_fail
  | |- consuming (p_rd _) => apply consuming_rd
  | |- consuming (p_rds _) => apply consuming_rds
  | |- consuming p_bit => apply consuming_bit
  | |- consuming (p_unary _) => apply consuming_unary
  | |- consuming (p_guard _ _) => apply consuming_guard
  | |- consuming (plift _) => apply consuming_lift
  | |- consuming (p_repeat _ _) => apply consuming_repeat
  | |- consuming (pbind _ _) => apply consuming_bind; [|intros ?]
  end.
Ltac cons_case :=
  match goal with
  | |- consuming (if ?c then _ else _) => destruct c
  | |- consuming (match ?x with _ => _ end) => destruct x
  | |- consuming (let '(_, _) := ?x in _) => destruct x
  end.
Ltac solve_consuming := repeat (first [cons_step | cons_case]).

Lemma consuming_part_header m : consuming (p_part_header m).
Proof. unfold p_part_header. solve_consuming. Qed.
Lemma consuming_rice k : consuming (p_rice k).
Proof. unfold p_rice. solve_consuming. Qed.
Lemma consuming_partition h n : consuming (p_partition h n).
Proof. destruct h; cbn [p_partition]; solve_consuming; apply consuming_rice. Qed.
Lemma consuming_dec_partitions m : forall lens, consuming (dec_partitions m lens).
Proof.
  induction lens as [|n rest IH]; cbn [dec_partitions]; [apply consuming_ret|].
  apply consuming_bind; [apply consuming_part_header|]. intros h.
  apply consuming_bind; [apply consuming_partition|]. intros rs.
  apply consuming_bind; [exact IH|]. intros. apply consuming_ret.
Qed.
Lemma consuming_dec_residuals order nres : consuming (dec_residuals order nres).
Proof. unfold dec_residuals. solve_consuming; apply consuming_dec_partitions. Qed.
Lemma consuming_subframe_header : consuming p_subframe_header.
Proof. unfold p_subframe_header. solve_consuming. Qed.
Lemma consuming_qlp_precision : consuming p_qlp_precision.
Proof. unfold p_qlp_precision. solve_consuming. Qed.
Lemma consuming_qlp_shift : consuming p_qlp_shift.
Proof. unfold p_qlp_shift. solve_consuming. Qed.

Lemma consuming_dec_subframe w bps n : consuming (dec_subframe w bps n).
Proof.
  unfold dec_subframe.
  apply consuming_bind; [apply consuming_subframe_header|]. intros [ty wasted].
  apply consuming_bind; [apply consuming_lift|]. intros eb.
  apply consuming_bind.
  - destruct ty; solve_consuming;
      first [apply consuming_dec_partitions | apply consuming_dec_residuals | apply consuming_qlp_precision | apply consuming_qlp_shift | idtac].
  - intros xs. destruct (wasted =? 0); apply consuming_ret.
Qed.

Lemma consuming_dec_subframes h : consuming (dec_subframes h).
Proof.
  unfold dec_subframes.
  repeat match goal with |- consuming (if ?c then _ else _) => destruct c end;
    solve_consuming; apply consuming_dec_subframe.
Qed.

Lemma consuming_frame_number : consuming p_frame_number.
Proof.
  unfold p_frame_number. apply consuming_bind; [apply consuming_unary|]. intros ones.
  destruct (ones =? 0); [apply consuming_rd|]. destruct ((ones =? 1) || (7 <? ones)); [apply consuming_fail|].
  apply consuming_bind; [apply consuming_rd|]. intros first.
  generalize (N.to_nat ones - 1)%nat as k. intros k. revert first.
  induction k as [|k IH]; intros acc; cbn [p_number_cont]; [apply consuming_ret|].
  apply consuming_bind; [apply consuming_rd|]. intros tag. apply consuming_bind; [apply consuming_guard|]. intros _.
  apply consuming_bind; [apply consuming_rd|]. intros v. apply IH.
Qed.

Lemma consuming_header si : consuming (parse_header_fields si).
Proof.
  unfold parse_header_fields.
  repeat (first [ apply consuming_frame_number | cons_step | cons_case ]).
Qed.

Lemma consuming_align : consuming p_align.
Proof.
  intros s a r H. unfold p_align in H. inversion H; subst.
  exists (firstn (length s mod 8) s). symmetry. apply firstn_skipn.
Qed.

Lemma rd_consumes n s v r : rd n s = Some (v, r) -> length s = (n + length r)%nat.
Proof. unfold rd. intros H. apply rd_acc_split in H. destruct H as (c & -> & L). rewrite app_length. lia. Qed.

Theorem dec_frame_progress si chk bytes h chans rest :
  dec_frame si chk bytes = Ok (h, chans, rest) -> (length rest + 2 <= length bytes)%nat.
Proof.
  unfold dec_frame. intros H.
  destruct (parse_header_fields si (bits_of_bytes bytes)) as [[h0 s1]| |] eqn:Eh; try discriminate.
  apply consuming_header in Eh.
  destruct (match si with Some i => header_checks i h0 | None => Ok h0 end) as [h1| |]; try discriminate.
  cbn [bind] in H. destruct (negb _); [discriminate|].
  destruct (chk h1); try discriminate. cbn [bind] in H.
  unfold pbind in H.
  destruct (dec_subframes h1 s1) as [[ch s2]| |] eqn:Es; try discriminate.
  apply consuming_dec_subframes in Es.
  destruct (p_align s2) as [[u s3]| |] eqn:Ea; try discriminate. apply consuming_align in Ea.
  unfold p_rd in H. destruct (rd 16 s3) as [[v s4]|] eqn:Er; try discriminate.
  apply rd_consumes in Er. unfold pret in H.
  destruct (crc16 _ =? 0); [|discriminate]. inversion H; subst.
  apply suffix_length in Eh. apply suffix_length in Es. apply suffix_length in Ea.
  rewrite bits_of_bytes_length in Eh.
  rewrite skipn_length. unfold consumed_bytes.
  assert (L4 : (length s4 + 16 <= 8 * length bytes)%nat) by lia.
  assert (D : (length s4 / 8 + 2 <= length bytes)%nat).
  { assert ((length s4 / 8 + 2) * 8 <= 8 * length bytes)%nat; [|lia].
    pose proof (Nat.div_mod (length s4) 8 ltac:(lia)). pose proof (Nat.mod_upper_bound (length s4) 8 ltac:(lia)). lia. }
  lia.
Qed.

(* ---- the stream loop ---- *)
Definition is_end_panic (e : stream_end) : bool := match e with EndPanic _ => true | _ => false end.

Lemma read_frame_total si cur bytes : is_panic (read_frame si cur bytes) = false.
Proof.
  unfold read_frame. destruct (si_total si =? 0).
  - destruct bytes as [|b bytes]; [reflexivity|].
    apply bind_np; [apply dec_frame_total; reflexivity|]. intros [[h ch] rest]. reflexivity.
  - destruct (si_total si <? cur); [reflexivity|]. cbv zeta.
    destruct (_ =? 0)%Z; [reflexivity|].
    apply bind_np.
    + apply dec_frame_total. intros h. destruct (_ || _); reflexivity.
    + intros [[h ch] rest]. reflexivity.
Qed.

Lemma read_frame_progress si cur bytes chans cur' rest :
  read_frame si cur bytes = Ok (Some (chans, cur', rest)) -> (length rest < length bytes)%nat.
Proof.
  unfold read_frame. destruct (si_total si =? 0).
  - destruct bytes as [|b bytes]; [discriminate|].
    destruct (dec_frame (Some si) _ (b :: bytes)) as [[[h ch] r]| |] eqn:E; try discriminate.
    cbn [bind]. intros H. inversion H; subst. apply dec_frame_progress in E. lia.
  - destruct (si_total si <? cur); [discriminate|]. cbv zeta.
    destruct (_ =? 0)%Z; [discriminate|].
    destruct (dec_frame (Some si) _ bytes) as [[[h ch] r]| |] eqn:E; try discriminate.
    cbn [bind]. intros H. inversion H; subst. apply dec_frame_progress in E. lia.
Qed.

Theorem dec_frames_total : forall fuel si cur bytes acc,
  (length bytes < fuel)%nat -> is_end_panic (snd (dec_frames fuel si cur bytes acc)) = false.
Proof.
  induction fuel as [|fuel IH]; intros si cur bytes acc Hf; [lia|].
  cbn [dec_frames].
  pose proof (read_frame_total si cur bytes) as Hnp.
  destruct (read_frame si cur bytes) as [[[[chans cur'] rest]|]| |] eqn:E; try reflexivity; [|discriminate].
  apply IH. apply read_frame_progress in E. lia.
Qed.

(* C04: for every byte string, decoding the whole stream ends in
   end-of-stream or an error — never in a panic, never out of fuel. *)
Theorem dec_stream_total file :
  match dec_stream file with
  | Some (_, _, e) => is_end_panic e = false
  | None => True
  end.
Proof.
  unfold dec_stream. destruct (read_metadata_min file) as [[si audio]|]; [|exact I].
  pose proof (dec_frames_total (S (length audio)) si 0 audio [] ltac:(lia)) as H.
  destruct (dec_frames (S (length audio)) si 0 audio []) as [frames e]. exact H.
Qed.
