(* writers/C09_proofs.v — C09 at the level of the three writers: what a successful run leaves
   in the stream (layout), lifted from the Encoder lemmas of Finalize_proofs.v. *)
From FlacWriters Require Import Writers Lists_proofs Params_proofs Writers_proofs New_proofs Finalize_proofs.
Open Scope N_scope.

Section C09.
Variable enc_block : N -> block -> res (list N).
Variable md5 : list N -> list N.
Hypothesis md5_length : forall l, length (md5 l) = 16%nat.
Variable p : profile.

(* encoding frames never touches the metadata region, the block list, or the prefix *)
Definition same_meta (e e' : encoder) : Prop :=
  e_meta e' = e_meta e /\ e_blocks e' = e_blocks e /\ e_prefix e' = e_prefix e /\ e_interval e' = e_interval e.

Lemma same_meta_refl e : same_meta e e.
Proof. unfold same_meta; auto. Qed.
Lemma same_meta_trans a b c : same_meta a b -> same_meta b c -> same_meta a c.
Proof. unfold same_meta. intros (A1 & A2 & A3 & A4) (B1 & B2 & B3 & B4). repeat split; congruence. Qed.

Lemma fold_same_meta {A} (step : encoder -> A -> res encoder) :
  (forall e a e', step e a = Ok e' -> same_meta e e') ->
  forall l e e', fold_res step e l = Ok e' -> same_meta e e'.
Proof.
  intros Hs. induction l as [|a l IH]; intros e e' H; cbn [fold_res] in H.
  - inversion H; subst. apply same_meta_refl.
  - apply bind_ok in H. destruct H as (e1 & H1 & H). eapply same_meta_trans; eauto.
Qed.

Lemma encode_same_meta e b e' : encoder_encode enc_block p e b = Ok e' -> same_meta e e'.
Proof. intros H. apply (encoder_encode_meta enc_block p) in H. exact H. Qed.

Lemma sample_chunk_same_meta ch bytes e c e' :
  sample_encode_chunk enc_block p ch bytes e c = Ok e' -> same_meta e e'.
Proof.
  unfold sample_encode_chunk. intros H.
  apply bind_ok in H. destruct H as (m & _ & H). apply bind_ok in H. destruct H as (f & _ & H).
  apply encode_same_meta in H. exact H.
Qed.
Lemma byte_chunk_same_meta en ch bytes e c e' :
  byte_encode_chunk enc_block p en ch bytes e c = Ok e' -> same_meta e e'.
Proof.
  unfold byte_encode_chunk. intros H.
  apply bind_ok in H. destruct H as (m & _ & H). apply bind_ok in H. destruct H as (f & _ & H).
  apply encode_same_meta in H. exact H.
Qed.
Lemma channel_chunk_same_meta ch bytes e c e' :
  channel_encode_chunk enc_block p ch bytes e c = Ok e' -> same_meta e e'.
Proof.
  unfold channel_encode_chunk. intros H.
  apply bind_ok in H. destruct H as (m & _ & H). apply bind_ok in H. destruct H as (f & _ & H).
  apply encode_same_meta in H. exact H.
Qed.

Lemma sample_write_same_meta w c w' : sample_write enc_block p w c = Ok w' -> same_meta (sw_enc w) (sw_enc w').
Proof.
  unfold sample_write. intros H. destruct (sw_frame_sample_size w =? 0); [discriminate|].
  destruct (drain _ _) as [cs r]. apply bind_ok in H. destruct H as (e & He & H). inversion H; subst; cbn.
  eapply fold_same_meta; [|exact He]. intros; eapply sample_chunk_same_meta; eauto.
Qed.
Lemma byte_write_same_meta w c w' : byte_write enc_block p w c = Ok w' -> same_meta (bw_enc w) (bw_enc w').
Proof.
  unfold byte_write. intros H. destruct (bw_frame_byte_size w =? 0); [discriminate|].
  destruct (drain _ _) as [cs r]. apply bind_ok in H. destruct H as (e & He & H). inversion H; subst; cbn.
  eapply fold_same_meta; [|exact He]. intros; eapply byte_chunk_same_meta; eauto.
Qed.
Lemma channel_write_same_meta w c w' : channel_write enc_block p w c = Ok w' -> same_meta (cw_enc w) (cw_enc w').
Proof.
  unfold channel_write. intros H. destruct c as [|first rest]; [discriminate|].
  destruct (_ =? si_channels _); [|discriminate]. destruct (existsb _ rest); [discriminate|].
  destruct (cw_frame_sample_size w =? 0); [discriminate|].
  destruct (cdrain _ _) as [cs r]. apply bind_ok in H. destruct H as (e & He & H). inversion H; subst; cbn.
  eapply fold_same_meta; [|exact He]. intros; eapply channel_chunk_same_meta; eauto.
Qed.

Lemma fold_write_same_meta {W A} (wr : W -> A -> res W) (proj : W -> encoder) :
  (forall w a w', wr w a = Ok w' -> same_meta (proj w) (proj w')) ->
  forall l w w', fold_res wr w l = Ok w' -> same_meta (proj w) (proj w').
Proof.
  intros Hs. induction l as [|a l IH]; intros w w' H; cbn [fold_res] in H.
  - inversion H; subst. apply same_meta_refl.
  - apply bind_ok in H. destruct H as (w1 & H1 & H). eapply same_meta_trans; eauto.
Qed.

(* the finished stream of a run, given the encoder handed to Encoder::finalize_inner *)
Definition layout_ok (e0 : encoder) (f : finished) : Prop :=
  exists meta',
    write_blocks (f_si f) (f_blocks f) = Ok meta' /\
    length meta' = length (e_meta e0) /\
    meta_len (f_blocks f) = meta_len (e_blocks e0) /\
    (* before finalize: what new wrote, then the frames *)
    stream (f_enc f) = e_prefix e0 ++ e_meta e0 ++ frames_bytes (f_enc f) /\
    (* after: the same prefix, a metadata region of the same length, the same frames *)
    f_stream f = e_prefix e0 ++ meta' ++ frames_bytes (f_enc f).

Lemma finalize_layout_from e0 e f :
  meta_consistent e0 -> same_meta e0 e -> encoder_finalize md5 p e = Ok f -> layout_ok e0 f.
Proof.
  intros Hm (S1 & S2 & S3 & S4) H.
  assert (Hm' : meta_consistent e) by (unfold meta_consistent in *; rewrite S1, S2; exact Hm).
  assert (Ef : f_enc f = e).
  { unfold encoder_finalize, encoder_finalize_gen in H.
    repeat (apply bind_ok in H; destruct H as (? & _ & H)). inversion H; reflexivity. }
  destruct (finalize_layout md5 md5_length p true e f Hm' H) as (meta' & Hw & Hl & Hb & Hs).
  exists meta'. rewrite Ef. unfold stream. rewrite <- S1, <- S2, <- S3. repeat split; auto.
Qed.

Theorem sample_layout prefix o rate bps ch total w chunks f :
  sample_new p prefix o rate bps ch total = Ok w ->
  sample_run enc_block md5 p w chunks = Ok f -> layout_ok (sw_enc w) f.
Proof.
  intros Hn H. unfold sample_run in H. apply bind_ok in H. destruct H as (w' & Hw & H).
  assert (Hm : meta_consistent (sw_enc w)).
  { unfold sample_new in Hn. repeat (apply bind_ok in Hn; destruct Hn as (? & ? & Hn)).
    inversion Hn; subst; cbn. eapply encoder_new_meta; eauto. }
  pose proof (fold_write_same_meta _ sw_enc sample_write_same_meta _ _ _ Hw) as S.
  unfold sample_finalize in H. apply bind_ok in H. destruct H as (e & He & H).
  eapply finalize_layout_from; [exact Hm| |exact H].
  eapply same_meta_trans; [exact S|].
  destruct (sw_channels w' <=? _).
  - destruct (sw_channels w' =? 0); [discriminate|]. eapply sample_chunk_same_meta; eauto.
  - inversion He; subst. apply same_meta_refl.
Qed.

Theorem byte_layout en prefix o rate bps ch total w chunks f :
  byte_new p en prefix o rate bps ch total = Ok w ->
  byte_run enc_block md5 p w chunks = Ok f -> layout_ok (bw_enc w) f.
Proof.
  intros Hn H. unfold byte_run in H. apply bind_ok in H. destruct H as (w' & Hw & H).
  assert (Hm : meta_consistent (bw_enc w)).
  { unfold byte_new in Hn. repeat (apply bind_ok in Hn; destruct Hn as (? & ? & Hn)).
    inversion Hn; subst; cbn. eapply encoder_new_meta; eauto. }
  pose proof (fold_write_same_meta _ bw_enc byte_write_same_meta _ _ _ Hw) as S.
  unfold byte_finalize in H. apply bind_ok in H. destruct H as (e & He & H).
  eapply finalize_layout_from; [exact Hm| |exact H].
  eapply same_meta_trans; [exact S|].
  destruct (bw_pcm_frame_size w' <=? _).
  - destruct (bw_pcm_frame_size w' =? 0); [discriminate|]. eapply byte_chunk_same_meta; eauto.
  - inversion He; subst. apply same_meta_refl.
Qed.

Theorem channel_layout prefix o rate bps ch total w chunks f :
  channel_new p prefix o rate bps ch total = Ok w ->
  channel_run enc_block md5 p w chunks = Ok f -> layout_ok (cw_enc w) f.
Proof.
  intros Hn H. unfold channel_run in H. apply bind_ok in H. destruct H as (w' & Hw & H).
  assert (Hm : meta_consistent (cw_enc w)).
  { unfold channel_new in Hn. repeat (apply bind_ok in Hn; destruct Hn as (? & ? & Hn)).
    inversion Hn; subst; cbn. eapply encoder_new_meta; eauto. }
  pose proof (fold_write_same_meta _ cw_enc channel_write_same_meta _ _ _ Hw) as S.
  unfold channel_finalize in H. destruct (cw_bufs w') as [|c0 r] eqn:Eb; [discriminate|].
  apply bind_ok in H. destruct H as (e & He & H).
  eapply finalize_layout_from; [exact Hm| |exact H].
  eapply same_meta_trans; [exact S|].
  destruct (negb _).
  - eapply channel_chunk_same_meta; eauto.
  - inversion He; subst. apply same_meta_refl.
Qed.

End C09.
