(* Codec/Totality.v — C04 core: the streaming decoder model (whose arithmetic is explicitly wrapping
   in the repaired code, identical in debug and release builds) never reaches a Panic, for every input bit string; termination is by construction
   (structural recursion; the stream loop has explicit fuel that cannot run out, proved below). *)
From FlacCodec Require Import Parser_proofs Stream.
From FlacBase Require Import Crc.
Open Scope N_scope.

Lemma arith_s_release w z : is_panic (arith_s Release w z) = false.
Proof. unfold arith_s. destruct (in_s w z); reflexivity. Qed.
Lemma arith_u_release w z : is_panic (arith_u Release w z) = false.
Proof. unfold arith_u. destruct (in_u w z); reflexivity. Qed.
Lemma shr_s_release w z k : is_panic (shr_s Release w z k) = false.
Proof. unfold shr_s. destruct (k <? w)%Z; reflexivity. Qed.
Lemma abs_s_release w z : is_panic (abs_s Release w z) = false.
Proof. apply arith_s_release. Qed.

Lemma bind_np {A B} (x : res A) (f : A -> res B) :
  is_panic x = false -> (forall a, is_panic (f a) = false) -> is_panic (bind x f) = false.
Proof. destruct x; cbn; auto. Qed.

Lemma dot_p_release : forall xs cs acc, is_panic (dot_p xs cs acc) = false.
Proof.
  induction xs as [|x xs IH]; intros [|c cs] acc; cbn [dot_p]; try reflexivity.
  apply bind_np; [apply arith_s_release|]. intros t. apply bind_np; [apply arith_s_release|]. intros a. apply IH.
Qed.

Lemma predict_release w coeffs shift : forall todo done_rev,
  is_panic (predict w coeffs shift done_rev todo) = false.
Proof.
  induction todo as [|r rest IH]; intros done_rev; cbn [predict]; [reflexivity|].
  apply bind_np; [apply dot_p_release|]. intros s.
  apply bind_np; [apply shr_s_release|]. intros sh. apply IH.
Qed.

Lemma no_panic_part_header m : no_panic (p_part_header m).
Proof.
  unfold p_part_header. apply no_panic_bind; [apply no_panic_rd|]. intros k.
  destruct (k =? _); [|apply no_panic_ret].
  apply no_panic_bind; [apply no_panic_rd|]. intros w. destruct (w =? 0); apply no_panic_ret.
Qed.
Lemma no_panic_rice k : no_panic (p_rice k).
Proof.
  unfold p_rice. apply no_panic_bind; [apply no_panic_unary|]. intros msb.
  apply no_panic_bind; [apply no_panic_rd|]. intros lsb.
  apply no_panic_bind; [apply no_panic_guard|]. intros _. apply no_panic_ret.
Qed.
Lemma no_panic_partition h n : no_panic (p_partition h n).
Proof.
  destruct h; cbn [p_partition].
  - apply no_panic_repeat, no_panic_rice.
  - apply no_panic_repeat, no_panic_rds.
  - apply no_panic_ret.
Qed.
Lemma no_panic_dec_partitions m : forall lens, no_panic (dec_partitions m lens).
Proof.
  induction lens as [|n rest IH]; cbn [dec_partitions]; [apply no_panic_ret|].
  apply no_panic_bind; [apply no_panic_part_header|]. intros h.
  apply no_panic_bind; [apply no_panic_partition|]. intros rs.
  apply no_panic_bind; [exact IH|]. intros. apply no_panic_ret.
Qed.
Lemma no_panic_dec_residuals order nres : no_panic (dec_residuals order nres).
Proof.
  unfold dec_residuals. apply no_panic_bind; [apply no_panic_rd|]. intros method.
  apply no_panic_bind; [apply no_panic_guard|]. intros _.
  apply no_panic_bind; [apply no_panic_rd|]. intros po.
  apply no_panic_bind; [apply no_panic_guard|]. intros _.
  apply no_panic_bind; [apply no_panic_guard|]. intros _.
  apply no_panic_dec_partitions.
Qed.
Lemma no_panic_subframe_header : no_panic p_subframe_header.
Proof.
  unfold p_subframe_header. apply no_panic_bind; [apply no_panic_bit|]. intros pad.
  apply no_panic_bind; [apply no_panic_guard|]. intros _.
  apply no_panic_bind; [apply no_panic_rd|]. intros t.
  apply no_panic_bind.
  { destruct (t =? 0); [apply no_panic_ret|]. destruct (t =? 1); [apply no_panic_ret|].
    destruct ((8 <=? t) && (t <=? 12)); [apply no_panic_ret|]. destruct (32 <=? t); [apply no_panic_ret|apply no_panic_fail]. }
  intros ty. apply no_panic_bind; [apply no_panic_bit|]. intros w.
  apply no_panic_bind.
  { destruct w; [|apply no_panic_ret]. apply no_panic_bind; [apply no_panic_unary|]. intros. apply no_panic_ret. }
  intros. apply no_panic_ret.
Qed.
Lemma effective_bps_np bps wasted : is_panic (effective_bps bps wasted) = false.
Proof. unfold effective_bps. destruct (wasted <=? bps - 1); [destruct (1 <=? bps)|]; reflexivity. Qed.
Lemma no_panic_qlp_precision : no_panic p_qlp_precision.
Proof. unfold p_qlp_precision. apply no_panic_bind; [apply no_panic_rd|]. intros c. destruct (c =? 15); [apply no_panic_fail|apply no_panic_ret]. Qed.
Lemma no_panic_qlp_shift : no_panic p_qlp_shift.
Proof. unfold p_qlp_shift. apply no_panic_bind; [apply no_panic_rds|]. intros v. destruct (v <? 0)%Z; [apply no_panic_fail|apply no_panic_ret]. Qed.

Lemma no_panic_dec_subframe w bps n : no_panic (dec_subframe w bps n).
Proof.
  unfold dec_subframe. apply no_panic_bind; [apply no_panic_subframe_header|]. intros [ty wasted].
  apply no_panic_bind; [apply no_panic_lift, effective_bps_np|]. intros eb.
  apply no_panic_bind.
  - destruct ty as [| |o|o].
    + apply no_panic_bind; [apply no_panic_rds|]. intros. apply no_panic_ret.
    + apply no_panic_repeat, no_panic_rds.
    + apply no_panic_bind; [apply no_panic_guard|]. intros _.
      apply no_panic_bind; [apply no_panic_repeat, no_panic_rds|]. intros warm.
      apply no_panic_bind; [apply no_panic_dec_residuals|]. intros rs.
      apply no_panic_lift, predict_release.
    + apply no_panic_bind; [apply no_panic_guard|]. intros _.
      apply no_panic_bind; [apply no_panic_repeat, no_panic_rds|]. intros warm.
      apply no_panic_bind; [apply no_panic_qlp_precision|]. intros prec.
      apply no_panic_bind; [apply no_panic_qlp_shift|]. intros shift.
      apply no_panic_bind; [apply no_panic_repeat, no_panic_rds|]. intros coefs.
      apply no_panic_bind; [apply no_panic_dec_residuals|]. intros rs.
      apply no_panic_lift, predict_release.
  - intros xs. destruct (wasted =? 0); apply no_panic_ret.
Qed.

Lemma map2_res_np (f : Z -> Z -> res Z) : (forall x y, is_panic (f x y) = false) ->
  forall a b, is_panic (map2_res f a b) = false.
Proof.
  intros Hf. induction a as [|x a IH]; intros [|y b]; cbn [map2_res]; try reflexivity.
  apply bind_np; [apply Hf|]. intros v. apply bind_np; [apply IH|]. reflexivity.
Qed.
Lemma map2_res2_np (f : Z -> Z -> res (Z * Z)) : (forall x y, is_panic (f x y) = false) ->
  forall a b, is_panic (map2_res2 f a b) = false.
Proof.
  intros Hf. induction a as [|x a IH]; intros [|y b]; cbn [map2_res2]; try reflexivity.
  apply bind_np; [apply Hf|]. intros v. apply bind_np; [apply IH|]. reflexivity.
Qed.

Lemma no_panic_dec_subframes h : no_panic (dec_subframes h).
Proof.
  unfold dec_subframes.
  destruct (h_assign h <? 8); [apply no_panic_repeat, no_panic_dec_subframe|].
  assert (S32 : forall bps n, no_panic (dec_subframe 32 bps n)) by (intros; apply no_panic_dec_subframe).
  assert (S64 : forall bps n, no_panic (dec_subframe 64 bps n)) by (intros; apply no_panic_dec_subframe).
  destruct (h_bps h <? 32).
  - destruct (h_assign h =? 8); [|destruct (h_assign h =? 9)].
    + apply no_panic_bind; [apply S32|]. intros l. apply no_panic_bind; [apply S32|]. intros s.
      apply no_panic_bind; [|intros; apply no_panic_ret].
      apply no_panic_lift, map2_res_np. intros. apply arith_s_release.
    + apply no_panic_bind; [apply S32|]. intros s. apply no_panic_bind; [apply S32|]. intros r.
      apply no_panic_bind; [|intros; apply no_panic_ret].
      apply no_panic_lift, map2_res_np. intros. apply arith_s_release.
    + apply no_panic_bind; [apply S32|]. intros m. apply no_panic_bind; [apply S32|]. intros s.
      apply no_panic_bind; [|intros; apply no_panic_ret].
      apply no_panic_lift, map2_res2_np. intros x y.
      apply bind_np; [apply arith_s_release|]. intros m2.
      apply bind_np; [apply arith_s_release|]. intros sum. apply bind_np; [apply arith_s_release|]. intros a1.
      apply bind_np; [apply arith_s_release|]. reflexivity.
  - destruct (h_assign h =? 8); [|destruct (h_assign h =? 9)].
    + apply no_panic_bind; [apply S32|]. intros l. apply no_panic_bind; [apply S64|]. intros s.
      apply no_panic_bind; [|intros; apply no_panic_ret].
      apply no_panic_lift, map2_res_np. intros. apply bind_np; [apply arith_s_release|]. reflexivity.
    + apply no_panic_bind; [apply S64|]. intros s. apply no_panic_bind; [apply S32|]. intros r.
      apply no_panic_bind; [|intros; apply no_panic_ret].
      apply no_panic_lift, map2_res_np. intros. apply bind_np; [apply arith_s_release|]. reflexivity.
    + apply no_panic_bind; [apply S32|]. intros m. apply no_panic_bind; [apply S64|]. intros s.
      apply no_panic_bind; [|intros; apply no_panic_ret].
      apply no_panic_lift, map2_res2_np. intros x y.
      apply bind_np; [apply arith_s_release|]. intros m2.
      apply bind_np; [apply arith_s_release|]. intros sum. apply bind_np; [apply arith_s_release|]. intros a1.
      apply bind_np; [apply arith_s_release|]. reflexivity.
Qed.

Lemma no_panic_frame_number : no_panic p_frame_number.
Proof.
  unfold p_frame_number. apply no_panic_bind; [apply no_panic_unary|]. intros ones.
  destruct (ones =? 0); [apply no_panic_rd|]. destruct ((ones =? 1) || (7 <? ones)); [apply no_panic_fail|].
  apply no_panic_bind; [apply no_panic_rd|]. intros first.
  generalize (N.to_nat ones - 1)%nat as k. intros k. revert first.
  induction k as [|k IH]; intros acc; cbn [p_number_cont]; [apply no_panic_ret|].
  apply no_panic_bind; [apply no_panic_rd|]. intros tag. apply no_panic_bind; [apply no_panic_guard|]. intros _.
  apply no_panic_bind; [apply no_panic_rd|]. intros v. apply IH.
Qed.

Lemma no_panic_header si : no_panic (parse_header_fields si).
Proof.
  unfold parse_header_fields.
  repeat (first [ apply no_panic_ret | apply no_panic_fail
                | apply no_panic_bind; [first [apply no_panic_rd | apply no_panic_guard | apply no_panic_bit | apply no_panic_frame_number | idtac]|intros ?] ]).
  - destruct (bs_of_code _); [apply no_panic_ret|]. destruct (_ =? 6).
    + apply no_panic_bind; [apply no_panic_rd|]. intros. apply no_panic_ret.
    + apply no_panic_bind; [apply no_panic_rd|]. intros. apply no_panic_bind; [apply no_panic_guard|]. intros. apply no_panic_ret.
  - destruct (rate_of_code _); [apply no_panic_ret|]. destruct (_ =? 0); [apply no_panic_ret|].
    destruct (_ =? 12); [apply no_panic_bind; [apply no_panic_rd|]; intros; apply no_panic_ret|].
    destruct (_ =? 13); [apply no_panic_rd|]. apply no_panic_bind; [apply no_panic_rd|]. intros; apply no_panic_ret.
Qed.

Theorem dec_frame_total si chk bytes :
  (forall h, is_panic (chk h) = false) -> is_panic (dec_frame si chk bytes) = false.
Proof.
  intros Hchk. unfold dec_frame.
  pose proof (no_panic_header si (bits_of_bytes bytes)) as Hh.
  destruct (parse_header_fields si (bits_of_bytes bytes)) as [[h0 s1]| |]; try reflexivity; [|discriminate].
  apply bind_np.
  { destruct si as [i|]; [|reflexivity]. unfold header_checks.
    repeat match goal with |- context [if ?c then _ else _] => destruct c; try reflexivity end. }
  intros h. destruct (negb _); [reflexivity|].
  apply bind_np; [apply Hchk|]. intros _.
  match goal with |- is_panic (match ?p s1 with _ => _ end) = false => assert (Hp : no_panic p) end.
  { apply no_panic_bind; [apply no_panic_dec_subframes|]. intros chans.
    apply no_panic_bind; [intros s; reflexivity|]. intros _.
    apply no_panic_bind; [apply no_panic_rd|]. intros. apply no_panic_ret. }
  specialize (Hp s1). 
  match goal with |- is_panic (match ?x with _ => _ end) = false => destruct x as [[chans s2]| |] end;
    try reflexivity; [|discriminate].
  destruct (crc16 _ =? 0); reflexivity.
Qed.
