(* readers/Frame_proofs.v — lengths and decompositions of the expected streams: interleaving of a
   well-formed frame, serialisation, Frame::to_buf on a well-formed frame, sdata/bdata/cdata. *)
From FlacReaders Require Import Spec Lists_proofs.
Open Scope N_scope.

(* ---- MultiZip on a rectangular frame *)
Lemma heads_tails_rect (cs : list (list Z)) n :
  Forall (fun c => length c = S n) cs ->
  exists hs ts, heads_tails cs = Some (hs, ts) /\ length hs = length cs /\ length ts = length cs /\
                Forall (fun c => length c = n) ts /\
                (forall c, nth c hs 0%Z = hd 0%Z (nth c cs [])) /\
                (forall c, nth c ts [] = tl (nth c cs [])).
Proof.
  induction cs as [|c r IH]; intros H.
  - exists [], []. cbn. split; [reflexivity|]. split; [reflexivity|]. split; [reflexivity|].
    split; [constructor|]. split; intros [|c]; reflexivity.
  - inversion H as [|? ? Hc Hr]; subst. destruct (IH Hr) as (hs & ts & E & L1 & L2 & F & N1 & N2).
    destruct c as [|x t]; [discriminate|]. cbn [heads_tails]. rewrite E.
    exists (x :: hs), (t :: ts). cbn [length].
    split; [reflexivity|]. split; [now rewrite L1|]. split; [now rewrite L2|].
    split; [constructor; [cbn in Hc; lia | exact F]|].
    split; intros [|k]; cbn [nth hd tl]; auto.
Qed.

Lemma multizip_length n : forall cs,
  Forall (fun c => length c = n) cs -> length (multizip n cs) = (n * length cs)%nat.
Proof.
  induction n as [|n IH]; intros cs H; cbn [multizip]; [reflexivity|].
  destruct (heads_tails_rect cs n H) as (hs & ts & E & L1 & L2 & F & _). rewrite E.
  rewrite app_length, IH, L1, L2 by exact F. lia.
Qed.

Lemma wf_frame_nat nch f : wf_frame nch f ->
  length f = N.to_nat nch /\ (0 < length (hd [] f))%nat /\
  N.to_nat (pcm_frames f) = length (hd [] f) /\
  Forall (fun c => length c = length (hd [] f)) f.
Proof.
  intros (Hn & Hp & Hall). unfold lenN in *.
  assert (Hh : N.to_nat (pcm_frames f) = length (hd [] f)).
  { destruct f as [|c r]; cbn [pcm_frames hd] in *; [lia|]. unfold lenN. lia. }
  repeat split; try lia.
  eapply Forall_impl; [|exact Hall]. cbn. intros c Hc. lia.
Qed.

Lemma interleave_len nch f : wf_frame nch f -> lenN (interleave f) = pcm_frames f * nch.
Proof.
  intros H. destruct (wf_frame_nat nch f H) as (Hn & _ & Hh & Hall).
  unfold interleave, lenN. rewrite multizip_length by exact Hall. lia.
Qed.

Lemma channels_ok nch f : wf_frame nch f -> channels f = Ok f.
Proof.
  intros (_ & Hp & _). unfold channels. destruct (N.eqb_spec (pcm_frames f) 0); [lia|reflexivity].
Qed.

Lemma iter_ok nch f : wf_frame nch f -> iter f = Ok (interleave f).
Proof. intros H. unfold iter. now rewrite (channels_ok nch f H). Qed.

Lemma concat_len_rect {A} (f : list (list A)) k :
  Forall (fun c => lenN c = k) f -> lenN (concat f) = lenN f * k.
Proof.
  induction f as [|c r IH]; intros H; cbn [concat].
  - reflexivity.
  - inversion H; subst. rewrite lenN_app, lenN_cons, IH by assumption. lia.
Qed.

Lemma samples_len_wf nch f : wf_frame nch f -> samples_len f = nch * pcm_frames f.
Proof. intros (Hn & _ & Hall). unfold samples_len. rewrite (concat_len_rect f _ Hall). lia. Qed.

(* ---- serialisation *)
Lemma order_len e l : lenN (order e l) = lenN l.
Proof. destruct e; cbn [order]; [reflexivity | apply lenN_rev]. Qed.

Lemma ser1_len e w s : 1 <= w <= 4 -> lenN (ser1 e w s) = w.
Proof.
  intros H. assert (Hw : w = 1 \/ w = 2 \/ w = 3 \/ w = 4) by lia.
  destruct Hw as [ -> | [ -> | [ -> | -> ] ] ]; cbn [ser1]; unfold i8_to_bytes, i16_to_bytes, i24_to_bytes, i32_to_bytes;
    rewrite ?order_len; reflexivity.
Qed.

Lemma ser_app e w a b : ser e w (a ++ b) = ser e w a ++ ser e w b.
Proof. unfold ser. now rewrite map_app, concat_app. Qed.

Lemma ser_len e w xs : 1 <= w <= 4 -> lenN (ser e w xs) = w * lenN xs.
Proof.
  intros H. induction xs as [|x r IH]; [cbn; lia|].
  change (ser e w (x :: r)) with (ser1 e w x ++ ser e w r).
  rewrite lenN_app, IH, ser1_len, lenN_cons by exact H. lia.
Qed.

Lemma to_buf_ok e bps nch f :
  1 <= bytes_per_sample bps <= 4 -> wf_frame nch f ->
  to_buf e bps f = Ok (ser e (bytes_per_sample bps) (interleave f)).
Proof.
  intros Hw Hf. unfold to_buf, bytes_len. remember (bytes_per_sample bps) as w eqn:Ew. clear Ew.
  replace (1 <=? w) with true by (symmetry; apply N.leb_le; lia).
  replace (w <=? 4) with true by (symmetry; apply N.leb_le; lia). cbn [andb].
  rewrite (iter_ok nch f Hf). cbn [bind].
  rewrite (samples_len_wf nch f Hf).
  assert (Hx : lenN (interleave f) = nch * pcm_frames f) by (rewrite (interleave_len nch f Hf); lia).
  rewrite (N.mul_comm w (nch * pcm_frames f)), N.div_mul by lia.
  rewrite takeN_all by lia. rewrite ser_len, Hx by lia.
  match goal with |- context [repeatN 0 ?k] => replace k with 0 by lia end.
  unfold repeatN. cbn. now rewrite app_nil_r.
Qed.

(* ---- the expected streams are additive over runs of slots *)
Lemma sumlen_app a b : sumlen (a ++ b) = sumlen a + sumlen b.
Proof. induction a as [|s r IH]; cbn [sumlen app]; [lia | rewrite IH; lia]. Qed.

Lemma sdata_app a b : sdata (a ++ b) = sdata a ++ sdata b.
Proof. unfold sdata, frames_of. now rewrite !map_app, concat_app. Qed.
Lemma bdata_app F a b : bdata F (a ++ b) = bdata F a ++ bdata F b.
Proof. unfold bdata. now rewrite sdata_app, ser_app. Qed.
Lemma cdata_app c a b : cdata c (a ++ b) = cdata c a ++ cdata c b.
Proof. unfold cdata, frames_of. now rewrite !map_app, concat_app. Qed.

Lemma sdata_cons f r : sdata (SFrame f :: r) = interleave f ++ sdata r.
Proof. reflexivity. Qed.
Lemma bdata_cons F f r :
  bdata F (SFrame f :: r) = ser (f_endian F) (bytes_per_sample (f_bps F)) (interleave f) ++ bdata F r.
Proof. unfold bdata. now rewrite sdata_cons, ser_app. Qed.
Lemma cdata_cons c f r : cdata c (SFrame f :: r) = nth c f [] ++ cdata c r.
Proof. reflexivity. Qed.
Lemma sumlen_cons f r : sumlen (SFrame f :: r) = pcm_frames f + sumlen r.
Proof. reflexivity. Qed.

Lemma sdata_len nch l : Forall (good_slot nch) l -> lenN (sdata l) = sumlen l * nch.
Proof.
  induction l as [|s r IH]; intros H; [reflexivity|].
  inversion H as [|? ? (f & -> & Hf) Hr]; subst.
  rewrite sdata_cons, sumlen_cons, lenN_app, (interleave_len nch f Hf), IH by exact Hr. lia.
Qed.

Lemma bdata_len F l :
  1 <= bytes_per_sample (f_bps F) <= 4 -> Forall (good_slot (f_channels F)) l ->
  lenN (bdata F l) = sumlen l * bytes_per_pcm_frame F.
Proof.
  intros Hw H. unfold bdata, bytes_per_pcm_frame. rewrite ser_len by exact Hw.
  rewrite (sdata_len _ l H). lia.
Qed.

Lemma nth_chan_len nch f c : wf_frame nch f -> (c < N.to_nat nch)%nat -> lenN (nth c f []) = pcm_frames f.
Proof.
  intros (Hn & _ & Hall) Hc. rewrite Forall_forall in Hall. apply Hall. apply nth_In.
  unfold lenN in Hn. lia.
Qed.

Lemma cdata_len nch c l : Forall (good_slot nch) l -> (c < N.to_nat nch)%nat -> lenN (cdata c l) = sumlen l.
Proof.
  induction l as [|s r IH]; intros H Hc; [reflexivity|].
  inversion H as [|? ? (f & -> & Hf) Hr]; subst.
  rewrite cdata_cons, sumlen_cons, lenN_app, (nth_chan_len nch f c Hf Hc), IH by assumption. lia.
Qed.

Lemma good_app nch a b : Forall (good_slot nch) (a ++ b) -> Forall (good_slot nch) a /\ Forall (good_slot nch) b.
Proof. apply Forall_app. Qed.
