(* Writers/Cross_writes.v — C08 across front-ends at the level of the WRITES (not only finished runs): what a
   FlacByteWriter (either byte order, nothing buffered) has handed to its Encoder after writing any byte string is
   what a FlacSampleWriter over the same Encoder has handed to it after writing the samples those bytes spell — the
   same Encoder state (frames emitted, counters, MD5 input), or the same error.  Used by coq/e2e to carry the
   interrupted-stream theorem of C14 from the sample writer to the byte writer. *)
From Coq Require Import List NArith ZArith Lia.
From FlacBase Require Import Res.
From FlacWriters Require Import Meta Params Finalize Writers Lists_proofs Writers_proofs Bytes_proofs Frontend_proofs Cross_proofs.
Import ListNotations.
Open Scope N_scope.

Section CrossWrites.
Variable enc_block : N -> block -> res (list N).
Variable p : profile.

Theorem byte_write_is_sample_write en e0 ch nb bs (bytes : list N) :
  1 <= nb <= 4 -> 1 <= ch -> 1 <= bs -> Forall byte_ok bytes ->
  let wb := {| bw_enc := e0; bw_buf := []; bw_endian := en; bw_channels := ch; bw_bytes_per_sample := nb;
               bw_pcm_frame_size := nb * ch; bw_frame_byte_size := nb * ch * bs |} in
  let ws := {| sw_enc := e0; sw_buf := []; sw_channels := ch; sw_frame_sample_size := ch * bs; sw_bytes_per_sample := nb |} in
  rmap bw_enc (byte_write enc_block p wb bytes) = rmap sw_enc (sample_write enc_block p ws (decoded en (N.to_nat nb) bytes)).
Proof.
  intros Hnb Hc Hbs Hbytes wb ws.
  set (n := N.to_nat nb). set (c := N.to_nat ch). set (b := N.to_nat bs).
  assert (Hn : (1 <= n <= 4)%nat) by (unfold n; lia). assert (Hcc : (1 <= c)%nat) by (unfold c; lia). assert (Hb : (1 <= b)%nat) by (unfold b; lia).
  unfold byte_write, sample_write. cbn [wb ws bw_buf bw_frame_byte_size bw_enc bw_endian bw_channels bw_bytes_per_sample bw_pcm_frame_size
                                        sw_buf sw_frame_sample_size sw_enc sw_channels sw_bytes_per_sample app].
  destruct (N.eqb_spec (nb * ch * bs) 0) as [|_]; [nia|]. destruct (N.eqb_spec (ch * bs) 0) as [|_]; [nia|].
  set (kb := N.to_nat (nb * ch * bs)). set (ks := N.to_nat (ch * bs)).
  assert (Hkb : kb = (n * (c * b))%nat) by (unfold kb, n, c, b; rewrite !N2Nat.inj_mul; lia).
  assert (Hks : ks = (c * b)%nat) by (unfold ks, c, b; rewrite N2Nat.inj_mul; reflexivity).
  assert (Hkb0 : (0 < kb)%nat) by nia. assert (Hks0 : (0 < ks)%nat) by nia.
  destruct (drain kb bytes) as [cs rest] eqn:Ed.
  pose proof (drain_spec kb Hkb0 bytes cs rest Ed) as (Eall & Fcs & Lrest).
  (* the samples: decoded full chunks ++ decoded rest *)
  assert (Lcs : length (concat cs) = (kb * length cs)%nat).
  { clear - Fcs. induction Fcs as [|x l Hx _ IH]; cbn [concat length]; [lia|]. rewrite app_length, IH, Hx. lia. }
  assert (Dcs : decoded en n (concat cs) = concat (map (decoded en n) cs)).
  { clear - Fcs Hkb Hn. induction Fcs as [|x l Hx _ IH]; cbn [concat map]; [reflexivity|].
    rewrite (decoded_app en n x (concat l) (c * b)) by (lia || (rewrite Hx; lia)). rewrite IH. reflexivity. }
  assert (Esamples : decoded en n bytes = concat (map (decoded en n) cs) ++ decoded en n rest).
  { rewrite Eall at 1. rewrite (decoded_app en n (concat cs) rest (c * b * length cs)) by (lia || (rewrite Lcs, Hkb; lia)).
    rewrite Dcs. reflexivity. }
  assert (Fl : Forall (fun x => length x = ks) (map (decoded en n) cs)).
  { apply Forall_forall. intros x Hx. apply in_map_iff in Hx. destruct Hx as (y & <- & Hy).
    rewrite decoded_length by lia. rewrite Forall_forall in Fcs.
    rewrite (Fcs _ Hy), Hkb, Hks. replace (n * (c * b))%nat with (c * b * n)%nat by lia. apply Nat.div_mul. lia. }
  assert (Lr : (length (decoded en n rest) < ks)%nat).
  { rewrite decoded_length by lia. apply Nat.div_lt_upper_bound; [lia|]. rewrite Hks. rewrite Hkb in Lrest. lia. }
  assert (Eds : drain ks (decoded en n bytes) = (map (decoded en n) cs, decoded en n rest)).
  { rewrite Esamples. apply drain_unique; assumption. }
  rewrite Eds.
  (* the full chunks *)
  assert (Hbyte_sub : forall x, (exists a z, bytes = a ++ x ++ z) -> Forall byte_ok x).
  { intros x (a & z & E). rewrite E in Hbytes. apply Forall_app in Hbytes. destruct Hbytes as [_ H]. apply Forall_app in H. tauto. }
  rewrite (fold_bytes_decoded enc_block p en ch nb Hnb cs e0).
  2:{ apply Forall_forall. intros x Hx. rewrite Forall_forall in Fcs. exists (ch * bs). rewrite (Fcs _ Hx). unfold kb. lia. }
  2:{ apply Forall_forall. intros x Hx. apply Hbyte_sub. apply in_split in Hx. destruct Hx as (l1 & l2 & ->).
      exists (concat l1), (concat l2 ++ rest). rewrite Eall, concat_app. cbn [concat]. rewrite <- !app_assoc. reflexivity. }
  fold n.
  destruct (fold_res (sample_encode_chunk enc_block p ch nb) e0 (map (decoded en n) cs)) as [e1| |]; reflexivity.
Qed.

End CrossWrites.
