//! C19 searcher: encoding never expands audio beyond verbatim size plus a fixed frame overhead.
//! Bound tested per frame (n = block length, b = declared bits-per-sample, ch = channels):
//!     frame_bytes <= 16 + ceil( (sum over channels of (8 + n*b)  +  [ch == 2] * n) / 8 ) + 2
//! i.e. a maximal frame header (16 bytes: sync/codes 4, coded number <= 7, uncommon block size 2,
//! uncommon sample rate 2, CRC-8 1), per channel a subframe header byte plus the samples stored
//! verbatim at the declared depth, one extra bit per sample for one channel of a stereo pair
//! (the side channel), zero padding to a byte, CRC-16.
//! Constant blocks (every channel a constant value): frame_bytes <= 18 + 16 * ch, any length.
//! Inputs: adversarial shapes per predictor x option sets, sizes from the real encoder via
//! `stream::FrameIterator`; per-subframe bit counts via the structural writer.
#[path = "c01_shared/mod.rs"]
mod shared;

use bitstream_io::{BitWrite, BitsWritten};
use flac_codec::stream::{ChannelAssignment, FrameIterator, SubframeWidth};
use shared::io::*;
use shared::space::*;
use shared::*;
use std::collections::BTreeMap;
use std::io::Cursor;
use vharness::json::{esc, ints, obj};
use vharness::*;

fn bound_bytes(n: usize, bps: u32, ch: usize) -> usize {
    let bits = ch * (8 + n * bps as usize) + if ch == 2 { n } else { 0 };
    16 + bits.div_ceil(8) + 2
}
fn const_bound_bytes(ch: usize) -> usize {
    18 + 16 * ch
}

struct St {
    files: usize,
    frames: usize,
    const_frames: usize,
    worst_ratio_permille: usize,
    worst_const: usize,
    assignments: BTreeMap<String, usize>,
    cases: usize,
    max_cases: usize,
    verbatim_subframes: usize,
    subframes: usize,
    skipped_known: usize,
    struct_cases: usize,
    max_struct_cases: usize,
    enc_cases: usize,
}

fn judge(out: &mut Out, st: &mut St, cfg: &Cfg, kind: &str, pcm: &[i32], file: &[u8], constant: bool) {
    st.files += 1;
    let input: Vec<(&str, String)> = vec![("cfg", cfg.json()), ("kind", esc(kind)), ("pcm", ints(&pcm[..pcm.len().min(6000)])), ("pcm_len", pcm.len().to_string())];
    let it = match catch(|| FrameIterator::new(Cursor::new(file))) { Ok(Ok(it)) => it, _ => return };
    let items = match catch(|| { let mut v = vec![]; for r in it { let stop = r.is_err(); v.push(r); if stop { break; } } v }) { Ok(v) => v, Err(_) => return };
    let mut offs = vec![];
    let mut frames = vec![];
    for r in items { match r { Ok((f, o)) => { offs.push(o as usize); frames.push(f); } Err(_) => return } }
    offs.push(file.len());
    let ch = cfg.ch as usize;
    if st.struct_cases < st.max_struct_cases {
        for line in encoder_struct_cases(file, 2, 2500) { st.struct_cases += 1; out.case(line); }
    }
    if st.enc_cases < st.max_struct_cases && file.len() < 60000 && pcm.len() <= 24000 {
        st.enc_cases += 1;
        out.case(enc_stream_case(file, pcm, cfg.json()));
    }
    for (k, f) in frames.iter().enumerate() {
        st.frames += 1;
        let n = u16::from(f.header.block_size) as usize;
        let size = offs[k + 1] - offs[k];
        let bound = bound_bytes(n, cfg.bps, ch);
        let an = assignment_name(&f.header.channel_assignment);
        *st.assignments.entry(an.into()).or_insert(0) += 1;
        // per-subframe bit counts through the structural writer
        let mut sub_bits: Vec<u64> = vec![];
        for (i, s) in f.subframes.iter().enumerate() {
            let side = match f.header.channel_assignment { ChannelAssignment::LeftSide | ChannelAssignment::MidSide => i == 1, ChannelAssignment::SideRight => i == 0, _ => false };
            let mut w: BitsWritten<u64> = BitsWritten::new();
            let ok = match s {
                SubframeWidth::Common(s) => { let d: bitstream_io::SignedBitCount<32> = (cfg.bps + side as u32).try_into().unwrap(); w.build_using(s, d).is_ok() }
                SubframeWidth::Wide(s) => { let d: bitstream_io::SignedBitCount<33> = 33u32.try_into().unwrap(); w.build_using(s, d).is_ok() }
            };
            if ok { sub_bits.push(w.written()); }
            st.subframes += 1;
            if matches!(s, SubframeWidth::Common(flac_codec::stream::Subframe::Verbatim { .. })) { st.verbatim_subframes += 1; }
        }
        let ratio = size * 1000 / bound.max(1);
        st.worst_ratio_permille = st.worst_ratio_permille.max(ratio);
        if size > bound {
            out.viol("frame-larger-than-verbatim-bound", &format!("frame {} ({} samples x {} ch at {} bps, {}) is {} bytes, bound {} ({}; subframe bits {:?})", k, n, ch, cfg.bps, an, size, bound, kind, sub_bits), &input);
        }
        // per-subframe bound: 8 + n * (depth) bits
        for (i, b) in sub_bits.iter().enumerate() {
            let side = match f.header.channel_assignment { ChannelAssignment::LeftSide | ChannelAssignment::MidSide => i == 1, ChannelAssignment::SideRight => i == 0, _ => false };
            let lim = 8 + n as u64 * (cfg.bps + side as u32) as u64;
            if *b > lim { out.viol("subframe-larger-than-verbatim", &format!("subframe {} of frame {} takes {} bits, verbatim at its depth would take {} ({}, {})", i, k, b, lim, kind, an), &input); }
        }
        if constant {
            st.const_frames += 1;
            st.worst_const = st.worst_const.max(size);
            if size > const_bound_bytes(ch) {
                out.viol("constant-block-too-large", &format!("a block of {} constant samples x {} ch at {} bps costs {} bytes (bound {}); subframe bits {:?}", n, ch, cfg.bps, size, const_bound_bytes(ch), sub_bits), &input);
            }
        }
        if st.cases < st.max_cases {
            st.cases += 1;
            out.case(obj(&[("t", esc("case")), ("kind", esc("enc_size")), ("profile", esc(profile())), ("ch", ch.to_string()), ("bps", cfg.bps.to_string()), ("block", n.to_string()), ("frame_bytes", size.to_string()), ("assignment", esc(an)), ("subframe_bits", ints(&sub_bits)), ("constant", constant.to_string()), ("pcm_kind", esc(kind))]));
        }
    }
}

fn main() {
    hook_panics();
    let seed = env_seed();
    let thorough = env_tier_thorough();
    let mut out = Out::new();
    let mut rng = Rng::new(seed, 0xC19);
    let known = probe_known();
    clear_panic_loc();
    let mut st = St { files: 0, frames: 0, const_frames: 0, worst_ratio_permille: 0, worst_const: 0, assignments: Default::default(), cases: 0, max_cases: scale(if thorough { 4000 } else { 500 }), verbatim_subframes: 0, subframes: 0, skipped_known: 0, struct_cases: 0, enc_cases: 0, max_struct_cases: scale(if thorough { 3000 } else { 400 }) };
    // adversarial shapes: full-scale white noise, alternating extremes, Rice mis-estimate
    // (tiny values with rare full-scale outliers), steps, i32::MIN-adjacent values
    let adversarial = ["noise", "fullscale", "extremes", "outliers", "sparse", "steps", "min_adjacent", "impulse", "alt_small", "stereo_opposite", "wasted"];
    let n_adv = scale(if thorough { 20000 } else { 600 });
    for i in 0..n_adv {
        let mut cfg = random_cfg(&mut rng, &known);
        cfg.declare_total = true;
        if cfg.hits_known_writer_defect(&known) { st.skipped_known += 1; continue; }
        if i % 3 == 0 { cfg.bps = 32; }
        if i % 5 == 0 { cfg.ch = 2; }
        cfg.bs = match rng.below(5) { 0 => *rng.pick(&[16u16, 17, 31, 64]), 1 => *rng.pick(&[192u16, 256, 576, 1152]), 2 => if thorough { *rng.pick(&[4096u16, 4608, 65535]) } else { 4096 }, _ => rng.range(16, 600) as u16 };
        let kind = adversarial[i % adversarial.len()];
        let budget = (if thorough { 140000 } else { 20000 }) / cfg.ch as usize;
        let n = match rng.below(3) { 0 => (cfg.bs as usize).min(budget), 1 => rng.range(1, (cfg.bs as usize).min(budget) as i64) as usize, _ => ((cfg.bs as usize) * 2 + rng.range(0, 20) as usize).min(budget) };
        let pcm = gen_pcm_ext(&mut rng, kind, cfg.ch as usize, cfg.bps, n.max(1));
        if let Ok(file) = encode_to_vec(Writer::Samples, &cfg, &pcm, &[pcm.len()]) { judge(&mut out, &mut st, &cfg, kind, &pcm, &file, false); }
    }
    // hand-made Rice mis-estimate shapes: a partition whose mean suggests a small parameter but
    // which holds one huge residual; growing ramps; values that overflow FIXED differences
    for bps in [8u32, 16, 24, 32] {
        for ch in [1u8, 2] {
            for shape in 0..6 {
                for n in [16usize, 64, 4096] {
                    let max = ((1i64 << (bps - 1)) - 1) as i32;
                    let min = (-(1i64 << (bps - 1))) as i32;
                    let mut pcm = vec![0i32; n * ch as usize];
                    for i in 0..n {
                        for c in 0..ch as usize {
                            pcm[i * ch as usize + c] = match shape {
                                0 => if i == n / 2 { max } else { 0 },
                                1 => if i % 16 == 15 { if c == 0 { max } else { min } } else { (i % 3) as i32 - 1 },
                                2 => if i % 2 == 0 { max } else { min },
                                3 => if i < n / 2 { max } else { min },
                                4 => if (i / 4) % 2 == 0 { max - (i % 4) as i32 } else { min + (i % 4) as i32 },
                                _ => ((i as i64 * i as i64 * 7919) % (max as i64 - min as i64 + 1) + min as i64) as i32,
                            };
                        }
                    }
                    for (lpc, po, ms, fast) in [(None, 0u32, true, false), (Some(8u8), 5, true, true), (Some(31), 6, false, false)] {
                        let cfg = Cfg { bps, ch, bs: n.max(16) as u16, lpc, po, mid_side: ms, fast, ..Cfg::default() };
                        if let Ok(file) = encode_to_vec(Writer::Samples, &cfg, &pcm, &[pcm.len()]) { judge(&mut out, &mut st, &cfg, &format!("shape{}", shape), &pcm, &file, false); }
                    }
                }
            }
        }
    }
    // constant blocks of any length
    let n_const = scale(if thorough { 12000 } else { 500 });
    for i in 0..n_const {
        let mut cfg = random_cfg(&mut rng, &known);
        if cfg.hits_known_writer_defect(&known) { st.skipped_known += 1; continue; }
        cfg.bs = match i % 6 { 0 => 16, 1 => 4096, 2 => 65535, 3 => rng.range(16, 300) as u16, 4 => *rng.pick(&BS_COMMON[..10]), _ => rng.range(16, 65535) as u16 };
        if !thorough && cfg.bs > 8192 && i % 12 != 2 { cfg.bs = 4608; }
        cfg.declare_total = true;
        let n = if rng.chance(1, 3) { rng.range(1, cfg.bs as i64) as usize } else { cfg.bs as usize };
        let max: i64 = (1i64 << (cfg.bps - 1)) - 1;
        let min: i64 = -(1i64 << (cfg.bps - 1));
        let vals: Vec<i32> = (0..cfg.ch).map(|_| match rng.below(6) { 0 => 0, 1 => max as i32, 2 => min as i32, 3 => 1.min(max) as i32, 4 => ((rng.range(min, max) >> 3) << 3) as i32, _ => rng.range(min, max) as i32 }).collect();
        let mut pcm = Vec::with_capacity(n * cfg.ch as usize);
        for _ in 0..n { pcm.extend_from_slice(&vals); }
        if let Ok(file) = encode_to_vec(Writer::Samples, &cfg, &pcm, &[pcm.len()]) { judge(&mut out, &mut st, &cfg, "constant", &pcm, &file, true); }
    }
    let m = |m: &BTreeMap<String, usize>| format!("{{{}}}", m.iter().map(|(k, v)| format!("{}:{}", esc(k), v)).collect::<Vec<_>>().join(","));
    println!(
        "{}",
        obj(&[
            ("t", esc("stat")), ("profile", esc(profile())), ("files", st.files.to_string()), ("frames", st.frames.to_string()), ("constant_frames", st.const_frames.to_string()),
            ("worst_size_over_bound_permille", st.worst_ratio_permille.to_string()), ("largest_constant_frame_bytes", st.worst_const.to_string()), ("assignments", m(&st.assignments)),
            ("subframes", st.subframes.to_string()), ("verbatim_subframes", st.verbatim_subframes.to_string()), ("skipped_known_writer_defects", st.skipped_known.to_string()),
            ("bound", esc("16 + ceil((ch*(8 + n*bps) + [ch==2]*n)/8) + 2 bytes; constant blocks 18 + 16*ch bytes")), ("cases_emitted", out.cases.to_string()), ("viols", out.viols.to_string()), ("viol_keys", out.counts()),
        ])
    );
}
