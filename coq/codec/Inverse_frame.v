(* Codec/Inverse_frame.v — C17, parse -> write direction, header and frame level.
   frame_canonical: the three things the syntax tree does not record — the reserved header bit is 0,
   the frame/sample number is coded in its minimal length, the padding bits before the CRC-16 are 0. *)
From FlacCodec Require Import Parser_proofs Struct Write Wf Roundtrip_sub Roundtrip_hdr Roundtrip_frame Inverse Progress.
From FlacBase Require Import Crc.
Open Scope N_scope.

Definition header_canonical (s : bits) (h : header) : bool :=
  negb (hd true (skipn 31 s)) &&
  match number_bytes_used (skipn 32 s) with Some k => (k =? number_len (h_number h))%nat | None => false end &&
  (h_number h <=? MAX_FRAME_NUMBER).

Lemma code16_cases c : c < 16 -> c = 0 \/ c = 1 \/ c = 2 \/ c = 3 \/ c = 4 \/ c = 5 \/ c = 6 \/ c = 7 \/ c = 8 \/
  c = 9 \/ c = 10 \/ c = 11 \/ c = 12 \/ c = 13 \/ c = 14 \/ c = 15.
Proof. lia. Qed.

Local Opaque wr.

Theorem header_inv si s h r :
  parse_header_fields si s = Ok (h, r) -> header_canonical s h = true ->
  exists hb c8, write_header_fields h = Some hb /\ s = hb ++ wr 8 c8 ++ r.
Proof.
  unfold parse_header_fields, pbind. intros H Hcan.
  destruct (p_rd 15 s) as [[sync s1]| |] eqn:E0; try discriminate. apply inv_rd in E0.
  destruct (N.eqb_spec sync SYNC_CODE); cbn [p_guard] in H; [|discriminate]. unfold pret at 1 in H. subst sync.
  destruct s1 as [|variable s2]; [discriminate|]. cbn [p_bit] in H.
  destruct (p_rd 4 s2) as [[bs_code s3]| |] eqn:E1; try discriminate.
  unfold p_rd in E1. destruct (rd 4 s2) as [[x1 y1]|] eqn:R1; inversion E1; subst. apply rd_inv in R1. destruct R1 as [-> B1].
  destruct (negb (bs_code =? 0)) eqn:G1; cbn [p_guard] in H; [|discriminate]. unfold pret at 1 in H.
  destruct (p_rd 4 s3) as [[rate_code s4]| |] eqn:E2; try discriminate.
  unfold p_rd in E2. destruct (rd 4 s3) as [[x2 y2]|] eqn:R2; inversion E2; subst. apply rd_inv in R2. destruct R2 as [-> B2].
  destruct (negb ((rate_code =? 0) && _)) eqn:G2; cbn [p_guard] in H; [|discriminate]. unfold pret at 1 in H.
  destruct (negb (rate_code =? 15)) eqn:G3; cbn [p_guard] in H; [|discriminate]. unfold pret at 1 in H.
  destruct (p_rd 4 s4) as [[assign s5]| |] eqn:E3; try discriminate. apply inv_rd in E3. subst s4.
  destruct (assign <? 11); cbn [p_guard] in H; [|discriminate]. unfold pret at 1 in H.
  destruct (p_rd 3 s5) as [[bps_code s6]| |] eqn:E4; try discriminate. apply inv_rd in E4. subst s5.
  destruct (negb ((bps_code =? 0) && _)) eqn:G4; cbn [p_guard] in H; [|discriminate]. unfold pret at 1 in H.
  destruct (negb (bps_code =? 3)); cbn [p_guard] in H; [|discriminate]. unfold pret at 1 in H.
  destruct (p_rd 1 s6) as [[resv s7]| |] eqn:E5; try discriminate.
  unfold p_rd in E5. destruct (rd 1 s6) as [[x5 y5]|] eqn:R5; inversion E5; subst.
  destruct s6 as [|rb s6']; [discriminate|]. cbn in R5. inversion R5; subst. clear R5 E5.
  destruct (p_frame_number s7) as [[number s8]| |] eqn:E6; try discriminate.
  (* canonical facts *)
  unfold header_canonical in Hcan.
  change (2 ^ N.of_nat 4) with 16 in *.
  assert (Sk31 : skipn 31 (wr 15 SYNC_CODE ++ variable :: wr 4 bs_code ++ wr 4 rate_code ++ wr 4 assign ++ wr 3 bps_code ++ rb :: s7) = rb :: s7).
  { replace (wr 15 SYNC_CODE ++ variable :: wr 4 bs_code ++ wr 4 rate_code ++ wr 4 assign ++ wr 3 bps_code ++ rb :: s7)
      with ((wr 15 SYNC_CODE ++ [variable] ++ wr 4 bs_code ++ wr 4 rate_code ++ wr 4 assign ++ wr 3 bps_code) ++ rb :: s7)
      by (rewrite <- !app_assoc; reflexivity).
    apply skipn_app_exact. rewrite !app_length, !wr_length. reflexivity. }
  assert (Sk32 : skipn 32 (wr 15 SYNC_CODE ++ variable :: wr 4 bs_code ++ wr 4 rate_code ++ wr 4 assign ++ wr 3 bps_code ++ rb :: s7) = s7).
  { replace (wr 15 SYNC_CODE ++ variable :: wr 4 bs_code ++ wr 4 rate_code ++ wr 4 assign ++ wr 3 bps_code ++ rb :: s7)
      with ((wr 15 SYNC_CODE ++ [variable] ++ wr 4 bs_code ++ wr 4 rate_code ++ wr 4 assign ++ wr 3 bps_code ++ [rb]) ++ s7)
      by (rewrite <- !app_assoc; reflexivity).
    apply skipn_app_exact. rewrite !app_length, !wr_length. reflexivity. }
  (* continue the parse *)
  match type of H with match ?x with _ => _ end = _ => destruct x as [[bs s9]| |] eqn:E7 end; try discriminate.
  match type of H with match ?x with _ => _ end = _ => destruct x as [[rate s10]| |] eqn:E8 end; try discriminate.
  destruct (p_rd 8 s10) as [[c8 s11]| |] eqn:E9; try discriminate. apply inv_rd in E9. subst s10.
  unfold pret in H. inversion H; subst h r. clear H.
  cbn [h_number] in Hcan. rewrite Sk31, Sk32 in Hcan. cbn [hd] in Hcan.
  apply andb_prop in Hcan. destruct Hcan as [Hcan Hmax]. apply andb_prop in Hcan. destruct Hcan as [Hrb Hmin].
  apply N.leb_le in Hmax. destruct rb; [discriminate|].
  destruct (number_bytes_used s7) as [k|] eqn:Enb; [|discriminate]. apply Nat.eqb_eq in Hmin. subst k.
  destruct (frame_number_inv _ _ _ E6 Enb Hmax) as (nb & Hnb & ->).
  unfold write_header_fields. cbn [h_number h_variable h_bs_code h_rate_code h_assign h_bps_code h_bs h_rate]. rewrite Hnb.
  (* block size extra field *)
  assert (Ebs : s8 = (if bs_code =? 6 then wr 8 (bs - 1) else if bs_code =? 7 then wr 16 (bs - 1) else []) ++ s9).
  { destruct (bs_of_code bs_code) as [v|] eqn:Eb.
    - unfold pret in E7. inversion E7; subst.
      destruct (N.eqb_spec bs_code 6) as [->|]; [discriminate|]. destruct (N.eqb_spec bs_code 7) as [->|]; [discriminate|]. reflexivity.
    - destruct (N.eqb_spec bs_code 6).
      + unfold pbind in E7. destruct (p_rd 8 s8) as [[v s']| |] eqn:Ev; try discriminate. apply inv_rd in Ev.
        unfold pret in E7. inversion E7; subst. replace (v + 1 - 1) with v by lia. reflexivity.
      + unfold pbind in E7. destruct (p_rd 16 s8) as [[v s']| |] eqn:Ev; try discriminate. apply inv_rd in Ev.
        destruct (negb (v =? 65535)); cbn [p_guard] in E7; [|discriminate]. unfold pret in E7. inversion E7; subst.
        assert (bs_code = 7).
        { destruct (code16_cases bs_code B1) as [->|[->|[->|[->|[->|[->|[->|[->|[->|[->|[->|[->|[->|[->|[->| ->]]]]]]]]]]]]]]];
            try discriminate; try reflexivity; congruence. }
        subst bs_code. cbn [N.eqb Pos.eqb]. replace (v + 1 - 1) with v by lia. reflexivity. }
  assert (Erate : s9 = (if rate_code =? 12 then wr 8 (rate / 1000) else if rate_code =? 13 then wr 16 rate
                        else if rate_code =? 14 then wr 16 (rate / 10) else []) ++ wr 8 c8 ++ s11).
  { destruct (rate_of_code rate_code) as [v|] eqn:Er.
    - unfold pret in E8. inversion E8; subst.
      destruct (N.eqb_spec rate_code 12) as [->|]; [discriminate|]. destruct (N.eqb_spec rate_code 13) as [->|]; [discriminate|].
      destruct (N.eqb_spec rate_code 14) as [->|]; [discriminate|]. reflexivity.
    - destruct (N.eqb_spec rate_code 0) as [->|N0].
      + unfold pret in E8. inversion E8; subst. reflexivity.
      + destruct (N.eqb_spec rate_code 12).
        * unfold pbind in E8. destruct (p_rd 8 s9) as [[v s']| |] eqn:Ev; try discriminate. apply inv_rd in Ev.
          unfold pret in E8. inversion E8; subst. rewrite N.div_mul by discriminate. reflexivity.
        * destruct (N.eqb_spec rate_code 13).
          { apply inv_rd in E8. exact E8. }
          unfold pbind in E8. destruct (p_rd 16 s9) as [[v s']| |] eqn:Ev; try discriminate. apply inv_rd in Ev.
          unfold pret in E8. inversion E8; subst. 
          assert (rate_code = 14).
          { apply negb_true_iff in G3. apply N.eqb_neq in G3.
            destruct (code16_cases rate_code B2) as [->|[->|[->|[->|[->|[->|[->|[->|[->|[->|[->|[->|[->|[->|[->| ->]]]]]]]]]]]]]]];
              try discriminate; try reflexivity; congruence. }
          subst rate_code. cbn [N.eqb Pos.eqb]. rewrite N.div_mul by discriminate. reflexivity. }
  eexists. exists c8. split; [reflexivity|].
  rewrite Ebs, Erate. repeat (rewrite <- app_assoc || rewrite <- app_comm_cons). reflexivity.
Qed.

(* ---- subframes, padding, whole frame ---- *)
Lemma struct_subframes_inv h : forall n i s subs r, struct_subframes h i n s = Ok (subs, r) ->
  s = write_subframes (h_assign h) (h_bps h) i subs ++ r /\ length subs = n.
Proof.
  induction n as [|n IH]; intros i s subs r H; cbn [struct_subframes] in H.
  - unfold pret in H. inversion H; subst. auto.
  - unfold pbind in H.
    destruct (struct_subframe _ _ s) as [[sf s1]| |] eqn:E1; try discriminate.
    destruct (struct_subframes h (S i) n s1) as [[rest s2]| |] eqn:E2; try discriminate.
    unfold pret in H. inversion H; subst.
    apply struct_subframe_inv in E1. apply IH in E2. destruct E2 as [-> L]. subst s.
    cbn [write_subframes length]. rewrite <- app_assoc. auto.
Qed.

(* the executable side condition of C17: what the tree does not record is in canonical form *)
Definition frame_canonical (si : option streaminfo) (bytes : list N) : bool :=
  let s0 := bits_of_bytes bytes in
  match parse_header_fields si s0 with
  | Ok (h0, s1) =>
      header_canonical s0 h0 &&
      match struct_subframes h0 0 (N.to_nat (assign_channels (h_assign h0))) s1 with
      | Ok (_, s2) => forallb negb (firstn (length s2 mod 8) s2)
      | _ => false
      end
  | _ => false
  end.

Lemma all_false_repeat l : forallb negb l = true -> l = repeat false (length l).
Proof. induction l as [|b l IH]; cbn; auto. destruct b; cbn; [discriminate|]. intros H. f_equal. auto. Qed.

Lemma bits_split_bytes bytes c r k : bits_of_bytes bytes = c ++ r -> length c = (8 * k)%nat ->
  c = bits_of_bytes (firstn k bytes) /\ r = bits_of_bytes (skipn k bytes).
Proof.
  intros E L.
  assert (Hk : (k <= length bytes)%nat).
  { apply (f_equal (@length bool)) in E. rewrite bits_of_bytes_length, app_length in E. lia. }
  rewrite <- (firstn_skipn k bytes) in E at 1. rewrite bits_of_bytes_app in E.
  assert (L2 : length (bits_of_bytes (firstn k bytes)) = length c).
  { rewrite bits_of_bytes_length, firstn_length. lia. }
  clear - E L2. revert c E L2. generalize (bits_of_bytes (firstn k bytes)) as a.
  induction a as [|x a IH]; intros [|y c] E L2; cbn in *; try discriminate; auto.
  injection E as -> E. injection L2 as L2. destruct (IH c E L2) as [-> ->]. auto.
Qed.

Lemma firstn_app_ge' {A} (a b : list A) k : (length a <= k)%nat -> firstn k (a ++ b) = a ++ firstn (k - length a) b.
Proof. intros H. rewrite firstn_app, firstn_all2 by lia. reflexivity. Qed.

Lemma header_checks_id i h h' : header_checks i h = Ok h' -> h' = h.
Proof. unfold header_checks. repeat match goal with |- context [if ?c then _ else _] => destruct c; try discriminate end. intros H. inversion H. reflexivity. Qed.

Theorem frame_inv si bytes f rest :
  Forall byte bytes -> struct_frame si bytes = Ok (f, rest) -> frame_canonical si bytes = true ->
  exists b, write_frame f = Some b /\ bytes = b ++ rest.
Proof.
  intros Hbytes H Hcan. unfold struct_frame in H. unfold frame_canonical in Hcan. cbv zeta in Hcan.
  pose proof (bits_of_bytes_length bytes) as L0. set (s0 := bits_of_bytes bytes) in *.
  destruct (parse_header_fields si s0) as [[h0 s1]| |] eqn:Eh; try discriminate.
  apply andb_prop in Hcan. destruct Hcan as [Hhc Hpad].
  destruct (header_inv si s0 h0 s1 Eh Hhc) as (hb & c8 & Ewh & Es0).
  pose proof (consuming_header si _ _ _ Eh) as Sh. apply suffix_length in Sh.
  destruct (match si with Some i => header_checks i h0 | None => Ok h0 end) as [h| |] eqn:Eck; try discriminate.
  assert (h = h0). { destruct si as [i|]; [eapply header_checks_id; eauto|inversion Eck; reflexivity]. } subst h.
  cbn [bind] in H.
  destruct (negb (crc8 (firstn (consumed_bytes bytes s1) bytes) =? 0)) eqn:Ec8; [discriminate|].
  apply negb_false_iff, N.eqb_eq in Ec8.
  unfold pbind in H.
  destruct (struct_subframes h0 0 _ s1) as [[subs s2]| |] eqn:Esub; try discriminate.
  apply struct_subframes_inv in Esub. destruct Esub as [Es1 Lsubs].
  unfold p_align in H.
  set (pad := (length s2 mod 8)%nat) in *.
  destruct (p_rd 16 (skipn pad s2)) as [[v16 s4]| |] eqn:E16; try discriminate.
  unfold p_rd in E16. destruct (rd 16 (skipn pad s2)) as [[x y]|] eqn:R16; inversion E16; subst x y. clear E16.
  pose proof (rd_consumes _ _ _ _ R16) as L16. rewrite skipn_length in L16.
  apply rd_inv in R16. destruct R16 as [Es3 Hv16].
  unfold pret in H.
  destruct (crc16 (firstn (consumed_bytes bytes s4) bytes) =? 0) eqn:Ec16; [|discriminate].
  apply N.eqb_eq in Ec16. inversion H; subst f rest. clear H.
  (* the bit string, piece by piece *)
  apply all_false_repeat in Hpad. rewrite firstn_length in Hpad.
  assert (Hpadle : (pad <= length s2)%nat) by (unfold pad; apply Nat.mod_le; lia).
  replace (Nat.min pad (length s2)) with pad in Hpad by lia.
  assert (Es2 : s2 = repeat false pad ++ wr 16 v16 ++ s4).
  { rewrite <- (firstn_skipn pad s2) at 1. rewrite Hpad, Es3. reflexivity. }
  (* header bytes *)
  pose proof (header_bits_aligned _ _ Ewh) as Hal. pose proof (mod8_div8 _ Hal) as Hhb8.
  set (W := write_subframes (h_assign h0) (h_bps h0) 0 subs) in *.
  assert (Lhb : length (hb ++ wr 8 c8) = (8 * (length hb / 8 + 1))%nat) by (rewrite app_length, wr_length; lia).
  assert (Es0' : s0 = (hb ++ wr 8 c8) ++ s1) by (rewrite Es0, <- app_assoc; reflexivity).
  destruct (bits_split_bytes bytes _ _ _ Es0' Lhb) as [Ehdr Es1b].
  (* consumed byte counts *)
  assert (Lsum : (8 * (length hb / 8 + 1) + length s1 = 8 * length bytes)%nat).
  { apply (f_equal (@length bool)) in Es0'. rewrite app_length, Lhb in Es0'. lia. }
  assert (Ecb1 : consumed_bytes bytes s1 = (length hb / 8 + 1)%nat).
  { unfold consumed_bytes.
    replace (length s1) with ((length bytes - (length hb / 8 + 1)) * 8)%nat by lia.
    rewrite Nat.div_mul by lia. lia. }
  rewrite Ecb1 in Ec8.
  (* the header CRC *)
  destruct (bits_of_bytes_of_bits (length hb / 8) hb ltac:(lia)) as (Hb1 & Hb2 & Hb3).
  set (hbytes := bytes_of_bits (length hb / 8) hb) in *.
  assert (Hfirst : firstn (length hb / 8 + 1) bytes = hbytes ++ [c8 mod 256]).
  { assert (Fb : Forall (fun b => b < 256) (firstn (length hb / 8 + 1) bytes)).
    { rewrite <- (firstn_skipn (length hb / 8 + 1) bytes) in Hbytes. apply Forall_app in Hbytes. tauto. }
    rewrite <- (bytes_of_bits_of_bytes _ Fb (length hb / 8 + 1)) by (rewrite firstn_length; lia).
    rewrite <- Ehdr.
    (* bytes_of_bits over hb ++ wr 8 c8 *)
    clear - Hb1 Hb3 Hhb8. fold hbytes. 
    assert (G : forall k s t, length s = (8 * k)%nat -> bytes_of_bits (k + 1) (s ++ wr 8 t) = bytes_of_bits k s ++ [t mod 256]).
    { induction k as [|k IH]; intros s t Ls.
      - destruct s; [|discriminate]. cbn [app Nat.add bytes_of_bits]. 
        pose proof (rd_acc_wr 8 0 t []) as R. rewrite app_nil_r in R. unfold rd. rewrite R. cbn [bytes_of_bits]. 
        change (2 ^ N.of_nat 8) with 256. rewrite N.mul_0_l, N.add_0_l. reflexivity.
      - do 8 (destruct s as [|? s]; [cbn in Ls; lia|]).
        destruct (rd8_wr8 b b0 b1 b2 b3 b4 b5 b6 (s ++ wr 8 t)) as (v & Hr & _ & _).
        destruct (rd8_wr8 b b0 b1 b2 b3 b4 b5 b6 s) as (v' & Hr' & _ & _).
        assert (v = v').
        { clear - Hr Hr'. unfold rd in *. cbn in Hr, Hr'. congruence. }
        subst v'. cbn [Nat.add app bytes_of_bits]. rewrite Hr, Hr'. cbn [app]. f_equal. apply IH. cbn in Ls. lia. }
    apply G. lia. }
  rewrite Hfirst in Ec8.
  assert (Hc8 : c8 mod 256 = crc8 hbytes).
  { apply crc8_unique; auto. apply N.mod_upper_bound. discriminate. }
  (* the body: subframes, zero padding *)
  assert (Lpadz : pad = ((8 - length W mod 8) mod 8)%nat).
  { assert (Ls1' : length s1 = (length W + length s2)%nat) by (rewrite Es1, app_length; reflexivity).
    unfold pad.
    pose proof (Nat.div_mod (length W) 8 ltac:(lia)) as DW. pose proof (Nat.mod_upper_bound (length W) 8 ltac:(lia)) as MW.
    pose proof (Nat.div_mod (length s2) 8 ltac:(lia)) as D2. pose proof (Nat.mod_upper_bound (length s2) 8 ltac:(lia)) as M2.
    remember (length W mod 8)%nat as mw. remember (length s2 mod 8)%nat as m2.
    remember (length W / 8)%nat as qw. remember (length s2 / 8)%nat as q2.
    assert (Hsum : ((mw + m2) = 0 \/ (mw + m2) = 8)%nat) by lia.
    destruct Hsum as [Z|Z].
    - assert (mw = 0%nat) by lia. assert (m2 = 0%nat) by lia. subst mw m2. rewrite H, H0. reflexivity.
    - assert (m2 = (8 - mw)%nat) by lia. rewrite H. symmetry. apply Nat.mod_small. lia. }
  set (body := pad_to_byte W).
  assert (Es1' : s1 = body ++ wr 16 v16 ++ s4).
  { unfold body, pad_to_byte. rewrite <- Lpadz. rewrite Es1, Es2. rewrite <- !app_assoc. reflexivity. }
  pose proof (pad_to_byte_length W) as Lbody8. fold body in Lbody8. pose proof (mod8_div8 _ Lbody8) as Lbody.
  set (tailb := skipn (length hb / 8 + 1) bytes) in *.
  assert (Ftail : Forall (fun b => b < 256) tailb).
  { rewrite <- (firstn_skipn (length hb / 8 + 1) bytes) in Hbytes. apply Forall_app in Hbytes. tauto. }
  destruct (bits_split_bytes tailb body (wr 16 v16 ++ s4) (length body / 8)) as [Eb1 Eb2]; [rewrite <- Es1b; exact Es1'|lia|].
  set (tail2 := skipn (length body / 8) tailb) in *.
  destruct (bits_split_bytes tail2 (wr 16 v16) s4 2) as [Ec1 Ec2]; [symmetry; exact Eb2|rewrite wr_length; reflexivity|].
  (* consumed bytes of the whole frame *)
  set (n := (length hb / 8 + 1 + length body / 8 + 2)%nat).
  assert (Ls4 : (8 * n + length s4 = 8 * length bytes)%nat).
  { apply (f_equal (@length bool)) in Es1'. rewrite !app_length, wr_length in Es1'. unfold n. lia. }
  assert (Ecb4 : consumed_bytes bytes s4 = n).
  { unfold consumed_bytes. replace (length s4) with ((length bytes - n) * 8)%nat by lia. rewrite Nat.div_mul by lia. lia. }
  rewrite Ecb4 in *.
  (* the bytes of the frame *)
  assert (Hn : firstn n bytes = (hbytes ++ [c8 mod 256]) ++ firstn (length body / 8) tailb ++ firstn 2 tail2).
  { unfold n. rewrite <- Hfirst.
    rewrite <- (firstn_skipn (length hb / 8 + 1) bytes) at 1.
    rewrite firstn_app_ge' by (rewrite firstn_length; lia).
    rewrite firstn_length. replace (Nat.min (length hb / 8 + 1) (length bytes)) with (length hb / 8 + 1)%nat by lia.
    f_equal. fold tailb.
    replace (length hb / 8 + 1 + length body / 8 + 2 - (length hb / 8 + 1))%nat with (length body / 8 + 2)%nat by lia.
    rewrite <- (firstn_skipn (length body / 8) tailb) at 1.
    assert (Ltb : (length body / 8 <= length tailb)%nat).
    { apply (f_equal (@length bool)) in Eb1. rewrite bits_of_bytes_length, firstn_length in Eb1. lia. }
    rewrite firstn_app_ge' by (rewrite firstn_length; lia).
    rewrite firstn_length. replace (Nat.min (length body / 8) (length tailb)) with (length body / 8)%nat by lia.
    f_equal. fold tail2. f_equal. lia. }
  assert (Ebb : firstn (length body / 8) tailb = bytes_of_bits (length body / 8) body).
  { assert (Fb : Forall (fun b => b < 256) (firstn (length body / 8) tailb)).
    { rewrite <- (firstn_skipn (length body / 8) tailb) in Ftail. apply Forall_app in Ftail. tauto. }
    transitivity (bytes_of_bits (length body / 8) (bits_of_bytes (firstn (length body / 8) tailb))).
    - symmetry. apply bytes_of_bits_of_bytes; [exact Fb|]. rewrite firstn_length. lia.
    - rewrite <- Eb1. reflexivity. }
  assert (F2 : Forall (fun b => b < 256) (firstn 2 tail2)).
  { assert (Ft2 : Forall (fun b => b < 256) tail2).
    { unfold tail2. rewrite <- (firstn_skipn (length body / 8) tailb) in Ftail. apply Forall_app in Ftail. tauto. }
    rewrite <- (firstn_skipn 2 tail2) in Ft2. apply Forall_app in Ft2. tauto. }
  assert (L2 : length (firstn 2 tail2) = 2%nat).
  { apply (f_equal (@length bool)) in Ec1. rewrite wr_length, bits_of_bytes_length in Ec1. lia. }
  destruct (firstn 2 tail2) as [|hi [|lo [|]]] eqn:E2; try discriminate. clear L2.
  apply Forall_cons_iff in F2. destruct F2 as [Hhi F2']. apply Forall_cons_iff in F2'. destruct F2' as [Hlo _].
  set (all := (hbytes ++ [crc8 hbytes]) ++ bytes_of_bits (length body / 8) body).
  rewrite Hn, Hc8, Ebb in Ec16. rewrite app_assoc in Ec16. fold all in Ec16.
  destruct (bits_of_bytes_of_bits (length body / 8) body ltac:(lia)) as (_ & Bb2 & _).
  assert (Hall : Forall byte all).
  { unfold all. rewrite !Forall_app. repeat split; auto. constructor; [apply crc8_lt; auto|constructor]. }
  destruct (crc16_unique all hi lo Hall Hhi Hlo Ec16) as [-> ->].
  exists (all ++ [N.shiftr (crc16 all) 8; N.land (crc16 all) 255]). split.
  - unfold write_frame. cbn [f_hdr f_subs]. rewrite Ewh. cbv zeta. fold W. fold body. fold hbytes. fold all.
    reflexivity.
  - rewrite <- (firstn_skipn n bytes) at 1. f_equal.
    rewrite Hn, Hc8, Ebb. rewrite app_assoc. reflexivity.
Qed.
