(* E2E/SeekReadE2E.v — C06 on written files: the SEEKTABLE a FlacSampleWriter run writes, read as the readers area
   reads it (sample number, frame the byte offset leads to), is truthful in the readers area's sense; hence the
   abstract file of the written blocks with that table is a valid seekable file and every history of the
   FlacSampleReader model over it — seeks included — obeys the cursor contract over exactly the samples written:
   a seek to any sample in range lands there. *)
From Coq Require Import List NArith ZArith Lia.
From FlacBase Require Import Res.
From FlacCodec Require Ast Stream Header Wf Enc Enc_proofs Dec.
From FlacWriters Require Import Meta Params Params_proofs Finalize Writers.
From FlacReaders Require Readers Spec Ser RNum Seek Props_C06 Props_C07.
From FlacE2E Require Import Bridge E2E SampleE2E Success ReadBridge SeekE2E.
Import ListNotations.
Open Scope N_scope.

Module RS := FlacReaders.Spec.
Module R := FlacReaders.Readers.
Module EP := FlacCodec.Enc_proofs.
Module E := FlacCodec.Enc.

(* a written seek point and the readers area's view of it *)
Definition point_rel (blocks : list (list (list Z))) (wp : mpoint) (rp : R.seekpoint) : Prop :=
  match wp, rp with
  | Defined s b m, R.Defined o i =>
      o = s /\ exists pre blk post, blocks = pre ++ blk :: post /\ i = N.of_nat (length pre) /\
                                    s = EP.blocks_samples pre /\ m = E.block_len blk
  | Placeholder, R.Placeholder => True
  | _, _ => False
  end.

Lemma build_table blocks : forall pts,
  (forall s b m, In (Defined s b m) pts -> exists pre blk post, blocks = pre ++ blk :: post /\ s = EP.blocks_samples pre /\ m = E.block_len blk) ->
  exists table, Forall2 (point_rel blocks) pts table.
Proof.
  induction pts as [|x pts IH]; intros H; [exists []; constructor|].
  destruct IH as [table Ht]; [intros s b m Hin; apply (H s b m); right; exact Hin|].
  destruct x as [s b m|].
  - destruct (H s b m (or_introl eq_refl)) as (pre & blk & post & E1 & E2 & E3).
    exists (R.Defined s (N.of_nat (length pre)) :: table). constructor; [|exact Ht].
    cbn. split; [reflexivity|]. exists pre, blk, post. auto.
  - exists (R.Placeholder :: table). constructor; [exact I|exact Ht].
Qed.

Lemma Forall2_in_r {A B} (R0 : A -> B -> Prop) : forall l l' y, Forall2 R0 l l' -> In y l' -> exists x, In x l /\ R0 x y.
Proof.
  induction 1 as [|a b l l' Hab _ IH]; intros Hin; [contradiction|].
  destruct Hin as [<-|Hin]; [exists a; split; [left; reflexivity|exact Hab]|].
  destruct (IH Hin) as (x & Hx & Hr). exists x. split; [right; exact Hx|exact Hr].
Qed.

Lemma written_seekable_file : forall o L md5, (forall l, length (md5 l) = 16%nat) ->
  forall p rate bps wo ch total w chunks iv e rp,
  options_wf wo -> o_seektable_interval wo = Some iv ->
  sample_new p [] wo rate bps ch total = Ok w ->
  forallb (FlacCodec.Wf.fits bps) (concat chunks) = true ->
  let W := N.of_nat (length (concat chunks)) / ch in
  let written := firstn (N.to_nat ch * (length (concat chunks) / N.to_nat ch)) (concat chunks) in
  1 <= W -> N.of_nat (length (concat chunks)) < 2 ^ 36 ->
  match total with Some T => T = ch * W | None => True end ->
  exists f blocks,
    sample_run (encB o L rate bps) md5 p w chunks = Ok f /\
    forall pts, first_seektable (f_blocks f) = Some pts ->
    exists table, Forall2 (point_rel blocks) pts table /\
      let F := file_of_blocks_seek blocks ch bps (Some (EP.blocks_samples blocks)) table e rp in
      RS.valid_file F /\ RS.pcm F = written.
Proof.
  intros o L md5 Hmd p rate bps wo ch total w chunks iv e rp Hwf Hiv Hnew Hfit W written HW Hlen Htot.
  destruct (sample_writer_seekpoints_full o L md5 Hmd p rate bps wo ch total w chunks iv Hwf Hiv Hnew Hfit HW Hlen Htot)
    as (f & blocks & audio & Hrun & _ & Hcat & (Hok & Hshape & Htotal & Hsc & Hlt) & Hseek).
  exists f, blocks. split; [exact Hrun|]. intros pts Hp.
  destruct (build_table blocks pts) as [table Htab].
  { intros s b m Hin. destruct (Hseek pts Hp s b m Hin) as (pre & blk & post & _ & _ & E1 & E2 & E3 & _). exists pre, blk, post. auto. }
  exists table. split; [exact Htab|]. cbv zeta.
  assert (Hb : 1 <= bps /\ bps <= 32).
  { pose proof Hnew as H. unfold sample_new in H. apply bind_ok in H. destruct H as (bps' & Hbp & _).
    unfold signed_bit_count_32 in Hbp. destruct ((1 <=? bps) && (bps <=? 32)) eqn:Eb; [|discriminate].
    apply andb_prop in Eb. destruct Eb as [B1 B2]. apply N.leb_le in B1, B2. auto. }
  assert (Hpos : 1 <= EP.blocks_samples blocks).
  { destruct blocks as [|b bl]; [|].
    - cbn [map concat] in Hcat. exfalso. fold written in Hcat.
      assert (Hl : length written = 0%nat) by (rewrite <- Hcat; reflexivity).
      assert (Hch0 : ch <> 0) by (intros ->; unfold W in HW; destruct (N.of_nat (length (concat chunks))); cbn in HW; lia).
      set (c := N.to_nat ch) in *. set (q := (length (concat chunks) / c)%nat) in *.
      assert (Hc : (1 <= c)%nat) by (unfold c; lia).
      assert (Hq : (1 <= q)%nat).
      { assert (E0 : N.of_nat q = W) by (unfold q, W, c; rewrite Nat2N.inj_div, N2Nat.id; reflexivity). lia. }
      assert (Hle : (c * q <= length (concat chunks))%nat) by (apply Nat.mul_div_le; lia).
      unfold written in Hl. rewrite firstn_length in Hl. fold c q in Hl. nia.
    - apply Forall_cons_iff in Hok. destruct Hok as [(Hchb & _ & _ & _ & _ & n & Hn1 & _ & _ & Hall) _].
      unfold EP.blocks_samples. cbn [fold_right].
      destruct b as [|c0 b']; [cbn in Hchb; lia|].
      apply Forall_cons_iff in Hall. destruct Hall as [[A _] _]. cbn [E.block_len]. lia. }
  rewrite <- Hsc.
  assert (Htruth : forall o0 i, In (R.Defined o0 i) table ->
            exists pre post, blocks = pre ++ post /\ i = N.of_nat (length pre) /\ o0 = EP.blocks_samples pre).
  { intros o0 i Hin. destruct (Forall2_in_r _ _ _ _ Htab Hin) as (x & _ & Hr).
    destruct x as [s b m|]; [|contradiction]. cbn in Hr. destruct Hr as (-> & pre & blk & post & E1 & E2 & E3 & _).
    exists pre, (blk :: post). auto. }
  pose proof (blocks_valid_file_seek (conv_si (f_si f)) bps blocks table e rp Hok Hshape Htotal Hpos (proj1 Hb) (proj2 Hb) Hlt Htruth) as Hvalid.
  set (F := file_of_blocks_seek blocks (FlacCodec.Ast.si_channels (conv_si (f_si f))) bps (Some (EP.blocks_samples blocks)) table e rp) in *.
  assert (Hpcm : RS.pcm F = written).
  { unfold F. rewrite (blocks_pcm_seek (conv_si (f_si f)) bps blocks _ _ _ e rp Hok). exact Hcat. }
  split; [exact Hvalid|exact Hpcm].
Qed.

Theorem written_file_seeks : forall o L md5, (forall l, length (md5 l) = 16%nat) ->
  forall p rate bps wo ch total w chunks iv e rp,
  options_wf wo -> o_seektable_interval wo = Some iv ->
  sample_new p [] wo rate bps ch total = Ok w ->
  forallb (FlacCodec.Wf.fits bps) (concat chunks) = true ->
  let W := N.of_nat (length (concat chunks)) / ch in
  let written := firstn (N.to_nat ch * (length (concat chunks) / N.to_nat ch)) (concat chunks) in
  1 <= W -> N.of_nat (length (concat chunks)) < 2 ^ 36 ->
  match total with Some T => T = ch * W | None => True end ->
  exists f blocks,
    sample_run (encB o L rate bps) md5 p w chunks = Ok f /\
    forall pts, first_seektable (f_blocks f) = Some pts ->
    exists table, Forall2 (point_rel blocks) pts table /\
      let F := file_of_blocks_seek blocks ch bps (Some (EP.blocks_samples blocks)) table e rp in
      RS.valid_file F /\ RS.pcm F = written /\
      forall ops, Forall RS.sop_ok (snd (FlacReaders.Seek.sample_run F ops)) ->
        let atr := map (RS.abs_s F) (snd (FlacReaders.Seek.sample_run F ops)) in
        Forall (RS.cur_ok written) atr /\ RS.chained 0 atr (RS.spos F (fst (FlacReaders.Seek.sample_run F ops))) /\
        RS.seeks_land written atr /\ RS.failed_seeks_safe written atr.
Proof.
  intros o L md5 Hmd p rate bps wo ch total w chunks iv e rp Hwf Hiv Hnew Hfit W written HW Hlen Htot.
  destruct (written_seekable_file o L md5 Hmd p rate bps wo ch total w chunks iv e rp Hwf Hiv Hnew Hfit HW Hlen Htot) as (f & blocks & Hrun & H).
  subst written.
  exists f, blocks. split; [exact Hrun|]. intros pts Hp. destruct (H pts Hp) as (table & Htab & Hvalid & Hpcm).
  exists table. split; [exact Htab|]. cbv zeta. split; [exact Hvalid|]. split; [exact Hpcm|].
  intros ops Hops. rewrite <- Hpcm. apply FlacReaders.Props_C06.C06_sample_reader; assumption.
Qed.

(* the byte reader (either byte order of the reader) and the channel reader over the same written, seekable file *)
Theorem written_file_seeks_bytes_channels : forall o L md5, (forall l, length (md5 l) = 16%nat) ->
  forall p rate bps wo ch total w chunks iv e rp,
  options_wf wo -> o_seektable_interval wo = Some iv ->
  sample_new p [] wo rate bps ch total = Ok w ->
  forallb (FlacCodec.Wf.fits bps) (concat chunks) = true ->
  let W := N.of_nat (length (concat chunks)) / ch in
  let written := firstn (N.to_nat ch * (length (concat chunks) / N.to_nat ch)) (concat chunks) in
  1 <= W -> N.of_nat (length (concat chunks)) < 2 ^ 36 ->
  match total with Some T => T = ch * W | None => True end ->
  exists f blocks,
    sample_run (encB o L rate bps) md5 p w chunks = Ok f /\
    forall pts, first_seektable (f_blocks f) = Some pts ->
    exists table, Forall2 (point_rel blocks) pts table /\
      let F := file_of_blocks_seek blocks ch bps (Some (EP.blocks_samples blocks)) table e rp in
      RS.pcm_bytes F = FlacReaders.Ser.ser e (FlacReaders.Ser.bytes_per_sample bps) written /\
      (forall ops, Forall RS.bop_ok (snd (FlacReaders.Seek.byte_run F ops)) ->
        let atr := map (RS.abs_b F) (snd (FlacReaders.Seek.byte_run F ops)) in
        Forall (RS.cur_ok (RS.pcm_bytes F)) atr /\ RS.chained 0 atr (RS.bpos F (fst (FlacReaders.Seek.byte_run F ops))) /\
        RS.seeks_land (RS.pcm_bytes F) atr /\ RS.failed_seeks_safe (RS.pcm_bytes F) atr) /\
      (forall ops c, (c < N.to_nat ch)%nat -> Forall RS.cop_ok (snd (FlacReaders.Seek.chan_run F ops)) ->
        let atr := map (RS.abs_c F c) (snd (FlacReaders.Seek.chan_run F ops)) in
        Forall (RS.cur_ok (RS.chan_pcm F c)) atr /\ RS.chained 0 atr (RS.cpos (fst (FlacReaders.Seek.chan_run F ops))) /\
        RS.seeks_land (RS.chan_pcm F c) atr /\ RS.failed_seeks_safe (RS.chan_pcm F c) atr) /\
      (forall c, (c < N.to_nat ch)%nat -> forall i, (i < length written / N.to_nat ch)%nat ->
        nth_error (RS.chan_pcm F c) i = nth_error written (i * N.to_nat ch + c)).
Proof.
  intros o L md5 Hmd p rate bps wo ch total w chunks iv e rp Hwf Hiv Hnew Hfit W written HW Hlen Htot.
  destruct (written_seekable_file o L md5 Hmd p rate bps wo ch total w chunks iv e rp Hwf Hiv Hnew Hfit HW Hlen Htot) as (f & blocks & Hrun & H).
  subst written.
  exists f, blocks. split; [exact Hrun|]. intros pts Hp. destruct (H pts Hp) as (table & Htab & Hvalid & Hpcm).
  exists table. split; [exact Htab|]. cbv zeta.
  set (F := file_of_blocks_seek blocks ch bps (Some (EP.blocks_samples blocks)) table e rp) in *.
  split; [rewrite FlacReaders.Props_C07.C07_bytes_vs_samples, Hpcm; reflexivity|].
  split; [intros ops Hops; apply FlacReaders.Props_C06.C06_byte_reader; assumption|].
  split; [intros ops c Hc Hops; apply FlacReaders.Props_C06.C06_channel_reader; assumption|].
  intros c Hc i Hi.
  destruct (FlacReaders.Props_C07.C07_channels_deinterleaved F c Hvalid Hc) as (_ & Hl & Hn).
  rewrite <- Hpcm in Hi |- *. apply Hn.
  (* i < total_frames: |pcm| = total_frames * channels *)
  unfold FlacReaders.RNum.lenN in Hl. cbn [file_of_blocks_seek R.f_channels F] in Hl.
  assert (Hch : (1 <= N.to_nat ch)%nat) by lia.
  assert (E : (length (RS.pcm F) / N.to_nat ch = N.to_nat (RS.total_frames F))%nat).
  { assert (E0 : length (RS.pcm F) = (N.to_nat (RS.total_frames F) * N.to_nat ch)%nat) by lia. rewrite E0. apply Nat.div_mul. lia. }
  lia.
Qed.
