(* Codec/Admissible.v — the admissible set is never empty: for every PCM block that fits the bit depth
   there is a well-formed, RFC-valid frame (all channels VERBATIM, independent assignment) that stands
   for exactly that block.  With C03 this is the "encoding can always succeed and decodes back" half
   of C01 on the model side; the real encoder's choice is tied to the admissible set at run time. *)
From FlacCodec Require Import Struct Write Wf Spec.
Open Scope N_scope.

Definition verbatim_frame (h : header) (chans : list (list Z)) : frame :=
  {| f_hdr := h; f_subs := map (fun c => {| sf_wasted := 0; sf_body := BVerb c |}) chans |}.

Lemma map_mul_pow0 xs : map (fun x => (x * 2 ^ Z.of_N 0)%Z) xs = xs.
Proof. rewrite <- (map_id xs) at 2. apply map_ext. intros. cbn. lia. Qed.

Lemma subframe_bps_indep a bps i : a <? 8 = true -> subframe_bps a bps i = bps.
Proof.
  intros Ha. apply N.ltb_lt in Ha. unfold subframe_bps.
  assert (a =? 8 = false) as -> by (apply N.eqb_neq; lia).
  assert (a =? 9 = false) as -> by (apply N.eqb_neq; lia).
  assert (a =? 10 = false) as -> by (apply N.eqb_neq; lia). reflexivity.
Qed.

Lemma sem_channels_indep' a chans : a <? 8 = true -> sem_channels a chans = chans.
Proof.
  intros Ha. apply N.ltb_lt in Ha. unfold sem_channels.
  assert (C : a = 0 \/ a = 1 \/ a = 2 \/ a = 3 \/ a = 4 \/ a = 5 \/ a = 6 \/ a = 7) by lia.
  destruct C as [->|[->|[->|[->|[->|[->|[->| ->]]]]]]]; reflexivity.
Qed.

Theorem verbatim_frame_admissible si h chans :
  wf_header si h = true ->
  match si with Some i => is_ok (header_checks i h) | None => true end = true ->
  h_assign h <? 8 = true -> 1 <= h_bps h -> h_bps h <= 32 ->
  length chans = N.to_nat (h_assign h + 1) ->
  Forall (fun c => length c = N.to_nat (h_bs h) /\ forallb (fits (h_bps h)) c = true) chans ->
  wf_frame si (verbatim_frame h chans) = true /\ spec_frame (verbatim_frame h chans) = true /\
  sem_frame (verbatim_frame h chans) = chans.
Proof.
  intros Hh Hck Ha Hb1 Hb32 Hlen Hch.
  assert (Esem : map (sem_subframe (h_bs h)) (map (fun c => {| sf_wasted := 0; sf_body := BVerb c |}) chans) = chans).
  { rewrite map_map. rewrite <- (map_id chans) at 2. apply map_ext. intros c. unfold sem_subframe. cbn [sf_wasted sf_body sem_body].
    apply map_mul_pow0. }
  assert (Hwf : forall i, wf_subframes h i (map (fun c => {| sf_wasted := 0; sf_body := BVerb c |}) chans) = true).
  { clear Hlen Esem. induction Hch as [|c l [Hc1 Hc2] _ IH]; intros i; cbn [map wf_subframes]; [reflexivity|].
    rewrite IH, subframe_bps_indep by exact Ha. unfold wf_subframe. cbn [sf_wasted sf_body wf_body].
    rewrite N.sub_0_r, Hc1, Nat.eqb_refl, Hc2.
    destruct (N.leb_spec 1 (h_bps h)); [|lia]. destruct (N.leb_spec 0 (h_bps h - 1)); [|lia]. reflexivity. }
  assert (Hsp : forall i, spec_subframes h i (map (fun c => {| sf_wasted := 0; sf_body := BVerb c |}) chans) = true).
  { clear Hlen Esem Hwf. induction Hch as [|c l [Hc1 Hc2] _ IH]; intros i; cbn [map spec_subframes]; [reflexivity|].
    rewrite IH, subframe_bps_indep by exact Ha. unfold spec_subframe. cbn [sf_wasted sf_body sem_body].
    rewrite N.sub_0_r, Hc2. reflexivity. }
  split; [|split].
  - unfold wf_frame, verbatim_frame. cbn [f_hdr f_subs]. rewrite Hh, Hwf, map_length, Hlen.
    unfold assign_channels. rewrite Ha, Nat.eqb_refl. cbn [andb]. exact Hck.
  - unfold spec_frame, verbatim_frame, sem_frame. cbn [f_hdr f_subs]. rewrite Hsp, Esem, sem_channels_indep' by exact Ha.
    assert (F : forallb (forallb (fits (h_bps h))) chans = true).
    { apply forallb_forall. intros c Hc. rewrite Forall_forall in Hch. apply (Hch c Hc). }
    rewrite F. destruct (N.leb_spec 1 (h_bps h)); [|lia]. destruct (N.leb_spec (h_bps h) 32); [|lia]. reflexivity.
  - unfold sem_frame, verbatim_frame. cbn [f_hdr f_subs]. rewrite Esem. apply sem_channels_indep'. exact Ha.
Qed.

(* ---- prediction is lossless by construction: for ANY predictor (coefficients, shift), the residual
   signal r[i] = x[i] - (sum_j c[j] * x[i-1-j]) >> shift stands for x exactly.  So every signal has a
   FIXED / LPC tree for every choice of predictor; only the range rules (wf, spec) restrict the choice. *)
Fixpoint resid (coeffs : list Z) (shift : Z) (done_rev todo : list Z) : list Z :=
  match todo with
  | [] => []
  | v :: rest => (v - dot done_rev coeffs / 2 ^ shift)%Z :: resid coeffs shift (v :: done_rev) rest
  end.

Theorem prediction_lossless coeffs shift : forall todo done_rev,
  predict_z coeffs shift done_rev (resid coeffs shift done_rev todo) = rev done_rev ++ todo.
Proof.
  induction todo as [|v rest IH]; intros done_rev; cbn [resid predict_z].
  - rewrite app_nil_r. reflexivity.
  - replace (v - dot done_rev coeffs / 2 ^ shift + dot done_rev coeffs / 2 ^ shift)%Z with v by lia.
    rewrite IH. cbn [rev]. rewrite <- app_assoc. reflexivity.
Qed.

Corollary lpc_body_stands_for_signal order warm rest prec shift coefs r :
  length warm = N.to_nat order ->
  residual_values r = resid coefs (Z.of_N shift) (rev warm) rest ->
  sem_body (N.of_nat (length (warm ++ rest))) (BLpc order warm prec shift coefs r) = warm ++ rest.
Proof. intros _ Hr. cbn [sem_body]. rewrite Hr, prediction_lossless, rev_involutive. reflexivity. Qed.
Corollary fixed_body_stands_for_signal order warm rest r :
  residual_values r = resid (fixed_coeffs order) 0 (rev warm) rest ->
  sem_body (N.of_nat (length (warm ++ rest))) (BFixed order warm r) = warm ++ rest.
Proof. intros Hr. cbn [sem_body]. rewrite Hr, prediction_lossless, rev_involutive. reflexivity. Qed.
