//! C11 harness — metadata blocks survive a write/read round trip and report their sizes.
//!
//! (1) values built through the public constructors at the extremes of every field:
//!     write_blocks -> read_blocks -> compare, `bytes()` of every block against the header
//!     size field and the bytes actually written;
//! (2) block lists that break the single-instance / STREAMINFO-first / size rules: must be
//!     refused with an error (not accepted, not a panic);
//! (3) accepted byte encodings (valid sections with reserved / ignored fields randomised):
//!     read -> write -> read must reproduce the block list;
//! (4) probes for value classes the types admit but the format cannot represent.
//!
//! Output: JSON lines; "case" lines carry the input and the implementation's canonical
//! observation for the diff against the Coq model (ocaml/metadata_driver.ml).
#[path = "metadata_inc/common.rs"]
mod common;
use common::*;

use flac_codec::metadata::contiguous::Contiguous;
use flac_codec::metadata::cuesheet::{Digit, ISRC, Index, IndexVec, LeadOut, LeadOutNonCDDA, TrackNonCDDA};
use flac_codec::metadata::{Application, Block, BlockSize, Cuesheet, Padding, PictureType, SeekPoint, SeekTable};
use std::collections::BTreeMap;
use std::num::NonZero;
use vharness::json::{esc, obj};
use vharness::*;

const MODEL_MAX_BYTES: usize = 1 << 16;

struct St {
    counts: BTreeMap<String, usize>,
    distinct: std::collections::BTreeSet<u64>,
    viol_keys: std::collections::BTreeSet<String>,
}
impl St {
    fn bump(&mut self, k: &str) {
        *self.counts.entry(k.to_string()).or_insert(0) += 1;
    }
    fn seen(&mut self, bytes: &[u8]) {
        let mut h: u64 = 0xcbf29ce484222325;
        for b in bytes {
            h ^= *b as u64;
            h = h.wrapping_mul(0x100000001b3);
        }
        self.distinct.insert(h);
    }
}

fn viol(st: &mut St, key: &str, desc: &str, extra: &[(&str, String)]) {
    // one line per key is enough for the report; count the rest
    st.bump(&format!("viol:{}", key));
    if !st.viol_keys.insert(key.to_string()) {
        return;
    }
    let mut f: Vec<(&str, String)> = vec![("t", esc("viol")), ("key", esc(key)), ("desc", esc(desc))];
    f.extend(extra.iter().cloned());
    println!("{}", obj(&f));
}

fn case(kind: &str, profile: &str, input: &str, obs: &str) {
    println!("{}", obj(&[("t", esc("case")), ("k", esc(kind)), ("p", esc(profile)), ("in", esc(input)), ("obs", esc(obs))]));
}

fn profile() -> &'static str {
    if cfg!(debug_assertions) { "D" } else { "R" }
}

/// write -> read -> compare, sizes; returns the bytes when written
fn check_value_list(st: &mut St, l: &[Block], origin: &str, emit: bool) -> Option<Vec<u8>> {
    let dump = dump_blocks(l);
    let w = run_write(l);
    st.bump(&format!("write:{}", w.class()));
    let sizes = sizes_s(l);
    let sz = match &sizes {
        Ok(s) => s.clone(),
        Err(_) => "panic".into(),
    };
    if emit && dump.len() <= 4 * MODEL_MAX_BYTES {
        // model: parse the dump into model values, write_blocks, sizes
        let obs = match &w {
            Out::Ok(b) => format!("ok:{} sz={}", hex(b), sz),
            Out::Err(_) => format!("err sz={}", sz),
            Out::Panic(_) => format!("panic sz={}", sz),
        };
        if obs.len() <= 4 * MODEL_MAX_BYTES {
            case("wl", profile(), &dump, &obs);
        }
    }
    if let Err(p) = &sizes {
        viol(st, "size-accessor-panic", &format!("MetadataBlock::bytes() panicked: {}", p), &[("blocks", esc(&dump)), ("origin", esc(origin))]);
    }
    match w {
        Out::Panic(p) => {
            let site = if p.contains("TryFromIntError") { "u8-try-from-unwrap" } else if p.contains("None") { "option-unwrap" } else { "other" };
            viol(
                st,
                &format!("writer-panic:{}", site),
                &format!("write_blocks panicked ({}) on a block list built through the public constructors", p),
                &[("blocks", esc(&dump)), ("origin", esc(origin))],
            );
            None
        }
        Out::Err(_) => None,
        Out::Ok(bytes) => {
            st.seen(&bytes);
            // (a) reader accepts and reproduces
            match run_read(&bytes) {
                Out::Ok(back) => {
                    if back != l {
                        viol(
                            st,
                            "write-read-mismatch",
                            "write_blocks succeeded but read_blocks returns a different block list",
                            &[("blocks", esc(&dump)), ("read_back", esc(&dump_blocks(&back))), ("file", esc(&hex(&bytes))), ("origin", esc(origin))],
                        );
                    }
                }
                other => {
                    viol(
                        st,
                        "written-not-readable",
                        &format!("write_blocks succeeded but read_blocks reports {}", other.tag()),
                        &[("blocks", esc(&dump)), ("file", esc(&hex(&bytes))), ("origin", esc(origin))],
                    );
                }
            }
            // (b) sizes: header size field = bytes() = length of the body written
            match walk_headers(&bytes) {
                Some(hs) if hs.len() == l.len() => {
                    for (i, (b, (_ty, size, off, _last))) in l.iter().zip(hs.iter()).enumerate() {
                        let reported = catch(|| block_bytes(b)).ok().flatten();
                        let next = if i + 1 < hs.len() { hs[i + 1].2 - 4 } else { bytes.len() };
                        let actual = next - off;
                        if reported != Some(*size as u32) || actual != *size {
                            viol(
                                st,
                                "size-mismatch",
                                &format!("block {} reports bytes()={:?}, header size field {}, body bytes written {}", i, reported, size, actual),
                                &[("blocks", esc(&dump)), ("file", esc(&hex(&bytes))), ("origin", esc(origin))],
                            );
                        }
                    }
                }
                _ => viol(
                    st,
                    "size-mismatch",
                    "header chain of the written section does not cover the bytes written",
                    &[("blocks", esc(&dump)), ("file", esc(&hex(&bytes))), ("origin", esc(origin))],
                ),
            }
            Some(bytes)
        }
    }
}

/// read -> write -> read on accepted encodings
fn check_encoding(st: &mut St, bytes: &[u8], origin: &str) {
    let r = run_read(bytes);
    st.bump(&format!("read:{}", r.class()));
    let mut obs = r.tag();
    if let Out::Ok(l) = &r {
        st.seen(bytes);
        let w = run_write(l);
        obs = format!("ok {} w={} sz={}", dump_blocks(l), match &w {
            Out::Ok(b) => format!("ok:{}", hex(b)),
            Out::Err(_) => "err".into(),
            Out::Panic(_) => "panic".into(),
        }, sizes_s(l).unwrap_or("panic".into()));
        match w {
            Out::Ok(b2) => match run_read(&b2) {
                Out::Ok(l2) if &l2 == l => {}
                other => viol(
                    st,
                    "read-write-read-mismatch",
                    &format!("an accepted encoding is re-written to bytes that read back as {}", match &other { Out::Ok(x) => dump_blocks(x), o => o.tag() }),
                    &[("file", esc(&hex(bytes))), ("blocks", esc(&dump_blocks(l))), ("rewritten", esc(&hex(&b2))), ("origin", esc(origin))],
                ),
            },
            other => viol(
                st,
                "accepted-encoding-not-writable",
                &format!("the reader accepts this section but write_blocks on the result gives {}", other.tag()),
                &[("file", esc(&hex(bytes))), ("blocks", esc(&dump_blocks(l))), ("origin", esc(origin))],
            ),
        }
    }
    if let Out::Panic(p) = &r {
        viol(st, "reader-panic", &format!("read_blocks panicked: {}", p), &[("file", esc(&hex(bytes))), ("origin", esc(origin))]);
    }
    if bytes.len() <= MODEL_MAX_BYTES {
        case("rd", profile(), &hex(bytes), &obs);
    }
}

/// positions of reserved / ignored bytes in a written section, per block type
fn randomise_reserved(rng: &mut Rng, bytes: &[u8]) -> Vec<u8> {
    let mut b = bytes.to_vec();
    let hs = match walk_headers(bytes) {
        Some(h) => h,
        None => return b,
    };
    for (ty, size, off, _) in hs {
        match ty {
            1 => {
                // padding content is skipped, not checked
                for k in 0..size {
                    if rng.chance(1, 3) {
                        b[off + k] = rng.next() as u8;
                    }
                }
            }
            3 => {
                // placeholder points: byte offset and frame samples are ignored
                for p in 0..size / 18 {
                    let o = off + p * 18;
                    if b[o..o + 8].iter().all(|x| *x == 0xff) {
                        for k in 8..18 {
                            b[o + k] = rng.next() as u8;
                        }
                    }
                }
            }
            5 => {
                // 7 reserved bits + 258 reserved bytes after the CD-DA flag
                let o = off + 128 + 8;
                b[o] = (b[o] & 0x80) | (rng.next() as u8 & 0x7f);
                for k in 1..259 {
                    if rng.chance(1, 8) {
                        b[o + k] = rng.next() as u8;
                    }
                }
                // tracks
                let ntracks = b[off + 395] as usize;
                let mut t = off + 396;
                for _ in 0..ntracks {
                    if t + 36 > off + size {
                        break;
                    }
                    // flags byte: 6 reserved bits, then 13 reserved bytes
                    b[t + 21] = (b[t + 21] & 0xc0) | (rng.next() as u8 & 0x3f);
                    for k in 22..35 {
                        if rng.chance(1, 4) {
                            b[t + k] = rng.next() as u8;
                        }
                    }
                    let ni = b[t + 35] as usize;
                    for j in 0..ni {
                        let io = t + 36 + j * 12;
                        if io + 12 > off + size {
                            break;
                        }
                        for k in 9..12 {
                            b[io + k] = rng.next() as u8;
                        }
                    }
                    t += 36 + ni * 12;
                }
            }
            _ => {}
        }
    }
    b
}

fn streaminfo_only(rng: &mut Rng) -> Block {
    Block::Streaminfo(gen_streaminfo(rng, true))
}

fn main() {
    quiet_panics();
    let seed = env_seed();
    let thorough = env_tier_thorough();
    let mut st = St { counts: BTreeMap::new(), distinct: Default::default(), viol_keys: Default::default() };
    let mut samples = 0;

    // ---------------------------------------------------------------- (1) value lists
    let mut rng = Rng::new(seed, 0xC11A);
    let n_lists = if thorough { 6000 } else { 700 };
    let mut written: Vec<Vec<u8>> = vec![];
    for i in 0..n_lists {
        let types: &[u8] = match i % 5 {
            0 => &[1, 2, 3],
            1 => &[1, 2, 3, 4, 6],
            _ => &[1, 2, 3, 4, 5, 6],
        };
        let l = gen_block_list(&mut rng, types, i % 7 == 0);
        for b in &l {
            st.bump(&format!("type:{}", &dump_block(b)[..3]));
        }
        if let Some(bytes) = check_value_list(&mut st, &l, "value-list", true) {
            if samples < 3 && bytes.len() < 600 {
                samples += 1;
                println!("{}", obj(&[("t", esc("sample")), ("blocks", esc(&dump_blocks(&l))), ("file", esc(&hex(&bytes)))]));
            }
            if written.len() < 400 || rng.chance(1, 4) {
                written.push(bytes);
            }
        }
    }
    // STREAMINFO with out-of-range fields (pub fields admit them): writer must refuse or round-trip
    for _ in 0..(if thorough { 2000 } else { 300 }) {
        let l = vec![Block::Streaminfo(gen_streaminfo(&mut rng, false))];
        check_value_list(&mut st, &l, "streaminfo-field-extremes", true);
    }
    // every depth 2..=32 and every channel count, sample-rate edge values
    for bps in 2..=32u32 {
        for ch in [1u8, 8] {
            let mut s = gen_streaminfo(&mut rng, true);
            s.bits_per_sample = bps.try_into().unwrap();
            s.channels = NonZero::new(ch).unwrap();
            check_value_list(&mut st, &[Block::Streaminfo(s)], "streaminfo-depth-sweep", true);
        }
    }
    // cue sheets at their track / index limits
    for i in 0..(if thorough { 40 } else { 8 }) {
        let c = gen_cuesheet(&mut rng, true);
        let l = vec![streaminfo_only(&mut rng), Block::Cuesheet(c)];
        check_value_list(&mut st, &l, "cuesheet-limits", i < 4);
    }

    // the two icon picture types together (one of each is legal, in either order, with other pictures around them)
    for i in 0..(if thorough { 60 } else { 12 }) {
        let mut l = vec![streaminfo_only(&mut rng)];
        let a = Block::Picture(gen_picture(&mut rng, Some(PictureType::GeneralFileIcon)));
        let b = Block::Picture(gen_picture(&mut rng, Some(PictureType::Png32x32)));
        if i % 3 == 2 { l.push(Block::Picture(gen_picture(&mut rng, Some(PictureType::FrontCover)))); }
        if i % 2 == 0 { l.push(a); l.push(b); } else { l.push(b); l.push(a); }
        if i % 4 == 3 { l.push(Block::Picture(gen_picture(&mut rng, Some(PictureType::FrontCover)))); }
        check_value_list(&mut st, &l, "one-icon-of-each-kind", i < 4);
    }

    // ---------------------------------------------------------------- (2) rule-breaking lists
    let mut rng = Rng::new(seed, 0xC11B);
    let n_rules = if thorough { 1500 } else { 250 };
    for i in 0..n_rules {
        let mut l = gen_block_list(&mut rng, &[1, 2, 3, 4, 6], false);
        let kind = i % 7;
        let what = match kind {
            0 => {
                l.push(Block::SeekTable(gen_seektable(&mut rng)));
                l.push(Block::SeekTable(gen_seektable(&mut rng)));
                "two-seektables"
            }
            1 => {
                l.push(Block::VorbisComment(gen_vorbis(&mut rng)));
                l.push(Block::VorbisComment(gen_vorbis(&mut rng)));
                "two-vorbis-comments"
            }
            2 => {
                l.push(Block::Picture(gen_picture(&mut rng, Some(PictureType::Png32x32))));
                l.push(Block::Picture(gen_picture(&mut rng, Some(PictureType::Png32x32))));
                "two-png-icons"
            }
            3 => {
                l.push(Block::Picture(gen_picture(&mut rng, Some(PictureType::GeneralFileIcon))));
                l.push(Block::Picture(gen_picture(&mut rng, Some(PictureType::GeneralFileIcon))));
                "two-general-icons"
            }
            4 => {
                let pos = 1 + rng.below(l.len() as u64) as usize;
                l.insert(pos, streaminfo_only(&mut rng));
                "second-streaminfo"
            }
            5 => {
                l.remove(0);
                "no-streaminfo-first"
            }
            _ => {
                if l.len() > 1 {
                    let k = 1 + rng.below(l.len() as u64 - 1) as usize;
                    l.swap(0, k);
                    "streaminfo-not-first"
                } else {
                    l.clear();
                    "empty-list"
                }
            }
        };
        st.bump(&format!("rule:{}", what));
        let dump = dump_blocks(&l);
        let w = run_write(&l);
        case("wl", profile(), &dump, &match &w {
            Out::Ok(b) => format!("ok:{} sz={}", hex(b), sizes_s(&l).unwrap_or("panic".into())),
            Out::Err(_) => format!("err sz={}", sizes_s(&l).unwrap_or("panic".into())),
            Out::Panic(_) => format!("panic sz={}", sizes_s(&l).unwrap_or("panic".into())),
        });
        match w {
            Out::Err(_) => {}
            Out::Ok(_) => viol(&mut st, &format!("rule-break-accepted:{}", what), "write_blocks accepted a block list that breaks the format's rules", &[("blocks", esc(&dump))]),
            Out::Panic(p) => viol(&mut st, &format!("rule-break-panic:{}", what), &format!("write_blocks panicked: {}", p), &[("blocks", esc(&dump))]),
        }
    }
    // size rule: a body of more than 2^24 - 1 bytes must be refused (too large for the model diff)
    for (what, blk) in [
        ("application-2^24-4", Block::Application(Application { id: 1, data: vec![0u8; (1 << 24) - 4] })),
        ("application-2^24-5-ok", Block::Application(Application { id: 1, data: vec![7u8; (1 << 24) - 5] })),
        ("picture-data-2^24", Block::Picture({
            let mut p = gen_picture(&mut rng, Some(PictureType::FrontCover));
            p.data = vec![1u8; 1 << 24];
            p
        })),
        ("vorbis-field-2^24", Block::VorbisComment({
            let mut v = gen_vorbis(&mut rng);
            v.fields.push("x".repeat(1 << 24));
            v
        })),
        ("padding-max-ok", Block::Padding(Padding { size: BlockSize::try_from((1u32 << 24) - 1).unwrap() })),
    ] {
        st.bump("rule:size-limit");
        let l = vec![streaminfo_only(&mut rng), blk];
        let w = run_write(&l);
        let expect_ok = what.ends_with("-ok");
        match (&w, expect_ok) {
            (Out::Err(_), false) => {}
            (Out::Ok(bytes), true) => {
                match run_read(bytes) {
                    Out::Ok(back) if back == l => {}
                    other => viol(&mut st, "written-not-readable", &format!("largest legal block ({}) is written but reads back as {}", what, other.tag()), &[("what", esc(what))]),
                }
                let reported = block_bytes(&l[1]);
                if reported != Some((bytes.len() - 4 - 38 - 4) as u32) {
                    viol(&mut st, "size-mismatch", &format!("{}: bytes() = {:?}, written {}", what, reported, bytes.len() - 46), &[("what", esc(what))]);
                }
            }
            (Out::Panic(p), _) => viol(&mut st, "rule-break-panic:size-limit", &format!("{}: write_blocks panicked: {}", what, p), &[("what", esc(what))]),
            (o, _) => viol(&mut st, "rule-break-accepted:size-limit", &format!("{}: write_blocks gives {} (body larger than 2^24-1 bytes must be refused, smaller accepted)", what, o.tag()), &[("what", esc(what))]),
        }
        if !expect_ok {
            let reported = catch(|| block_bytes(&l[1]));
            if reported != Ok(None) {
                viol(&mut st, "size-mismatch", &format!("{}: bytes() of an over-long block is {:?}, expected None", what, reported), &[("what", esc(what))]);
            }
        }
    }

    // ---------------------------------------------------------------- (3) accepted encodings
    let mut rng = Rng::new(seed, 0xC11C);
    let n_enc = if thorough { 5000 } else { 700 };
    for i in 0..n_enc {
        if written.is_empty() {
            break;
        }
        let base = &written[rng.below(written.len() as u64) as usize];
        let mut b = randomise_reserved(&mut rng, base);
        if i % 5 == 4 {
            // also follow the section with arbitrary "audio" bytes: the reader must stop at the last block
            let extra = rng.below(20) as usize;
            b.extend(rng.bytes(extra));
        }
        check_encoding(&mut st, &b, "reserved-fields-randomised");
    }

    // (3b) rule-breaking SECTIONS assembled from individually written blocks (the writer refuses the lists, so the
    // bytes are spliced): the reader must refuse them too; if it accepts one, check_encoding reports that the
    // accepted section cannot be written again
    {
        let mut rng = Rng::new(seed, 0xC11E);
        let block_bytes = |b: &Block, rng: &mut Rng| -> Option<Vec<u8>> {
            match run_write(&[streaminfo_only(rng), b.clone()]) { Out::Ok(bytes) if bytes.len() > 42 => Some(bytes[42..].to_vec()), _ => None }
        };
        for i in 0..(if thorough { 200 } else { 40 }) {
            let (x, y, what) = match i % 4 {
                0 => (Block::Picture(gen_picture(&mut rng, Some(PictureType::GeneralFileIcon))), Block::Picture(gen_picture(&mut rng, Some(PictureType::GeneralFileIcon))), "two-general-icons"),
                1 => (Block::Picture(gen_picture(&mut rng, Some(PictureType::Png32x32))), Block::Picture(gen_picture(&mut rng, Some(PictureType::Png32x32))), "two-png-icons"),
                2 => (Block::SeekTable(gen_seektable(&mut rng)), Block::SeekTable(gen_seektable(&mut rng)), "two-seektables"),
                _ => (Block::VorbisComment(gen_vorbis(&mut rng)), Block::VorbisComment(gen_vorbis(&mut rng)), "two-vorbis-comments"),
            };
            let (Some(mut bx), Some(by)) = (block_bytes(&x, &mut rng), block_bytes(&y, &mut rng)) else { continue };
            let Out::Ok(head) = run_write(&[streaminfo_only(&mut rng)]) else { continue };
            let mut f = head.clone();
            f[4] &= 0x7F; // STREAMINFO is no longer the last block
            bx[0] &= 0x7F;
            f.extend_from_slice(&bx);
            f.extend_from_slice(&by); // keeps its last-block flag
            st.bump(&format!("spliced:{}", what));
            if let Out::Ok(l) = run_read(&f) {
                st.bump(&format!("spliced-accepted:{}", what));
                let _ = l;
            }
            check_encoding(&mut st, &f, what);
        }
    }

    // ---------------------------------------------------------------- (4) probes
    let mut rng = Rng::new(seed, 0xC11D);
    // (4a) 1-bit STREAMINFO (F-C11a; repaired by area `writers`)
    {
        let mut s = gen_streaminfo(&mut rng, true);
        s.bits_per_sample = 1u32.try_into().unwrap();
        let l = vec![Block::Streaminfo(s)];
        match run_write(&l) {
            Out::Panic(p) => viol(&mut st, "streaminfo-1bit-writer-panic", &format!("STREAMINFO with 1 bit per sample: write_blocks panics ({})", p), &[("blocks", esc(&dump_blocks(&l)))]),
            _ => {
                check_value_list(&mut st, &l, "streaminfo-1bit", true);
            }
        }
    }
    // (4b) ISRC strings of other than 12 characters
    for txt in ["AB12312", "AB1231212345678", "AB123", "AB-123-12", "AB12312123456", "AB1231212345"] {
        st.bump("probe:isrc");
        let parsed: Result<ISRC, _> = catch(|| txt.parse::<ISRC>()).unwrap_or(Err(flac_codec::metadata::CuesheetError::InvalidISRC));
        if let Ok(isrc) = parsed {
            let stored = isrc.as_ref().to_string();
            let t = TrackNonCDDA {
                offset: 0,
                number: NonZero::new(1).unwrap(),
                isrc,
                non_audio: false,
                pre_emphasis: false,
                index_points: IndexVec::try_from(Contiguous::try_from(vec![Index { offset: 0u64, number: 1 }]).unwrap()).unwrap(),
            };
            let c = Cuesheet::NonCDDA {
                catalog_number: vec![],
                tracks: Contiguous::try_from(vec![t]).unwrap(),
                lead_out: LeadOutNonCDDA { offset: 1000, number: LeadOut, isrc: ISRC::None, non_audio: false, pre_emphasis: false, index_points: () },
            };
            let l = vec![streaminfo_only(&mut rng), Block::Cuesheet(c)];
            if let Out::Ok(bytes) = run_write(&l) {
                match run_read(&bytes) {
                    Out::Ok(back) if back == l => {}
                    other => viol(
                        &mut st,
                        "isrc-length-not-checked",
                        &format!("ISRC text {:?} is accepted by FromStr (stored {:?}, {} characters); the block is written, then reads back as {}", txt, stored, stored.len(), match &other { Out::Ok(x) => dump_blocks(x), o => o.tag() }),
                        &[("isrc", esc(txt)), ("file", esc(&hex(&bytes)))],
                    ),
                }
            }
        }
    }
    // (4c) non-CD-DA track with 256 index points (00..255) imported from text
    {
        st.bump("probe:256-index-points");
        let mut txt = String::from("FILE \"x.wav\" WAVE\n  TRACK 01 AUDIO\n");
        for i in 0..256u32 {
            txt.push_str(&format!("    INDEX {:02} {}\n", i, i * 10));
        }
        match catch(|| Cuesheet::parse(588 * 1000 + 1, &txt)) {
            Ok(Ok(c)) => {
                let l = vec![streaminfo_only(&mut rng), Block::Cuesheet(c)];
                match run_write(&l) {
                    Out::Panic(p) => viol(&mut st, "noncdda-256-index-points", &format!("a non-CD-DA cue sheet with 256 index points in one track is accepted by Cuesheet::parse and write_blocks panics ({})", p), &[("text", esc(&txt))]),
                    Out::Ok(bytes) => {
                        if !matches!(run_read(&bytes), Out::Ok(ref back) if back == &l) {
                            viol(&mut st, "noncdda-256-index-points", "a 256-index-point track is written but does not read back", &[("text", esc(&txt))]);
                        }
                    }
                    Out::Err(_) => {}
                }
            }
            _ => {}
        }
    }
    // (4d) values that alias a sentinel of the encoding
    {
        st.bump("probe:sentinels");
        let mut s = gen_streaminfo(&mut rng, true);
        s.md5 = Some([0u8; 16]);
        let l = vec![Block::Streaminfo(s)];
        if let Out::Ok(bytes) = run_write(&l) {
            if !matches!(run_read(&bytes), Out::Ok(ref back) if back == &l) {
                viol(&mut st, "streaminfo-md5-some-all-zero", "STREAMINFO { md5: Some([0; 16]) } is written and reads back with md5: None", &[("blocks", esc(&dump_blocks(&l))), ("file", esc(&hex(&bytes)))]);
            }
        }
        let pts = vec![
            SeekPoint::Defined { sample_offset: 5, byte_offset: 1, frame_samples: 2 },
            SeekPoint::Defined { sample_offset: u64::MAX, byte_offset: 3, frame_samples: 4 },
        ];
        if let Ok(c) = Contiguous::try_from(pts) {
            let l = vec![streaminfo_only(&mut rng), Block::SeekTable(SeekTable { points: c })];
            if let Out::Ok(bytes) = run_write(&l) {
                if !matches!(run_read(&bytes), Out::Ok(ref back) if back == &l) {
                    viol(&mut st, "seekpoint-defined-u64-max", "a defined seek point with sample offset u64::MAX is written and reads back as a placeholder", &[("blocks", esc(&dump_blocks(&l))), ("file", esc(&hex(&bytes)))]);
                }
            }
        }
        let cat: Vec<Digit> = (0..129).map(|i| Digit::try_from(b'0' + (i % 10) as u8).unwrap()).collect();
        let c = Cuesheet::NonCDDA {
            catalog_number: cat,
            tracks: Contiguous::try_from(vec![]).unwrap(),
            lead_out: LeadOutNonCDDA { offset: 10, number: LeadOut, isrc: ISRC::None, non_audio: false, pre_emphasis: false, index_points: () },
        };
        let l = vec![streaminfo_only(&mut rng), Block::Cuesheet(c)];
        if let Out::Ok(bytes) = run_write(&l) {
            if !matches!(run_read(&bytes), Out::Ok(ref back) if back == &l) {
                viol(&mut st, "noncdda-catalog-over-128-digits", "a non-CD-DA catalog number of 129 digits is written truncated to 128 and reads back different", &[("file_prefix", esc(&hex(&bytes[..bytes.len().min(300)])))]);
            }
        }
    }

    let counts: Vec<String> = st.counts.iter().map(|(k, v)| format!("{}:{}", esc(k), v)).collect();
    println!(
        "{}",
        obj(&[
            ("t", esc("stat")),
            ("profile", esc(profile())),
            ("distinct_sections", st.distinct.len().to_string()),
            ("counts", format!("{{{}}}", counts.join(","))),
        ])
    );
}
