(* readers/RNum.v — the Rust integer operations the reader front-ends use, made explicit.
   u64 / usize arithmetic with the build profile (Debug: overflow traps = Panic POverflow;
   Release: wraps), checked_add / checked_sub, i64::unsigned_abs, usize::try_from(u64).unwrap(),
   and list helpers indexed by N (no data-sized nat is ever built).  No proofs here. *)
From FlacBase Require Export Res Bits.
Open Scope N_scope.

Inductive profile := Debug | Release.

Definition U64 : N := 18446744073709551616.   (* 2^64 *)

(* `a + b` on u64 *)
Definition u64_add (p : profile) (a b : N) : res N :=
  if a + b <? U64 then Ok (a + b)
  else match p with Debug => Panic POverflow | Release => Ok ((a + b) mod U64) end.

(* `a - b` on u64 *)
Definition u64_sub (p : profile) (a b : N) : res N :=
  if b <=? a then Ok (a - b)
  else match p with Debug => Panic POverflow | Release => Ok ((a + U64 - b mod U64) mod U64) end.

(* `a * b` on u64 *)
Definition u64_mul (p : profile) (a b : N) : res N :=
  if a * b <? U64 then Ok (a * b)
  else match p with Debug => Panic POverflow | Release => Ok ((a * b) mod U64) end.

(* u64::checked_sub / checked_add *)
Definition checked_sub (a b : N) : option N := if b <=? a then Some (a - b) else None.
Definition checked_add (a b : N) : option N := if a + b <? U64 then Some (a + b) else None.

(* i64::unsigned_abs (i64::MIN -> 2^63) *)
Definition unsigned_abs (z : Z) : N := Z.abs_N z.

(* usize::try_from(v: u64).unwrap() on a target whose usize has `bits` bits *)
Definition usize_try_from_unwrap (bits : N) (v : N) : res N :=
  if v <? 2 ^ bits then Ok v else Panic PUnwrap.

(* a / b with Rust's panic on zero *)
Definition div_u (a b : N) : res N := if b =? 0 then Panic PDivZero else Ok (a / b).

(* ---- lists indexed by N *)
Definition lenN {A} (l : list A) : N := N.of_nat (length l).

(* (first n elements, the rest); n may be far larger than the list *)
Fixpoint splitN {A} (n : N) (l : list A) : list A * list A :=
  match l with
  | [] => ([], [])
  | x :: r => if n =? 0 then ([], l) else let (a, b) := splitN (n - 1) r in (x :: a, b)
  end.
Definition takeN {A} (n : N) (l : list A) : list A := fst (splitN n l).
Definition dropN {A} (n : N) (l : list A) : list A := snd (splitN n l).

(* vec![x; n] *)
Definition repeatN {A} (x : A) (n : N) : list A := repeat x (N.to_nat n).

(* Iterator::filter(p).next_back(): the last element (in list order) satisfying p *)
Fixpoint last_matching {A} (p : A -> bool) (l : list A) : option A :=
  match l with
  | [] => None
  | x :: r => match last_matching p r with
              | Some y => Some y
              | None => if p x then Some x else None
              end
  end.
