(* Codec/DecLengths.v — C04, size half on the model: whatever bytes it is given, a frame the decoder
   returns has assign_channels <= 8 channels of exactly h_bs <= 65535 samples each; so the decoded
   data of one frame never exceeds 8 * 65535 samples (the allocator itself is measured, not proved). *)
From FlacCodec Require Import Parser_proofs Dec Inverse ParseWf Lengths Wf.
From FlacBase Require Import Crc.
Open Scope N_scope.

Lemma repeat_length_gen {A} (p : P A) : forall n s xs r, p_repeat n p s = Ok (xs, r) -> length xs = n.
Proof.
  induction n as [|n IH]; intros s xs r H; cbn [p_repeat] in H.
  - unfold pret in H. inversion H. reflexivity.
  - unfold pbind in H. destruct (p s) as [[x s1]| |]; try discriminate.
    destruct (p_repeat n p s1) as [[ys s2]| |] eqn:E; try discriminate.
    unfold pret in H. inversion H; subst. cbn [length]. f_equal. eapply IH; eauto.
Qed.

Lemma partition_length h n s rs r : p_partition h n s = Ok (rs, r) -> length rs = n.
Proof.
  destruct h; cbn [p_partition]; intros H.
  - eapply repeat_length_gen; eauto.
  - eapply repeat_length_gen; eauto.
  - unfold pret in H. inversion H. apply repeat_length.
Qed.

Lemma dec_partitions_length m : forall lens s rs r, dec_partitions m lens s = Ok (rs, r) ->
  length rs = fold_right (fun a t => (a + t)%nat) 0%nat lens.
Proof.
  induction lens as [|n lens IH]; intros s rs r H; cbn [dec_partitions] in H.
  - unfold pret in H. inversion H. reflexivity.
  - unfold pbind in H. destruct (p_part_header m s) as [[h s1]| |]; try discriminate.
    destruct (p_partition h n s1) as [[xs s2]| |] eqn:E1; try discriminate.
    destruct (dec_partitions m lens s2) as [[more s3]| |] eqn:E2; try discriminate.
    unfold pret in H. inversion H; subst. rewrite app_length. cbn [fold_right].
    apply partition_length in E1. apply IH in E2. lia.
Qed.

Lemma rchunk_lens_sum len k : (0 < k)%nat -> fold_right (fun a t => (a + t)%nat) 0%nat (rchunk_lens len k) = len.
Proof.
  intros Hk. unfold rchunk_lens. rewrite fold_right_app, sum_repeat.
  pose proof (Nat.div_mod len k ltac:(lia)) as D.
  destruct (Nat.eqb_spec (len mod k) 0); cbn [fold_right]; lia.
Qed.

Lemma dec_residuals_length order nres s rs r : dec_residuals order nres s = Ok (rs, r) -> length rs = nres.
Proof.
  unfold dec_residuals, pbind. intros H.
  destruct (p_rd 2 s) as [[method s1]| |]; try discriminate.
  destruct (method <? 2); cbn [p_guard] in H; [|discriminate]. unfold pret at 1 in H.
  destruct (p_rd 4 s1) as [[po s2]| |]; try discriminate.
  destruct (Nat.eqb_spec ((order + nres) mod 2 ^ N.to_nat po) 0) as [Hd|]; cbn [p_guard] in H; [|discriminate]. unfold pret at 1 in H.
  destruct (Nat.eqb_spec (length (rchunk_lens nres ((order + nres) / 2 ^ N.to_nat po))) (2 ^ N.to_nat po)) as [Hc|];
    cbn [p_guard] in H; [|discriminate]. unfold pret at 1 in H.
  apply dec_partitions_length in H. rewrite H.
  destruct (Nat.eq_dec ((order + nres) / 2 ^ N.to_nat po) 0) as [Z|NZ].
  - (* chunk size 0: the layout [] cannot have 2^po >= 1 entries *)
    pose proof (Nat.pow_nonzero 2 (N.to_nat po) ltac:(lia)) as Hp.
    pose proof (Nat.div_mod (order + nres) (2 ^ N.to_nat po) Hp) as D. rewrite Z, Hd in D.
    assert (nres = 0%nat) by lia. subst nres. rewrite Z in Hc. cbn in Hc. lia.
  - apply rchunk_lens_sum. lia.
Qed.

Lemma predict_length w coeffs shift : forall todo done_rev out,
  predict w coeffs shift done_rev todo = Ok out -> length out = (length done_rev + length todo)%nat.
Proof.
  induction todo as [|r rest IH]; intros done_rev out H; cbn [predict] in H.
  - inversion H. rewrite rev_length. cbn. lia.
  - destruct (dot_p done_rev coeffs 0%Z) as [s| |]; try discriminate. cbn [bind] in H.
    destruct (shr_s Release 64 s shift) as [sh| |]; try discriminate. cbn [bind] in H.
    apply IH in H. cbn [length] in *. lia.
Qed.

Theorem dec_subframe_length w bps n s xs r : dec_subframe w bps n s = Ok (xs, r) -> length xs = n.
Proof.
  unfold dec_subframe, pbind. intros H.
  destruct (p_subframe_header s) as [[[ty wasted] s1]| |]; try discriminate.
  unfold plift at 1 in H. destruct (effective_bps bps wasted) as [eb| |]; try discriminate.
  match type of H with match ?x with _ => _ end = _ => destruct x as [[ys s2]| |] eqn:Eb end; try discriminate.
  assert (Ly : length ys = n).
  { destruct ty as [| |o|o].
    - destruct (p_rds _ s1) as [[v t]| |]; try discriminate. unfold pret in Eb. inversion Eb. apply repeat_length.
    - eapply repeat_length_gen; eauto.
    - destruct (Nat.leb_spec (N.to_nat o) n) as [Ho|]; cbn [p_guard] in Eb; [|discriminate]. unfold pret at 1 in Eb.
      destruct (p_repeat (N.to_nat o) _ s1) as [[warm t1]| |] eqn:E1; try discriminate.
      destruct (dec_residuals _ _ t1) as [[rs t2]| |] eqn:E2; try discriminate.
      unfold plift in Eb. destruct (predict _ _ _ _ _) as [out| |] eqn:Ep; try discriminate. inversion Eb; subst.
      apply repeat_length_gen in E1. apply dec_residuals_length in E2. apply predict_length in Ep.
      rewrite rev_length in Ep. lia.
    - destruct (Nat.leb_spec (N.to_nat o) n) as [Ho|]; cbn [p_guard] in Eb; [|discriminate]. unfold pret at 1 in Eb.
      destruct (p_repeat (N.to_nat o) _ s1) as [[warm t1]| |] eqn:E1; try discriminate.
      destruct (p_qlp_precision t1) as [[prec t2]| |]; try discriminate.
      destruct (p_qlp_shift t2) as [[shift t3]| |]; try discriminate.
      destruct (p_repeat (N.to_nat o) _ t3) as [[coefs t4]| |]; try discriminate.
      destruct (dec_residuals _ _ t4) as [[rs t5]| |] eqn:E2; try discriminate.
      unfold plift in Eb. destruct (predict _ _ _ _ _) as [out| |] eqn:Ep; try discriminate. inversion Eb; subst.
      apply repeat_length_gen in E1. apply dec_residuals_length in E2. apply predict_length in Ep.
      rewrite rev_length in Ep. lia. }
  destruct (wasted =? 0); unfold pret in H; injection H as Hx _; rewrite <- Hx, ?map_length; exact Ly.
Qed.

Lemma map2_res_length f : forall a b out, map2_res f a b = Ok out -> length out = Nat.min (length a) (length b).
Proof.
  induction a as [|x a IH]; intros [|y b] out H; cbn [map2_res] in H; try (inversion H; reflexivity).
  destruct (f x y); try discriminate. cbn [bind] in H.
  destruct (map2_res f a b) as [vs| |] eqn:E; try discriminate. cbn [bind] in H. inversion H; subst.
  cbn [length Nat.min]. f_equal. apply IH. exact E.
Qed.
Lemma map2_res2_length f : forall a b o1 o2, map2_res2 f a b = Ok (o1, o2) ->
  length o1 = Nat.min (length a) (length b) /\ length o2 = Nat.min (length a) (length b).
Proof.
  induction a as [|x a IH]; intros [|y b] o1 o2 H; cbn [map2_res2] in H; try (inversion H; auto).
  destruct (f x y); try discriminate. cbn [bind] in H.
  destruct (map2_res2 f a b) as [[v1 v2]| |] eqn:E; try discriminate. cbn [bind] in H. inversion H; subst.
  destruct (IH _ _ _ E) as [L1 L2]. cbn [length Nat.min fst snd]. rewrite L1, L2. auto.
Qed.

Theorem dec_subframes_shape h s chans r : dec_subframes h s = Ok (chans, r) -> h_assign h < 11 ->
  length chans = N.to_nat (assign_channels (h_assign h)) /\
  Forall (fun c => length c = N.to_nat (h_bs h)) chans.
Proof.
  unfold dec_subframes. intros H Ha.
  set (n := N.to_nat (h_bs h)) in *.
  destruct (h_assign h <? 8) eqn:E8.
  - unfold assign_channels. rewrite E8. split; [eapply repeat_length_gen; eauto|].
    revert s chans r H. generalize (N.to_nat (h_assign h + 1)) as k.
    induction k as [|k IH]; intros s chans r H; cbn [p_repeat] in H.
    + unfold pret in H. inversion H. constructor.
    + unfold pbind in H. destruct (dec_subframe 32 (h_bps h) n s) as [[c s1]| |] eqn:E1; try discriminate.
      destruct (p_repeat k _ s1) as [[cs s2]| |] eqn:E2; try discriminate. unfold pret in H. inversion H; subst.
      constructor; [eapply dec_subframe_length; eauto|eapply IH; eauto].
  - unfold assign_channels. rewrite E8. change (N.to_nat 2) with 2%nat.
    assert (T1 : forall f c0 c1 (mk : list Z -> list (list Z)) s' out r',
      (forall v, mk v = [c0; v] \/ mk v = [v; c1]) -> length c0 = n -> length c1 = n ->
      match plift (map2_res f c0 c1) s' with Ok (a, s'') => pret (mk a) s'' | Err e => Err e | Panic k => Panic k end = Ok (out, r') ->
      length out = 2%nat /\ Forall (fun c => length c = n) out).
    { intros f c0 c1 mk s' out r' Hmk L0 L1 Hx. unfold plift in Hx.
      destruct (map2_res f c0 c1) as [v| |] eqn:Em; try discriminate. unfold pret in Hx. inversion Hx; subst.
      apply map2_res_length in Em. rewrite L0, L1, Nat.min_id in Em.
      destruct (Hmk v) as [-> | ->]; split; try reflexivity; repeat constructor; auto. }
    assert (T2 : forall f c0 c1 s' out r', length c0 = n -> length c1 = n ->
      match plift (map2_res2 f c0 c1) s' with Ok (lr, s'') => pret [fst lr; snd lr] s'' | Err e => Err e | Panic k => Panic k end = Ok (out, r') ->
      length out = 2%nat /\ Forall (fun c => length c = n) out).
    { intros f c0 c1 s' out r' L0 L1 Hx. unfold plift in Hx.
      destruct (map2_res2 f c0 c1) as [[v1 v2]| |] eqn:Em; try discriminate. unfold pret in Hx. inversion Hx; subst.
      apply map2_res2_length in Em. rewrite L0, L1, Nat.min_id in Em. destruct Em. cbn [fst snd].
      split; [reflexivity|repeat constructor; auto]. }
    destruct (h_bps h <? 32); destruct (h_assign h =? 8); try destruct (h_assign h =? 9);
      unfold pbind in H;
      do 2 (match type of H with match dec_subframe ?w ?b ?nn ?t with _ => _ end = _ =>
              let c := fresh "c" in let t' := fresh "t" in let E := fresh "E" in
              destruct (dec_subframe w b nn t) as [[c t']| |] eqn:E; try discriminate;
              apply dec_subframe_length in E end);
      first [ refine (T2 _ _ _ _ _ _ _ _ H); eassumption
            | match goal with E0 : length ?a = n, E1 : length ?b = n |- _ =>
                first [ eapply (T1 _ a b (fun v => [a; v])); [intros; left; reflexivity|exact E0|exact E1|exact H]
                      | eapply (T1 _ a b (fun v => [v; b])); [intros; right; reflexivity|exact E0|exact E1|exact H] ] end ].
Qed.

(* whatever the bytes, a decoded frame is at most 8 channels x 65535 samples *)
Theorem dec_frame_size si chk bytes h chans rest :
  dec_frame si chk bytes = Ok (h, chans, rest) ->
  (length chans <= 8)%nat /\ Forall (fun c => length c = N.to_nat (h_bs h)) chans /\ h_bs h <= 65535.
Proof.
  unfold dec_frame. intros H.
  destruct (parse_header_fields si (bits_of_bytes bytes)) as [[h0 s1]| |] eqn:Eh; try discriminate.
  apply header_wf in Eh.
  destruct (match si with Some i => header_checks i h0 | None => Ok h0 end) as [h1| |] eqn:Eck; try discriminate.
  assert (h1 = h0).
  { destruct si as [i|]; [|inversion Eck; reflexivity]. unfold header_checks in Eck.
    repeat match type of Eck with (if ?c then _ else _) = _ => destruct c; try discriminate end. inversion Eck. reflexivity. }
  subst h1. cbn [bind] in H. destruct (negb _); [discriminate|].
  destruct (chk h0); try discriminate. cbn [bind] in H. unfold pbind in H.
  destruct (dec_subframes h0 s1) as [[ch s2]| |] eqn:Es; try discriminate.
  destruct (p_align s2) as [[u s3]| |]; try discriminate.
  destruct (p_rd 16 s3) as [[v s4]| |]; try discriminate. unfold pret in H.
  destruct (crc16 _ =? 0); [|discriminate]. inversion H; subst.
  unfold wf_header in Eh. repeat (apply andb_prop in Eh; destruct Eh as [Eh ?]).
  match goal with Ha : (h_assign h <? 11) = true |- _ => apply N.ltb_lt in Ha; destruct (dec_subframes_shape _ _ _ _ Es Ha) as [L F] end.
  split; [|split; [exact F|]].
  - rewrite L. unfold assign_channels. destruct (N.ltb_spec (h_assign h) 8); lia.
  - (* block size: table values <= 32768; 8-bit field <= 256; 16-bit field <= 65535 *)
    match goal with Hb : match bs_of_code (h_bs_code h) with _ => _ end = true |- _ => rename Hb into Hbs end.
    destruct (bs_of_code (h_bs_code h)) as [bv|] eqn:Eb.
    + apply N.eqb_eq in Hbs. rewrite Hbs. unfold bs_of_code in Eb.
      repeat match type of Eb with match ?c with _ => _ end = _ => destruct c; try discriminate end;
        inversion Eb; subst; lia.
    + destruct (h_bs_code h =? 6); [apply andb_prop in Hbs; destruct Hbs as [_ Hb]; apply N.leb_le in Hb; lia|].
      destruct (h_bs_code h =? 7); [apply andb_prop in Hbs; destruct Hbs as [_ Hb]; apply N.leb_le in Hb; lia|discriminate].
Qed.

(* with a STREAMINFO: the decoded frame has the stream's channel count, every channel has block-size samples,
   the block size is between 1 and the advertised maximum, and the caller's check accepted the header *)
Theorem dec_frame_shape si chk bytes h chans rest :
  dec_frame (Some si) chk bytes = Ok (h, chans, rest) ->
  length chans = N.to_nat (si_channels si) /\ Forall (fun c => length c = N.to_nat (h_bs h)) chans /\
  1 <= h_bs h /\ h_bs h <= 65535 /\ h_bs h <= si_max_bs si /\ chk h = Ok tt /\ h_bps h = si_bps si /\ h_rate h = si_rate si /\
  si_channels si <= 8.
Proof.
  intros H. destruct (dec_frame_size (Some si) chk bytes h chans rest H) as (L8 & F & B).
  unfold dec_frame in H.
  destruct (parse_header_fields (Some si) (bits_of_bytes bytes)) as [[h0 s1]| |] eqn:Eh; try discriminate.
  apply header_wf in Eh.
  destruct (header_checks si h0) as [h1| |] eqn:Eck; try discriminate.
  unfold header_checks in Eck.
  destruct (N.leb_spec (h_bs h0) (si_max_bs si)) as [Hmax|]; [|discriminate]. cbn [negb] in Eck.
  destruct (N.eqb_spec (h_rate h0) (si_rate si)) as [Hr|]; [|discriminate]. cbn [negb] in Eck.
  destruct (N.eqb_spec (assign_channels (h_assign h0)) (si_channels si)) as [Hc|]; [|discriminate]. cbn [negb] in Eck.
  destruct (N.eqb_spec (h_bps h0) (si_bps si)) as [Hb|]; [|discriminate]. cbn [negb] in Eck. injection Eck as <-.
  cbn [bind] in H. destruct (negb _); [discriminate|].
  destruct (chk h0) as [[]| |] eqn:Echk; try discriminate. cbn [bind] in H. unfold pbind in H.
  destruct (dec_subframes h0 s1) as [[ch s2]| |] eqn:Es; try discriminate.
  destruct (p_align s2) as [[u s3]| |]; try discriminate.
  destruct (p_rd 16 s3) as [[v s4]| |]; try discriminate. unfold pret in H.
  destruct (crc16 _ =? 0); [|discriminate]. inversion H; subst.
  unfold wf_header in Eh. repeat (apply andb_prop in Eh; destruct Eh as [Eh ?]).
  match goal with Ha : (h_assign h <? 11) = true |- _ => apply N.ltb_lt in Ha; destruct (dec_subframes_shape _ _ _ _ Es Ha) as [L F'] end.
  split; [rewrite L, Hc; reflexivity|]. split; [exact F|]. split.
  - match goal with Hx : match bs_of_code (h_bs_code h) with _ => _ end = true |- _ => rename Hx into Hbs end.
    destruct (bs_of_code (h_bs_code h)) as [bv|] eqn:Eb.
    + apply N.eqb_eq in Hbs. rewrite Hbs. unfold bs_of_code in Eb.
      repeat match type of Eb with match ?c with _ => _ end = _ => destruct c; try discriminate end;
        inversion Eb; subst; lia.
    + destruct (h_bs_code h =? 6); [apply andb_prop in Hbs; destruct Hbs as [Hb1 _]; apply N.leb_le in Hb1; lia|].
      destruct (h_bs_code h =? 7); [apply andb_prop in Hbs; destruct Hbs as [Hb1 _]; apply N.leb_le in Hb1; lia|discriminate].
  - repeat split; auto.
    rewrite <- Hc. unfold assign_channels. destruct (N.ltb_spec (h_assign h) 8); lia.
Qed.
