(* Property C12 — metadata and auxiliary parsers are total on arbitrary input.
   Statements only; proofs in Total_proofs.v.  The model (Blocks.v, BlockList.v, Cue.v,
   Accessors.v, Sniff.v) is that of the repaired code (fix commits in NOTES.md); on the
   unrepaired code the statements below are false (division by zero in duration, u8 / u64
   overflows) and the searcher harness/src/bin/c12.rs reproduces each.
   Termination: every definition is a structural Fixpoint; the loops that consume input
   carry the input as fuel and PFuel is among the Panic outcomes excluded here.
   track_sample_ranges, display and catalog_number are total functions of the model (their
   Rust arithmetic is saturating after fix F-C12f; the remaining `try_into().unwrap()` in
   Timestamp::from act on values below 60 and 75). *)
From FlacMeta Require Import Bytes Blocks BlockList Cue Accessors Sniff Blocks_proofs Blocks_level BlockList_proofs Total_proofs.
Open Scope N_scope.

Theorem C12_read_metadata_total : forall (utf8_valid : list N -> bool) (p : profile) (bytes : list N) k,
  read_metadata utf8_valid p bytes <> Panic k.
Proof. exact read_metadata_never_panics. Qed.

Theorem C12_accessors_total : forall (utf8_valid : list N -> bool) (p : profile) (bytes : list N) l,
  read_metadata utf8_valid p bytes = Ok l ->
  exists si rest, l = BStreaminfo si :: rest /\
    (forall k, decoded_len p si <> Panic k) /\ (forall k, duration p si <> Panic k) /\
    (forall k, channel_mask si rest <> Panic k) /\
    (forall c k, In (BCuesheet c) l -> track_byte_ranges c (si_ch si) (si_bps si) <> Panic k).
Proof. exact accessors_never_panic. Qed.

Theorem C12_cue_parse_total : forall (p : profile) (total : N) (text : list N) k,
  cue_parse p total text <> Panic k.
Proof. exact cue_parse_never_panics. Qed.

Theorem C12_cue_accessors_total : forall (p : profile) total text c ch bps k,
  cue_parse p total text = Ok c -> 1 <= ch -> 1 <= bps -> track_byte_ranges c ch bps <> Panic k.
Proof. exact cue_accessors_never_panic. Qed.

Theorem C12_sniff_total : forall (p : profile) (bytes : list N) k, sniff p bytes <> Panic k.
Proof. exact sniff_never_panics. Qed.

(* size of the built value: a block that parsed re-encodes to exactly as many bytes as the
   reader consumed for it (so nothing larger than the input is ever built) *)
Theorem C12_block_size_bounded : forall (utf8_valid : list N -> bool) s last b rest,
  Forall byte s -> read_block utf8_valid s = Ok (last, b, rest) ->
  exists bs', write_block last b = Ok bs' /\ lenN bs' + lenN rest = lenN s.
Proof.
  intros u s last b rest Hs H. destruct (read_block_inv u s last b rest Hs H) as (_ & _ & _ & _ & E). exact E.
Qed.

(* non-vacuity: inputs on which the unrepaired code panicked are handled *)
Example C12_nonvacuous_rate0 :
  let si := mkSI 4096 4096 0 0 0 2 16 1000 None in
  duration Debug si = Ok None /\ decoded_len Debug si = Ok (Some 4000).
Proof. vm_compute. split; reflexivity. Qed.
Example C12_nonvacuous_png_depth255 :
  exists m, sniff Debug ([137; 80; 78; 71; 13; 10; 26; 10; 0; 0; 0; 13; 73; 72; 68; 82; 0; 0; 0; 16; 0; 0; 0; 9; 255; 6; 0; 0; 0; 0; 0; 0; 0]) = Ok m
            /\ m_depth m = 1020.
Proof. eexists. vm_compute. split; reflexivity. Qed.
