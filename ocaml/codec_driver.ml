(* Driver for the extracted codec model (coq/codec/Extract.v).
   stdin: one JSON case per line (as printed by the harness, field "kind");
   stdout: one JSON result per line, same order.

   kinds: dec_stream, dec_subset, struct, write (frame description -> bytes; used by the C03
   generator), gen (seeded random valid frames -> bytes + expected PCM). *)
open Codec_model

(* ---------- number conversions ---------- *)
let rec pos_of_int n =
  if n = 1 then XH else if n land 1 = 1 then XI (pos_of_int (n lsr 1)) else XO (pos_of_int (n lsr 1))
let n_of_int n = if n = 0 then N0 else Npos (pos_of_int n)
let z_of_int i = if i = 0 then Z0 else if i > 0 then Zpos (pos_of_int i) else Zneg (pos_of_int (-i))
let rec int_of_pos = function XH -> 1 | XO p -> 2 * int_of_pos p | XI p -> 2 * int_of_pos p + 1
let int_of_n = function N0 -> 0 | Npos p -> int_of_pos p
let int_of_z = function Z0 -> 0 | Zpos p -> int_of_pos p | Zneg p -> - (int_of_pos p)
let rec nat_of_int n = if n = 0 then O else S (nat_of_int (n - 1))
let rec int_of_nat = function O -> 0 | S k -> 1 + int_of_nat k

let bytes_of_hex s =
  let n = String.length s / 2 in
  List.init n (fun i -> n_of_int (int_of_string ("0x" ^ String.sub s (2 * i) 2)))
let hex_of_bytes l = String.concat "" (List.map (fun b -> Printf.sprintf "%02x" (int_of_n b)) l)

(* ---------- tiny JSON ---------- *)
type json = JNull | JBool of bool | JInt of int | JStr of string | JArr of json list | JObj of (string * json) list

let parse_json (s : string) : json =
  let n = String.length s in
  let pos = ref 0 in
  let peek () = if !pos < n then s.[!pos] else '\000' in
  let adv () = incr pos in
  let rec ws () = if !pos < n && (peek () = ' ' || peek () = '\n' || peek () = '\t' || peek () = '\r') then (adv (); ws ()) in
  let rec value () =
    ws ();
    match peek () with
    | '{' -> adv (); ws ();
      if peek () = '}' then (adv (); JObj [])
      else begin
        let rec members acc =
          ws ();
          let k = (match value () with JStr k -> k | _ -> failwith "key") in
          ws (); if peek () <> ':' then failwith "colon"; adv ();
          let v = value () in
          ws ();
          if peek () = ',' then (adv (); members ((k, v) :: acc))
          else if peek () = '}' then (adv (); JObj (List.rev ((k, v) :: acc)))
          else failwith "obj"
        in members []
      end
    | '[' -> adv (); ws ();
      if peek () = ']' then (adv (); JArr [])
      else begin
        let rec elems acc =
          let v = value () in
          ws ();
          if peek () = ',' then (adv (); elems (v :: acc))
          else if peek () = ']' then (adv (); JArr (List.rev (v :: acc)))
          else failwith "arr"
        in elems []
      end
    | '"' -> adv ();
      let b = Buffer.create 16 in
      let rec str () =
        let c = peek () in
        if c = '"' then adv ()
        else if c = '\\' then begin
          adv ();
          (match peek () with
           | 'n' -> Buffer.add_char b '\n' | 't' -> Buffer.add_char b '\t' | 'r' -> Buffer.add_char b '\r'
           | 'u' -> pos := !pos + 4; Buffer.add_char b '?'
           | c -> Buffer.add_char b c);
          adv (); str ()
        end else (Buffer.add_char b c; adv (); str ())
      in str (); JStr (Buffer.contents b)
    | 't' -> pos := !pos + 4; JBool true
    | 'f' -> pos := !pos + 5; JBool false
    | 'n' -> pos := !pos + 4; JNull
    | _ ->
      let st = !pos in
      if peek () = '-' then adv ();
      while !pos < n && peek () >= '0' && peek () <= '9' do adv () done;
      JInt (int_of_string (String.sub s st (!pos - st)))
  in value ()

let field o k = match o with JObj l -> (try List.assoc k l with Not_found -> JNull) | _ -> JNull
let str_field o k = match field o k with JStr s -> s | _ -> ""
let int_field o k d = match field o k with JInt i -> i | _ -> d
let ints_of j = match j with JArr l -> List.map (function JInt i -> i | _ -> 0) l | _ -> []

(* ---------- names ---------- *)
let err_name = function
  | EEof -> "Io:UnexpectedEof" | EIo -> "Io:Other" | ESync -> "InvalidSyncCode" | EBlockSize -> "InvalidBlockSize"
  | ESampleRate -> "InvalidSampleRate" | ENonSubsetRate -> "NonSubsetSampleRate" | ENonSubsetBps -> "NonSubsetBitsPerSample"
  | EChannels -> "InvalidChannels" | EBps -> "InvalidBitsPerSample" | EFrameNumber -> "InvalidFrameNumber"
  | ECrc8 -> "Crc8Mismatch" | ECrc16 -> "Crc16Mismatch" | EBlockSizeMismatch -> "BlockSizeMismatch"
  | ERateMismatch -> "SampleRateMismatch" | EChannelsMismatch -> "ChannelsMismatch" | EBpsMismatch -> "BitsPerSampleMismatch"
  | EShortBlock -> "ShortBlock" | ESubframeHeader -> "InvalidSubframeHeader" | ESubframeType -> "InvalidSubframeHeaderType"
  | EWastedBits -> "ExcessiveWastedBits" | ECodingMethod -> "InvalidCodingMethod" | EPartitionOrder -> "InvalidPartitionOrder"
  | EFixedOrder -> "InvalidFixedOrder" | ELpcOrder -> "InvalidLpcOrder" | EQlpPrecision -> "InvalidQlpPrecision"
  | ENegativeShift -> "NegativeLpcShift" | ETooManySamples -> "TooManySamples" | EResidualOverflow -> "ResidualOverflow" | EOther -> "Other"
let panic_name = function
  | POverflow -> "overflow" | PDivZero -> "divzero" | PChunkZero -> "chunk0" | PUnwrap -> "unwrap"
  | PCapacity -> "capacity" | PSlice -> "slice" | PAssert -> "assert" | PFuel -> "fuel"
let end_name = function EndEof -> "eof" | EndErr e -> "err:" ^ err_name e | EndPanic k -> "panic:" ^ panic_name k
let res_name = function Ok _ -> "ok" | Err e -> "err:" ^ err_name e | Panic k -> "panic:" ^ panic_name k

let json_ints l = "[" ^ String.concat "," (List.map string_of_int l) ^ "]"

(* ---------- kinds ---------- *)
let run_dec_stream c =
  let bytes = bytes_of_hex (str_field c "bytes") in
  match dec_stream bytes with
  | None -> "{\"end\":\"badmeta\"}"
  | Some ((si, frames), e) ->
    let lens = List.map List.length frames in
    let samples = List.concat_map (fun f -> List.map int_of_z f) frames in
    Printf.sprintf "{\"end\":\"%s\",\"ch\":%d,\"bps\":%d,\"rate\":%d,\"frame_lens\":%s,\"samples\":%s}"
      (end_name e) (int_of_n si.si_channels) (int_of_n si.si_bps) (int_of_n si.si_rate) (json_ints lens) (json_ints samples)

let run_dec_subset c =
  let bytes = bytes_of_hex (str_field c "bytes") in
  let (frames, e) = stream_read_all (nat_of_int (List.length bytes + 1)) bytes [] in
  let fr = List.map (fun (h, s) ->
      Printf.sprintf "{\"samples\":%s,\"rate\":%d,\"ch\":%d,\"bps\":%d}" (json_ints (List.map int_of_z s))
        (int_of_n h.h_rate) (int_of_n (assign_channels h.h_assign)) (int_of_n h.h_bps)) frames in
  Printf.sprintf "{\"end\":\"%s\",\"frames\":[%s]}" (end_name e) (String.concat "," fr)

let run_struct c =
  let bytes = bytes_of_hex (str_field c "bytes") in
  let si_hex = str_field c "si" in
  let si = if si_hex = "" then None else parse_streaminfo (bytes_of_hex si_hex) in
  match struct_frame si bytes with
  | Ok (f, _) ->
    let decoded = List.map (fun sf -> json_ints (List.map int_of_z (sem_subframe f.f_hdr.h_bs sf))) f.f_subs in
    let rew = (match write_frame f with Some b -> hex_of_bytes b | None -> "") in
    let pcm = List.map (fun c -> json_ints (List.map int_of_z c)) (sem_frame f) in
    (* per subframe: serialised size in bits, kind, wasted bits, bit depth (for the C19 decision rule) *)
    let subs = List.mapi (fun i sf ->
        let b = int_of_n (subframe_bps f.f_hdr.h_assign f.f_hdr.h_bps (nat_of_int i)) in
        let kind = (match sf.sf_body with BConst _ -> "constant" | BVerb _ -> "verbatim" | BFixed _ -> "fixed" | BLpc _ -> "lpc") in
        Printf.sprintf "{\"bits\":%d,\"kind\":\"%s\",\"wasted\":%d,\"bps\":%d}"
          (List.length (write_subframe (n_of_int b) sf)) kind (int_of_n sf.sf_wasted) b) f.f_subs in
    Printf.sprintf "{\"end\":\"ok\",\"rewritten\":\"%s\",\"decoded\":[%s],\"wf\":%b,\"spec\":%b,\"pcm\":[%s],\"number\":%d,\"bs\":%d,\"canonical\":%b,\"subs\":[%s]}"
      rew (String.concat "," decoded) (wf_frame si f) (spec_frame f) (String.concat "," pcm) (int_of_n f.f_hdr.h_number) (int_of_n f.f_hdr.h_bs) (frame_canonical si bytes) (String.concat "," subs)
  | r -> Printf.sprintf "{\"end\":\"%s\"}" (res_name r)

(* the strict stream validator (Spec.spec_stream): judge a whole file, return the PCM it defines *)
let run_spec_stream c =
  let bytes = bytes_of_hex (str_field c "bytes") in
  match spec_stream bytes with
  | Ok (si, frames) ->
    let inter = List.map (fun fr -> List.map int_of_z (interleave_frame fr)) frames in
    Printf.sprintf "{\"end\":\"ok\",\"ch\":%d,\"bps\":%d,\"rate\":%d,\"frames\":%d,\"samples\":%s}"
      (int_of_n si.si_channels) (int_of_n si.si_bps) (int_of_n si.si_rate) (List.length frames) (json_ints (List.concat inter))
  | r -> Printf.sprintf "{\"end\":\"%s\"}" (res_name r)


(* ---- the encoder model against the implementation's own output (kind enc_stream) ----
   input: a file the encoder produced ("bytes"), the interleaved PCM it was given ("expect") and the
   options ("cfg": bs, po, mid_side, fast, lpc).  For every block the model encoder (Enc.enc_frame,
   LPC oracle = the parameters found in the implementation's LPC subframes) must reproduce the
   frame bytes; where the oracle cannot know an unchosen candidate (exhaustive stereo with LPC) each
   subframe must still be what Enc.enc_sub produces for the channel signal the header announces. *)
let rec take n l = if n = 0 then [] else match l with [] -> [] | x :: t -> x :: take (n - 1) t
let rec drop n l = if n = 0 then l else match l with [] -> [] | _ :: t -> drop (n - 1) t
let run_enc_stream c =
  let bytes = bytes_of_hex (str_field c "bytes") in
  let cfg = field c "cfg" in
  let expect = ints_of (field c "expect") in
  match read_metadata_min bytes with
  | None -> "{\"end\":\"badmeta\"}"
  | Some (si, audio) ->
    let ch = int_of_n si.si_channels and bps = si.si_bps and rate = si.si_rate in
    let bs = int_field cfg "bs" 4096 in
    let o = { eo_max_po = n_of_int (int_field cfg "po" 5);
              eo_mid_side = (field cfg "mid_side" = JBool true);
              eo_exhaustive = not (field cfg "fast" = JBool true);
              eo_rice2 = int_of_n bps > 16 } in
    let lpc_on = (field cfg "lpc" <> JNull) in
    let frames = ref 0 and fmatch = ref 0 and smatch = ref 0 and first = ref "" in
    let note k what model actual =
      if !first = "" then first := Printf.sprintf ",\"first_mismatch\":{\"frame\":%d,\"what\":\"%s\",\"model\":\"%s\",\"actual\":\"%s\"}" k what model actual in
    let rec loop k pcm audio =
      if pcm = [] then (if audio <> [] then note k "bytes-left-after-last-block" "" (hex_of_bytes (take 64 audio)))
      else begin
        let n = min bs (List.length pcm / ch) in
        let block = take (n * ch) pcm in
        let chans = List.init ch (fun ci -> List.filteri (fun i _ -> i mod ch = ci) block |> List.map z_of_int) in
        incr frames;
        match struct_frame (Some si) audio with
        | Ok (fa, rest) ->
          let actual = take (List.length audio - List.length rest) audio in
          let a = fa.f_hdr.h_assign in
          let lpcs = List.concat (List.mapi (fun i sf ->
              match sf.sf_body with
              | BLpc (order, _, prec, shift, coefs, _) ->
                let eb = int_of_n (subframe_bps a bps (nat_of_int i)) - int_of_n sf.sf_wasted in
                [((eb, sem_body fa.f_hdr.h_bs sf.sf_body), (((order, prec), shift), coefs))]
              | _ -> []) fa.f_subs) in
          let l = if lpc_on then Some (fun eb ys -> List.assoc_opt (int_of_n eb, ys) lpcs) else None in
          let model = enc_frame_bytes o l rate bps (n_of_int k) chans in
          if model = Some actual then (incr fmatch; incr smatch)
          else begin
            (* per subframe, for the channel signals of the announced assignment *)
            let ai = int_of_n a in
            let signals =
              (match ai, chans with
               | 8, [lc; rc] -> [lc; side_of lc rc]
               | 9, [lc; rc] -> [side_of lc rc; rc]
               | 10, [lc; rc] -> [mid_of lc rc; side_of lc rc]
               | _ -> chans) in
            let ok = ref (List.length signals = List.length fa.f_subs) in
            if !ok then List.iteri (fun i (xs, sf) ->
                let b = subframe_bps a bps (nat_of_int i) in
                let m = enc_sub o l b xs in
                if m <> sf then begin
                  ok := false;
                  let hexbits bl = String.concat "" (List.map (fun x -> if x then "1" else "0") bl) in
                  note k (Printf.sprintf "subframe %d" i) (hexbits (take 400 (write_subframe b m))) (hexbits (take 400 (write_subframe b sf)))
                end) (List.combine signals fa.f_subs);
            if !ok then incr smatch;
            let exh_stereo_lpc = lpc_on && o.eo_exhaustive && ch = 2 in
            if not (exh_stereo_lpc && !ok) then
              note k "frame" (match model with Some b -> hex_of_bytes (take 300 b) | None -> "none") (hex_of_bytes (take 300 actual))
          end;
          loop (k + 1) (drop (n * ch) pcm) rest
        | r -> note k ("actual-frame-unparsable:" ^ res_name r) "" ""
      end in
    loop 0 expect audio;
    Printf.sprintf "{\"end\":\"ok\",\"frames\":%d,\"frame_match\":%d,\"subs_match\":%d,\"lpc\":%b,\"exhaustive_stereo\":%b%s}"
      !frames !fmatch !smatch lpc_on (o.eo_exhaustive && ch = 2) !first


(* raw frame streams of FlacStreamWriter (kind enc_subset): frame k = Enc.enc_frame_bytes of write k,
   with header codes that never refer to STREAMINFO *)
let run_enc_subset c =
  let audio0 = bytes_of_hex (str_field c "bytes") in
  let cfg = field c "cfg" in
  let writes = (match field c "frames" with JArr l -> l | _ -> []) in
  let lpc_on = (field cfg "lpc" <> JNull) in
  let frames = ref 0 and fmatch = ref 0 and smatch = ref 0 and first = ref "" in
  let note k what model actual =
    if !first = "" then first := Printf.sprintf ",\"first_mismatch\":{\"frame\":%d,\"what\":\"%s\",\"model\":\"%s\",\"actual\":\"%s\"}" k what model actual in
  let rec loop k ws audio =
    match ws with
    | [] -> if audio <> [] then note k "bytes-left-after-last-frame" "" (hex_of_bytes (take 64 audio))
    | w :: rest_ws ->
      let ch = int_field w "ch" 1 and bps = n_of_int (int_field w "bps" 16) and rate = n_of_int (int_field w "rate" 44100) in
      let pcm = ints_of (field w "samples") in
      let chans = List.init ch (fun ci -> List.filteri (fun i _ -> i mod ch = ci) pcm |> List.map z_of_int) in
      let o = { eo_max_po = n_of_int (int_field cfg "po" 5);
                eo_mid_side = (field cfg "mid_side" = JBool true);
                eo_exhaustive = not (field cfg "fast" = JBool true);
                eo_rice2 = int_of_n bps > 16 } in
      incr frames;
      (match struct_frame None audio with
       | Ok (fa, rest) ->
         let actual = take (List.length audio - List.length rest) audio in
         let a = fa.f_hdr.h_assign in
         let lpcs = List.concat (List.mapi (fun i sf ->
             match sf.sf_body with
             | BLpc (order, _, prec, shift, coefs, _) ->
               let eb = int_of_n (subframe_bps a bps (nat_of_int i)) - int_of_n sf.sf_wasted in
               [((eb, sem_body fa.f_hdr.h_bs sf.sf_body), (((order, prec), shift), coefs))]
             | _ -> []) fa.f_subs) in
         let l = if lpc_on then Some (fun eb ys -> List.assoc_opt (int_of_n eb, ys) lpcs) else None in
         let model = enc_frame_bytes o l rate bps (n_of_int k) chans in
         if int_of_n fa.f_hdr.h_rate_code = 0 || int_of_n fa.f_hdr.h_bps_code = 0 then note k "header-refers-to-streaminfo" "" (hex_of_bytes (take 40 actual));
         if model = Some actual then (incr fmatch; incr smatch)
         else begin
           let signals =
             (match int_of_n a, chans with
              | 8, [lc; rc] -> [lc; side_of lc rc]
              | 9, [lc; rc] -> [side_of lc rc; rc]
              | 10, [lc; rc] -> [mid_of lc rc; side_of lc rc]
              | _ -> chans) in
           let ok = ref (List.length signals = List.length fa.f_subs) in
           if !ok then List.iteri (fun i (xs, sf) ->
               let b = subframe_bps a bps (nat_of_int i) in
               if enc_sub o l b xs <> sf then (ok := false; note k (Printf.sprintf "subframe %d" i) "" "")) (List.combine signals fa.f_subs);
           if !ok then incr smatch;
           let exh_stereo_lpc = lpc_on && o.eo_exhaustive && ch = 2 in
           if not (exh_stereo_lpc && !ok) then
             note k "frame" (match model with Some b -> hex_of_bytes (take 300 b) | None -> "none") (hex_of_bytes (take 300 actual))
         end;
         loop (k + 1) rest_ws rest
       | r -> note k ("actual-frame-unparsable:" ^ res_name r) "" "")
  in
  loop 0 writes audio0;
  Printf.sprintf "{\"end\":\"ok\",\"frames\":%d,\"frame_match\":%d,\"subs_match\":%d,\"lpc\":%b,\"exhaustive_stereo\":false%s}"
    !frames !fmatch !smatch lpc_on !first

(* ---- generator of valid streams (C03): one output line per generated stream ---- *)
let run_gen c =
  let open Codec_gen in
  let seed = int_field c "seed" 1 and count = int_field c "count" 10 in
  let subset_mode = (str_field c "mode" = "subset" || str_field c "mode" = "mutate_subset") in
  let mutate_mode = (str_field c "mode" = "mutate" || str_field c "mode" = "mutate_subset") in
  let r = { s = Int64.of_int (seed * 7919 + (if subset_mode then 13 else 0)) } in
  let out = Buffer.create 4096 in
  let made = ref 0 and tries = ref 0 in
  while !made < count && !tries < count * 20 do
    incr tries;
    let channels = if chance r 1 2 then pick r [1; 2; 2] else range r 1 8 in
    let bps = if subset_mode then pick r [8; 12; 16; 20; 24; 32] else (if chance r 1 2 then range r 1 32 else pick r [8; 12; 16; 20; 24; 32]) in
    let rate = pick r [44100; 48000; 8000; 96000; 22050; 192000; 1000; 65535; 655350; 12345; 700001; 32000; 1; 1048575; 255000; 88200] in
    let rate = if subset_mode && rate > 655350 then 96000 else rate in
    let nframes = range r 1 3 in
    let variable = chance r 1 3 in
    let sizes = List.init nframes (fun i ->
        if i < nframes - 1 then pick r [16; 17; 24; 32; 64; 192; 256; 100; 15]
        else if chance r 1 2 then range r 1 40 else pick r [16; 64; 192; 255; 256; 257; 576; 1000]) in
    let max_bs = List.fold_left max 1 sizes in
    let total = List.fold_left (+) 0 sizes in
    let declare_total = chance r 2 3 in
    let si = { si_min_bs = n_of_int max_bs; si_max_bs = n_of_int max_bs; si_min_fs = N0; si_max_fs = N0;
               si_rate = n_of_int rate; si_channels = n_of_int channels; si_bps = n_of_int bps;
               si_total = n_of_int (if declare_total then total else 0); si_md5 = [] } in
    let ok = ref true in
    let pos = ref 0 in
    let frames = List.mapi (fun i bs ->
        let number = if variable then !pos else i in
        pos := !pos + bs;
        let (f, _target) = gen_frame r ~subset:subset_mode ~rate ~bps ~channels ~bs ~number ~variable in
        let sio = if subset_mode then None else Some si in
        (match wf_frame sio f, spec_frame f with
         | true, true -> ()
         | _ -> ok := false);
        (match write_frame f with Some b -> (f, b) | None -> ok := false; (f, []))) sizes in
    (* near-valid mode: damage one field of one frame; the model decoder is the arbiter of what follows *)
    let mutation = ref "" in
    let frames =
      if mutate_mode && !ok then begin
        let k = below r (List.length frames) in
        List.mapi (fun i (f, b) ->
            if i = k then begin
              let (f', what) = mutate_frame r f in
              mutation := what;
              (match write_frame f' with Some b' -> (f, b') | None -> (f, b))
            end else (f, b)) frames
      end else frames in
    if !ok then begin
      incr made;
      let pcm = List.map (fun (f, _) -> List.map int_of_z (interleave_frame (sem_frame f))) frames in
      let body = List.concat_map (fun (_, b) -> List.map int_of_n b) frames in
      let bytes, kind =
        if subset_mode then (body, "dec_subset")
        else begin
          let md5kind = below r 3 in
          let md5 = if md5kind = 0 then List.init 16 (fun _ -> 0) else md5_of_pcm bps pcm in
          let md5 = if md5kind = 2 then (match md5 with x :: t -> (x lxor 1) :: t | [] -> []) else md5 in
          let sib = streaminfo_bytes ~min_bs:max_bs ~max_bs ~rate ~channels ~bps ~total:(if declare_total then total else 0) ~md5 in
          (* optionally a PADDING block after STREAMINFO *)
          let pad = if chance r 1 3 then [0x81; 0; 0; 3; 0; 0; 0] else [] in
          let hdr = [0x66; 0x4C; 0x61; 0x43; (if pad = [] then 0x80 else 0x00); 0; 0; 34] in
          (hdr @ sib @ pad @ body, (match md5kind with 0 -> "dec_stream:nomd5" | 1 -> "dec_stream:md5ok" | _ -> "dec_stream:md5bad"))
        end in
      let hexs = String.concat "" (List.map (Printf.sprintf "%02x") bytes) in
      let frames_json = String.concat "," (List.map (fun fr -> json_ints fr) pcm) in
      Buffer.add_string out (Printf.sprintf "{\"mutation\":\"%s\",\"id\":\"gen-%d-%d\",\"kind\":\"%s\",\"bytes\":\"%s\",\"ch\":%d,\"bps\":%d,\"rate\":%d,\"expect_frames\":[%s],\"expect\":%s}\n"
                               !mutation seed !made kind hexs channels bps rate frames_json (json_ints (List.concat pcm)))
    end
  done;
  Buffer.add_string out (Printf.sprintf "{\"gen_done\":%d,\"tries\":%d}" !made !tries);
  Buffer.contents out

let () =
  try
    while true do
      let line = input_line stdin in
      let line = String.trim line in
      if line <> "" then begin
        let out =
          try
            let c = parse_json line in
            (match str_field c "kind" with
             | "dec_stream" -> run_dec_stream c
             | "dec_subset" -> run_dec_subset c
             | "struct" -> run_struct c
             | "spec_stream" -> run_spec_stream c
             | "enc_stream" -> run_enc_stream c
             | "enc_subset" -> run_enc_subset c
             | "gen" -> run_gen c
             | k -> Printf.sprintf "{\"end\":\"unknown-kind:%s\"}" k)
          with
          | Stack_overflow -> "{\"end\":\"driver-stack-overflow\"}"
          | Failure m -> Printf.sprintf "{\"end\":\"driver-failure:%s\"}" m
        in
        print_string out; print_newline ()
      end
    done
  with End_of_file -> ()
