(* Properties C05 / C07 at the reader front-ends, for streams WITH a bad frame — statements only (proofs:
   Damaged.v).  The stream's frames decode up to some point (`good`), the next frame fails its check (SBad g:
   the decoder core errs after leaving g's samples in its frame buffer), anything may follow (`rest`); no
   hypothesis on STREAMINFO's total.  For EVERY seek-free history — read / fill_buf / consume / next in any
   order, any sizes — and every call of it that no failing call precedes:
     (1) what has been handed out so far plus what this call shows is a prefix of the data of the good frames:
         in order, without a gap, and nothing of the failed frame is ever delivered;
     (2) the call does not panic;
     (3) if the call reports the checksum error, then everything handed out plus what is still buffered is
         exactly the data of the good frames: the error is not raised early and no decoded sample is lost. *)
From FlacReaders Require Import Spec Lists_proofs Frame_proofs Core_proofs Run_proofs Damaged.
Open Scope N_scope.

Theorem C07_damaged_sample_reader : forall (F : file) (good : list frame) (g : frame) (rest : list slot) (ops : list sop),
  f_slots F = map SFrame good ++ SBad g :: rest ->
  Forall (wf_frame (f_channels F)) good -> sumlen (map SFrame good) < U64 ->
  no_sseek ops -> Forall s_consume_ok (snd (sample_run F ops)) ->
  forall pre x post, snd (sample_run F ops) = pre ++ x :: post ->
    Forall (fun y => failed (snd y) = false) pre ->
    prefix (s_delivered pre ++ s_shown x) (sdata (map SFrame good)) /\
    (forall p, snd x <> OPanic p) /\
    (snd x = OErr ECrc16 -> s_delivered pre ++ sr_buf (fst (fst x)) = sdata (map SFrame good)).
Proof.
  intros F good g rest ops Hs Hw Hr Hno Hc pre x post Htr Hpre.
  unfold sample_run in *. rewrite run_is_run_from in *.
  assert (I : SI good g rest [] (sample_new F)).
  { exists 0%nat. split; [apply dec_at_new; assumption|reflexivity]. }
  exact (damaged_sample_history F good g rest Hw Hr ops (sample_new F) [] I Hno Hc pre x post Htr Hpre).
Qed.

Theorem C07_damaged_byte_reader : forall (F : file) (good : list frame) (g : frame) (rest : list slot) (ops : list bop),
  f_slots F = map SFrame good ++ SBad g :: rest ->
  Forall (wf_frame (f_channels F)) good -> sumlen (map SFrame good) < U64 ->
  1 <= bytes_per_sample (f_bps F) <= 4 ->
  no_bseek ops -> Forall b_consume_ok (snd (byte_run F ops)) ->
  forall pre x post, snd (byte_run F ops) = pre ++ x :: post ->
    Forall (fun y => failed (snd y) = false) pre ->
    prefix (b_delivered pre ++ b_shown x) (bdata F (map SFrame good)) /\
    (forall p, snd x <> OPanic p) /\
    (snd x = OErr ECrc16 -> b_delivered pre ++ br_buf (fst (fst x)) = bdata F (map SFrame good)).
Proof.
  intros F good g rest ops Hs Hw Hr Hwd Hno Hc pre x post Htr Hpre.
  unfold byte_run in *. rewrite run_is_run_from in *.
  assert (I : BI F good g rest [] (byte_new F)).
  { exists 0%nat. split; [apply dec_at_new; assumption|reflexivity]. }
  exact (damaged_byte_history F good g rest Hw Hr Hwd ops (byte_new F) [] I Hno Hc pre x post Htr Hpre).
Qed.

(* the channel reader, seen through any channel c (code after the repair of its error path) *)
Theorem C07_damaged_channel_reader : forall (F : file) (good : list frame) (g : frame) (rest : list slot) (c : nat) (ops : list cop),
  f_slots F = map SFrame good ++ SBad g :: rest ->
  Forall (wf_frame (f_channels F)) good -> sumlen (map SFrame good) < U64 ->
  (c < N.to_nat (f_channels F))%nat -> f_rev F = Repaired ->
  no_cseek ops -> Forall c_consume_ok (snd (chan_run F ops)) ->
  forall pre x post, snd (chan_run F ops) = pre ++ x :: post ->
    Forall (fun y => failed (snd y) = false) pre ->
    prefix (c_delivered c pre ++ c_shown c x) (cdata c (map SFrame good)) /\
    (forall p, snd x <> OPanic p) /\
    (snd x = OErr ECrc16 -> c_delivered c pre ++ c_view c (fst (fst x)) = cdata c (map SFrame good)).
Proof.
  intros F good g rest c ops Hs Hw Hr Hc Hrev Hno Hcs pre x post Htr Hpre.
  unfold chan_run in *. rewrite run_is_run_from in *.
  assert (I : CI F good g rest c [] (chan_new F)).
  { exists 0%nat. split; [apply dec_at_new; assumption|]. cbn. split; [left; reflexivity|]. split; [reflexivity|]. split; [lia|].
    destruct c; reflexivity. }
  exact (damaged_chan_history F good g rest Hw Hr c Hc Hrev ops (chan_new F) [] I Hno Hcs pre x post Htr Hpre).
Qed.

(* ---- non-vacuity: two good stereo frames, a bad one, another frame; the error surfaces exactly when the good
   data is exhausted, and what the readers hand out before it is the good data *)
Definition ex_damaged : file :=
  {| f_slots := [SFrame [[1; 2; 3]; [-1; -2; -3]]%Z; SFrame [[4; 5]; [-4; -5]]%Z; SBad [[9; 9; 9]; [7; 7; 7]]%Z;
                 SFrame [[700; 8]; [-700; -8]]%Z];
     f_channels := 2; f_bps := 16; f_total := None; f_table := None; f_seekable := false; f_endian := LE;
     f_profile := Debug; f_usize_bits := 64; f_rev := Repaired |}.

Example C07_damaged_nonvacuous :
  outs (snd (sample_run ex_damaged [SRead 4; SFill; SConsume 1; SNext; SRead 100; SRead 100; SNext])) =
    [OSamples [1; -1; 2; -2]; OSamples [3; -3]; OUnit; OItem (Some (-3)); OSamples [4; -4; 5; -5]; OErr ECrc16;
     OItem (Some 700)]%Z /\
  outs (snd (byte_run ex_damaged [BRead 5; BFill; BConsume 7; BRead 100; BFill])) =
    [OBytes [1; 0; 255; 255; 2]; OBytes [0; 254; 255; 3; 0; 253; 255]; OUnit; OBytes [4; 0; 252; 255; 5; 0; 251; 255];
     OErr ECrc16] /\
  outs (snd (chan_run ex_damaged [CFill; CConsume 3; CFill; CConsume 2; CFill; CFill])) =
    [OChans [[1; 2; 3]; [-1; -2; -3]]; OUnit; OChans [[4; 5]; [-4; -5]]; OUnit; OErr ECrc16;
     OChans [[700; 8]; [-700; -8]]]%Z /\
  Forall (wf_frame 2) [[[1; 2; 3]; [-1; -2; -3]]; [[4; 5]; [-4; -5]]]%Z.
Proof.
  split; [vm_compute; reflexivity|]. split; [vm_compute; reflexivity|]. split; [vm_compute; reflexivity|].
  repeat constructor.
Qed.

Print Assumptions C07_damaged_sample_reader.
Print Assumptions C07_damaged_byte_reader.
Print Assumptions C07_damaged_channel_reader.
Print Assumptions C07_damaged_nonvacuous.
