(* Property C13 — success is only reported when the output really reached the underlying stream.
   Statements in full; proofs by `exact`.  The model (IoFault.v) is of the code AFTER the two fixes
   (worktree commits 441bd12, b2e53f1); the `*_unfixed_refuted` examples show the old code failing. *)
From FlacBase Require Import Res Bits.
From FlacUpdIo Require Import GenUpd Update IoFault IoFault_proofs.
Open Scope N_scope.

(* the general statement: for every program at the writer interface, every fault schedule, bare device
   or BufWriter of any capacity: Ok from the writer's whole life (program + drop) means the device is
   exactly what the program produces on a perfect device.  Through a BufWriter this needs the program to
   end with a checked flush (or seek) — which is what the fixes add. *)
Theorem C13_writer_ok_means_delivered :
  forall (st : stack) (p : list wop) (w w' : world),
    run_writer st p w = (Ok tt, w') ->
    (match st with SRaw => true | SBuf _ => ends_flushed p end) = true ->
    wdev w' = ideal p (wdev w).
Proof. exact run_writer_ok_complete. Qed.

(* encode + finalize (Encoder::new / encode / finalize_inner), any front-end, any chunking of the
   output into write calls, bare device or BufWriter (the `create` constructors): Ok means the device
   holds the finished file = final header ++ frames *)
Theorem C13_encode_finalize :
  forall (st : stack) (ck : list N -> list (list N)) (pre hdr0 : list N) (frames : list (list N)) (hdr1 : list N)
         (sc : sched) (w' : world),
    ck_ok ck -> length hdr1 = length hdr0 ->
    run_writer st (encode_prog ck (length pre) hdr0 frames hdr1)
               {| wdev := {| data := pre; pos := length pre |}; wsched := sc |} = (Ok tt, w') ->
    data (wdev w') = pre ++ hdr1 ++ concat frames.
Proof. exact encode_ok_complete. Qed.

(* write_blocks on the caller's writer *)
Theorem C13_write_blocks :
  forall (ck : list N -> list (list N)) (bytes : list N) (d : dev) (sc : sched) (w' : world),
    ck_ok ck ->
    run_writer SRaw (write_blocks_prog ck bytes) {| wdev := d; wsched := sc |} = (Ok tt, w') ->
    wdev w' = put bytes d.
Proof. exact write_blocks_ok_complete. Qed.

(* the defect F-C13b as a theorem about the old program (no flush after the header rewrite) *)
Example C13_create_unfixed_refuted :
  let sc := {| sw := {| pending := [FOk]; dflt_err := true |}; sf := quiet; ss := quiet; sr := quiet |} in
  let '(r, w') := run_writer (SBuf 8192) (encode_prog_unfixed whole 0 [1; 2] [[3]; [4]] [7; 8])
                             {| wdev := {| data := []; pos := 0 |}; wsched := sc |} in
  r = Ok tt /\ data (wdev w') = [1; 2; 3; 4] /\ data (wdev w') <> [7; 8; 3; 4].
Proof. exact create_unfixed_refuted. Qed.
