(* updateio/IoFault_proofs.v — theorems about the I/O model (property C13). *)
From FlacBase Require Import Res Bits.
From FlacUpdIo Require Import GenUpd Update Update_proofs IoFault.
Open Scope N_scope.

(* ---------------------------------------------------------------- put *)
Lemma put_nil d : put [] d = d.
Proof. reflexivity. Qed.

Lemma dev_eta d : {| data := data d; pos := pos d |} = d.
Proof. destruct d; reflexivity. Qed.

Lemma prefix_len (d : dev) : length (firstn (pos d) (data d) ++ repeat 0 (pos d - length (data d))) = pos d.
Proof.
  rewrite app_length, firstn_length, repeat_length. lia.
Qed.

Lemma skipn_skipn' {A} (a b : nat) (l : list A) : skipn a (skipn b l) = skipn (b + a) l.
Proof.
  revert l. induction b as [|b IH]; intros l; [reflexivity|]. destruct l as [|x l]; cbn [skipn Nat.add].
  - now destruct a.
  - apply IH.
Qed.

Lemma put_app b1 b2 d : put b2 (put b1 d) = put (b1 ++ b2) d.
Proof.
  destruct b1 as [|x1 b1]; [reflexivity|]. destruct b2 as [|x2 b2]; [now rewrite app_nil_r|].
  remember (x1 :: b1) as c1. remember (x2 :: b2) as c2.
  assert (N1 : c1 <> []) by (subst; discriminate). assert (N2 : c2 <> []) by (subst; discriminate).
  assert (N12 : c1 ++ c2 <> []) by (subst; discriminate).
  unfold put at 2. destruct c1 as [|y1 t1]; [congruence|]. clear Heqc1. set (c1 := y1 :: t1) in *.
  unfold put at 1. destruct c2 as [|y2 t2]; [congruence|]. clear Heqc2. set (c2 := y2 :: t2) in *.
  unfold put. destruct (c1 ++ c2) as [|z t] eqn:E; [congruence|]. rewrite <- E. clear E.
  cbn [data pos].
  set (A := firstn (pos d) (data d) ++ repeat 0 (pos d - length (data d))).
  assert (LA : length A = pos d) by apply prefix_len.
  set (T := skipn (pos d + length c1) (data d)).
  f_equal.
  - (* data *)
    replace (firstn (pos d) (data d) ++ repeat 0 (pos d - length (data d)) ++ c1 ++ T) with ((A ++ c1) ++ T)
      by (unfold A; now rewrite <- !app_assoc).
    assert (L1 : length (A ++ c1) = (pos d + length c1)%nat) by (rewrite app_length; lia).
    rewrite firstn_app, firstn_all2 by lia. rewrite L1, Nat.sub_diag. cbn [firstn]. rewrite app_nil_r.
    replace (pos d + length c1 - length ((A ++ c1) ++ T))%nat with 0%nat by (rewrite app_length; lia).
    cbn [repeat app].
    rewrite skipn_app, L1. rewrite skipn_all2 by lia. cbn [app].
    replace (pos d + length c1 + length c2 - (pos d + length c1))%nat with (length c2) by lia.
    unfold T. rewrite skipn_skipn'.
    replace (pos d + length c1 + length c2)%nat with (pos d + length (c1 ++ c2))%nat by (rewrite app_length; lia).
    unfold A. now rewrite <- !app_assoc.
  - rewrite app_length. lia.
Qed.

Lemma put_data_overwrite bytes file start : (start <= length file)%nat ->
  data (put bytes {| data := file; pos := start |}) = overwrite file start bytes.
Proof.
  intros H. unfold overwrite. destruct bytes as [|x t].
  - cbn. rewrite Nat.add_0_r. now rewrite firstn_skipn.
  - unfold put. cbn [data pos]. replace (start - length file)%nat with 0%nat by lia. reflexivity.
Qed.

(* ---------------------------------------------------------------- single device calls *)
Definition plen (w : world) : nat := length (pending (sw (wsched w))).

Lemma next_cases s : let '(f, s') := next s in
  length (pending s') = pred (length (pending s)) /\
  (pending s = [] -> f = FOk \/ f = FErr) /\
  (forall g, In g (pending s') -> In g (pending s)) /\
  (f = FOk \/ f = FErr \/ In f (pending s)).
Proof.
  unfold next. destruct s as [[|f r] d]; cbn.
  - destruct d; repeat split; auto; intros; try discriminate.
  - repeat split; auto; intros; try discriminate; try (right; right; now left); try (now right).
Qed.

Lemma dev_write_spec b w :
  match dev_write b w with
  | (IOk n, w') => wdev w' = put (firstn n b) (wdev w) /\ (n <= length b)%nat /\ plen w' = pred (plen w) /\ (plen w = 0%nat -> n = length b)
  | (IErr true, w') => wdev w' = wdev w /\ plen w' = pred (plen w) /\ (0 < plen w)%nat
  | (IErr false, w') => wdev w' = wdev w /\ plen w' = pred (plen w)
  end.
Proof.
  unfold dev_write, plen. pose proof (next_cases (sw (wsched w))) as H.
  destruct (next (sw (wsched w))) as [f s']. destruct H as (L & D & _ & _).
  destruct f; cbn [wdev wsched set_sw sw].
  - rewrite firstn_all. repeat split; auto.
  - repeat split; auto; try apply Nat.le_min_r.
    intros Z. destruct (pending (sw (wsched w))); [|discriminate]. destruct (D eq_refl); discriminate.
  - repeat split; auto. destruct (pending (sw (wsched w))); [destruct (D eq_refl); discriminate|cbn; lia].
  - repeat split; auto.
Qed.

(* ---------------------------------------------------------------- write_all / flush_buf *)
(* success: everything was written where the device stood, nothing is left *)
Lemma write_loop_ok fuel : forall b w b' w', write_loop fuel b w = (Ok tt, b', w') ->
  b' = [] /\ wdev w' = put b (wdev w).
Proof.
  induction fuel as [|f IH]; intros b w b' w' H; destruct b as [|x t].
  - cbn in H. inversion H; subst. auto.
  - cbn in H. discriminate.
  - cbn in H. inversion H; subst. auto.
  - cbn [write_loop] in H. pose proof (dev_write_spec (x :: t) w) as S.
    destruct (dev_write (x :: t) w) as [[n|[|]] w1].
    + destruct S as (D & Ln & _ & _). destruct n as [|n]; [discriminate|].
      apply IH in H. destruct H as [-> H]. split; auto. rewrite H, D, put_app.
      now rewrite firstn_skipn.
    + destruct S as (D & _). apply IH in H. destruct H as [-> H]. split; auto. now rewrite H, D.
    + discriminate.
Qed.

(* whatever happens, what is on the device plus what is still buffered is what should be there *)
Lemma write_loop_abs fuel : forall b w r b' w', write_loop fuel b w = (r, b', w') ->
  put b' (wdev w') = put b (wdev w).
Proof.
  induction fuel as [|f IH]; intros b w r b' w' H; destruct b as [|x t].
  - cbn in H. inversion H; subst. auto.
  - cbn in H. inversion H; subst. auto.
  - cbn in H. inversion H; subst. auto.
  - cbn [write_loop] in H. pose proof (dev_write_spec (x :: t) w) as S.
    destruct (dev_write (x :: t) w) as [[n|[|]] w1].
    + destruct S as (D & Ln & _ & _). destruct n as [|n].
      * inversion H; subst. rewrite D. reflexivity.
      * apply IH in H. rewrite H, D, put_app. now rewrite firstn_skipn.
    + destruct S as (D & _). apply IH in H. now rewrite H, D.
    + destruct S as (D & _). inversion H; subst. now rewrite D.
Qed.

Lemma write_loop_plen fuel : forall b w r b' w', write_loop fuel b w = (r, b', w') -> (plen w' <= plen w)%nat.
Proof.
  induction fuel as [|f IH]; intros b w r b' w' H; destruct b as [|x t]; try (cbn in H; inversion H; subst; lia).
  cbn [write_loop] in H. pose proof (dev_write_spec (x :: t) w) as S.
  destruct (dev_write (x :: t) w) as [[n|[|]] w1].
  - destruct S as (_ & _ & P & _). destruct n as [|n]; [inversion H; subst; lia|]. apply IH in H. lia.
  - destruct S as (_ & P & _). apply IH in H. lia.
  - destruct S as (_ & P). inversion H; subst. lia.
Qed.

(* the fuel is enough: the loop never stops for lack of it *)
Lemma write_loop_fuel fuel : forall b w, (plen w < fuel)%nat -> is_panic (fst (fst (write_loop fuel b w))) = false.
Proof.
  induction fuel as [|f IH]; intros b w L; [lia|]. destruct b as [|x t]; [reflexivity|].
  cbn [write_loop]. pose proof (dev_write_spec (x :: t) w) as S.
  destruct (dev_write (x :: t) w) as [[n|[|]] w1].
  - destruct S as (_ & Ln & P & Z). destruct n as [|n]; [reflexivity|].
    destruct (plen w) as [|p] eqn:E.
    + rewrite (Z eq_refl). rewrite skipn_all. destruct f; reflexivity.
    + apply IH. lia.
  - destruct S as (_ & P & Pos). apply IH. lia.
  - reflexivity.
Qed.

Lemma write_all_ok b w w' : write_all b w = (Ok tt, w') -> wdev w' = put b (wdev w).
Proof.
  unfold write_all. destruct (write_loop (wfuel w) b w) as [[r b'] w1] eqn:E. intros H. inversion H; subst.
  now apply write_loop_ok in E.
Qed.
Lemma write_all_plen b w r w' : write_all b w = (r, w') -> (plen w' <= plen w)%nat.
Proof.
  unfold write_all. destruct (write_loop (wfuel w) b w) as [[r0 b'] w1] eqn:E. intros H. inversion H; subst.
  now apply write_loop_plen in E.
Qed.
Lemma write_all_no_panic b w : is_panic (fst (write_all b w)) = false.
Proof.
  unfold write_all. pose proof (write_loop_fuel (wfuel w) b w) as H.
  destruct (write_loop (wfuel w) b w) as [[r b'] w1]. cbn in *. apply H. unfold wfuel, plen. lia.
Qed.
Lemma flush_buf_no_panic b w : is_panic (fst (fst (bw_flush_buf b w))) = false.
Proof. unfold bw_flush_buf. apply write_loop_fuel. unfold wfuel, plen. lia. Qed.

(* ---------------------------------------------------------------- flush / seek on the device *)
Lemma dev_flush_ok w w' : lift (dev_flush w) = (Ok tt, w') -> wdev w' = wdev w.
Proof.
  unfold dev_flush. destruct (next (sf (wsched w))) as [f s']. destruct f; cbn; intros H; inversion H; subst; reflexivity.
Qed.
Lemma dev_flush_plen w : plen (snd (dev_flush w)) = plen w.
Proof. unfold dev_flush. destruct (next (sf (wsched w))) as [f s']. destruct f; reflexivity. Qed.
Lemma dev_seek_ok p w a w' : lift (dev_seek p w) = (Ok a, w') -> wdev w' = {| data := data (wdev w); pos := p |}.
Proof.
  unfold dev_seek. destruct (next (ss (wsched w))) as [f s']. destruct f; cbn; intros H; inversion H; subst; reflexivity.
Qed.
Lemma dev_seek_plen p w : plen (snd (dev_seek p w)) = plen w.
Proof. unfold dev_seek. destruct (next (ss (wsched w))) as [f s']. destruct f; reflexivity. Qed.
Lemma lift_no_panic {A} (x : ior A * world) : is_panic (fst (lift x)) = false.
Proof. destruct x as [[a|i] w]; reflexivity. Qed.

(* ---------------------------------------------------------------- BufWriter *)
Definition is_sync (op : wop) : bool := match op with WFlush | WSeek _ | WSeekCur => true | _ => false end.

Lemma length_zero_nil {A} (l : list A) : length l = 0%nat -> l = [].
Proof. destruct l; [reflexivity|discriminate]. Qed.

Lemma bw_write_all_ok cap b bytes w b' w' : bw_write_all cap b bytes w = (Ok tt, b', w') ->
  put b' (wdev w') = put bytes (put b (wdev w)).
Proof.
  unfold bw_write_all. destruct (length bytes <? cap - length b)%nat eqn:C1.
  - intros H. inversion H; subst. now rewrite put_app.
  - apply Nat.ltb_ge in C1.
    destruct (cap - length b <? length bytes)%nat eqn:C2.
    + destruct (bw_flush_buf b w) as [[r b1] w1] eqn:F. destruct r as [[]|e|k]; try (intros H; inversion H; fail).
      apply write_loop_ok in F. destruct F as [-> D1].
      destruct (cap <=? length bytes)%nat.
      * destruct (write_all bytes w1) as [r2 w2] eqn:W. intros H. inversion H; subst.
        apply write_all_ok in W. now rewrite put_nil, W, D1.
      * intros H. inversion H; subst. cbn [app]. now rewrite D1.
    + apply Nat.ltb_ge in C2. destruct (cap <=? length bytes)%nat eqn:C3.
      * apply Nat.leb_le in C3. destruct bytes as [|x t].
        { cbn. intros H. inversion H; subst. reflexivity. }
        assert (b = []) by (apply length_zero_nil; cbn [length] in *; lia). subst b.
        destruct (write_all (x :: t) w) as [r2 w2] eqn:W. intros H. inversion H; subst.
        apply write_all_ok in W. now rewrite !put_nil, W.
      * intros H. inversion H; subst. now rewrite put_app.
Qed.

Lemma bw_write_step cap b bytes w x b1 w1 : bw_write cap b bytes w = (x, b1, w1) ->
  match x with
  | WOk n => put b1 (wdev w1) = put (firstn n bytes) (put b (wdev w)) /\ (n <= length bytes)%nat
  | WIntr => put b1 (wdev w1) = put b (wdev w)
  | _ => True
  end.
Proof.
  unfold bw_write. destruct (length bytes <? cap - length b)%nat eqn:C1.
  - intros H. inversion H; subst. rewrite firstn_all, put_app. auto.
  - apply Nat.ltb_ge in C1.
    assert (DW : forall bb ww xx bb1 ww1, put bb (wdev ww) = put b (wdev w) ->
              (match dev_write bytes ww with
               | (IOk n, w2) => (WOk n, bb, w2) | (IErr true, w2) => (WIntr, bb, w2) | (IErr false, w2) => (WFail, bb, w2) end) = (xx, bb1, ww1) ->
              bb = [] ->
              match xx with
              | WOk n => put bb1 (wdev ww1) = put (firstn n bytes) (put b (wdev w)) /\ (n <= length bytes)%nat
              | WIntr => put bb1 (wdev ww1) = put b (wdev w)
              | _ => True end).
    { intros bb ww xx bb1 ww1 A H E. subst bb. pose proof (dev_write_spec bytes ww) as S.
      destruct (dev_write bytes ww) as [[n|[|]] w2]; inversion H; subst; auto.
      - destruct S as (D & Ln & _). cbn [put] in A |- *. rewrite D, A. auto.
      - destruct S as (D & _). cbn [put] in A |- *. now rewrite D. }
    destruct (cap - length b <? length bytes)%nat eqn:C2.
    + destruct (bw_flush_buf b w) as [[r bf] wf] eqn:F. destruct r as [[]|e|k]; try (intros H; inversion H; subst; exact I).
      apply write_loop_ok in F. destruct F as [-> D1].
      destruct (cap <=? length bytes)%nat.
      * intros H. eapply (DW [] wf); [cbn [put]; exact D1 | exact H | reflexivity].
      * intros H. inversion H; subst. rewrite firstn_all. cbn [app]. rewrite D1. auto.
    + apply Nat.ltb_ge in C2. destruct (cap <=? length bytes)%nat eqn:C3.
      * apply Nat.leb_le in C3. destruct bytes as [|y t].
        { cbn. pose proof (dev_write_spec [] w) as S. destruct (dev_write [] w) as [[n|[|]] w2]; intros H; inversion H; subst; auto.
          - destruct S as (D & Ln & _). cbn in Ln. assert (n = 0%nat) by lia. subst n. cbn in D. rewrite D. cbn. auto.
          - destruct S as (D & _). now rewrite D. }
        assert (b = []) by (apply length_zero_nil; cbn [length] in *; lia). subst b.
        intros H. eapply (DW [] w); [reflexivity | exact H | reflexivity].
      * intros H. inversion H; subst. rewrite firstn_all, put_app. auto.
Qed.

Lemma bw_write_loop_ok fuel cap : forall b bytes w b' w', bw_write_loop fuel cap b bytes w = (Ok tt, b', w') ->
  put b' (wdev w') = put bytes (put b (wdev w)).
Proof.
  induction fuel as [|f IH]; intros b bytes w b' w' H; destruct bytes as [|x t];
    try (cbn in H; inversion H; subst; reflexivity); try (cbn in H; discriminate).
  cbn [bw_write_loop] in H. destruct (bw_write cap b (x :: t) w) as [[r b1] w1] eqn:E.
  apply bw_write_step in E. destruct r as [n| | |]; try discriminate.
  - destruct n as [|n]; [discriminate|]. destruct E as [E Ln]. apply IH in H. rewrite H, E, put_app. now rewrite firstn_skipn.
  - apply IH in H. now rewrite H, E.
Qed.

Lemma bw_flush_ok b w b' w' : bw_flush b w = (Ok tt, b', w') -> b' = [] /\ wdev w' = put b (wdev w).
Proof.
  unfold bw_flush. destruct (bw_flush_buf b w) as [[r b1] w1] eqn:F. destruct r as [[]|e|k]; try discriminate.
  apply write_loop_ok in F. destruct F as [-> D]. destruct (lift (dev_flush w1)) as [r2 w2] eqn:L.
  intros H. inversion H; subst. apply dev_flush_ok in L. split; auto. congruence.
Qed.
Lemma bw_seek_ok p b w b' w' : bw_seek p b w = (Ok tt, b', w') ->
  b' = [] /\ wdev w' = {| data := data (put b (wdev w)); pos := p |}.
Proof.
  unfold bw_seek. destruct (bw_flush_buf b w) as [[r b1] w1] eqn:F. destruct r as [[]|e|k]; try discriminate.
  apply write_loop_ok in F. destruct F as [-> D]. destruct (lift (dev_seek p w1)) as [r2 w2] eqn:L.
  intros H. destruct r2 as [a|e|k]; cbn in H; inversion H; subst. apply dev_seek_ok in L. split; auto. congruence.
Qed.
Lemma bw_seek_cur_ok b w b' w' : bw_seek_cur b w = (Ok tt, b', w') -> b' = [] /\ wdev w' = put b (wdev w).
Proof.
  unfold bw_seek_cur. destruct (bw_flush_buf b w) as [[r b1] w1] eqn:F. destruct r as [[]|e|k]; try discriminate.
  apply write_loop_ok in F. destruct F as [-> D]. unfold dev_seek_cur. destruct (lift (dev_seek (pos (wdev w1)) w1)) as [r2 w2] eqn:L.
  intros H. destruct r2 as [a|e|k]; cbn in H; inversion H; subst. apply dev_seek_ok in L. split; auto.
  rewrite L, dev_eta. exact D.
Qed.

(* one op through a BufWriter: the logical device (what is written plus what is buffered) moves exactly
   as the op moves a perfect device; after flush/seek nothing is buffered *)
Lemma run_wop_buf_ok cap op b w b' w' : run_wop (SBuf cap) op b w = (Ok tt, b', w') ->
  put b' (wdev w') = ideal_op op (put b (wdev w)) /\ (is_sync op = true -> b' = []).
Proof.
  destruct op; cbn [run_wop ideal_op is_sync]; intros H.
  - apply bw_write_all_ok in H. split; [exact H|discriminate].
  - apply bw_write_loop_ok in H. split; [exact H|discriminate].
  - apply bw_seek_ok in H. destruct H as [-> H]. rewrite put_nil. auto.
  - apply bw_seek_cur_ok in H. destruct H as [-> H]. rewrite put_nil. auto.
  - apply bw_flush_ok in H. destruct H as [-> H]. rewrite put_nil. auto.
Qed.

Lemma run_wop_raw_ok op w b' w' : run_wop SRaw op [] w = (Ok tt, b', w') ->
  b' = [] /\ wdev w' = ideal_op op (wdev w).
Proof.
  destruct op; cbn [run_wop ideal_op]; intros H.
  - destruct (write_all bytes w) as [r w1] eqn:W. inversion H; subst. apply write_all_ok in W. auto.
  - destruct (write_all bytes w) as [r w1] eqn:W. inversion H; subst. apply write_all_ok in W. auto.
  - destruct (lift (dev_seek p w)) as [r w1] eqn:L. destruct r as [a|e|k]; cbn in H; inversion H; subst.
    apply dev_seek_ok in L. auto.
  - unfold dev_seek_cur in H. destruct (lift (dev_seek (pos (wdev w)) w)) as [r w1] eqn:L. destruct r as [a|e|k]; cbn in H; inversion H; subst.
    apply dev_seek_ok in L. rewrite L, dev_eta. auto.
  - destruct (lift (dev_flush w)) as [r w1] eqn:L. inversion H; subst. apply dev_flush_ok in L. auto.
Qed.

Lemma run_wops_raw_ok p : forall w b' w', run_wops SRaw p [] w = (Ok tt, b', w') ->
  b' = [] /\ wdev w' = ideal p (wdev w).
Proof.
  induction p as [|op r IH]; intros w b' w' H; cbn [run_wops] in H.
  - inversion H; subst. auto.
  - destruct (run_wop SRaw op [] w) as [[x b1] w1] eqn:E. destruct x as [[]|e|k]; try discriminate.
    apply run_wop_raw_ok in E. destruct E as [-> E]. apply IH in H. destruct H as [-> H]. split; auto.
    unfold ideal in *. cbn [fold_left]. now rewrite H, E.
Qed.

Lemma run_wops_buf_ok cap p : forall c b w b' w', run_wops (SBuf cap) p b w = (Ok tt, b', w') ->
  (c = true -> b = []) ->
  put b' (wdev w') = ideal p (put b (wdev w)) /\ (clean_after c p = true -> b' = []).
Proof.
  induction p as [|op r IH]; intros c b w b' w' H Hc; cbn [run_wops] in H.
  - inversion H; subst. cbn [clean_after]. auto.
  - destruct (run_wop (SBuf cap) op b w) as [[x b1] w1] eqn:E. destruct x as [[]|e|k]; try discriminate.
    apply run_wop_buf_ok in E. destruct E as [E S].
    destruct (IH (is_sync op) _ _ _ _ H S) as [G1 G2]. split.
    + unfold ideal in *. cbn [fold_left]. now rewrite G1, E.
    + destruct op; cbn [clean_after is_sync] in *; exact G2.
Qed.

(* ================================================================ the writer theorem *)
(* Ok from the whole life of the writer (program, then drop) means the device is exactly what the program
   produces on a perfect device — for the bare device always, through a BufWriter when the program ends
   with a checked flush or seek *)
Theorem run_writer_ok_complete st p w w' :
  run_writer st p w = (Ok tt, w') ->
  (match st with SRaw => true | SBuf _ => ends_flushed p end) = true ->
  wdev w' = ideal p (wdev w).
Proof.
  unfold run_writer. destruct (run_wops st p [] w) as [[r b] w1] eqn:E. destruct st as [|cap].
  - intros H _. inversion H; subst. now apply run_wops_raw_ok in E.
  - destruct (bw_flush_buf b w1) as [[r2 b2] w2] eqn:F. intros H Hf. inversion H; subst.
    destruct (run_wops_buf_ok cap p true [] w b w1 E (fun _ => eq_refl)) as [G1 G2].
    rewrite (G2 Hf) in *. rewrite put_nil in G1. cbn in F. unfold bw_flush_buf in F. cbn in F. inversion F; subst. exact G1.
Qed.

(* ---------------------------------------------------------------- the crate's writer programs *)
Lemma ideal_app p q d : ideal (p ++ q) d = ideal q (ideal p d).
Proof. unfold ideal. now rewrite fold_left_app. Qed.

Lemma ideal_write_all_chunks cs : forall d, ideal (map WWriteAll cs) d = put (concat cs) d.
Proof.
  induction cs as [|c r IH]; intros d; [reflexivity|].
  cbn [map concat]. change (ideal (WWriteAll c :: map WWriteAll r) d) with (ideal (map WWriteAll r) (put c d)).
  now rewrite IH, put_app.
Qed.
Lemma ideal_write_loop_chunks cs : forall d, ideal (map WWriteLoop cs) d = put (concat cs) d.
Proof.
  induction cs as [|c r IH]; intros d; [reflexivity|].
  cbn [map concat]. change (ideal (WWriteLoop c :: map WWriteLoop r) d) with (ideal (map WWriteLoop r) (put c d)).
  now rewrite IH, put_app.
Qed.
Lemma ideal_frames ck frames : ck_ok ck -> forall d,
  ideal (flat_map (fun f => map WWriteLoop (ck f)) frames) d = put (concat frames) d.
Proof.
  intros K. induction frames as [|f r IH]; intros d; [reflexivity|].
  cbn [flat_map concat]. rewrite ideal_app, ideal_write_loop_chunks, K, IH, put_app. reflexivity.
Qed.

Lemma clean_after_app c p q : clean_after c (p ++ q) = clean_after (clean_after c p) q.
Proof. revert c. induction p as [|op r IH]; intros c; [reflexivity|]. destruct op; cbn [app clean_after]; apply IH. Qed.

Lemma encode_prog_ends_flushed ck start hdr0 frames hdr1 : ends_flushed (encode_prog ck start hdr0 frames hdr1) = true.
Proof.
  unfold ends_flushed, encode_prog. cbn [clean_after]. rewrite !clean_after_app. cbn [clean_after].
  rewrite clean_after_app. reflexivity.
Qed.

(* the finished file: the final header over the placeholder, then the frames *)
Lemma ideal_encode ck pre hdr0 frames hdr1 : ck_ok ck -> length hdr1 = length hdr0 ->
  data (ideal (encode_prog ck (length pre) hdr0 frames hdr1) {| data := pre; pos := length pre |}) = pre ++ hdr1 ++ concat frames.
Proof.
  intros K L. unfold encode_prog.
  change (ideal (WSeekCur :: ?p) ?d) with (ideal p d).
  rewrite ideal_app, ideal_write_all_chunks, K. rewrite ideal_app, (ideal_frames ck frames K), put_app.
  change (ideal (WSeek ?s :: ?p) ?d) with (ideal p {| data := data d; pos := s |}).
  rewrite ideal_app, ideal_write_all_chunks, K. unfold ideal at 1. cbn [fold_left ideal_op].
  remember (hdr0 ++ concat frames) as body.
  assert (D1 : data (put body {| data := pre; pos := length pre |}) = pre ++ body).
  { destruct body as [|x t]; [cbn; now rewrite app_nil_r|]. unfold put. cbn [data pos].
    rewrite firstn_all, Nat.sub_diag. cbn [repeat app]. rewrite skipn_all2 by lia. now rewrite app_nil_r. }
  rewrite D1. rewrite put_data_overwrite by (rewrite app_length; lia).
  unfold overwrite. subst body. rewrite firstn_app, firstn_all, Nat.sub_diag. cbn [firstn]. rewrite app_nil_r.
  rewrite L. rewrite skipn_app, skipn_all2 by lia.
  replace (length pre + length hdr0 - length pre)%nat with (length hdr0) by lia.
  rewrite skipn_app, skipn_all, Nat.sub_diag. reflexivity.
Qed.

(* encode + finalize, all three front-ends, any writer stack, any chunking, any fault schedule:
   Ok means the device holds the finished file *)
Theorem encode_ok_complete st ck pre hdr0 frames hdr1 sc w' :
  ck_ok ck -> length hdr1 = length hdr0 ->
  run_writer st (encode_prog ck (length pre) hdr0 frames hdr1) {| wdev := {| data := pre; pos := length pre |}; wsched := sc |} = (Ok tt, w') ->
  data (wdev w') = pre ++ hdr1 ++ concat frames.
Proof.
  intros K L H. apply run_writer_ok_complete in H.
  - cbn [wdev] in H. rewrite H. now apply ideal_encode.
  - destruct st; [reflexivity|apply encode_prog_ends_flushed].
Qed.

(* write_blocks on the caller's writer (the caller owns any buffering and its flush) *)
Theorem write_blocks_ok_complete ck bytes d sc w' : ck_ok ck ->
  run_writer SRaw (write_blocks_prog ck bytes) {| wdev := d; wsched := sc |} = (Ok tt, w') ->
  wdev w' = put bytes d.
Proof.
  intros K H. apply run_writer_ok_complete in H; [|reflexivity]. cbn [wdev] in H.
  unfold write_blocks_prog in H. now rewrite ideal_write_all_chunks, K in H.
Qed.

(* ---------------------------------------------------------------- the code before the fixes *)
Definition whole (bs : list N) : list (list N) := [bs].
(* F-C13b: BufWriter::new(file) + finalize without flush: the first device write (at the seek) succeeds,
   the second (in the drop) fails and is discarded: Ok with the placeholder header still in the file *)
Example create_unfixed_refuted :
  let sc := {| sw := {| pending := [FOk]; dflt_err := true |}; sf := quiet; ss := quiet; sr := quiet |} in
  let '(r, w') := run_writer (SBuf 8192) (encode_prog_unfixed whole 0 [1; 2] [[3]; [4]] [7; 8]) {| wdev := {| data := []; pos := 0 |}; wsched := sc |} in
  r = Ok tt /\ data (wdev w') = [1; 2; 3; 4] /\ data (wdev w') <> [7; 8; 3; 4].
Proof. vm_compute. repeat split; discriminate. Qed.
(* ... and the same schedule with the fix is an error *)
Example create_fixed_same_schedule :
  let sc := {| sw := {| pending := [FOk]; dflt_err := true |}; sf := quiet; ss := quiet; sr := quiet |} in
  fst (run_writer (SBuf 8192) (encode_prog whole 0 [1; 2] [[3]; [4]] [7; 8]) {| wdev := {| data := []; pos := 0 |}; wsched := sc |}) = Err EIo.
Proof. vm_compute. reflexivity. Qed.

(* ---------------------------------------------------------------- reading *)
(* a device that says Ok(0) before the end of the data claims end of file: excluded from the fault space *)
Definition honest (s : stream) : Prop := Forall (fun f => f <> FShort 0) (pending s).

Lemma honest_next s f s' : next s = (f, s') -> honest s -> honest s' /\ f <> FShort 0.
Proof.
  unfold next, honest. destruct s as [[|g r] d]; cbn; intros H Hh; inversion H; subst; cbn.
  - split; auto. destruct d; discriminate.
  - inversion Hh; subst. auto.
Qed.

Lemma firstn_skipn_len {A} k (R : list A) : firstn k R ++ skipn (length (firstn k R)) R = R.
Proof.
  rewrite firstn_length. destruct (Nat.le_ge_cases k (length R)).
  - rewrite Nat.min_l by lia. apply firstn_skipn.
  - rewrite Nat.min_r by lia. rewrite firstn_all2, skipn_all by lia. apply app_nil_r.
Qed.

Lemma firstn_firstn' {A} a b (l : list A) : exists k, firstn a (firstn b l) = firstn k l.
Proof. exists (Nat.min a b). apply firstn_firstn. Qed.

Lemma dev_read_spec cap w :
  match dev_read cap w with
  | (IOk bs, w') =>
      data (wdev w') = data (wdev w) /\
      bs ++ skipn (pos (wdev w')) (data (wdev w')) = skipn (pos (wdev w)) (data (wdev w)) /\
      (honest (sr (wsched w)) -> (0 < cap)%nat -> bs = [] -> skipn (pos (wdev w)) (data (wdev w)) = []) /\
      (honest (sr (wsched w)) -> honest (sr (wsched w'))) /\
      length (pending (sr (wsched w'))) = pred (length (pending (sr (wsched w)))) /\
      (length (pending (sr (wsched w))) = 0%nat -> (0 < cap)%nat -> skipn (pos (wdev w)) (data (wdev w)) <> [] -> bs <> [])
  | (IErr i, w') => wdev w' = wdev w /\ (honest (sr (wsched w)) -> honest (sr (wsched w'))) /\
                    length (pending (sr (wsched w'))) = pred (length (pending (sr (wsched w)))) /\
                    (i = true -> (0 < length (pending (sr (wsched w))))%nat)
  end.
Proof.
  unfold dev_read. pose proof (next_cases (sr (wsched w))) as NC.
  destruct (next (sr (wsched w))) as [f s'] eqn:E. destruct NC as (L & D & _ & _).
  set (R := skipn (pos (wdev w)) (data (wdev w))).
  assert (Hh : honest (sr (wsched w)) -> honest s' /\ f <> FShort 0) by (apply honest_next; exact E).
  destruct f; cbn [wdev wsched data pos set_sr sr].
  - repeat split; auto.
    + rewrite <- skipn_skipn'. apply firstn_skipn_len.
    + intros _ C Z. destruct R as [|x t]; [reflexivity|]. destruct cap; [lia|]. discriminate.
    + intros H. now apply Hh.
    + intros _ C NZ Z. destruct R as [|x t]; [congruence|]. destruct cap; [lia|]. discriminate.
  - repeat split; auto.
    + rewrite <- skipn_skipn'. destruct (firstn_firstn' k cap R) as [j ->]. apply firstn_skipn_len.
    + intros H C Z. destruct (Hh H) as [_ NK]. destruct k; [congruence|].
      destruct R as [|x t]; [reflexivity|]. destruct cap; [lia|]. discriminate.
    + intros H. now apply Hh.
    + intros Z. destruct (pending (sr (wsched w))); [|discriminate]. destruct (D eq_refl); discriminate.
  - repeat split; auto. + intros H. now apply Hh.
    + intros _. destruct (pending (sr (wsched w))); [destruct (D eq_refl); discriminate|cbn; lia].
  - repeat split; auto. + intros H. now apply Hh. + discriminate.
Qed.

(* what has been read plus what is still ahead is the content from the start position: reads never lie *)
Lemma fill_until_ok fuel cap need : forall got w got' w',
  fill_until fuel cap need got w = (Ok got', w') ->
  data (wdev w') = data (wdev w) /\
  got' ++ skipn (pos (wdev w')) (data (wdev w')) = got ++ skipn (pos (wdev w)) (data (wdev w)) /\
  (need <= length got')%nat /\
  (honest (sr (wsched w)) -> honest (sr (wsched w'))).
Proof.
  induction fuel as [|f IH]; intros got w got' w' H; cbn [fill_until] in H;
    destruct (need <=? length got)%nat eqn:C; try (apply Nat.leb_le in C; inversion H; subst; auto); try discriminate.
  pose proof (dev_read_spec cap w) as S. destruct (dev_read cap w) as [[bs|[|]] w1].
  - destruct S as (D & A & _ & Hh & _). destruct bs as [|x t]; [discriminate|].
    apply IH in H. destruct H as (D2 & A2 & N & Hh2). repeat split; auto; try congruence.
    rewrite A2, <- app_assoc, A. reflexivity.
  - destruct S as (D & Hh & _). apply IH in H. destruct H as (D2 & A2 & N & Hh2). rewrite D in *. repeat split; auto.
  - discriminate.
Qed.

Lemma read_to_end_ok fuel cap : forall acc w acc' w', (0 < cap)%nat -> honest (sr (wsched w)) ->
  read_to_end fuel cap acc w = (Ok acc', w') ->
  data (wdev w') = data (wdev w) /\ acc' = acc ++ skipn (pos (wdev w)) (data (wdev w)).
Proof.
  induction fuel as [|f IH]; intros acc w acc' w' C Hh H; cbn [read_to_end] in H; [discriminate|].
  pose proof (dev_read_spec cap w) as S. destruct (dev_read cap w) as [[bs|[|]] w1].
  - destruct S as (D & A & Z & Hh1 & _). destruct bs as [|x t].
    + inversion H; subst. split; auto. rewrite (Z Hh C eq_refl). now rewrite app_nil_r.
    + apply IH in H; auto. destruct H as (D2 & A2). split; [congruence|]. rewrite A2, <- app_assoc, A. reflexivity.
  - destruct S as (D & Hh1 & _). apply IH in H; auto. rewrite D in *. auto.
  - discriminate.
Qed.

Lemma dev_seek_sr p w : sr (wsched (snd (dev_seek p w))) = sr (wsched w).
Proof. unfold dev_seek. destruct (next (ss (wsched w))) as [f s']. destruct f; reflexivity. Qed.

(* ================================================================ update_file over faulty devices *)
Section UpdateIoProofs.
  Variable payload : Type.
  Variable psize : payload -> N.
  Variable ser : payload -> list N.
  Variable uclass : okind -> payload -> option N.
  Variable read_blocks : list N -> res (blocklist payload * list N).
  (* the reader consumes a prefix of what it is given *)
  Hypothesis read_prefix : forall s bl rest, read_blocks s = Ok (bl, rest) -> exists m, s = m ++ rest.

  Notation update_file_io := (update_file_io payload psize ser uclass read_blocks).
  Notation update_file := (Update.update_file payload psize ser uclass read_blocks).

  Lemma chunks_flushed cs : ends_flushed (map WWriteAll cs ++ [WFlush]) = true.
  Proof. unfold ends_flushed. rewrite clean_after_app. reflexivity. Qed.

  (* Whatever the fault schedules of the two devices, the chunking and the buffer capacity: if update_file
     returns Ok(b), the two devices hold exactly what the fault-free function of Update.v computes
     (whose correctness is C10), and that function returns Ok(b) too. *)
  Theorem update_file_io_sound cap ck edit rb w1 w2 b w1' w2' :
    (0 < cap)%nat -> ck_ok ck -> honest (sr (wsched w1)) ->
    (pos (wdev w1) <= length (data (wdev w1)))%nat ->
    wdev w2 = {| data := []; pos := 0 |} ->
    update_file_io true cap ck edit rb w1 w2 = (Ok b, w1', w2') ->
    update_file edit (pos (wdev w1)) (data (wdev w1)) =
      ({| orig := data (wdev w1'); rebuilt := if b then Some (data (wdev w2')) else None |}, Ok b).
  Proof.
    intros C K Hh Hpos E2 H. unfold IoFault.update_file_io in H. unfold Update.update_file.
    unfold dev_seek_cur in H.
    pose proof (dev_seek_sr (pos (wdev w1)) w1) as SR.
    destruct (dev_seek (pos (wdev w1)) w1) as [[start|i] w1a] eqn:S0; [|inversion H].
    assert (L0 : lift (dev_seek (pos (wdev w1)) w1) = (Ok start, w1a)) by (rewrite S0; reflexivity).
    assert (ST : start = pos (wdev w1)).
    { clear - S0. unfold dev_seek in S0. destruct (next (ss (wsched w1))) as [f s']. destruct f; inversion S0; reflexivity. }
    apply dev_seek_ok in L0. rewrite dev_eta in L0. cbn [snd] in SR. subst start.
    rewrite L0 in H.
    destruct (read_blocks (skipn (pos (wdev w1)) (data (wdev w1)))) as [[bl rest]|e|k] eqn:R; try (inversion H; fail).
    set (s := skipn (pos (wdev w1)) (data (wdev w1))) in *.
    set (need := (length s - length rest)%nat) in *.
    destruct (fill_until (rfuel need w1a) cap need [] w1a) as [[got|e|k] w1b] eqn:F; try (inversion H; fail).
    apply fill_until_ok in F. rewrite L0 in F. cbn [app] in F. fold s in F. destruct F as (D1 & A1 & N1 & Hh1).
    rewrite SR in Hh1. specialize (Hh1 Hh).
    destruct (edit bl) as [bl1|e|k]; try (inversion H; fail).
    destruct (rmap lenN (write_blocks payload psize ser uclass bl1)) as [new_size|e|k]; try (inversion H; fail).
    destruct (update_plan payload (N.of_nat need) new_size bl1) as [bl2|bl2].
    - (* in place *)
      destruct (write_blocks payload psize ser uclass bl2) as [bytes|e|k]; try (inversion H; fail).
      destruct (dev_seek (pos (wdev w1)) w1b) as [[p|i] w1c] eqn:S1; [|inversion H].
      assert (L1 : lift (dev_seek (pos (wdev w1)) w1b) = (Ok p, w1c)) by (rewrite S1; reflexivity).
      apply dev_seek_ok in L1.
      destruct (run_writer (SBuf cap) (map WWriteAll (ck bytes) ++ [WFlush]) w1c) as [r w1d] eqn:RW.
      destruct r as [[]|e|k]; cbn [rmap bind] in H; inversion H; subst; clear H.
      apply run_writer_ok_complete in RW; [|apply chunks_flushed].
      rewrite ideal_app, ideal_write_all_chunks, K in RW. unfold ideal in RW. cbn [fold_left ideal_op] in RW.
      rewrite RW, L1, D1. rewrite put_data_overwrite by exact Hpos. reflexivity.
    - (* rebuilt *)
      destruct (write_blocks payload psize ser uclass bl2) as [bytes|e|k]; try (inversion H; fail).
      destruct (read_to_end (rfuel (length (data (wdev w1b))) w1b) cap (skipn need got) w1b) as [[tail|e|k] w1c] eqn:RE; try (inversion H; fail).
      apply read_to_end_ok in RE; auto. destruct RE as (D2 & T).
      destruct rb; [|inversion H].
      destruct (run_writer SRaw [WWriteAll (bytes ++ tail)] w2) as [r w2a] eqn:RW.
      destruct r as [[]|e|k]; cbn [rmap bind] in H; inversion H; subst; clear H.
      apply run_writer_ok_complete in RW; [|reflexivity]. unfold ideal in RW. cbn [fold_left ideal_op] in RW.
      assert (TR : skipn need got ++ skipn (pos (wdev w1b)) (data (wdev w1b)) = rest).
      { destruct (read_prefix _ _ _ R) as (m & Em). fold s in Em.
        assert (Lm : need = length m) by (unfold need; rewrite Em, app_length; lia).
        assert (E : skipn need (got ++ skipn (pos (wdev w1b)) (data (wdev w1b))) = skipn need got ++ skipn (pos (wdev w1b)) (data (wdev w1b))).
        { rewrite skipn_app. replace (need - length got)%nat with 0%nat by lia. reflexivity. }
        rewrite <- E, A1, Em, Lm. rewrite skipn_app, skipn_all, Nat.sub_diag. reflexivity. }
      rewrite TR in RW. rewrite RW, E2, D2, D1.
      assert (DP : data (put (bytes ++ rest) {| data := []; pos := 0 |}) = bytes ++ rest).
      { destruct (bytes ++ rest) as [|x t] eqn:EB; [reflexivity|]. unfold put. cbn. now rewrite app_nil_r. }
      rewrite DP. reflexivity.
  Qed.
End UpdateIoProofs.

(* ================================================================ no panic: every loop has fuel to spare *)
Lemma bw_write_progress cap b bytes w x b1 w1 : bw_write cap b bytes w = (x, b1, w1) ->
  (plen w1 <= plen w)%nat /\
  match x with
  | WOk n => n = length bytes \/ ((plen w1 < plen w)%nat /\ (n <= length bytes)%nat)
  | WIntr => (plen w1 < plen w)%nat
  | WFail => True
  | WFuel => False
  end.
Proof.
  unfold bw_write. destruct (length bytes <? cap - length b)%nat.
  - intros H. inversion H; subst. auto.
  - assert (DW : forall bb ww, (plen ww <= plen w)%nat ->
              (match dev_write bytes ww with
               | (IOk n, w2) => (WOk n, bb, w2) | (IErr true, w2) => (WIntr, bb, w2) | (IErr false, w2) => (WFail, bb, w2) end) = (x, b1, w1) ->
              (plen w1 <= plen w)%nat /\
              match x with
              | WOk n => n = length bytes \/ ((plen w1 < plen w)%nat /\ (n <= length bytes)%nat)
              | WIntr => (plen w1 < plen w)%nat
              | WFail => True
              | WFuel => False
              end).
    { intros bb ww Lw H. pose proof (dev_write_spec bytes ww) as S.
      destruct (dev_write bytes ww) as [[n|[|]] w2]; inversion H; subst.
      - destruct S as (_ & Ln & P & Z). split; [lia|]. destruct (plen ww) eqn:E; [left; auto|right; lia].
      - destruct S as (_ & P & Pos). lia.
      - destruct S as (_ & P). split; [lia|exact I]. }
    destruct (cap - length b <? length bytes)%nat.
    + pose proof (flush_buf_no_panic b w) as NP. destruct (bw_flush_buf b w) as [[r bf] wf] eqn:F.
      pose proof (write_loop_plen _ _ _ _ _ _ F) as PL. destruct r as [[]|e|k]; cbn in NP; try discriminate.
      * destruct (cap <=? length bytes)%nat; [apply DW; exact PL|]. intros H. inversion H; subst. auto.
      * intros H. inversion H; subst. auto.
    + destruct (cap <=? length bytes)%nat; [apply DW; lia|]. intros H. inversion H; subst. auto.
Qed.

Lemma bw_write_loop_fuel fuel cap : forall b bytes w, (plen w < fuel)%nat ->
  is_panic (fst (fst (bw_write_loop fuel cap b bytes w))) = false.
Proof.
  induction fuel as [|f IH]; intros b bytes w L; [lia|]. destruct bytes as [|x t]; [reflexivity|].
  cbn [bw_write_loop]. destruct (bw_write cap b (x :: t) w) as [[r b1] w1] eqn:E.
  apply bw_write_progress in E. destruct E as [PL E]. destruct r as [n| | |]; try reflexivity; try contradiction.
  - destruct n as [|n]; [reflexivity|]. destruct E as [E|[E _]].
    + rewrite E, skipn_all. destruct f; reflexivity.
    + apply IH. lia.
  - apply IH. lia.
Qed.

Lemma run_wop_no_panic st op b w : is_panic (fst (fst (run_wop st op b w))) = false.
Proof.
  destruct st as [|cap]; destruct op; cbn [run_wop].
  - pose proof (write_all_no_panic bytes w). destruct (write_all bytes w); auto.
  - pose proof (write_all_no_panic bytes w). destruct (write_all bytes w); auto.
  - pose proof (lift_no_panic (dev_seek p w)). destruct (lift (dev_seek p w)) as [[a|e|k] w1]; auto.
  - pose proof (lift_no_panic (dev_seek_cur w)). destruct (lift (dev_seek_cur w)) as [[a|e|k] w1]; auto.
  - pose proof (lift_no_panic (dev_flush w)). destruct (lift (dev_flush w)) as [r w1]; auto.
  - unfold bw_write_all. destruct (length bytes <? cap - length b)%nat; [reflexivity|].
    destruct (cap - length b <? length bytes)%nat.
    + pose proof (flush_buf_no_panic b w) as NP. destruct (bw_flush_buf b w) as [[r bf] wf]. destruct r as [[]|e|k]; cbn in NP |- *; auto.
      destruct (cap <=? length bytes)%nat; [|reflexivity].
      pose proof (write_all_no_panic bytes wf). destruct (write_all bytes wf); auto.
    + destruct (cap <=? length bytes)%nat; [|reflexivity].
      pose proof (write_all_no_panic bytes w). destruct (write_all bytes w); auto.
  - apply bw_write_loop_fuel. unfold wfuel, plen. lia.
  - unfold bw_seek. pose proof (flush_buf_no_panic b w) as NP. destruct (bw_flush_buf b w) as [[r bf] wf]. destruct r as [[]|e|k]; cbn in NP |- *; auto.
    pose proof (lift_no_panic (dev_seek p wf)). destruct (lift (dev_seek p wf)) as [[a|e|k] w1]; auto.
  - unfold bw_seek_cur. pose proof (flush_buf_no_panic b w) as NP. destruct (bw_flush_buf b w) as [[r bf] wf]. destruct r as [[]|e|k]; cbn in NP |- *; auto.
    pose proof (lift_no_panic (dev_seek_cur wf)). destruct (lift (dev_seek_cur wf)) as [[a|e|k] w1]; auto.
  - unfold bw_flush. pose proof (flush_buf_no_panic b w) as NP. destruct (bw_flush_buf b w) as [[r bf] wf]. destruct r as [[]|e|k]; cbn in NP |- *; auto.
    pose proof (lift_no_panic (dev_flush wf)). destruct (lift (dev_flush wf)) as [r w1]; auto.
Qed.

Lemma run_wops_no_panic st p : forall b w, is_panic (fst (fst (run_wops st p b w))) = false.
Proof.
  induction p as [|op r IH]; intros b w; [reflexivity|]. cbn [run_wops].
  pose proof (run_wop_no_panic st op b w) as NP. destruct (run_wop st op b w) as [[x b1] w1]. destruct x; cbn in NP |- *; auto.
Qed.

(* no program, stack, or schedule makes the writer side panic *)
Theorem run_writer_no_panic st p w : is_panic (fst (run_writer st p w)) = false.
Proof.
  unfold run_writer. pose proof (run_wops_no_panic st p [] w) as NP. destruct (run_wops st p [] w) as [[r b] w1].
  destruct st; [exact NP|]. destruct (bw_flush_buf b w1) as [[r2 b2] w2]. exact NP.
Qed.

Definition rlen (w : world) : nat := length (pending (sr (wsched w))).

Lemma fill_until_fuel fuel cap need : forall got w, (need - length got + rlen w < fuel)%nat ->
  is_panic (fst (fill_until fuel cap need got w)) = false.
Proof.
  induction fuel as [|f IH]; intros got w L; [lia|]. cbn [fill_until].
  destruct (need <=? length got)%nat eqn:C; [reflexivity|]. apply Nat.leb_gt in C.
  pose proof (dev_read_spec cap w) as S. destruct (dev_read cap w) as [[bs|[|]] w1].
  - destruct S as (_ & _ & _ & _ & P & _). destruct bs as [|x t]; [reflexivity|].
    apply IH. unfold rlen in *. rewrite app_length. cbn [length]. lia.
  - destruct S as (_ & _ & P & Pos). apply IH. unfold rlen in *. specialize (Pos eq_refl). lia.
  - reflexivity.
Qed.

Lemma read_to_end_fuel fuel cap : forall acc w, (length (data (wdev w)) - pos (wdev w) + rlen w < fuel)%nat ->
  is_panic (fst (read_to_end fuel cap acc w)) = false.
Proof.
  induction fuel as [|f IH]; intros acc w L; [lia|]. cbn [read_to_end].
  pose proof (dev_read_spec cap w) as S. destruct (dev_read cap w) as [[bs|[|]] w1].
  - destruct S as (D & A & _ & _ & P & _). destruct bs as [|x t]; [reflexivity|].
    apply IH. apply (f_equal (@length N)) in A. rewrite app_length, !skipn_length in A. cbn [length] in A.
    unfold rlen in *. rewrite D in *. lia.
  - destruct S as (D & _ & P & Pos). apply IH. unfold rlen in *. specialize (Pos eq_refl). rewrite D. lia.
  - reflexivity.
Qed.

Section UpdateIoNoPanic.
  Variable payload : Type.
  Variable psize : payload -> N.
  Variable ser : payload -> list N.
  Variable uclass : okind -> payload -> option N.
  Variable read_blocks : list N -> res (blocklist payload * list N).
  Hypothesis ser_len : forall p, lenN (ser p) = psize p.

  (* update_file does not panic under any schedule (fixed or not), unless the block reader or the
     callback does *)
  Theorem update_file_io_no_panic fixed cap ck edit rb w1 w2 :
    (forall s, is_panic (read_blocks s) = false) -> (forall bl, is_panic (edit bl) = false) ->
    is_panic (fst (fst (update_file_io payload psize ser uclass read_blocks fixed cap ck edit rb w1 w2))) = false.
  Proof.
    intros HR HE. unfold update_file_io. unfold dev_seek_cur.
    pose proof (dev_seek_sr (pos (wdev w1)) w1) as SR.
    destruct (dev_seek (pos (wdev w1)) w1) as [[start|i] w1a]; [|reflexivity]. cbn [snd] in SR.
    specialize (HR (skipn start (data (wdev w1a)))).
    destruct (read_blocks (skipn start (data (wdev w1a)))) as [[bl rest]|e|k]; cbn [fst snd is_panic] in HR |- *; auto.
    set (need := (length (skipn start (data (wdev w1a))) - length rest)%nat).
    assert (FF : is_panic (fst (fill_until (rfuel need w1a) cap need [] w1a)) = false)
      by (apply fill_until_fuel; unfold rfuel, rlen; cbn [length]; lia).
    destruct (fill_until (rfuel need w1a) cap need [] w1a) as [[got|e|k] w1b]; cbn [fst snd is_panic] in FF |- *; auto; try discriminate.
    specialize (HE bl). destruct (edit bl) as [bl1|e|k]; cbn [fst snd is_panic] in HE |- *; auto.
    pose proof (write_blocks_no_panic payload psize ser uclass ser_len bl1) as P1.
    destruct (write_blocks payload psize ser uclass bl1) as [dry|e|k]; cbn [fst snd is_panic rmap bind] in P1 |- *; auto.
    destruct (update_plan payload (N.of_nat need) (lenN dry) bl1) as [bl2|bl2];
      pose proof (write_blocks_no_panic payload psize ser uclass ser_len bl2) as P2;
      destruct (write_blocks payload psize ser uclass bl2) as [bytes|e|k]; cbn [fst snd is_panic] in P2 |- *; auto.
    - destruct (dev_seek start w1b) as [[p|i] w1c]; [|reflexivity].
      pose proof (run_writer_no_panic (SBuf cap) (map WWriteAll (ck bytes) ++ (if fixed then [WFlush] else [])) w1c) as NP.
      destruct (run_writer _ _ w1c) as [r w1d]. destruct r; cbn [fst snd is_panic rmap bind] in NP |- *; auto.
    - assert (RF : is_panic (fst (read_to_end (rfuel (length (data (wdev w1b))) w1b) cap (skipn need got) w1b)) = false)
        by (apply read_to_end_fuel; unfold rfuel, rlen; lia).
      destruct (read_to_end _ cap (skipn need got) w1b) as [[tail|e|k] w1c]; cbn [fst snd is_panic] in RF |- *; auto; try discriminate.
      destruct rb; [|reflexivity].
      pose proof (run_writer_no_panic SRaw [WWriteAll (bytes ++ tail)] w2) as NP.
      destruct (run_writer SRaw _ w2) as [r w2a]. destruct r; cbn [fst snd is_panic rmap bind] in NP |- *; auto.
  Qed.
End UpdateIoNoPanic.

(* F-C13a on the old in-place path (no checked flush): every write fails, Ok(false), file unchanged *)
Definition demo_before : list (oblock dpayload) := [OPadding 20].
Definition demo_after : list (oblock dpayload) := [OOther KApplication (6, None); OPadding 20].
Definition demo_io (fixed : bool) (sc : sched) :=
  let rd := fun s : list N => Ok ({| bl_si := (34, None); bl_blocks := demo_before |}, skipn 66 s) in
  update_file_io dpayload fst (fun p => repeat 0 (N.to_nat (fst p))) (fun _ p => snd p) rd fixed 8192 whole
    (fun _ => Ok {| bl_si := (34, None); bl_blocks := demo_after |}) true
    {| wdev := {| data := repeat 9 80; pos := 0 |}; wsched := sc |}
    {| wdev := {| data := []; pos := 0 |}; wsched := no_faults |}.
Definition all_writes_fail : sched := {| sw := {| pending := []; dflt_err := true |}; sf := quiet; ss := quiet; sr := quiet |}.

Example update_inplace_unfixed_refuted :
  let '(r, w1, _) := demo_io false all_writes_fail in
  r = Ok false /\ data (wdev w1) = repeat 9 80 /\
  let '(r0, w0, _) := demo_io false no_faults in r0 = Ok false /\ data (wdev w0) <> repeat 9 80.
Proof. vm_compute. repeat split; discriminate. Qed.
Example update_inplace_fixed_same_schedule : fst (fst (demo_io true all_writes_fail)) = Err EIo.
Proof. vm_compute. reflexivity. Qed.

(* read errors are never swallowed: the two read loops (the only consumers of read calls) stop with Err at
   the very call that fails with a non-transient error *)
Lemma fill_until_read_error fuel cap need got w w1 : (length got < need)%nat ->
  dev_read cap w = (IErr false, w1) -> fill_until (S fuel) cap need got w = (Err EIo, w1).
Proof. intros L E. cbn [fill_until]. apply Nat.leb_gt in L. now rewrite L, E. Qed.
Lemma read_to_end_read_error fuel cap acc w w1 :
  dev_read cap w = (IErr false, w1) -> read_to_end (S fuel) cap acc w = (Err EIo, w1).
Proof. intros E. cbn [read_to_end]. now rewrite E. Qed.
