(* Codec/MustReject.v — C05(e): frames using reserved or illegal codes are rejected, whatever else they
   contain (and whatever their checksums say): one lemma per must-reject class, on the parsers that
   both the structural parser and the streaming decoder are built from. *)
From FlacCodec Require Import Parser_proofs Dec.
Open Scope N_scope.

Lemma p_rd_wr n v r : v < 2 ^ N.of_nat n -> p_rd n (wr n v ++ r) = Ok (v, r).
Proof. intros H. unfold p_rd. rewrite rd_wr by exact H. reflexivity. Qed.

Ltac hdr_step :=
  unfold pbind at 1;
  first [ rewrite p_rd_wr by (first [reflexivity | assumption | lia]) | cbn [p_bit app] ];
  cbn [p_guard pret N.eqb Pos.eqb negb andb].

(* reserved block-size code 0000 *)
Lemma reject_block_size_code_0 si strategy r :
  parse_header_fields si (wr 15 SYNC_CODE ++ [strategy] ++ wr 4 0 ++ r) = Err EBlockSize.
Proof.
  unfold parse_header_fields. rewrite <- ?app_assoc.
  unfold pbind at 1. rewrite p_rd_wr by reflexivity. rewrite N.eqb_refl. cbn [p_guard].
  unfold pbind at 1. unfold pret at 1.
  unfold pbind at 1. cbn [p_bit app].
  unfold pbind at 1. rewrite p_rd_wr by reflexivity.
  unfold pbind at 1. cbn [N.eqb negb p_guard pfail]. reflexivity.
Qed.

(* a header that does not start with the sync code *)
Lemma reject_bad_sync si v r : v < 2 ^ 15 -> v <> SYNC_CODE ->
  parse_header_fields si (wr 15 v ++ r) = Err ESync.
Proof.
  intros Hv Hn. unfold parse_header_fields. unfold pbind at 1. rewrite p_rd_wr by exact Hv.
  apply N.eqb_neq in Hn. rewrite Hn. unfold pbind at 1. cbn [p_guard pfail]. reflexivity.
Qed.

(* invalid sample-rate code 1111 *)
Lemma reject_rate_code_15 si strategy bs_code r : bs_code < 16 -> bs_code <> 0 ->
  parse_header_fields si (wr 15 SYNC_CODE ++ [strategy] ++ wr 4 bs_code ++ wr 4 15 ++ r) = Err ESampleRate.
Proof.
  intros Hb Hn. unfold parse_header_fields. rewrite <- ?app_assoc.
  unfold pbind at 1. rewrite p_rd_wr by reflexivity. rewrite N.eqb_refl. cbn [p_guard].
  unfold pbind at 1. unfold pret at 1. unfold pbind at 1. cbn [p_bit app].
  unfold pbind at 1. rewrite p_rd_wr by exact Hb.
  apply N.eqb_neq in Hn. rewrite Hn. cbn [negb p_guard]. unfold pbind at 1. unfold pret at 1.
  unfold pbind at 1. rewrite p_rd_wr by reflexivity.
  cbn [N.eqb Pos.eqb andb negb p_guard]. unfold pbind at 1. unfold pret at 1.
  unfold pbind at 1. cbn [p_guard pfail]. reflexivity.
Qed.

(* subframe level *)
Lemma reject_subframe_padding_bit r : p_subframe_header (true :: r) = Err ESubframeHeader.
Proof. unfold p_subframe_header, pbind. cbn [p_bit negb p_guard pfail]. reflexivity. Qed.

Lemma reject_reserved_subframe_type t r : t < 64 ->
  t <> 0 -> t <> 1 -> (t < 8 \/ (12 < t /\ t < 32)) ->
  p_subframe_header (false :: wr 6 t ++ r) = Err ESubframeType.
Proof.
  intros Ht N0 N1 Hr. unfold p_subframe_header. unfold pbind at 1. cbn [p_bit negb p_guard].
  unfold pbind at 1. unfold pret at 1. unfold pbind at 1. rewrite p_rd_wr by exact Ht.
  apply N.eqb_neq in N0. apply N.eqb_neq in N1. rewrite N0, N1.
  assert ((8 <=? t) && (t <=? 12) = false) as ->.
  { destruct Hr as [H|[H _]]; [apply andb_false_intro1; apply N.leb_gt; exact H|apply andb_false_intro2; apply N.leb_gt; exact H]. }
  assert (32 <=? t = false) as -> by (apply N.leb_gt; lia).
  unfold pbind at 1. cbn [pfail]. reflexivity.
Qed.

Lemma reject_coding_method order nres m r : 2 <= m -> m < 4 ->
  dec_residuals order nres (wr 2 m ++ r) = Err ECodingMethod.
Proof.
  intros H2 H4. unfold dec_residuals. unfold pbind at 1. rewrite p_rd_wr by exact H4.
  assert (m <? 2 = false) as -> by (apply N.ltb_ge; exact H2).
  unfold pbind at 1. cbn [p_guard pfail]. reflexivity.
Qed.

Lemma reject_qlp_precision_15 r : p_qlp_precision (wr 4 15 ++ r) = Err EQlpPrecision.
Proof. unfold p_qlp_precision, pbind. rewrite p_rd_wr by reflexivity. reflexivity. Qed.

Lemma reject_negative_shift v r : 16 <= v -> v < 32 -> p_qlp_shift (wr 5 v ++ r) = Err ENegativeShift.
Proof.
  intros H1 H2. unfold p_qlp_shift, pbind, p_rds, rd_s. rewrite rd_wr by exact H2.
  unfold sext. rewrite (testbit_top 5 v ltac:(lia) H2).
  change (2 ^ N.of_nat (5 - 1)) with 16. destruct (N.leb_spec 16 v); [|lia].
  change (2 ^ Z.of_nat 5)%Z with 32%Z. destruct (Z.ltb_spec (Z.of_N v - 32) 0); [reflexivity|lia].
Qed.

Lemma reject_excess_wasted_bits bps wasted : bps <= wasted -> effective_bps bps wasted = Err EWastedBits.
Proof. intros H. unfold effective_bps. destruct (N.leb_spec wasted (bps - 1)); [|reflexivity]. destruct (N.leb_spec 1 bps); [lia|reflexivity]. Qed.
