//! Structure-aware generator of *valid by construction* FLAC frames and streams from arbitrary
//! target PCM (C03; also feeds C04 and C17).  Every syntactic alternative of the frame
//! grammar is chosen independently; warm-up samples and residuals are derived from the target
//! PCM with i128 arithmetic, so the target PCM is what RFC 9639 defines as the decoded output.
//! The frame is then serialised by the crate's structural writer (`stream::Frame::write`);
//! `refdec` (independent decoder) cross-checks the bytes in the C03 bin.
use super::io::Si;
use bitstream_io::{BitCount, SignedBitCount};
use flac_codec::stream::{
    BitsPerSample, BlockSize, ChannelAssignment, Frame, FrameHeader, FrameNumber, Independent, ResidualPartition, Residuals, SampleRate, Subframe, SubframeWidth,
};
use std::num::NonZero;
use vharness::*;

#[derive(Clone, Debug)]
pub struct GenCfg {
    /// only self-describing header codes (raw frame streams)
    pub subset: bool,
    /// allow LPC/FIXED predictions that leave the i32 range (valid; trips the debug-profile
    /// overflow check in `predict`, DESIGN F-C03a)
    pub allow_pred_overflow: bool,
    /// longest unary run tolerated in a Rice code (keeps frames small)
    pub max_unary: u64,
}
impl Default for GenCfg {
    fn default() -> Self { GenCfg { subset: false, allow_pred_overflow: false, max_unary: 200 } }
}

#[derive(Clone, Debug)]
enum Part {
    Rice(u32, Vec<i64>),
    Esc(u32, Vec<i64>),
    Zero(usize),
}

#[derive(Clone, Debug)]
enum Kind {
    Constant(i64),
    Verbatim(Vec<i64>),
    Fixed { order: u8, warm: Vec<i64>, rice2: bool, parts: Vec<Part> },
    Lpc { order: u8, warm: Vec<i64>, precision: u32, shift: u32, coefs: Vec<i32>, rice2: bool, parts: Vec<Part> },
}

#[derive(Clone, Debug)]
struct Plan {
    wasted: u32,
    kind: Kind,
}

pub struct GenFrame {
    pub frame: Frame,
    pub tags: Vec<String>,
    /// some prediction (before adding the residual) lies outside the i32 range in a 32-bit-wide subframe
    pub pred_overflow: bool,
}

const FIXED: [&[i128]; 5] = [&[], &[1], &[2, -1], &[3, -3, 1], &[4, -6, 4, -1]];

fn res_ok(r: i128) -> bool {
    r > -(1i128 << 31) && r < (1i128 << 31)
}

fn zigzag(r: i64) -> u64 {
    if r >= 0 { (r as u64) << 1 } else { (((-r) as u64 - 1) << 1) + 1 }
}

fn signed_width(r: i64) -> u32 {
    // bits of a two's-complement field holding r (at least 1)
    let m = if r >= 0 { r as u64 } else { !(r as u64) };
    65 - m.leading_zeros()
}

/// residuals of `y` under predictor (coefs, shift); None if some residual is not representable
fn residuals(y: &[i64], coefs: &[i128], shift: u32, narrow: bool) -> Option<(Vec<i64>, bool)> {
    let order = coefs.len();
    let mut out = Vec::with_capacity(y.len() - order);
    let mut ovf = false;
    for i in order..y.len() {
        let mut p: i128 = 0;
        for (j, c) in coefs.iter().enumerate() { p += c * y[i - 1 - j] as i128; }
        let p = p >> shift;
        if narrow && (p < i32::MIN as i128 || p > i32::MAX as i128) { ovf = true; }
        let r = y[i] as i128 - p;
        if !res_ok(r) { return None; }
        out.push(r as i64);
    }
    Some((out, ovf))
}

fn plan_partitions(rng: &mut Rng, cfg: &GenCfg, n: usize, order: usize, res: &[i64], tags: &mut Vec<String>) -> (bool, Vec<Part>) {
    // valid partition orders: 2^po | n and (n >> po) > order
    let mut valid = vec![];
    for po in 0..=15u32 {
        if n % (1usize << po) == 0 && (n >> po) > order { valid.push(po); } else if n % (1usize << po) != 0 { break; }
    }
    let po = match rng.below(4) { 0 => valid[0], 1 => *valid.last().unwrap(), _ => *rng.pick(&valid) };
    let per = n >> po;
    // cap the frame size: a high order over many tiny partitions is fine, unary runs are capped below
    let mut slices: Vec<&[i64]> = vec![];
    let mut at = 0;
    for p in 0..(1usize << po) {
        let len = if p == 0 { per - order } else { per };
        slices.push(&res[at..at + len]);
        at += len;
    }
    let max_unary = if rng.chance(1, 40) { cfg.max_unary * 20 } else { cfg.max_unary };
    // smallest Rice parameter keeping the unary part short, per partition
    let need: Vec<(u32, u32, bool)> = slices
        .iter()
        .map(|s| {
            let maxzz = s.iter().map(|r| zigzag(*r)).max().unwrap_or(0);
            let mut k = 0u32;
            while (maxzz >> k) > max_unary { k += 1; }
            let w = s.iter().map(|r| signed_width(*r)).max().unwrap_or(1);
            (k, w, s.iter().all(|r| *r == 0))
        })
        .collect();
    let must_rice2 = need.iter().any(|(k, w, _)| *k > 14 && *w > 31);
    let rice2 = must_rice2 || rng.chance(1, 2);
    let kmax = if rice2 { 30 } else { 14 };
    let mut parts = vec![];
    for (s, (kmin, w, zero)) in slices.iter().zip(need.iter()) {
        let choice = rng.below(10);
        if *zero && choice < 4 {
            tags.push("part:zero".into());
            parts.push(Part::Zero(s.len()));
        } else if (*kmin > kmax || choice == 4 || choice == 5) && *w <= 31 {
            let width = (*w + rng.below(3) as u32).min(31);
            tags.push(format!("part:esc{}", if width == 31 { "31" } else { "" }));
            parts.push(Part::Esc(width, s.to_vec()));
        } else {
            let mean = (s.iter().map(|r| zigzag(*r) as u128).sum::<u128>() / (s.len().max(1) as u128)) as u64;
            let kopt = 64 - mean.leading_zeros();
            let k = match rng.below(6) {
                0 => *kmin,
                1 => kmax,
                2 => (rng.range(*kmin as i64, kmax as i64)) as u32,
                _ => (kopt as i64 + rng.range(-1, 1)).max(*kmin as i64).min(kmax as i64) as u32,
            };
            let k = k.max(*kmin).min(kmax);
            if k > 14 { tags.push("part:rice5bit".into()); } else { tags.push("part:rice".into()); }
            parts.push(Part::Rice(k, s.to_vec()));
        }
    }
    tags.push(format!("po:{}", po));
    tags.push(if rice2 { "method:1".into() } else { "method:0".into() });
    (rice2, parts)
}

/// Plan one subframe for samples `x` at `depth` bits (1..=33).
fn plan_subframe(rng: &mut Rng, cfg: &GenCfg, x: &[i64], depth: u32, tags: &mut Vec<String>) -> (Plan, bool) {
    let n = x.len();
    let narrow = depth <= 32;
    // wasted bits: any w <= common trailing zeros, w < depth
    let tz = x.iter().filter(|v| **v != 0).map(|v| v.trailing_zeros()).min().unwrap_or(depth - 1).min(depth - 1);
    let wasted = if tz == 0 { 0 } else { match rng.below(4) { 0 => 0, 1 | 2 => tz, _ => rng.range(0, tz as i64) as u32 } };
    if wasted > 0 { tags.push("wasted".into()); }
    let d = depth - wasted;
    let y: Vec<i64> = x.iter().map(|v| v >> wasted).collect();
    let all_eq = y.iter().all(|v| *v == y[0]);
    let mut pred_ovf = false;
    for _attempt in 0..6 {
        let t = rng.below(if all_eq { 12 } else { 10 });
        match t {
            10 | 11 => {
                tags.push("constant".into());
                return (Plan { wasted, kind: Kind::Constant(y[0]) }, false);
            }
            0 => {
                tags.push("verbatim".into());
                return (Plan { wasted, kind: Kind::Verbatim(y) }, false);
            }
            1..=4 => {
                let max_order = 4.min(n.saturating_sub(1));
                let order = match rng.below(3) { 0 => max_order, _ => rng.range(0, max_order as i64) as usize };
                if let Some((res, ovf)) = residuals(&y, FIXED[order], 0, narrow) {
                    if ovf && !cfg.allow_pred_overflow { continue; }
                    pred_ovf |= ovf;
                    tags.push(format!("fixed{}", order));
                    let (rice2, parts) = plan_partitions(rng, cfg, n, order, &res, tags);
                    return (Plan { wasted, kind: Kind::Fixed { order: order as u8, warm: y[..order].to_vec(), rice2, parts } }, pred_ovf);
                }
            }
            _ => {
                if n < 2 { continue; }
                let max_order = 32.min(n - 1);
                let order = match rng.below(5) { 0 => max_order, 1 => 1, 2 => rng.range(1, max_order.min(8) as i64) as usize, _ => rng.range(1, max_order as i64) as usize };
                let precision = match rng.below(5) { 0 => 15, 1 => rng.range(1, 15) as u32, _ => rng.range(5, 15) as u32 };
                let cmax: i64 = (1i64 << (precision - 1)) - 1;
                let cmin: i64 = -(1i64 << (precision - 1));
                let mode = rng.below(6);
                let (shift, coefs): (u32, Vec<i32>) = match mode {
                    // a FIXED predictor scaled by 2^shift (good prediction on smooth signals)
                    0 | 1 | 2 => {
                        let fo = order.min(rng.range(1, 4) as usize);
                        let maxc = FIXED[fo].iter().map(|c| c.abs()).max().unwrap() as i64;
                        let mut shift = 0u32;
                        while shift < 15 && (maxc << (shift + 1)) <= cmax { shift += 1; }
                        let shift = if shift == 0 { 0 } else { rng.range(0, shift as i64) as u32 };
                        let mut c: Vec<i32> = vec![0; order];
                        let mut ok = true;
                        for (j, v) in FIXED[fo].iter().enumerate() {
                            let q = (*v as i64) << shift;
                            if q > cmax || q < cmin { ok = false; }
                            c[j] = q as i32;
                        }
                        if !ok { continue; }
                        // perturb the unused taps a little
                        for j in fo..order { if rng.chance(1, 3) { c[j] = rng.range((-1i64).max(cmin), 1i64.min(cmax)) as i32; } }
                        (shift, c)
                    }
                    3 => (rng.range(0, 15) as u32, (0..order).map(|_| rng.range(cmin, cmax) as i32).collect()),
                    4 => (*rng.pick(&[0u32, 15]), (0..order).map(|_| if rng.chance(1, 2) { cmax as i32 } else { cmin as i32 }).collect()),
                    _ => {
                        // small coefficients, large shift: prediction near zero
                        (rng.range(8, 15) as u32, (0..order).map(|_| rng.range((-3i64).max(cmin), 3i64.min(cmax)) as i32).collect())
                    }
                };
                let c128: Vec<i128> = coefs.iter().map(|c| *c as i128).collect();
                if let Some((res, ovf)) = residuals(&y, &c128, shift, narrow) {
                    if ovf && !cfg.allow_pred_overflow { continue; }
                    pred_ovf |= ovf;
                    tags.push(format!("lpc{}", order));
                    tags.push(format!("prec:{}", precision));
                    tags.push(format!("shift:{}", shift));
                    let (rice2, parts) = plan_partitions(rng, cfg, n, order, &res, tags);
                    return (Plan { wasted, kind: Kind::Lpc { order: order as u8, warm: y[..order].to_vec(), precision, shift, coefs, rice2, parts } }, pred_ovf);
                }
            }
        }
    }
    let _ = d;
    tags.push("verbatim".into());
    (Plan { wasted, kind: Kind::Verbatim(y) }, false)
}

fn conv<I: TryFrom<i64>>(v: i64) -> I {
    match I::try_from(v) { Ok(x) => x, Err(_) => panic!("generator: value {} does not fit the subframe integer type", v) }
}

fn build_parts<const RICE_MAX: u32, I: TryFrom<i64>>(parts: &[Part]) -> Vec<ResidualPartition<RICE_MAX, I>> {
    parts
        .iter()
        .map(|p| match p {
            Part::Rice(k, rs) => ResidualPartition::Standard { rice: BitCount::<RICE_MAX>::try_from(*k).unwrap(), residuals: rs.iter().map(|r| conv::<I>(*r)).collect() },
            Part::Esc(w, rs) => ResidualPartition::Escaped { escape_size: SignedBitCount::<0b11111>::try_from(*w).unwrap(), residuals: rs.iter().map(|r| conv::<I>(*r)).collect() },
            Part::Zero(n) => ResidualPartition::Constant { partition_len: *n },
        })
        .collect()
}

fn build_res<I: TryFrom<i64>>(rice2: bool, parts: &[Part]) -> Residuals<I> {
    if rice2 { Residuals::Method1 { partitions: build_parts::<0b11111, I>(parts) } } else { Residuals::Method0 { partitions: build_parts::<0b1111, I>(parts) } }
}

fn build_sub<I: TryFrom<i64>>(p: &Plan, n: usize) -> Subframe<I> {
    match &p.kind {
        Kind::Constant(v) => Subframe::Constant { block_size: n as u16, sample: conv::<I>(*v), wasted_bps: p.wasted },
        Kind::Verbatim(y) => Subframe::Verbatim { samples: y.iter().map(|v| conv::<I>(*v)).collect(), wasted_bps: p.wasted },
        Kind::Fixed { order, warm, rice2, parts } => Subframe::Fixed { order: *order, warm_up: warm.iter().map(|v| conv::<I>(*v)).collect(), residuals: build_res::<I>(*rice2, parts), wasted_bps: p.wasted },
        Kind::Lpc { order, warm, precision, shift, coefs, rice2, parts } => Subframe::Lpc {
            order: NonZero::new(*order).unwrap(),
            warm_up: warm.iter().map(|v| conv::<I>(*v)).collect(),
            precision: SignedBitCount::<15>::try_from(*precision).unwrap(),
            shift: *shift,
            coefficients: coefs.clone(),
            residuals: build_res::<I>(*rice2, parts),
            wasted_bps: p.wasted,
        },
    }
}

pub fn common_bs(n: u16) -> Option<BlockSize<u16>> {
    Some(match n {
        192 => BlockSize::Samples192, 576 => BlockSize::Samples576, 1152 => BlockSize::Samples1152, 2304 => BlockSize::Samples2304,
        4608 => BlockSize::Samples4608, 256 => BlockSize::Samples256, 512 => BlockSize::Samples512, 1024 => BlockSize::Samples1024,
        2048 => BlockSize::Samples2048, 4096 => BlockSize::Samples4096, 8192 => BlockSize::Samples8192, 16384 => BlockSize::Samples16384,
        32768 => BlockSize::Samples32768,
        _ => return None,
    })
}

pub fn common_rate(r: u32) -> Option<SampleRate<u32>> {
    Some(match r {
        88200 => SampleRate::Hz88200, 176400 => SampleRate::Hz176400, 192000 => SampleRate::Hz192000, 8000 => SampleRate::Hz8000,
        16000 => SampleRate::Hz16000, 22050 => SampleRate::Hz22050, 24000 => SampleRate::Hz24000, 32000 => SampleRate::Hz32000,
        44100 => SampleRate::Hz44100, 48000 => SampleRate::Hz48000, 96000 => SampleRate::Hz96000,
        _ => return None,
    })
}

/// all header codings able to express `rate`
pub fn rate_codings(rate: u32, subset: bool) -> Vec<(SampleRate<u32>, &'static str)> {
    let mut v = vec![];
    if let Some(c) = common_rate(rate) { v.push((c, "rate:common")); }
    if rate % 1000 == 0 && rate / 1000 <= 255 { v.push((SampleRate::KHz(rate), "rate:khz")); }
    if rate <= 65535 { v.push((SampleRate::Hz(rate), "rate:hz")); }
    if rate % 10 == 0 && rate / 10 <= 65535 { v.push((SampleRate::DHz(rate), "rate:dhz")); }
    if !subset { v.push((SampleRate::Streaminfo(rate), "rate:streaminfo")); }
    v
}

pub fn bps_codings(bps: u32, subset: bool) -> Vec<(BitsPerSample, &'static str)> {
    let mut v = vec![];
    match bps {
        8 => v.push((BitsPerSample::Bps8, "bps:common")),
        12 => v.push((BitsPerSample::Bps12, "bps:common")),
        16 => v.push((BitsPerSample::Bps16, "bps:common")),
        20 => v.push((BitsPerSample::Bps20, "bps:common")),
        24 => v.push((BitsPerSample::Bps24, "bps:common")),
        32 => v.push((BitsPerSample::Bps32, "bps:common")),
        _ => {}
    }
    if !subset { v.push((BitsPerSample::Streaminfo(SignedBitCount::<32>::try_from(bps).unwrap()), "bps:streaminfo")); }
    v
}

/// Can a subset (self-describing) header express these parameters?
pub fn subset_ok(bps: u32, rate: u32) -> bool {
    !bps_codings(bps, true).is_empty() && !rate_codings(rate, true).is_empty()
}

/// Build one frame whose decoded output is `chans` (per-channel samples fitting `bps` bits).
pub fn gen_frame(rng: &mut Rng, cfg: &GenCfg, chans: &[Vec<i32>], bps: u32, rate: u32, variable: bool, number: u64) -> GenFrame {
    let n = chans[0].len();
    assert!(n >= 1 && n <= 65535);
    let mut tags: Vec<String> = vec![];
    let mut bsc: Vec<(BlockSize<u16>, &'static str)> = vec![];
    if let Some(c) = common_bs(n as u16) { bsc.push((c, "bs:common")); bsc.push((c, "bs:common")); }
    if n <= 256 { bsc.push((BlockSize::Uncommon8(n as u16), "bs:u8")); }
    bsc.push((BlockSize::Uncommon16(n as u16), "bs:u16"));
    let (block_size, t) = rng.pick(&bsc).clone();
    tags.push(t.into());
    let rc = rate_codings(rate, cfg.subset);
    let (sample_rate, t) = rng.pick(&rc).clone();
    tags.push(t.into());
    let bc = bps_codings(bps, cfg.subset);
    let (bits_per_sample, t) = rng.pick(&bc).clone();
    tags.push(t.into());
    tags.push(if variable { "strategy:variable".into() } else { "strategy:fixed".into() });
    let assignment = if chans.len() == 2 {
        match rng.below(4) { 0 => ChannelAssignment::Independent(Independent::Stereo), 1 => ChannelAssignment::LeftSide, 2 => ChannelAssignment::SideRight, _ => ChannelAssignment::MidSide }
    } else {
        ChannelAssignment::Independent(Independent::try_from(chans.len()).unwrap())
    };
    tags.push(format!("assign:{}", super::io::assignment_name(&assignment)));
    // per-subframe samples and depths
    let wide = |c: &Vec<i32>| -> Vec<i64> { c.iter().map(|v| *v as i64).collect() };
    let subs: Vec<(Vec<i64>, u32)> = match assignment {
        ChannelAssignment::Independent(_) => chans.iter().map(|c| (wide(c), bps)).collect(),
        ChannelAssignment::LeftSide => vec![(wide(&chans[0]), bps), ((0..n).map(|i| chans[0][i] as i64 - chans[1][i] as i64).collect(), bps + 1)],
        ChannelAssignment::SideRight => vec![((0..n).map(|i| chans[0][i] as i64 - chans[1][i] as i64).collect(), bps + 1), (wide(&chans[1]), bps)],
        ChannelAssignment::MidSide => vec![
            ((0..n).map(|i| (chans[0][i] as i64 + chans[1][i] as i64) >> 1).collect(), bps),
            ((0..n).map(|i| chans[0][i] as i64 - chans[1][i] as i64).collect(), bps + 1),
        ],
    };
    let mut pred_overflow = false;
    let mut subframes = vec![];
    for (x, depth) in subs.iter() {
        let (plan, ovf) = plan_subframe(rng, cfg, x, *depth, &mut tags);
        pred_overflow |= ovf;
        if *depth == 33 {
            tags.push("wide33".into());
            subframes.push(SubframeWidth::Wide(build_sub::<i64>(&plan, n)));
        } else {
            if *depth > bps && plan.wasted > 0 { tags.push("wasted-on-side".into()); }
            subframes.push(SubframeWidth::Common(build_sub::<i32>(&plan, n)));
        }
    }
    if pred_overflow { tags.push("pred-overflow-i32".into()); }
    let frame = Frame {
        header: FrameHeader { blocking_strategy: variable, block_size, sample_rate, channel_assignment: assignment, bits_per_sample, frame_number: FrameNumber(number) },
        subframes,
    };
    GenFrame { frame, tags, pred_overflow }
}

pub struct GenStream {
    pub bytes: Vec<u8>,
    pub si: Si,
    pub audio_start: usize,
    /// byte offsets of the frames within `bytes` (plus the end)
    pub offsets: Vec<usize>,
    pub pcm: Vec<i32>, // interleaved target
    pub frame_lens: Vec<usize>, // interleaved samples per frame
    pub tags: Vec<String>,
    pub pred_overflow: bool,
    pub write_err: Option<String>,
}

/// A whole valid file: `fLaC`, STREAMINFO (optionally PADDING), frames.
pub fn gen_file(rng: &mut Rng, cfg: &GenCfg, kind: &str, ch: usize, bps: u32, rate: u32, blocks: &[usize], variable: bool, total_known: bool, with_md5: bool) -> GenStream {
    let total: usize = blocks.iter().sum();
    let pcm = super::space::gen_pcm_ext(rng, kind, ch, bps, total);
    let non_final = &blocks[..blocks.len() - 1];
    let max_bs = *blocks.iter().max().unwrap() as u16;
    let min_bs = if non_final.is_empty() { max_bs } else { *non_final.iter().min().unwrap() as u16 };
    let mut si = Si { min_bs: min_bs.max(16).min(max_bs.max(16)), max_bs: max_bs.max(16), min_fs: 0, max_fs: 0, rate, ch: ch as u8, bps, total: if total_known { total as u64 } else { 0 }, md5: if with_md5 { super::io::pcm_md5(&pcm, bps) } else { [0u8; 16] } };
    if !variable { si.min_bs = si.max_bs; }
    let streaminfo = si.to_streaminfo();
    let mut tags = vec![format!("kind:{}", kind), format!("ch:{}", ch), format!("bps:{}", bps)];
    let mut frames_bytes: Vec<Vec<u8>> = vec![];
    let mut at = 0usize;
    let mut pred_overflow = false;
    let mut write_err = None;
    let mut frame_lens = vec![];
    for (k, n) in blocks.iter().enumerate() {
        let chans: Vec<Vec<i32>> = (0..ch).map(|c| (0..*n).map(|i| pcm[(at + i) * ch + c]).collect()).collect();
        let number = if variable { at as u64 } else { k as u64 };
        let g = gen_frame(rng, cfg, &chans, bps, rate, variable, number);
        pred_overflow |= g.pred_overflow;
        tags.extend(g.tags.iter().cloned());
        let w = catch(|| { let mut v = vec![]; g.frame.write(&streaminfo, &mut v).map(|_| v) });
        match w {
            Ok(Ok(v)) => frames_bytes.push(v),
            other => {
                // the crate's structural writer refused a valid description: serialise it ourselves
                // (recorded; C17 owns the writer's behaviour) so the decoder still gets tested
                let e = match other { Ok(Err(e)) => format!("err:{}", err_class(&e)), Err(p) => format!("panic:{}", p), _ => unreachable!() };
                if std::env::var("VERIF_DEBUG").is_ok() { eprintln!("WRITE-ERR {} {:?}", e, g.frame); }
                write_err = Some(e);
                frames_bytes.push(super::mutate::serialise(&super::mutate::fields_of_frame(&g.frame)));
            }
        }
        frame_lens.push(n * ch);
        at += n;
    }
    if let (Some(mn), Some(mx)) = (frames_bytes.iter().map(|f| f.len()).min(), frames_bytes.iter().map(|f| f.len()).max()) {
        if rng.chance(1, 2) && mx < (1 << 24) { si.min_fs = mn as u32; si.max_fs = mx as u32; }
    }
    let padding = if rng.chance(1, 3) { Some(rng.below(40) as usize) } else { None };
    let mut bytes = si.file_header(padding);
    let audio_start = bytes.len();
    let mut offsets = vec![];
    for f in frames_bytes.iter() { offsets.push(bytes.len()); bytes.extend_from_slice(f); }
    offsets.push(bytes.len());
    GenStream { bytes, si, audio_start, offsets, pcm, frame_lens, tags, pred_overflow, write_err }
}

pub struct GenSubset {
    pub bytes: Vec<u8>,
    pub offsets: Vec<usize>,
    pub frames: Vec<super::io::SubsetFrame>,
    pub tags: Vec<String>,
    pub pred_overflow: bool,
    pub write_err: Option<String>,
}

/// A raw frame stream with parameters changing from frame to frame.
pub fn gen_subset(rng: &mut Rng, cfg: &GenCfg, nframes: usize, max_block: usize) -> GenSubset {
    let mut cfg = cfg.clone();
    cfg.subset = true;
    let kinds = super::space::all_kinds();
    let mut out = GenSubset { bytes: vec![], offsets: vec![], frames: vec![], tags: vec![], pred_overflow: false, write_err: None };
    let variable = rng.chance(1, 3);
    let mut pos = 0u64;
    for k in 0..nframes {
        let ch = match rng.below(4) { 0 => 1, 1 | 2 => 2, _ => rng.range(1, 8) as usize };
        let bps = *rng.pick(&[8u32, 12, 16, 20, 24, 32, 32, 16]);
        let rate = loop { let r = super::space::pick_rate(rng); if !rate_codings(r, true).is_empty() { break r; } };
        let n = match rng.below(4) { 0 => rng.range(1, 16) as usize, 1 => *rng.pick(&[192usize, 256, 576]).min(&max_block), _ => rng.range(1, max_block as i64) as usize };
        let kind = *rng.pick(&kinds);
        let pcm = super::space::gen_pcm_ext(rng, kind, ch, bps, n);
        let chans: Vec<Vec<i32>> = (0..ch).map(|c| (0..n).map(|i| pcm[i * ch + c]).collect()).collect();
        let number = if rng.chance(1, 4) {
            // the stream reader does not look at numbering: exercise every length of the coded number
            let bits = if variable { rng.range(1, 36) } else { rng.range(1, 31) } as u32;
            rng.next() & ((1u64 << bits) - 1)
        } else if variable { pos } else { k as u64 };
        out.tags.push(format!("numlen:{}", match number { 0..=0x7F => 1, 0x80..=0x7FF => 2, 0x800..=0xFFFF => 3, 0x1_0000..=0x1F_FFFF => 4, 0x20_0000..=0x3FF_FFFF => 5, 0x400_0000..=0x7FFF_FFFF => 6, _ => 7 }));
        let g = gen_frame(rng, &cfg, &chans, bps, rate, variable, number);
        out.pred_overflow |= g.pred_overflow;
        out.tags.extend(g.tags.iter().cloned());
        let w = catch(|| { let mut v = vec![]; g.frame.write_subset(&mut v).map(|_| v) });
        let v = match w {
            Ok(Ok(v)) => v,
            other => {
                let e = match other { Ok(Err(e)) => format!("err:{}", err_class(&e)), Err(p) => format!("panic:{}", p), _ => unreachable!() };
                out.write_err = Some(e);
                super::mutate::serialise(&super::mutate::fields_of_frame(&g.frame))
            }
        };
        out.offsets.push(out.bytes.len());
        out.bytes.extend_from_slice(&v);
        out.frames.push(super::io::SubsetFrame { samples: pcm, rate, ch: ch as u8, bps });
        pos += n as u64;
    }
    out.offsets.push(out.bytes.len());
    out
}
