(* writers/Finalize.v — the Encoder that the three front-ends wrap: construction (initial
   metadata, placeholder seek table), per-frame bookkeeping, finalize with its three layout
   cases, and generate_seektable.  The block encoder itself is abstract (`enc_block`), and so
   is MD5.

   Mirrors src/encode.rs (after the fix commits of branch verif-writers):
     SeekTableInterval::filter 1338; Encoder 1854; Encoder::new 1882-1980; Encoder::encode
     1997-2022; the frame-size extrema of encode_frame 2415-2438; Encoder::finalize_inner
     2024-2112; EncoderSeekPoint 2125, placeholders 2133, range 2146, From 2151;
     generate_seektable 2225-2259.
   The underlying stream is an in-memory Cursor positioned at its end (`prefix` = what it
   already holds); I/O failures are outside this model (property C13). *)
From FlacWriters Require Export Params.
Open Scope N_scope.

Definition block := list (list Z).   (* the channels of one FLAC frame *)

(* encode.rs:2125 EncoderSeekPoint *)
Record seekpoint := { sp_sample : N; sp_byte : option N; sp_frames : N }.

(* encode.rs:2151 From<EncoderSeekPoint> for SeekPoint *)
Definition to_mpoint (s : seekpoint) : mpoint :=
  match sp_byte s with
  | Some b => Defined (sp_sample s) b (sp_frames s)
  | None => Placeholder
  end.

(* Iterator::take *)
Fixpoint take_n {A} (l : list A) (n : N) : list A :=
  match l with [] => [] | x :: r => if n =? 0 then [] else x :: take_n r (n - 1) end.

(* Iterator::step_by(n), n >= 1: the first element, then every n-th *)
Fixpoint step_by_go {A} (n skip : N) (l : list A) : list A :=
  match l with
  | [] => []
  | x :: r => if skip =? 0 then x :: step_by_go n (n - 1) r else step_by_go n (skip - 1) r
  end.
Definition step_by {A} (n : N) (l : list A) : list A := step_by_go n 0 l.

(* encode.rs:1347: keep a point when its sample range contains `offset`, then advance *)
Fixpoint filter_seconds (nth_sample offset : N) (pts : list seekpoint) : list seekpoint :=
  match pts with
  | [] => []
  | pt :: r =>
      if (sp_sample pt <=? offset) && (offset <? sp_sample pt + sp_frames pt)
      then pt :: filter_seconds nth_sample (offset + nth_sample) r
      else filter_seconds nth_sample offset r
  end.

(* encode.rs:1338 SeekTableInterval::filter; `u32::from(seconds) * sample_rate` is a u32 product *)
Definition filter (p : profile) (iv : interval) (sample_rate : N) (pts : list seekpoint)
  : res (list seekpoint) :=
  match iv with
  | Seconds s => nth <- u32_mul p s sample_rate;; Ok (filter_seconds nth 0 pts)
  | Frames n => Ok (step_by n pts)
  end.

(* encode.rs:2133 EncoderSeekPoint::placeholders: (0..total).step_by(block_size) *)
Fixpoint placeholders_go (fuel : nat) (total bs offset : N) : list seekpoint :=
  match fuel with
  | O => []
  | S f =>
      if offset <? total then
        {| sp_sample := offset; sp_byte := None;
           sp_frames := if total - offset <? 65536 then N.min (total - offset) bs else bs |}
        :: placeholders_go f total bs (offset + bs)
      else []
  end.
Definition placeholders (total bs : N) : res (list seekpoint) :=
  if bs =? 0 then Panic PAssert   (* step_by(0) *)
  else Ok (placeholders_go (N.to_nat (cdiv total bs)) total bs 0).

(* Vec<SeekPoint> -> Contiguous<MAX_POINTS, _> `.try_into().unwrap()` (metadata/mod.rs:2742) *)
Definition to_contiguous (l : list mpoint) : res (list mpoint) :=
  if (N.of_nat (length l) <=? MAX_POINTS) && is_contiguous l then Ok l else Panic PUnwrap.

Section Encoder.
Variable enc_block : N -> block -> res (list N).   (* frame number, channels -> frame bytes *)
Variable md5 : list N -> list N.
Variable p : profile.

(* encode.rs:1854 Encoder.  The stream is kept in three parts (prefix, metadata region as first
   written, frames); lists that the Rust code appends to are kept reversed.  `e_emitted` is
   ghost state (the blocks handed to the block encoder), used only to state C08. *)
Record encoder := {
  e_prefix : list N;               (* stream content before `start`; start = its length *)
  e_meta : list N;                 (* metadata region as written by new *)
  e_frames_rev : list (list N);    (* encoded frames, newest first *)
  e_interval : option interval;
  e_blocks : list oblock;
  e_si : streaminfo;
  e_frame_number : N;
  e_samples_written : N;
  e_seekpoints_rev : list seekpoint;
  e_count : N;                     (* Counter::count: bytes after the metadata *)
  e_md5_rev : list (list N);       (* chunks consumed by the MD5 context, newest first *)
  e_emitted_rev : list block }.

Definition e_start (e : encoder) : N := N.of_nat (length (e_prefix e)).
Definition frames_bytes (e : encoder) : list N := concat (rev (e_frames_rev e)).
Definition md5_input (e : encoder) : list N := concat (rev (e_md5_rev e)).
Definition emitted (e : encoder) : list block := rev (e_emitted_rev e).
Definition seekpoints (e : encoder) : list seekpoint := rev (e_seekpoints_rev e).
(* the whole underlying stream *)
Definition stream (e : encoder) : list N := e_prefix e ++ e_meta e ++ frames_bytes e.

(* encode.rs:1919-1939: the placeholder SEEKTABLE inserted when a total is declared *)
Definition placeholder_table (o : options) (sample_rate : N) (total : option N) : res (list oblock) :=
  match total, o_seektable_interval o with
  | Some t, Some iv =>
      ph <- placeholders t (o_block_size o);;
      sel <- filter p iv sample_rate ph;;
      pts <- to_contiguous (map to_mpoint (take_n sel MAX_POINTS));;
      Ok (insert_seektable pts (o_metadata o))
  | _, _ => Ok (o_metadata o)
  end.

(* encode.rs:1882 Encoder::new (bits_per_sample already a SignedBitCount, total a NonZero) *)
Definition encoder_new (prefix : list N) (o : options) (sample_rate bps channels : N)
           (total : option N) : res encoder :=
  _ <- encoder_new_validate sample_rate channels total;;
  let si := {| si_min_bs := o_block_size o; si_max_bs := o_block_size o;
               si_min_fs := None; si_max_fs := None;
               si_rate := sample_rate; si_channels := channels; si_bps := bps;
               si_total := total; si_md5 := None |} in
  blocks <- placeholder_table o sample_rate total;;
  let blocks := sort_blocks blocks in
  meta <- write_blocks si blocks;;
  Ok {| e_prefix := prefix; e_meta := meta; e_frames_rev := [];
        e_interval := o_seektable_interval o; e_blocks := blocks; e_si := si;
        e_frame_number := 0; e_samples_written := 0; e_seekpoints_rev := [];
        e_count := 0; e_md5_rev := []; e_emitted_rev := [] |}.

Definition block_len (b : block) : N := match b with [] => 0 | c :: _ => N.of_nat (length c) end.

(* md5::Context::consume *)
Definition md5_consume (e : encoder) (bytes : list N) : encoder :=
  {| e_prefix := e_prefix e; e_meta := e_meta e; e_frames_rev := e_frames_rev e;
     e_interval := e_interval e; e_blocks := e_blocks e; e_si := e_si e;
     e_frame_number := e_frame_number e; e_samples_written := e_samples_written e;
     e_seekpoints_rev := e_seekpoints_rev e; e_count := e_count e;
     e_md5_rev := bytes :: e_md5_rev e; e_emitted_rev := e_emitted_rev e |}.

(* encode.rs:2415-2438: extrema over the frame sizes that fit the 24-bit field *)
Definition update_frame_sizes (si : streaminfo) (size : N) : streaminfo :=
  if (size <? 2 ^ 32) && (size <? MAX_FRAME_SIZE) && negb (size =? 0) then
    {| si_min_bs := si_min_bs si; si_max_bs := si_max_bs si;
       si_min_fs := Some (match si_min_fs si with Some m => N.min size m | None => size end);
       si_max_fs := Some (match si_max_fs si with Some m => N.max size m | None => size end);
       si_rate := si_rate si; si_channels := si_channels si; si_bps := si_bps si;
       si_total := si_total si; si_md5 := si_md5 si |}
  else si.

(* encode.rs:1997 Encoder::encode + the bookkeeping part of encode_frame *)
Definition encoder_encode (e : encoder) (b : block) : res encoder :=
  (* frame.channels().collect::<ArrayVec<_, MAX_CHANNELS>>() is evaluated as an argument of
     encode_frame, after the length check below; a frame has at most 8 channels *)
  let pcm_frames := block_len b in
  (* a frame never holds more samples than the stream's block size (repo fix 6387abb: reachable only when a
     front-end offers what an earlier failed write left in its buffer) *)
  if si_max_bs (e_si e) <? pcm_frames then Err EBlockSize else
  let sp := {| sp_sample := e_samples_written e; sp_byte := Some (e_count e);
               sp_frames := pcm_frames mod 65536 |} in
  written <- u64_add p (e_samples_written e) pcm_frames;;
  if (match si_total (e_si e) with Some t => t <? written | None => false end)
  then Err EExcessiveTotalSamples
  else
    if 8 <? N.of_nat (length b) then Panic PCapacity else
    bytes <- enc_block (e_frame_number e) b;;
    let size := N.of_nat (length bytes) in
    count <- u64_add p (e_count e) size;;
    Ok {| e_prefix := e_prefix e; e_meta := e_meta e; e_frames_rev := bytes :: e_frames_rev e;
          e_interval := e_interval e; e_blocks := e_blocks e;
          e_si := update_frame_sizes (e_si e) size;
          e_frame_number := e_frame_number e + 1; e_samples_written := written;
          e_seekpoints_rev := sp :: e_seekpoints_rev e; e_count := count;
          e_md5_rev := e_md5_rev e; e_emitted_rev := b :: e_emitted_rev e |}.

(* ---- finalize *)

(* encode.rs:2036-2077.  `cap` = true is the code after the fix of F-C09a
   (`.take(SeekTable::MAX_POINTS)` in the padding case), false the code before it. *)
Definition finalize_seektable_gen (cap : bool) (blocks : list oblock) (sel : list seekpoint)
  : res (list oblock) :=
  match first_seektable blocks with
  | Some points =>
      (* placeholder table in place: same number of points, placeholders fill the rest *)
      let n := N.of_nat (length points) in
      let pts := take_n (map to_mpoint sel ++ repeat Placeholder (length points)) n in
      (* points.clear(); points.try_extend(..).unwrap() *)
      pts' <- to_contiguous pts;;
      Ok (insert_seektable pts' blocks)
  | None =>
      match first_padding blocks with
      | Some padding_size =>
          pts <- to_contiguous (map to_mpoint (if cap then take_n sel MAX_POINTS else sel));;
          (* seektable.total_size(): bytes() is None when to_writer fails or the size exceeds
             the block-size field; then + BlockHeader::SIZE, checked *)
          let body := 18 * N.of_nat (length pts) in
          if seektable_ok None pts && (body <=? BLOCKSIZE_MAX) && (body + HEADER_SIZE <=? BLOCKSIZE_MAX)
             && (body + HEADER_SIZE <=? padding_size)
          then Ok (match set_first_padding (padding_size - (body + HEADER_SIZE)) blocks with
                   | Some bl => bl ++ [BSeekTable pts]      (* BlockList::insert pushes at the end *)
                   | None => blocks
                   end)
          else Ok blocks
      | None => Ok blocks
      end
  end.
Definition finalize_seektable := finalize_seektable_gen true.

Definition with_total_md5 (si : streaminfo) (total : option N) (d : option (list N)) : streaminfo :=
  {| si_min_bs := si_min_bs si; si_max_bs := si_max_bs si; si_min_fs := si_min_fs si;
     si_max_fs := si_max_fs si; si_rate := si_rate si; si_channels := si_channels si;
     si_bps := si_bps si; si_total := total; si_md5 := d |}.

(* encode.rs:2080-2099 *)
Definition finalize_total (si : streaminfo) (written : N) : res (option N) :=
  match si_total si with
  | Some expected => if expected =? written then Ok (Some expected) else Err ESampleCountMismatch
  | None =>
      if written <? MAX_SAMPLES then
        (if written =? 0 then Err ENoSamples else Ok (Some written))
      else Err EExcessiveTotalSamples
  end.

(* Cursor: seek to `start`, write `new` over what is there (extending if longer) *)
Definition overwrite (old new : list N) : list N := new ++ skipn (length new) old.

(* The finished encoder: blocks/streaminfo as rewritten, and the rewritten stream *)
Record finished := {
  f_stream : list N;
  f_si : streaminfo;
  f_blocks : list oblock;
  f_enc : encoder }.

(* encode.rs:2024 Encoder::finalize_inner *)
Definition encoder_finalize_gen (cap : bool) (e : encoder) : res finished :=
  blocks <- match e_interval e with
            | Some iv =>
                sel <- filter p iv (si_rate (e_si e)) (seekpoints e);;
                finalize_seektable_gen cap (e_blocks e) sel
            | None => Ok (e_blocks e)
            end;;
  total <- finalize_total (e_si e) (e_samples_written e);;
  let si := with_total_md5 (e_si e) total (Some (md5 (md5_input e))) in
  meta <- write_blocks si blocks;;
  Ok {| f_stream := e_prefix e ++ overwrite (e_meta e ++ frames_bytes e) meta;
        f_si := si; f_blocks := blocks; f_enc := e |}.
Definition encoder_finalize := encoder_finalize_gen true.

End Encoder.

(* ---- generate_seektable (encode.rs:2225) over the frames of a finished file:
        each frame is (block size from its header, byte length) *)
Fixpoint frame_seekpoints (sample byte : N) (frames : list (N * N)) : list seekpoint :=
  match frames with
  | [] => []
  | (n, len) :: r =>
      {| sp_sample := sample; sp_byte := Some byte; sp_frames := n |}
      :: frame_seekpoints (sample + n) (byte + len) r
  end.
Definition generate_seektable (p : profile) (sample_rate : N) (frames : list (N * N)) (iv : interval)
  : res (list mpoint) :=
  sel <- filter p iv sample_rate (frame_seekpoints 0 0 frames);;
  to_contiguous (map to_mpoint (take_n sel MAX_POINTS)).
