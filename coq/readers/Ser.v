(* readers/Ser.v — a decoded frame, its interleaving, and sample -> bytes at widths 1..4 in both
   byte orders, exactly as audio.rs (Frame) and byteorder.rs do it.  No proofs here.

   A frame is its list of channels (audio.rs keeps them stacked in one Vec plus `channel_len`;
   `channels()` = chunks_exact(channel_len) recovers the list).  Samples are i32 values as Z. *)
From FlacReaders Require Export RNum.
Open Scope N_scope.

Definition frame := list (list Z).

(* audio.rs:42 Frame::pcm_frames = channel_len *)
Definition pcm_frames (f : frame) : N :=
  match f with [] => 0 | c :: _ => lenN c end.

(* samples.len() *)
Definition samples_len (f : frame) : N := lenN (concat f).

(* audio.rs:138 Frame::channels = samples.chunks_exact(channel_len): panics for chunk size 0 *)
Definition channels (f : frame) : res (list (list Z)) :=
  if pcm_frames f =? 0 then Panic PChunkZero else Ok f.

(* audio.rs:234 MultiZip::next = iters.iter_mut().map(|i| i.next()).collect::<Option<_>>():
   one item from every channel, None as soon as one channel is exhausted *)
Fixpoint heads_tails (cs : list (list Z)) : option (list Z * list (list Z)) :=
  match cs with
  | [] => Some ([], [])
  | c :: r =>
      match c with
      | [] => None
      | x :: t => match heads_tails r with
                  | None => None
                  | Some (hs, ts) => Some (x :: hs, t :: ts)
                  end
      end
  end.

(* MultiZip{..}.flatten(); fuel = channel_len (each round takes one item from every channel) *)
Fixpoint multizip (fuel : nat) (cs : list (list Z)) : list Z :=
  match fuel with
  | O => []
  | S n => match heads_tails cs with
           | None => []
           | Some (hs, ts) => hs ++ multizip n ts
           end
  end.

Definition interleave (f : frame) : list Z := multizip (length (hd [] f)) f.

(* audio.rs:94 Frame::iter *)
Definition iter (f : frame) : res (list Z) :=
  cs <- channels f ;; Ok (interleave cs).

(* audio.rs:82 bytes_per_sample = bits_per_sample.div_ceil(8) *)
Definition bytes_per_sample (bps : N) : N := (bps + 7) / 8.

(* audio.rs:88 bytes_len = bytes_per_sample * samples.len() *)
Definition bytes_len (bps : N) (f : frame) : N := bytes_per_sample bps * samples_len f.

Inductive endian := LE | BE.

Definition order (e : endian) (le_bytes : list N) : list N :=
  match e with LE => le_bytes | BE => rev le_bytes end.

(* `x as u32` of an i32 *)
Definition as_u32 (z : Z) : N := Z.to_N (z mod 4294967296).
(* `x as u8` of a u32 *)
Definition as_u8 (n : N) : N := n mod 256.

(* sample as i8, to_{le,be}_bytes: the two's-complement byte *)
Definition i8_to_bytes (s : Z) : list N := [Z.to_N (s mod 256)].

(* sample as i16, to_{le,be}_bytes *)
Definition i16_to_bytes (e : endian) (s : Z) : list N :=
  let u := Z.to_N (s mod 65536) in order e [u mod 256; u / 256].

(* byteorder.rs:60 / 132 i24_to_bytes (hand-written):
     unsigned = if sample >= 0 { sample as u32 } else { 0x800000 | ((sample - (-1 << 23)) as u32) }
     LE: [(unsigned & 0xFF) as u8, ((unsigned & 0xFF00) >> 8) as u8, (unsigned >> 16) as u8]
   `sample - (-1 << 23)` cannot overflow i32 in the branch sample < 0. *)
Definition i24_unsigned (s : Z) : N :=
  if (0 <=? s)%Z then as_u32 s else N.lor 8388608 (as_u32 (s + 8388608)).
Definition i24_to_bytes (e : endian) (s : Z) : list N :=
  let u := i24_unsigned s in
  order e [as_u8 (N.land u 255); as_u8 (N.shiftr (N.land u 65280) 8); as_u8 (N.shiftr u 16)].

(* i32::to_{le,be}_bytes *)
Definition i32_to_bytes (e : endian) (s : Z) : list N :=
  let u := as_u32 s in
  order e [u mod 256; (u / 256) mod 256; (u / 65536) mod 256; u / 16777216].

(* one sample at byte width w (1..4); other widths never reach here (to_buf panics first) *)
Definition ser1 (e : endian) (w : N) (s : Z) : list N :=
  match w with
  | 1 => i8_to_bytes s
  | 2 => i16_to_bytes e s
  | 3 => i24_to_bytes e s
  | 4 => i32_to_bytes e s
  | _ => []
  end.

Definition ser (e : endian) (w : N) (xs : list Z) : list N := concat (map (ser1 e w) xs).

(* audio.rs:110 Frame::to_buf into `buf` (zero-filled, bytes_len long, by the caller's resize):
   `for (sample, bytes) in self.iter().zip(buf.as_chunks_mut().0)` writes min(#samples, #chunks)
   chunks and leaves the rest of buf as it was; any other width panics. *)
Definition to_buf (e : endian) (bps : N) (f : frame) : res (list N) :=
  let w := bytes_per_sample bps in
  if (1 <=? w) && (w <=? 4) then
    xs <- iter f ;;
    let n := bytes_len bps f in
    let chunks := n / w in                         (* buf.as_chunks_mut().0.len() *)
    let written := ser e w (takeN chunks xs) in
    Ok (written ++ repeatN 0 (n - lenN written))
  else Panic PAssert.
