//! C09 harness: STREAMINFO and SEEKTABLE written at finalize describe the stream truthfully, the
//! header rewrite neither moves nor overwrites a frame, and regenerating the seek table from the
//! finished file gives the same defined points.
//!
//! Grid: block size x seek policy x declared/undeclared x padding {none, too small by 1, exact,
//! ample, default} x stream not starting at offset 0 x front-end; (thorough) more frames than a
//! seek table can hold.  Every clause is checked directly on the parsed metadata ("viol");
//! "case" lines carry the input of the model (which predicts the finished metadata region,
//! byte for byte, from the frame lengths) and the implementation's observation.
#[path = "writers_common/mod.rs"]
mod wc;
use flac_codec::encode::{generate_seektable, SeekTableInterval};
use flac_codec::metadata::{read_blocks, Block, SeekPoint};
use std::collections::BTreeMap;
use std::io::Cursor;
use vharness::json::{esc, obj};
use vharness::*;
use wc::*;

#[derive(Clone, Debug)]
struct Case {
    kind: Kind,
    opt: OptSpec,
    rate: u32,
    bps: u32,
    ch: u8,
    declare: bool,
    prefix: usize,
    frames: usize,
    /// chunk sizes in PCM frames (converted to the writer's unit)
    chunks: Vec<usize>,
    pcm_kind: &'static str,
}

struct Ctx {
    stats: BTreeMap<String, u64>,
    viols: usize,
    cases: usize,
    seen: std::collections::BTreeSet<String>,
}
impl Ctx {
    fn bump(&mut self, k: &str) {
        *self.stats.entry(k.to_string()).or_insert(0) += 1;
    }
}

fn unit(kind: Kind, bps: u32, ch: u8) -> usize {
    match kind {
        Kind::ByteLe | Kind::ByteBe => bytes_per_sample(bps) * ch as usize,
        Kind::Sample => ch as usize,
        Kind::Channel => 1,
    }
}

fn point_str(p: &SeekPoint) -> String {
    match p {
        SeekPoint::Placeholder => "P".to_string(),
        SeekPoint::Defined { sample_offset, byte_offset, frame_samples } => format!("{}:{}:{}", sample_offset, byte_offset, frame_samples),
    }
}

struct Finished {
    file: Vec<u8>,
    meta0: usize,
    before_finalize: Vec<u8>,
}

fn encode(c: &Case, pcm: &[i32]) -> Result<Finished, String> {
    let (oo, opts) = c.opt.build();
    let Some(opts) = opts else { return Err(format!("opt:{}", oo.full())) };
    let u = unit(c.kind, c.bps, c.ch);
    let total = if c.declare { Some((c.frames * u) as u64) } else { None };
    let prefix: Vec<u8> = (0..c.prefix).map(|i| (i * 37 + 11) as u8).collect();
    let stream = Shared::new(&prefix);
    let (no, w) = AnyWriter::new(c.kind, stream.clone(), opts, c.rate, c.bps, c.ch, total);
    let Some(mut w) = w else { return Err(format!("new:{}", no.full())) };
    let meta0 = stream.snapshot().len() - c.prefix;
    let nb = bytes_per_sample(c.bps);
    let bytes = if c.kind.is_byte() { samples_to_bytes(pcm, nb, c.kind == Kind::ByteBe) } else { vec![] };
    let mut pos = 0usize;
    for &n in &c.chunks {
        let o = match c.kind {
            Kind::ByteLe | Kind::ByteBe => w.write(&[], Some(&bytes[pos * u..(pos + n) * u]), c.bps, c.ch as usize),
            _ => w.write(&pcm[pos * c.ch as usize..(pos + n) * c.ch as usize], None, c.bps, c.ch as usize),
        };
        pos += n;
        if !o.is_ok() {
            w.forget();
            return Err(format!("write:{}", o.full()));
        }
    }
    // byte writers, undeclared total, every third such run: 1..(PCM frame size - 1) stray bytes after the last whole PCM
    // frame.  They are dropped by finalize (documented) and must leave no trace: not in the audio, not in the MD5
    if c.kind.is_byte() && !c.declare && u > 1 && (c.frames + c.chunks.len()) % 3 == 0 {
        let k = 1 + (c.frames % (u - 1));
        let stray: Vec<u8> = (0..k).map(|i| (0xA5u8).wrapping_add((i as u8).wrapping_mul(29))).collect();
        let o = w.write(&[], Some(&stray), c.bps, c.ch as usize);
        if !o.is_ok() {
            w.forget();
            return Err(format!("write:{}", o.full()));
        }
    }
    let before = stream.snapshot();
    let fo = w.finalize();
    if !fo.is_ok() {
        return Err(format!("fin:{}", fo.full()));
    }
    Ok(Finished { file: stream.snapshot(), meta0, before_finalize: before })
}

fn mline(c: &Case, flens: &[usize], md5hex: &str) -> String {
    let u = unit(c.kind, c.bps, c.ch);
    format!(
        "C09 w={} {} rate={} bps={} ch={} total={} prefix={} chunks={} flens={} md5={}",
        c.kind.tag(),
        c.opt.tag(),
        c.rate,
        c.bps,
        c.ch,
        if c.declare { (c.frames * u).to_string() } else { "none".to_string() },
        c.prefix,
        if c.chunks.is_empty() { "-".to_string() } else { c.chunks.iter().map(|x| (x * u).to_string()).collect::<Vec<_>>().join(",") },
        if flens.is_empty() { "-".to_string() } else { flens.iter().map(|x| x.to_string()).collect::<Vec<_>>().join(",") },
        md5hex
    )
}

fn viol(cx: &mut Ctx, key: &str, desc: &str, c: &Case, extra: &str) {
    cx.viols += 1;
    println!(
        "{}",
        obj(&[("t", esc("viol")), ("key", esc(key)), ("desc", esc(desc)), ("m", esc(&mline(c, &[], "-"))), ("pcm_kind", esc(c.pcm_kind)),
              ("frames", c.frames.to_string()), ("detail", esc(extra))])
    );
}

/// Returns the number of points of the written table (None if no table), for sizing paddings.
fn run_case(cx: &mut Ctx, c: &Case, seed: u64, emit: bool) -> Option<usize> {
    let tag = format!("{} {} {} {:?}", mline(c, &[], "-"), c.pcm_kind, c.frames, c.chunks);
    if !cx.seen.insert(tag) {
        return None;
    }
    let mut rng = Rng::new(seed, 0xC09_0001 ^ (c.frames as u64) << 8 ^ c.bps as u64);
    let pcm = gen_pcm(&mut rng, c.pcm_kind, c.ch as usize, c.bps, c.frames);
    let f = match encode(c, &pcm) {
        Ok(f) => f,
        Err(e) => {
            if e.contains("panic:") {
                let site = e.split(':').next().unwrap_or("run").to_string();
                viol(cx, &format!("{}-panic:{}", site, slug(e.splitn(3, ':').nth(2).unwrap_or(""))), &e, c, "");
            } else {
                viol(cx, "encode-fails", &e, c, "");
            }
            return None;
        }
    };
    cx.bump("encoded");
    // ---- the same run into a sink that accepts only a few bytes per write call (a legal io::Write): what is
    //      written, counted and recorded (STREAMINFO frame sizes, seek-point byte offsets) must not depend on it
    if cx.stats.get("encoded").copied().unwrap_or(0) % 3 == 0 {
        let max = 1 + (seed as usize ^ c.frames) % 7;
        SHORT_WRITE_MAX.with(|m| m.set(max));
        let g = encode(c, &pcm);
        SHORT_WRITE_MAX.with(|m| m.set(0));
        cx.bump("short_write_sink_runs");
        match g {
            Ok(g) if g.file == f.file => {}
            Ok(g) => {
                let k = g.file.iter().zip(f.file.iter()).position(|(a, b)| a != b).unwrap_or(g.file.len().min(f.file.len()));
                viol(cx, "short-write-sink-changes-file", &format!("a sink accepting at most {} bytes per write call receives a different finished file (first difference at byte {} of {}; metadata region {} bytes)", max, k, f.file.len(), f.meta0), c, "");
            }
            Err(e) => viol(cx, "short-write-sink-fails", &format!("a sink accepting at most {} bytes per write call makes the run fail: {}", max, e), c, ""),
        }
    }
    let file = &f.file;
    let flac = &file[c.prefix..];
    // ---- prefix untouched
    if file[..c.prefix].iter().enumerate().any(|(i, b)| *b != (i * 37 + 11) as u8) {
        viol(cx, "rewrite-touches-bytes-before-stream-start", "bytes before the stream start were modified", c, "");
    }
    // ---- true frame boundaries
    let Some(bounds) = frame_boundaries(flac) else {
        viol(cx, "finished-file-undecodable", "the finished file does not decode", c, "");
        return None;
    };
    let metalen = bounds[0];
    let flens: Vec<usize> = bounds.windows(2).map(|w| w[1] - w[0]).collect();
    let d = decode_all(flac);
    let ch = c.ch as usize;
    let fsamples: Vec<usize> = d.frame_lens.iter().map(|n| n / ch).collect();
    if d.samples != pcm {
        println!("{}", obj(&[("t", esc("note")), ("msg", esc(&format!("file does not decode to its PCM: {}", mline(c, &[], "-"))))]));
    }
    // ---- layout: the metadata region kept its length; no frame byte moved or changed
    if metalen != f.meta0 {
        viol(cx, "metadata-region-length-changed", &format!("metadata region was {} bytes after new, {} after finalize", f.meta0, metalen), c, "");
    }
    let before_frames = &f.before_finalize[(c.prefix + f.meta0).min(f.before_finalize.len())..];
    let after_frames = &file[(c.prefix + f.meta0).min(file.len())..];
    if after_frames.len() < before_frames.len() || &after_frames[..before_frames.len()] != before_frames {
        viol(cx, "rewrite-changes-frame-bytes", "frame bytes written before finalize differ afterwards", c, "");
    }
    // ---- parse the metadata with the public API
    let mut si = None;
    let mut table: Option<Vec<SeekPoint>> = None;
    let mut order: Vec<String> = vec![];
    for b in read_blocks(Cursor::new(flac)) {
        match b {
            Ok(Block::Streaminfo(s)) => {
                order.push("streaminfo".into());
                si = Some(s)
            }
            Ok(Block::SeekTable(t)) => {
                order.push(format!("seektable:{}", t.points.len()));
                table = Some(t.points.iter().cloned().collect())
            }
            Ok(Block::Padding(p)) => order.push(format!("padding:{}", u32::from(p.size))),
            Ok(other) => order.push(format!("{}", other.block_type())),
            Err(e) => {
                viol(cx, "finished-metadata-unreadable", &format!("read_blocks: {}", err_class(&e)), c, "");
                return None;
            }
        }
    }
    let Some(si) = si else { return None };
    // ---- STREAMINFO clauses
    let true_total: usize = fsamples.iter().sum();
    if si.total_samples.map(|t| t.get()) != Some(c.frames as u64) || true_total != c.frames {
        viol(cx, "streaminfo-total-wrong", &format!("total {:?}, frames hold {}, written {}", si.total_samples, true_total, c.frames), c, "");
    }
    if si.channels.get() != c.ch || si.sample_rate != c.rate || u32::from(si.bits_per_sample) != c.bps {
        viol(cx, "streaminfo-parameters-wrong", "channels / rate / depth differ from the constructor arguments", c, "");
    }
    let (mn, mx) = (flens.iter().min().copied(), flens.iter().max().copied());
    if si.minimum_frame_size.map(|v| v.get() as usize) != mn || si.maximum_frame_size.map(|v| v.get() as usize) != mx {
        viol(cx, "streaminfo-frame-size-extrema-wrong", &format!("min/max frame size {:?}/{:?}, true {:?}/{:?}", si.minimum_frame_size, si.maximum_frame_size, mn, mx), c, "");
    }
    let bs = si.maximum_block_size as usize;
    if si.minimum_block_size != si.maximum_block_size
        || fsamples.iter().rev().skip(1).any(|n| *n != bs)
        || fsamples.last().map_or(false, |n| *n > bs || *n == 0)
    {
        viol(cx, "streaminfo-block-size-wrong", &format!("block size {}..{}, frames {:?}", si.minimum_block_size, si.maximum_block_size, &fsamples[..fsamples.len().min(8)]), c, "");
    }
    let want_md5 = md5_of_samples(&pcm, c.bps);
    if si.md5 != Some(want_md5) {
        viol(cx, "streaminfo-md5-wrong", "MD5 is not that of the little-endian sign-extended PCM bytes", c, "");
    }
    // ---- SEEKTABLE clauses
    let mut starts: std::collections::HashSet<(u64, u64, u16)> = Default::default();
    {
        let mut s = 0u64;
        for (i, n) in fsamples.iter().enumerate() {
            starts.insert((s, (bounds[i] - metalen) as u64, *n as u16));
            s += *n as u64;
        }
    }
    if let Some(pts) = &table {
        let mut seen_placeholder = false;
        let mut last: Option<u64> = None;
        for p in pts {
            match p {
                SeekPoint::Placeholder => seen_placeholder = true,
                SeekPoint::Defined { sample_offset, byte_offset, frame_samples } => {
                    if seen_placeholder {
                        viol(cx, "seektable-defined-after-placeholder", "a defined point follows a placeholder", c, &point_str(p));
                    }
                    if last.map_or(false, |l| *sample_offset <= l) {
                        viol(cx, "seektable-not-ascending", "defined points are not strictly ascending", c, &point_str(p));
                    }
                    last = Some(*sample_offset);
                    if !starts.contains(&(*sample_offset, *byte_offset, *frame_samples)) {
                        viol(cx, "seekpoint-names-no-frame", &format!("point {} is not (first sample, offset, length) of a frame", point_str(p)), c, "");
                    }
                }
            }
        }
        // regenerate with the same interval
        let iv = c.opt.seek.clone().unwrap_or_else(|| "s:10".to_string());
        let interval = if let Some(n) = iv.strip_prefix("s:") {
            n.parse::<u8>().ok().and_then(|n| std::num::NonZero::new(n)).map(SeekTableInterval::Seconds)
        } else if let Some(n) = iv.strip_prefix("f:") {
            n.parse::<usize>().ok().and_then(std::num::NonZero::new).map(SeekTableInterval::Frames)
        } else {
            None
        };
        if let Some(interval) = interval {
            match catch(|| generate_seektable(Cursor::new(flac), interval)) {
                Ok(Ok(t)) => {
                    let a: Vec<String> = t.points.iter().filter(|p| !matches!(p, SeekPoint::Placeholder)).map(point_str).collect();
                    let b: Vec<String> = pts.iter().filter(|p| !matches!(p, SeekPoint::Placeholder)).map(point_str).collect();
                    if a != b {
                        viol(cx, "regenerated-seektable-differs", &format!("written {} defined points, regenerated {}", b.len(), a.len()), c, &format!("written={} regenerated={}", b.join(","), a.join(",")));
                    }
                }
                Ok(Err(e)) => viol(cx, "generate-seektable-fails", &err_class(&e), c, ""),
                Err(p) => viol(cx, &format!("generate-seektable-panic:{}", slug(&p)), &p, c, ""),
            }
        }
        cx.bump("with-table");
    } else {
        cx.bump("without-table");
    }
    // ---- model case
    if emit && metalen <= 40000 && flens.len() <= 3000 {
        let regen = match (&table, &c.opt.seek) {
            _ => {
                let iv = c.opt.seek.clone().unwrap_or_else(|| "s:10".to_string());
                let interval = if let Some(n) = iv.strip_prefix("s:") {
                    n.parse::<u8>().ok().and_then(std::num::NonZero::new).map(SeekTableInterval::Seconds)
                } else if let Some(n) = iv.strip_prefix("f:") {
                    n.parse::<usize>().ok().and_then(std::num::NonZero::new).map(SeekTableInterval::Frames)
                } else {
                    None
                };
                match interval {
                    None => "-".to_string(),
                    Some(interval) => match catch(|| generate_seektable(Cursor::new(flac), interval)) {
                        Ok(Ok(t)) => t.points.iter().map(point_str).collect::<Vec<_>>().join(","),
                        Ok(Err(_)) => "err".to_string(),
                        Err(_) => "panic".to_string(),
                    },
                }
            }
        };
        let obs = format!(
            "fin:ok meta0={} metalen={} len={} points={} regen={} meta={}",
            f.meta0,
            metalen,
            file.len(),
            table.as_ref().map_or("-".to_string(), |p| p.iter().map(point_str).collect::<Vec<_>>().join(",")),
            regen,
            hex(&flac[..metalen])
        );
        cx.cases += 1;
        println!("{}", obj(&[("t", esc("case")), ("m", esc(&mline(c, &flens, &hex(&want_md5)))), ("obs", esc(&obs)), ("order", esc(&order.join(" ")))]));
    }
    table.map(|t| t.len())
}

fn main() {
    quiet_panics();
    let seed = env_seed();
    let thorough = env_tier_thorough();
    let mut cx = Ctx { stats: BTreeMap::new(), viols: 0, cases: 0, seen: Default::default() };
    let mut rng = Rng::new(seed, 0xC09);

    let seeks: Vec<&str> = vec!["none", "f:1", "f:2", "f:3", "f:7", "s:1", "s:2", "s:255"];
    let cfgs: Vec<(u32, u8, u32, u16)> = vec![(16, 2, 44100, 16), (8, 1, 100, 16), (24, 3, 8000, 20), (16, 1, 16, 16), (12, 2, 0, 32), (32, 1, 40, 17), (16, 2, 1048575, 64)];
    for (ci, &(bps, ch, rate, bs)) in cfgs.iter().enumerate() {
        for &sk in &seeks {
            for &declare in &[false, true] {
                for &prefix in &[0usize, 7] {
                    if prefix != 0 && !(ci < 3 || thorough) {
                        continue;
                    }
                    let frames = bs as usize * (3 + ci % 4) + [0usize, 5, 1][ci % 3];
                    let kind = [Kind::Sample, Kind::Channel, Kind::ByteLe, Kind::ByteBe][(ci + prefix) % 4];
                    let base = Case {
                        kind,
                        opt: OptSpec { block_size: Some(bs), seek: Some(sk.to_string()), ..Default::default() },
                        rate,
                        bps,
                        ch,
                        declare,
                        prefix,
                        frames,
                        chunks: vec![frames / 2, frames - frames / 2],
                        pcm_kind: PCM_KINDS[(ci + prefix) % PCM_KINDS.len()],
                    };
                    // ample padding first: learn how many points the table gets
                    let mut c = base.clone();
                    c.opt.padding = Some(Some(4000));
                    let n = run_case(&mut cx, &c, seed, true);
                    // no padding
                    let mut c = base.clone();
                    c.opt.padding = Some(None);
                    run_case(&mut cx, &c, seed, true);
                    // default padding (4096)
                    let mut c = base.clone();
                    c.opt.padding = None;
                    run_case(&mut cx, &c, seed, true);
                    if let Some(n) = n {
                        let need = 4 + 18 * n as u32;
                        for pad in [need - 1, need, need + 1, need + 4, need.saturating_sub(18), 1] {
                            let mut c = base.clone();
                            c.opt.padding = Some(Some(pad));
                            run_case(&mut cx, &c, seed, true);
                        }
                    }
                }
            }
        }
    }
    // the default options (10 s seek table, 4096 block, 4096 padding) on a longer stream
    for &(rate, frames) in &[(100u32, 9000usize), (800, 20000), (44100, 12000)] {
        for &declare in &[false, true] {
            let c = Case {
                kind: Kind::Sample,
                opt: OptSpec::default(),
                rate,
                bps: 8,
                ch: 1,
                declare,
                prefix: 3,
                frames,
                chunks: vec![frames],
                pcm_kind: "sparse",
            };
            run_case(&mut cx, &c, seed, true);
        }
    }
    // random
    let n_rand = if thorough { 800 } else { 120 };
    for _ in 0..n_rand {
        let bps = rng.range(4, 32) as u32;
        let ch = rng.range(1, 4) as u8;
        let bs = rng.range(16, 48) as u16;
        let frames = rng.range(1, 400) as usize;
        let mut opt = OptSpec { block_size: Some(bs), ..Default::default() };
        opt.seek = Some(match rng.below(4) {
            0 => "none".to_string(),
            1 => format!("f:{}", rng.range(1, 9)),
            2 => format!("s:{}", rng.range(1, 5)),
            _ => "f:1".to_string(),
        });
        opt.padding = match rng.below(4) {
            0 => None,
            1 => Some(None),
            _ => Some(Some(rng.range(0, 400) as u32)),
        };
        opt.fast = rng.chance(1, 3);
        let rate = *rng.pick(&[0u32, 1, 7, 16, 48, 100, 44100]);
        let mut chunks = vec![];
        let mut left = frames;
        while left > 0 {
            let n = (rng.range(1, 120) as usize).min(left);
            chunks.push(n);
            left -= n;
        }
        let c = Case {
            kind: *rng.pick(&KINDS),
            opt,
            rate,
            bps,
            ch,
            declare: rng.chance(1, 2),
            prefix: if rng.chance(1, 3) { rng.range(1, 50) as usize } else { 0 },
            frames,
            chunks,
            pcm_kind: PCM_KINDS[rng.below(PCM_KINDS.len() as u64) as usize],
        };
        run_case(&mut cx, &c, seed, true);
    }
    // thorough: more frames than a seek table holds (16-sample frames of silence)
    // (release build only: the debug build of the encoder needs minutes per file)
    if !cfg!(debug_assertions) {
        let frames = 16 * 932_100usize;
        let all = [(false, 16_777_215u32), (true, 0u32), (false, 16_777_209)];
        for &(declare, pad) in &all[..if thorough { 3 } else { 1 }] {
            let c = Case {
                kind: Kind::Sample,
                opt: OptSpec { block_size: Some(16), seek: Some("f:1".into()), padding: Some(Some(pad)), fast: true, ..Default::default() },
                rate: 8000,
                bps: 8,
                ch: 1,
                declare,
                prefix: 0,
                frames,
                chunks: vec![frames],
                pcm_kind: "zero",
            };
            run_case(&mut cx, &c, seed, false);
            cx.bump("more-than-max-points");
        }
    }

    let st: Vec<(String, String)> = cx.stats.iter().map(|(k, v)| (k.clone(), v.to_string())).collect();
    println!(
        "{}",
        obj(&[
            ("t", esc("stat")),
            ("profile", esc(if cfg!(debug_assertions) { "debug" } else { "release" })),
            ("cases", cx.cases.to_string()),
            ("viols", cx.viols.to_string()),
            ("dist", obj(&st.iter().map(|(k, v)| (k.as_str(), v.clone())).collect::<Vec<_>>())),
        ])
    );
}
