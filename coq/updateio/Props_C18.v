(* Property C18 — multithreaded encoding produces the same bytes as single-threaded encoding (PARTIAL).
   What is proved: for fork–join programs whose tasks are deterministic step sequences on disjoint
   components of a product state, every interleaving that reaches the join point yields the sequential
   result; join / try_join / vec_map and the encoder's task structure are instances.
   What no theorem here can see (stated as the two hypotheses of C18_modulo_assumptions):
   (1) that the Rust closures really are such tasks — the borrow checker (`&mut` captures of distinct
       caches, get_disjoint_mut, Send bounds) and #![forbid(unsafe_code)], plus the source scan of the check;
   (2) that rayon::join / par_iter implement fork–join (run both closures to completion, return at the join). *)
From FlacBase Require Import Res Bits.
From FlacUpdIo Require Import Par Par_proofs.
Open Scope N_scope.

Theorem C18_fork_join_partial :
  forall (C : Type) (sched : list nat) (rem : nat -> list (step C)) (st : nat -> C),
    complete C sched rem st -> forall k, snd (exec C sched rem st) k = seq_result C rem st k.
Proof. exact par_is_seq. Qed.

Theorem C18_join :
  forall (C : Type) (a b : list (step C)) (sched : list nat) (ca cb : C),
    complete C sched (tasks2 C a b) (st2 C ca cb) -> join_par C a b sched ca cb = join_seq C a b ca cb.
Proof. exact join_is_seq. Qed.

Theorem C18_try_join :
  forall (C A B : Type) (ra : C -> res A) (rb : C -> res B) (a b : list (step C)) (sched : list nat) (ca cb : C),
    complete C sched (tasks2 C a b) (st2 C ca cb) ->
    try_join_par ra rb a b sched ca cb = try_join_seq ra rb a b ca cb.
Proof. exact @try_join_is_seq. Qed.

Theorem C18_vec_map :
  forall (C : Type) (fs : list (list (step C))) (sched : list nat) (d : C) (cs : list C),
    complete C sched (tasksn C fs) (stn C d cs) -> vec_map_par C fs sched d cs = vec_map_seq C fs d cs.
Proof. exact vec_map_is_seq. Qed.

(* the encoder: per-channel tasks (vec_map / join in encode_frame), each forking its FIXED and LPC
   candidates (join in encode_subframe) and choosing by min_by_key over the returned sizes *)
Theorem C18_encode_tasks :
  forall (cache : Type) (written : cache -> N) (enc_fixed enc_lpc : list (step cache))
         (inner : chan cache -> list nat) (outer : list nat) (d : chan cache) (cs : list (chan cache)),
    (forall c, let '(cf, cl, _) := c in complete cache (inner c) (tasks2 cache enc_fixed enc_lpc) (st2 cache cf cl)) ->
    complete (chan cache) outer (tasksn _ (map (fun _ => [chan_step cache written enc_fixed enc_lpc inner]) cs)) (stn _ d cs) ->
    encode_channels_par cache written enc_fixed enc_lpc inner outer d cs = encode_channels_seq cache written enc_fixed enc_lpc d cs.
Proof. exact encode_channels_is_seq. Qed.

(* the four correlation candidates (two try_joins, min_by_key over the sums, first error wins) *)
Theorem C18_correlate :
  forall (cache : Type) (size : cache -> res N) (enc_l enc_r enc_a enc_d : list (step cache)) (s1 s2 : list nat)
         (cl cr ca cd : cache),
    complete cache s1 (tasks2 cache enc_l enc_r) (st2 cache cl cr) ->
    complete cache s2 (tasks2 cache enc_a enc_d) (st2 cache ca cd) ->
    correlate_par cache size enc_l enc_r enc_a enc_d s1 s2 cl cr ca cd = correlate_seq cache size enc_l enc_r enc_a enc_d cl cr ca cd.
Proof. exact correlate_is_seq. Qed.

(* The full property, relative to the two things outside the model.  `impl_seq` is the build without the
   feature, `impl_par threads run` the build with it on a pool of `threads` workers in its `run`-th execution. *)
Section Full.
  Variable input bytes cache : Type.
  Variable written : cache -> N.
  Variable enc_fixed enc_lpc : list (step cache).
  Variable caches_of : input -> list (chan cache).
  Variable d : chan cache.
  Variable assemble : list (chan cache) -> bytes.
  Variable impl_seq : input -> bytes.
  Variable impl_par : nat -> nat -> input -> bytes.
  Definition C18_statement : Prop := forall threads run x, impl_par threads run x = impl_seq x.
  (* (1) + the serial reading of the code *)
  Definition tasks_are_disjoint_steps : Prop :=
    forall x, impl_seq x = assemble (encode_channels_seq cache written enc_fixed enc_lpc d (caches_of x)).
  (* (1) + (2) *)
  Definition rayon_is_fork_join : Prop :=
    forall threads run x, exists inner outer,
      (forall c, let '(cf, cl, _) := c in complete cache (inner c) (tasks2 cache enc_fixed enc_lpc) (st2 cache cf cl)) /\
      complete (chan cache) outer (tasksn _ (map (fun _ => [chan_step cache written enc_fixed enc_lpc inner]) (caches_of x))) (stn _ d (caches_of x)) /\
      impl_par threads run x = assemble (encode_channels_par cache written enc_fixed enc_lpc inner outer d (caches_of x)).
  Theorem C18_modulo_assumptions : tasks_are_disjoint_steps -> rayon_is_fork_join -> C18_statement.
  Proof.
    intros A1 A2 t r x. destruct (A2 t r x) as (inner & outer & Hi & Ho & E).
    rewrite E, A1. f_equal. now apply encode_channels_is_seq.
  Qed.
End Full.

Example C18_nonvacuous :
  let a := [N.add 1; N.mul 3] in let b := [N.mul 2; N.add 5] in
  join_seq N a b 10 20 = (33, 45) /\
  join_par N a b [0; 0; 1; 1]%nat 10 20 = (33, 45) /\
  join_par N a b [1; 0; 1; 0]%nat 10 20 = (33, 45) /\
  join_par N a b [1; 1; 0; 1; 0; 0]%nat 10 20 = (33, 45) /\
  (forall k, fst (exec N [1; 0; 1; 0]%nat (tasks2 N a b) (st2 N 10 20)) k = []) /\
  fst (exec N [1; 0; 1]%nat (tasks2 N a b) (st2 N 10 20)) 0%nat <> [].
Proof. exact par_example. Qed.
