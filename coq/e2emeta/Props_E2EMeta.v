(* E2EMeta/Props_E2EMeta.v — C11 across the areas: statements only. *)
From Coq Require Import List NArith ZArith Lia.
From FlacBase Require Import Res Bits.
From FlacWriters Require Meta.
From FlacWriters Require Import Params Finalize C09_proofs Writers.
From FlacMeta Require Bytes Blocks BlockList Props_C11 Utf8.
From FlacE2E Require Import E2E Props_E2E.
From FlacWriters Require Import Params_proofs Encoder_proofs Bytes_proofs Writers_proofs.
From FlacE2EMeta Require Import MetaBridge FinishedBlocks.
Import ListNotations.
Open Scope N_scope.

(* Two independently written models of metadata/mod.rs agree.  Whatever the writers area's byte-exact model of the
   Encoder's metadata region (STREAMINFO, SEEKTABLE, PADDING) serialises, the metadata area's typed model of the block
   writer serialises to the same bytes, and the metadata area's full reader returns exactly those typed blocks *)
Theorem C11_written_metadata_read_in_full : forall (u : list N -> bool), FlacMeta.Props_C11.utf8_ok u ->
  forall s l meta tail, FlacWriters.Meta.write_blocks s l = Ok meta -> md5_ok s ->
  Forall plain l -> Forall points_ok l -> Forall contiguous_ok l -> (seektables l <= 1)%nat ->
  FlacMeta.BlockList.write_blocks (FlacMeta.Blocks.BStreaminfo (convM s) :: map convB l) = Ok meta /\
  FlacMeta.BlockList.read_blocks u (meta ++ tail) = Ok (FlacMeta.Blocks.BStreaminfo (convM s) :: map convB l).
Proof. exact written_metadata_read_in_full. Qed.

(* ... in particular on the finished file of any FlacSampleWriter model run (any block encoder): the full metadata
   reader returns the final STREAMINFO and the blocks finalize settled on, as typed values *)
Theorem C11_sample_writer_metadata_read_in_full : forall (u : list N -> bool), FlacMeta.Props_C11.utf8_ok u ->
  forall enc_block md5 p o rate bps ch total w chunks f,
  (forall l, length (md5 l) = 16%nat) ->
  sample_new p [] o rate bps ch total = Ok w ->
  sample_run enc_block md5 p w chunks = Ok f ->
  md5_ok (f_si f) ->
  Forall plain (f_blocks f) -> Forall points_ok (f_blocks f) -> Forall contiguous_ok (f_blocks f) ->
  (seektables (f_blocks f) <= 1)%nat ->
  FlacMeta.BlockList.read_blocks u (f_stream f) =
    Ok (FlacMeta.Blocks.BStreaminfo (convM (f_si f)) :: map convB (f_blocks f)).
Proof. exact sample_writer_metadata_read_in_full. Qed.

(* ... and with hypotheses on the options only — no user blocks other than PADDING, as in the three presets — and a
   finished run whose counters fit: every fact about the finalized block list (no opaque block, at most one SEEKTABLE,
   that table contiguous with every field in range, the digest sixteen bytes) is PROVED from the Encoder's bookkeeping
   invariants, so the full reader returns the final STREAMINFO and the blocks finalize settled on *)
Theorem C11_sample_writer_metadata_read : forall enc_block md5 p,
  (forall l, length (md5 l) = 16%nat) -> (forall l, Forall (fun b => b < 256) (md5 l)) ->
  forall (u : list N -> bool), FlacMeta.Props_C11.utf8_ok u ->
  forall o rate bps ch total w chunks f,
  options_wf o -> Forall plain (o_metadata o) -> seektables (o_metadata o) = 0%nat ->
  sample_new p [] o rate bps ch total = Ok w ->
  sample_run enc_block md5 p w chunks = Ok f -> counters_fit (f_enc f) ->
  FlacMeta.BlockList.read_blocks u (f_stream f) =
    Ok (FlacMeta.Blocks.BStreaminfo (convM (f_si f)) :: map convB (f_blocks f)) /\
  Forall plain (f_blocks f) /\ (seektables (f_blocks f) <= 1)%nat.
Proof. intros enc_block md5 p H1 H2. exact (sample_writer_metadata_read enc_block md5 H1 H2 p). Qed.
(* ... in full: the finished file IS the metadata area's serialisation of typed, canonical values, then the frames
   (the form in which coq/e2eupd hands the written file to the update theorems of C10) *)
Theorem C11_sample_writer_file_typed : forall enc_block md5 p,
  (forall l, length (md5 l) = 16%nat) -> (forall l, Forall (fun b => b < 256) (md5 l)) ->
  forall (u : list N -> bool) o rate bps ch total w chunks f,
  options_wf o -> Forall plain (o_metadata o) -> seektables (o_metadata o) = 0%nat ->
  sample_new p [] o rate bps ch total = Ok w ->
  sample_run enc_block md5 p w chunks = Ok f -> counters_fit (f_enc f) ->
  exists meta',
    f_stream f = meta' ++ frames_bytes (f_enc f) /\
    FlacMeta.BlockList.write_blocks (FlacMeta.Blocks.BStreaminfo (convM (f_si f)) :: map convB (f_blocks f)) = Ok meta' /\
    Forall (FlacMeta.Blocks_level.ty_block u) (FlacMeta.Blocks.BStreaminfo (convM (f_si f)) :: map convB (f_blocks f)) /\
    Forall FlacMeta.Blocks_level.canon_block (FlacMeta.Blocks.BStreaminfo (convM (f_si f)) :: map convB (f_blocks f)).
Proof. intros enc_block md5 p H1 H2. exact (sample_writer_file_typed enc_block md5 H1 H2 p). Qed.
(* ... the same typed view for FlacByteWriter and FlacChannelWriter runs *)
Theorem C11_byte_writer_file_typed : forall enc_block md5 p,
  (forall l, length (md5 l) = 16%nat) -> (forall l, Forall (fun b => b < 256) (md5 l)) ->
  forall (u : list N -> bool) en o rate bps ch tb wb chunks f,
  options_wf o -> Forall plain (o_metadata o) -> seektables (o_metadata o) = 0%nat ->
  byte_new p en [] o rate bps ch tb = Ok wb -> Forall byte_ok (concat chunks) ->
  byte_run enc_block md5 p wb chunks = Ok f -> counters_fit (f_enc f) ->
  exists meta',
    f_stream f = meta' ++ frames_bytes (f_enc f) /\
    FlacMeta.BlockList.write_blocks (FlacMeta.Blocks.BStreaminfo (convM (f_si f)) :: map convB (f_blocks f)) = Ok meta' /\
    Forall (FlacMeta.Blocks_level.ty_block u) (FlacMeta.Blocks.BStreaminfo (convM (f_si f)) :: map convB (f_blocks f)) /\
    Forall FlacMeta.Blocks_level.canon_block (FlacMeta.Blocks.BStreaminfo (convM (f_si f)) :: map convB (f_blocks f)).
Proof. exact byte_writer_file_typed. Qed.
Theorem C11_channel_writer_file_typed : forall enc_block md5 p,
  (forall l, length (md5 l) = 16%nat) -> (forall l, Forall (fun b => b < 256) (md5 l)) ->
  forall (u : list N -> bool) o rate bps ch tc wc chunks f,
  options_wf o -> Forall plain (o_metadata o) -> seektables (o_metadata o) = 0%nat ->
  channel_new p [] o rate bps ch tc = Ok wc -> Forall (chunk_ok (N.to_nat ch)) chunks ->
  channel_run enc_block md5 p wc chunks = Ok f -> counters_fit (f_enc f) ->
  exists meta',
    f_stream f = meta' ++ frames_bytes (f_enc f) /\
    FlacMeta.BlockList.write_blocks (FlacMeta.Blocks.BStreaminfo (convM (f_si f)) :: map convB (f_blocks f)) = Ok meta' /\
    Forall (FlacMeta.Blocks_level.ty_block u) (FlacMeta.Blocks.BStreaminfo (convM (f_si f)) :: map convB (f_blocks f)) /\
    Forall FlacMeta.Blocks_level.canon_block (FlacMeta.Blocks.BStreaminfo (convM (f_si f)) :: map convB (f_blocks f)).
Proof. exact channel_writer_file_typed. Qed.
Example C11_presets_qualify :
  Forall plain (o_metadata options_default) /\ seektables (o_metadata options_default) = 0%nat /\
  Forall plain (o_metadata options_fast) /\ seektables (o_metadata options_fast) = 0%nat /\
  Forall plain (o_metadata options_best) /\ seektables (o_metadata options_best) = 0%nat.
Proof. repeat split; repeat constructor. Qed.

(* ... and for the other two front-ends (by equality of runs, C08_byte_run_is_sample_run / C08_channel_run_is_sample_run) *)
Theorem C11_byte_writer_metadata_read : forall enc_block md5 p,
  (forall l, length (md5 l) = 16%nat) -> (forall l, Forall (fun b => b < 256) (md5 l)) ->
  forall (u : list N -> bool), FlacMeta.Props_C11.utf8_ok u ->
  forall en o rate bps ch tb wb chunks f,
  options_wf o -> Forall plain (o_metadata o) -> seektables (o_metadata o) = 0%nat ->
  byte_new p en [] o rate bps ch tb = Ok wb -> Forall byte_ok (concat chunks) ->
  byte_run enc_block md5 p wb chunks = Ok f -> counters_fit (f_enc f) ->
  FlacMeta.BlockList.read_blocks u (f_stream f) =
    Ok (FlacMeta.Blocks.BStreaminfo (convM (f_si f)) :: map convB (f_blocks f)).
Proof. exact byte_writer_metadata_read. Qed.
Theorem C11_channel_writer_metadata_read : forall enc_block md5 p,
  (forall l, length (md5 l) = 16%nat) -> (forall l, Forall (fun b => b < 256) (md5 l)) ->
  forall (u : list N -> bool), FlacMeta.Props_C11.utf8_ok u ->
  forall o rate bps ch tc wc chunks f,
  options_wf o -> Forall plain (o_metadata o) -> seektables (o_metadata o) = 0%nat ->
  channel_new p [] o rate bps ch tc = Ok wc -> Forall (chunk_ok (N.to_nat ch)) chunks ->
  channel_run enc_block md5 p wc chunks = Ok f -> counters_fit (f_enc f) ->
  FlacMeta.BlockList.read_blocks u (f_stream f) =
    Ok (FlacMeta.Blocks.BStreaminfo (convM (f_si f)) :: map convB (f_blocks f)).
Proof. exact channel_writer_metadata_read. Qed.

Print Assumptions C11_byte_writer_metadata_read.
Print Assumptions C11_channel_writer_metadata_read.
Print Assumptions C11_sample_writer_metadata_read.
Print Assumptions C11_written_metadata_read_in_full.
Print Assumptions C11_sample_writer_metadata_read_in_full.

(* non-vacuity, evaluated inside Coq: the composed pipeline (FlacSampleWriter model x encoder model) with padding large
   enough for the table (block size 16, a seek point per frame, 40 stereo PCM frames in two uneven writes): every
   hypothesis holds of the finished file, and the metadata area's full reader returns STREAMINFO (total 40, the
   digest), the padding that is left and the three seek points *)
Definition ex_wopts2 : options :=
  {| o_block_size := 16; o_max_partition_order := 5; o_max_lpc_order := None;
     o_seektable_interval := Some (Frames 1); o_metadata := [FlacWriters.Meta.BPadding 100] |}.
Definition ex_run2 : option finished :=
  match sample_new Release [] ex_wopts2 44100 16 2 None with
  | Ok w => match sample_run (encB ex_eopts None 44100 16) ex_md5 Release w [firstn 25 ex_pcm; skipn 25 ex_pcm] with Ok f => Some f | _ => None end
  | _ => None
  end.
Example C11_end_to_end_nonvacuous :
  match ex_run2 with
  | Some f =>
      md5_ok (f_si f) /\ Forall plain (f_blocks f) /\ Forall points_ok (f_blocks f) /\
      Forall contiguous_ok (f_blocks f) /\ (seektables (f_blocks f) <= 1)%nat /\
      FlacMeta.BlockList.read_blocks FlacMeta.Utf8.utf8_valid_std (f_stream f) =
        Ok [FlacMeta.Blocks.BStreaminfo (FlacMeta.Blocks.mkSI 16 16 25 25 44100 2 16 40 (Some (repeat 7 16)));
            FlacMeta.Blocks.BPadding 42;
            FlacMeta.Blocks.BSeekTable [FlacMeta.Blocks.SPDefined 0 0 16; FlacMeta.Blocks.SPDefined 16 25 16; FlacMeta.Blocks.SPDefined 32 50 8]]
  | None => False
  end.
Proof.
  assert (E : match ex_run2 with Some f => Some (f_stream f, f_si f, f_blocks f) | None => None end =
              Some ([102; 76; 97; 67; 0; 0; 0; 34; 0; 16; 0; 16; 0; 0; 25; 0; 0; 25; 10; 196;
    66; 240; 0; 0; 0; 40; 7; 7; 7; 7; 7; 7; 7; 7; 7; 7; 7; 7; 7; 7; 7; 7; 1;
    0; 0; 42; 0; 0; 0; 0; 0; 0; 0; 0; 0; 0; 0; 0; 0; 0; 0; 0; 0; 0; 0; 0; 0;
    0; 0; 0; 0; 0; 0; 0; 0; 0; 0; 0; 0; 0; 0; 0; 0; 0; 0; 0; 0; 0; 131; 0; 0;
    54; 0; 0; 0; 0; 0; 0; 0; 0; 0; 0; 0; 0; 0; 0; 0; 0; 0; 16; 0; 0; 0; 0; 0;
    0; 0; 16; 0; 0; 0; 0; 0; 0; 0; 25; 0; 16; 0; 0; 0; 0; 0; 0; 0; 32; 0; 0;
    0; 0; 0; 0; 0; 50; 0; 8; 255; 248; 105; 24; 0; 15; 146; 20; 255; 216;
    255; 219; 3; 192; 44; 0; 34; 0; 32; 0; 26; 7; 128; 231; 151; 255; 248;
    105; 24; 1; 15; 135; 20; 0; 8; 0; 11; 3; 192; 45; 254; 35; 253; 225; 253;
    154; 7; 128; 157; 104; 255; 248; 105; 24; 2; 7; 128; 20; 0; 56; 0; 59; 3;
    192; 45; 248; 35; 247; 161; 247; 26; 7; 128; 231; 10],
   {| FlacWriters.Meta.si_min_bs := 16; FlacWriters.Meta.si_max_bs := 16; FlacWriters.Meta.si_min_fs := Some 25;
      FlacWriters.Meta.si_max_fs := Some 25; FlacWriters.Meta.si_rate := 44100; FlacWriters.Meta.si_channels := 2;
      FlacWriters.Meta.si_bps := 16; FlacWriters.Meta.si_total := Some 40;
      FlacWriters.Meta.si_md5 := Some [7; 7; 7; 7; 7; 7; 7; 7; 7; 7; 7; 7; 7; 7; 7; 7] |},
   [FlacWriters.Meta.BPadding 42;
    FlacWriters.Meta.BSeekTable [FlacWriters.Meta.Defined 0 0 16; FlacWriters.Meta.Defined 16 25 16; FlacWriters.Meta.Defined 32 50 8]]))
    by (vm_compute; reflexivity).
  destruct ex_run2 as [f|]; [|discriminate]. injection E as Es Esi Eb. rewrite Es, Esi, Eb.
  split; [unfold md5_ok; cbn [FlacWriters.Meta.si_md5]; split; [reflexivity|repeat (constructor; [reflexivity|]); constructor]|].
  split; [repeat constructor|].
  split; [constructor; [exact I|constructor; [|constructor]]; cbn [points_ok]; repeat (constructor; [repeat split; reflexivity|]); constructor|].
  split; [constructor; [exact I|constructor; [reflexivity|constructor]]|].
  split; [cbn; lia|]. vm_compute. reflexivity.
Qed.
Print Assumptions C11_byte_writer_file_typed.
Print Assumptions C11_channel_writer_file_typed.
