(* Statement pins for the codec area. *)
From FlacCodec Require Import Wf Spec Stream Progress EncChoice Damage Prefix Interrupted Inverse Inverse_frame StreamRd StreamRd_proofs Props_codec.
From FlacBase Require Import Crc.
Open Scope N_scope.
Check (C17_parse_inverts_write : forall si f bytes rest,
  wf_frame si f = true -> write_frame f = Some bytes -> struct_frame si (bytes ++ rest) = Ok (f, rest)).
Check (C04_frame_total : forall si chk bytes,
  (forall h, is_panic (chk h) = false) -> is_panic (dec_frame si chk bytes) = false).
Check (C04_stream_total : forall file,
  match dec_stream file with Some (_, _, e) => is_end_panic e = false | None => True end).
Check (C04_frame_progress : forall si chk bytes h chans rest,
  dec_frame si chk bytes = Ok (h, chans, rest) -> (length rest + 2 <= length bytes)%nat).
Check (C03_decoder_follows_format : forall si chk f bytes rest,
  wf_frame si f = true -> spec_frame f = true -> write_frame f = Some bytes ->
  chk (f_hdr f) = Ok tt ->
  dec_frame si chk (bytes ++ rest) = Ok (f_hdr f, sem_frame f, rest)).
Check (C02_reference_decoder_accepts : forall si f bytes rest,
  wf_frame si f = true -> spec_frame f = true -> write_frame f = Some bytes ->
  spec_decode si (bytes ++ rest) = Ok (sem_frame f, rest)).
Check (C19_subframe_bound : forall bps xs fixed lpc,
  (1 <= length xs)%nat -> 1 <= bps -> (forall w, common_wasted xs = Some w -> w < bps) ->
  sf_bits bps (enc_subframe bps xs fixed lpc) <= 8 + N.of_nat (length xs) * bps).
Check (C05_flipped_frame_rejected : forall si chk bytes h c rest i k h' c' rest',
  Forall byte bytes -> dec_frame si chk bytes = Ok (h, c, rest) ->
  (i < length bytes - length rest)%nat -> k < 8 ->
  dec_frame si chk (flip16 bytes i k) = Ok (h', c', rest') -> length rest' <> length rest).
Check (C05_truncated_frame_is_error : forall si chk bytes h c rest m,
  dec_frame si chk bytes = Ok (h, c, rest) -> (m < length bytes - length rest)%nat ->
  dec_frame si chk (firstn m bytes) = Err EEof).
Check (C14_interrupted_stream : forall si fs allb g gb m fuel cur acc,
  Forall (frame_ok si) fs -> frames_bytes fs = Some allb ->
  frame_ok si g -> write_frame g = Some gb -> (m < length gb)%nat ->
  (si_total si = 0 \/ cur + total_samples fs + h_bs (f_hdr g) <= si_total si) ->
  (length allb + m < fuel)%nat ->
  let '(out, e) := dec_frames fuel si cur (allb ++ firstn m gb) acc in
  out = rev acc ++ map (fun f => interleave_frame (sem_frame f)) fs /\ is_end_panic e = false).
Check (C17_write_inverts_parse : forall si bytes f rest,
  Forall byte bytes -> struct_frame si bytes = Ok (f, rest) -> frame_canonical si bytes = true ->
  exists b, write_frame f = Some b /\ bytes = b ++ rest).
Check (C16_no_fabricated_frame : forall fuel bytes h chans rest,
  scan fuel bytes = Ok (h, chans, rest) ->
  exists pre b2 tl, bytes = pre ++ 255 :: b2 :: tl /\ b2 / 2 = 124 /\
                    dec_frame None no_check (255 :: b2 :: tl) = Ok (h, chans, rest)).
Check (C16_syncless_garbage_costs_no_frame : forall g b2 tl x fuel,
  syncless g = true -> b2 / 2 = 124 ->
  dec_frame None no_check (255 :: b2 :: tl) = Ok x ->
  (length (g ++ 255%N :: b2 :: tl) < fuel)%nat ->
  scan fuel (g ++ 255 :: b2 :: tl) = Ok x).
