"""Helpers shared by the codec-property checks C01, C02, C03, C04, C14, C16, C17, C19
(owner: codech).  Each of those checks

  1. calls checks.codec_common.proof_stage (integrator's Coq model + theorems),
  2. builds its harness binary (release, and debug where overflow behaviour matters),
  3. runs it, collects "viol" / "case" / "stat" / "note" / "sample" lines,
  4. hands the "case" lines to checks.codec_common.run_model (None while the model for that
     kind does not exist yet -> diff skipped and noted) and diffs,
  5. reports every "viol" line through chk.violation with a stable key.

run_model returns result dicts aligned with the cases; codec_common.compare(case, result) decides
(class of the ending and all payloads strictly, error variant softly)."""
import json
import os
import re

import vlib
from vlib import VERIF, sh

HARNESS = os.path.join(VERIF, "harness")


def build(chk, name, profile):
    ok, binp, out = vlib.cargo_build(HARNESS, name, profile)
    if not ok:
        chk.broken_tie("harness-build:%s:%s" % (name, profile), out)
        return None
    return binp


def run_bin(chk, binp, tag, env=None, args=(), stdin=None, timeout=None):
    """Run a harness binary; returns the parsed JSON lines (list of dicts) or None."""
    if timeout is None:
        timeout = 3300 if chk.tier == "thorough" else 900
    e = {"VERIF_SEED": str(chk.seed), "VERIF_TIER": chk.tier}
    if env:
        e.update(env)
    rc, out = sh([binp] + list(args), timeout=timeout, env=e, stdin=stdin)
    lines = []
    for ln in out.splitlines():
        if not ln.startswith("{"):
            continue
        try:
            lines.append(json.loads(ln))
        except ValueError:
            chk.broken_tie("harness-output:" + tag, "unparsable line: " + ln[:300])
            return None
    if rc != 0:
        chk.broken_tie("harness-run:" + tag, "exit code %s\n%s" % (rc, out[-3000:]))
        return None
    if not any(d.get("t") == "stat" for d in lines):
        chk.broken_tie("harness-run:" + tag, "no stat line (harness ended early)\n" + out[-2000:])
        return None
    return lines


_SRC_CACHE = {}


def _source_line(path, lineno):
    if path not in _SRC_CACHE:
        try:
            _SRC_CACHE[path] = open(path, errors="replace").read().splitlines()
        except OSError:
            _SRC_CACHE[path] = []
    src = _SRC_CACHE[path]
    if 1 <= lineno <= len(src):
        return src[lineno - 1]
    return ""


def final_key(v):
    """Turn the provisional key of a panic violation (`prefix:class@file:line`) into a
    call-site signature that survives line shifts: prefix:class:file:<slug of the source line>."""
    loc = v.get("panic_loc")
    if not loc or "panic_class" not in v:
        return v["key"]
    m = re.match(r"(.*):(\d+)$", loc)
    if not m:
        return v["key"]
    path, lineno = m.group(1), int(m.group(2))
    prefix, cls = v.get("panic_prefix", "panic"), v["panic_class"]
    repo = os.path.realpath(vlib.REPO)
    rp = os.path.realpath(path) if os.path.isabs(path) else os.path.join(repo, path)
    if rp.startswith(repo + os.sep):
        rel = os.path.relpath(rp, repo)
        text = _source_line(rp, lineno).strip()
        slug = re.sub(r"[^A-Za-z0-9]+", "-", text).strip("-")[:48] or "line"
        if rel.startswith("src/"):
            rel = rel[4:]
        return "%s:%s:%s:%s" % (prefix, cls, rel, slug)
    # a dependency or the standard library: crate/file without the line number
    i = path.rfind("/src/")
    tail = path[i + 5:] if i >= 0 else os.path.basename(path)
    head = path[:i] if i >= 0 else ""
    krate = os.path.basename(head) if ("/registry/" in path) else ("std" if ("/rustc/" in path or "/rustlib/" in path) else os.path.basename(head))
    return "%s:%s:%s/%s" % (prefix, cls, krate, tail)


class Collected:
    def __init__(self):
        self.viols, self.cases, self.stats, self.notes, self.samples = [], [], [], [], []


def collect(lines, into=None):
    c = into or Collected()
    for d in lines or []:
        t = d.get("t")
        if t == "viol":
            c.viols.append(d)
        elif t == "case":
            c.cases.append(d)
        elif t == "stat":
            c.stats.append(d)
        elif t == "note":
            c.notes.append(d.get("msg", ""))
        elif t == "sample":
            c.samples.append(d)
    return c


def report_viols(chk, c):
    """Every "viol" line becomes chk.violation(key, desc, replay)."""
    for v in c.viols:
        key = final_key(v)
        replay = {k: v[k] for k in v if k not in ("t",)}
        replay["key_provisional"] = v["key"]
        chk.violation(key, "[%s] %s" % (v.get("profile", "?"), v.get("desc", "")), replay)


def _cls(end):
    end = (end or "").strip()
    if end in ("eof", "ok") or end.startswith("ok"):
        return "ok"
    if end.startswith("err"):
        return "err"
    if end.startswith("panic"):
        return "panic"
    return end


def canon(case):
    """Canonical observation string of the implementation for one case line."""
    k = case.get("kind")
    if k == "dec_stream":
        return "%s %s" % (case["end"], ",".join(str(s) for s in case["samples"]))
    if k == "dec_subset":
        return "%s %s" % (case["end"], "|".join("%d/%d/%d:%s" % (f["rate"], f["ch"], f["bps"], ",".join(str(s) for s in f["samples"])) for f in case["frames"]))
    if k == "struct":
        if case["end"] != "ok":
            return case["end"]
        return "ok %s %s" % (case["rewritten"], ";".join(",".join(str(s) for s in c) for c in case["decoded"]))
    if k == "enc_size":
        return str(case["frame_bytes"] * 8)
    return ""


def compare(case, model):
    """(agree, soft_note).  Class strictly, payload exactly when both are ok/err with payload,
    error variant softly."""
    impl = canon(case)
    model = (model or "").strip()
    if case.get("kind") == "enc_size":
        try:
            return case["frame_bytes"] * 8 <= int(model.split()[0]), None
        except (ValueError, IndexError):
            return False, None
    ie, _, ip = impl.partition(" ")
    me, _, mp = model.partition(" ")
    if _cls(ie) != _cls(me):
        return False, None
    if _cls(ie) == "panic":
        return True, None
    if ip.strip() != mp.strip():
        return False, None
    return True, (None if ie == me or _cls(ie) == "ok" else "variant differs: impl %s model %s" % (ie, me))


LAST_RESULTS = {}


def encoder_admissibility(chk):
    """For every frame the encoder produced (struct cases with src == encoder) the model must
    find the parsed tree well-formed (wf), RFC-valid (spec) and canonically serialised
    (rewritten == bytes): this is what makes the Coq theorems about well-formed frame trees
    apply to the encoder's actual output.  Uses the results of the last struct model_diff."""
    cases, res = LAST_RESULTS.get("struct", ([], []))
    n = bad = 0
    for c, r in zip(cases, res):
        if c.get("src") != "encoder" or r is None:
            continue
        n += 1
        why = None
        if r.get("end") != "ok":
            why = "model parser: %s" % r.get("end")
        elif not r.get("wf", True):
            why = "frame tree not well-formed per the model"
        elif not r.get("spec", True):
            why = "frame not RFC-valid per the model"
        elif r.get("rewritten") not in (None, "", "!") and r.get("rewritten") != c["bytes"]:
            why = "model re-serialisation differs from the encoder's bytes"
        if why is None:
            # the decision rule of encode_subframe (Coq: EncChoice.enc_subframe_rule / C19_subframe_bound):
            # a subframe that is not VERBATIM (nor CONSTANT) is strictly smaller than n * effective bps,
            # and every subframe is at most 8 + n * bps bits
            n_s = r.get("bs", 0)
            for k, sfi in enumerate(r.get("subs", [])):
                if sfi["bits"] > 8 + n_s * sfi["bps"]:
                    why = "subframe %d has %d bits > 8 + %d*%d (C19_subframe_bound)" % (k, sfi["bits"], n_s, sfi["bps"])
                elif sfi["kind"] in ("fixed", "lpc") and not sfi["bits"] < n_s * (sfi["bps"] - sfi["wasted"]):
                    why = "subframe %d (%s, %d bits) is not smaller than its verbatim payload %d*%d: the verbatim fallback rule of encode_subframe is violated" % (
                        k, sfi["kind"], sfi["bits"], n_s, sfi["bps"] - sfi["wasted"])
        if why:
            bad += 1
            if bad <= 3:
                chk.violation("encoder-output-not-admissible", "a frame produced by the encoder is outside the model's admissible set: %s" % why,
                              {"frame_hex": c["bytes"], "si": c.get("si"), "model": {k: v for k, v in r.items() if k not in ("decoded", "pcm")}, "reason": why})
    return n, bad


def model_diff(chk, kind, cases, stage, property_holds=None):
    """Run the integrator's extracted model over `cases` of one kind and diff.
    property_holds(case) -> bool|None lets the searcher decide a disagreement (True: the property
    holds on the implementation for this input => correspondence violation)."""
    from checks import codec_common
    cases = [c for c in cases if c.get("kind") == kind]
    if not cases:
        return 0, 0
    res = codec_common.run_model(chk, kind, cases)
    if res is None:
        chk.notes.append("model for kind %s not available yet: %d implementation observations produced, diff skipped" % (kind, len(cases)))
        return 0, 0
    if len(res) != len(cases):
        chk.broken_tie("model-run:" + kind, "model returned %d results for %d cases" % (len(res), len(cases)))
        return 0, 0
    dis = soft = 0
    LAST_RESULTS[kind] = (cases, res)
    for c, r in zip(cases, res):
        bad, note = codec_common.compare(c, r)
        if note:
            soft += 1
        if bad:
            dis += 1
            if dis <= 3:
                chk.violation("correspondence:%s:%s" % (stage, kind),
                              "model and implementation differ on a %s case (%s profile): %s" % (kind, c.get("profile"), bad),
                              {"case": {k: c[k] for k in c if k != "t"}, "model": r, "difference": bad})
    if soft:
        chk.notes.append("%d of %d %s cases agree in class and payload with a soft difference (error variant / metadata rules outside the codec model)" % (soft, len(cases), kind))
    return len(cases), dis


def merge_stats(stats):
    """Sum numeric fields of stat lines per profile; keep dict fields of the first."""
    out = {}
    for s in stats:
        p = s.get("profile", "?")
        out.setdefault(p, {k: v for k, v in s.items() if k != "t"})
    return out


def standard_run(chk, name, profiles, debug_scale=None, extra_env=None):
    """Build + run the bin in each profile; returns Collected (or None when a tie broke)."""
    c = Collected()
    okall = True
    for prof in profiles:
        binp = build(chk, name, prof)
        if not binp:
            okall = False
            continue
        env = dict(extra_env or {})
        if prof == "debug" and debug_scale:
            env["VERIF_SCALE"] = str(debug_scale)
        lines = run_bin(chk, binp, "%s:%s" % (name, prof), env=env)
        if lines is None:
            okall = False
            continue
        collect(lines, c)
    return c if okall else (c if c.stats else None)


def simple_check(chk, pid, binname, profiles, kinds, rule, assumptions, evaluations, nontrivial, debug_scale=None, stage="harness", extra=None):
    """The common shape of the codech checks.
    evaluations(stats_by_profile) / nontrivial(stats_by_profile) -> int: measured counts."""
    from checks import codec_common
    chk.assumptions = list(assumptions)
    proof_ok = codec_common.proof_stage(chk, pid)
    c = standard_run(chk, binname, profiles, debug_scale=debug_scale)
    if c is None:
        return None
    validated = disagreements = 0
    if proof_ok:
        for kind in kinds:
            n, d = model_diff(chk, kind, c.cases, stage)
            validated += n
            disagreements += d
    else:
        chk.notes.append("proof stage not healthy: model diff skipped")
    report_viols(chk, c)
    by_prof = merge_stats(c.stats)
    cov = {
        "evaluations": int(evaluations(by_prof)),
        "distinct_nontrivial": int(nontrivial(by_prof)),
        "rule": rule,
        "traces_validated_against_impl": validated,
        "disagreements_checked": disagreements,
        "implementation_observations_emitted": {k: sum(1 for x in c.cases if x.get("kind") == k) for k in kinds},
        "profiles": profiles,
        "searcher": by_prof,
        "samples": [{k: (v if not isinstance(v, str) else v[:400]) for k, v in x.items() if k != "t"} for x in (c.samples[:2] + [{kk: vv for kk, vv in cs.items() if kk in ("kind", "profile", "bytes", "end", "ch", "bps", "rate", "block", "frame_bytes", "assignment", "tags", "src")} for cs in c.cases[:3]])],
    }
    if proof_ok and "struct" in kinds:
        n, bad = encoder_admissibility(chk)
        cov["encoder_frames_checked_admissible"] = n
        cov["encoder_frames_not_admissible"] = bad
    if extra:
        cov.update(extra(c, by_prof))
    chk.coverage.update(cov)
    for n in sorted(set(c.notes))[:20]:
        chk.notes.append(n[:400])
    return c


def total(by_prof, field):
    return sum(int(s.get(field, 0) or 0) for s in by_prof.values())
