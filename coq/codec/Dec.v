(* Codec/Dec.v — the streaming decoder of decode.rs (read_subframes and below), fused
   parse-and-decode.  Since the repo fixes 86995e9..daee75b every arithmetic step of the decoder is
   explicitly wrapping (wrapping_add/sub/mul, `as` casts), so debug and release builds compute the
   same function: the model has no build-profile parameter any more.  `arith_s Release w z` below is
   "the exact value z wrapped to w bits". *)
From FlacCodec Require Export Struct.
From FlacBase Require Import Crc.
Open Scope N_scope.

Section Dec.

  (* decode.rs predict, for sample type of width w (32: i32, 64: i64).
     fold(0, |acc, (x, c)| acc.wrapping_add((x as i64).wrapping_mul(c))) >> shift, added to the
     residual with wrapping_add in i64, then truncated to the sample type *)
  Fixpoint dot_p (xs_rev coeffs : list Z) (acc : Z) : res Z :=
    match xs_rev, coeffs with
    | x :: xs, c :: cs => t <- arith_s Release 64 (x * c) ;; a <- arith_s Release 64 (acc + t) ;; dot_p xs cs a
    | _, _ => Ok acc
    end.
  Definition from_i64 (w : Z) (z : Z) : Z := if (w =? 32)%Z then as_i32 z else z.
  Fixpoint predict (w : Z) (coeffs : list Z) (shift : Z) (done_rev todo : list Z) : res (list Z) :=
    match todo with
    | [] => Ok (rev done_rev)
    | r :: rest =>
        s <- dot_p done_rev coeffs 0%Z ;;
        sh <- shr_s Release 64 s shift ;;
        (* residuals[0] = I::from_i64(residuals[0].into().wrapping_add(sum >> shift)) *)
        let v := from_i64 w (wrap_s 64 (r + sh)) in
        predict w coeffs shift (v :: done_rev) rest
    end.

  (* decode.rs:1803-1847 read_block: partitions = residuals.rchunks_mut(block_size / 2^order).rev() *)
  Definition rchunk_lens (len k : nat) : list nat :=
    (if (len mod k =? 0)%nat then [] else [(len mod k)%nat]) ++ repeat k (len / k)%nat.
  Fixpoint dec_partitions (method : N) (lens : list nat) : P (list Z) :=
    match lens with
    | [] => pret []
    | n :: rest => h <-- p_part_header method ;;
                   rs <-- p_partition h n ;;
                   more <-- dec_partitions method rest ;;
                   pret (rs ++ more)
    end.
  (* `nres` residuals follow a predictor of order `order`; block_size = order + nres *)
  Definition dec_residuals (order nres : nat) : P (list Z) :=
    method <-- p_rd 2 ;;
    _ <-- p_guard (method <? 2) ECodingMethod ;;
    po <-- p_rd 4 ;;
    let block_size := (order + nres)%nat in
    let count := (2 ^ N.to_nat po)%nat in
    _ <-- p_guard (block_size mod count =? 0)%nat EPartitionOrder ;;   (* repo fixes 80c9381, 6ca0ed6; before: rchunks_mut(0) panic *)
    let lens := rchunk_lens nres (block_size / count)%nat in
    _ <-- p_guard (length lens =? count)%nat EPartitionOrder ;;
    dec_partitions method lens.

  (* decode.rs:1633-1674 read_subframe with 1676-1734 *)
  Definition dec_subframe (w : Z) (bps : N) (n : nat) : P (list Z) :=
    '(ty, wasted) <-- p_subframe_header ;;
    eb <-- plift (effective_bps bps wasted) ;;
    let ebn := N.to_nat eb in
    xs <-- (match ty with
            | TConst => v <-- p_rds ebn ;; pret (repeat v n)
            | TVerb => p_repeat n (p_rds ebn)
            | TFixed o =>
                let on := N.to_nat o in
                _ <-- p_guard (on <=? n)%nat EFixedOrder ;;
                warm <-- p_repeat on (p_rds ebn) ;;
                rs <-- dec_residuals on (n - on) ;;
                plift (predict w (fixed_coeffs o) 0 (rev warm) rs)
            | TLpc o =>
                let on := N.to_nat o in
                _ <-- p_guard (on <=? n)%nat ELpcOrder ;;
                warm <-- p_repeat on (p_rds ebn) ;;
                prec <-- p_qlp_precision ;;
                shift <-- p_qlp_shift ;;
                coefs <-- p_repeat on (p_rds (N.to_nat prec)) ;;
                rs <-- dec_residuals on (n - on) ;;
                plift (predict w coefs (Z.of_N shift) (rev warm) rs)
            end) ;;
    (* `*i <<= wasted_bps`: the shift amount is < width; shifted-out bits are lost silently *)
    if wasted =? 0 then pret xs
    else pret (map (fun x => wrap_s w (x * 2 ^ Z.of_N wasted)) xs).

  Fixpoint map2_res (f : Z -> Z -> res Z) (a b : list Z) : res (list Z) :=
    match a, b with
    | x :: a', y :: b' => v <- f x y ;; vs <- map2_res f a' b' ;; Ok (v :: vs)
    | _, _ => Ok []
    end.
  Fixpoint map2_res2 (f : Z -> Z -> res (Z * Z)) (a b : list Z) : res (list Z * list Z) :=
    match a, b with
    | x :: a', y :: b' => v <- f x y ;; vs <- map2_res2 f a' b' ;; Ok (fst v :: fst vs, snd v :: snd vs)
    | _, _ => Ok ([], [])
    end.

  (* decode.rs:1492-1631 read_subframes *)
  Definition dec_subframes (h : header) : P (list (list Z)) :=
    let n := N.to_nat (h_bs h) in
    let bps := h_bps h in
    let a := h_assign h in
    if a <? 8 then p_repeat (N.to_nat (a + 1)) (dec_subframe 32 bps n)
    else if bps <? 32 then
      (* side channel has bps + 1 <= 32 bits: everything in i32 *)
      if a =? 8 then
        l <-- dec_subframe 32 bps n ;; s <-- dec_subframe 32 (bps + 1) n ;;
        r <-- plift (map2_res (fun l s => arith_s Release 32 (l - s)) l s) ;; pret [l; r]
      else if a =? 9 then
        s <-- dec_subframe 32 (bps + 1) n ;; r <-- dec_subframe 32 bps n ;;
        l <-- plift (map2_res (fun s r => arith_s Release 32 (s + r)) s r) ;; pret [l; r]
      else
        m <-- dec_subframe 32 bps n ;; s <-- dec_subframe 32 (bps + 1) n ;;
        lr <-- plift (map2_res2 (fun m s =>
                 m2 <- arith_s Release 32 (m * 2) ;;
                 sum <- arith_s Release 32 (m2 + s mod 2) ;;                 (* side & 1 *)
                 a1 <- arith_s Release 32 (sum + s) ;; b1 <- arith_s Release 32 (sum - s) ;;
                 Ok ((a1 / 2)%Z, (b1 / 2)%Z)) m s) ;;
        pret [fst lr; snd lr]
    else
      (* 32-bit stream: the side channel has 33 bits and is decoded as i64 *)
      if a =? 8 then
        l <-- dec_subframe 32 bps n ;; s <-- dec_subframe 64 (bps + 1) n ;;
        r <-- plift (map2_res (fun l s => v <- arith_s Release 64 (l - s) ;; Ok (as_i32 v)) l s) ;; pret [l; r]
      else if a =? 9 then
        s <-- dec_subframe 64 (bps + 1) n ;; r <-- dec_subframe 32 bps n ;;
        l <-- plift (map2_res (fun s r => v <- arith_s Release 64 (s + r) ;; Ok (as_i32 v)) s r) ;; pret [l; r]
      else
        m <-- dec_subframe 32 bps n ;; s <-- dec_subframe 64 (bps + 1) n ;;
        lr <-- plift (map2_res2 (fun m s =>
                 m2 <- arith_s Release 64 (m * 2) ;;
                 sum <- arith_s Release 64 (m2 + s mod 2) ;;
                 a1 <- arith_s Release 64 (sum + s) ;; b1 <- arith_s Release 64 (sum - s) ;;
                 Ok (as_i32 (a1 / 2), as_i32 (b1 / 2))%Z) m s) ;;
        pret [fst lr; snd lr].

  (* FrameHeader::read (with STREAMINFO) / read_subset, then read_subframes, byte_align, skip(16),
     CRC-16 over every byte of the frame.  Returns header, channels, unread bytes. *)
  Definition dec_frame (si : option streaminfo) (pre_check : header -> res unit) (bytes : list N)
    : res (header * list (list Z) * list N) :=
    let s0 := bits_of_bytes bytes in
    match parse_header_fields si s0 with
    | Err e => Err e | Panic k => Panic k
    | Ok (h0, s1) =>
      h <- (match si with Some i => header_checks i h0 | None => Ok h0 end) ;;
      if negb (crc8 (firstn (consumed_bytes bytes s1) bytes) =? 0) then Err ECrc8 else
      _ <- pre_check h ;;
      match (chans <-- dec_subframes h ;; _ <-- p_align ;; _ <-- p_rd 16 ;; pret chans) s1 with
      | Err e => Err e | Panic k => Panic k
      | Ok (chans, s2) =>
        let n := consumed_bytes bytes s2 in
        if crc16 (firstn n bytes) =? 0 then Ok (h, chans, skipn n bytes) else Err ECrc16
      end
    end.
End Dec.
