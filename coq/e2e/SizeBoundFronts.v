(* E2E/SizeBoundFronts.v — SizeBound.v for the other two front-ends, by equality of runs. *)
From Coq Require Import List NArith ZArith Lia.
From FlacBase Require Import Res.
From FlacCodec Require Ast Stream Header Wf Enc Enc_proofs.
From FlacWriters Require Import Meta Params Params_proofs Finalize Writers Lists_proofs Writers_proofs Bytes_proofs Cross_proofs.
From FlacE2E Require Import Bridge E2E SampleE2E Success Transfer SizeBound.
Import ListNotations.
Open Scope N_scope.

Theorem byte_written_audio_size_bounded : forall o L md5, (forall l, length (md5 l) = 16%nat) ->
  forall p rate bps ch, rate < 2 ^ 20 -> 1 <= bps -> bps <= 32 -> 1 <= ch -> ch <= 8 ->
  forall en wo total w (chunks : list (list N)),
  options_wf wo ->
  byte_new p en [] wo rate bps ch total = Ok w ->
  Forall byte_ok (concat chunks) ->
  let nb := bytes_per_sample_of bps in
  let samples := decoded en (N.to_nat nb) (concat chunks) in
  forallb (FlacCodec.Wf.fits bps) samples = true ->
  let W := N.of_nat (length samples) / ch in
  1 <= W -> N.of_nat (length samples) < 2 ^ 36 ->
  match total with Some T => T = nb * (ch * W) | None => True end ->
  exists f blocks,
    byte_run (encB o L rate bps) md5 p w chunks = Ok f /\
    concat (map FlacCodec.Stream.interleave_frame blocks) =
      firstn (N.to_nat ch * (length samples / N.to_nat ch)) samples /\
    N.of_nat (length (frames_bytes (f_enc f))) <= blocks_bound bps blocks.
Proof.
  intros o L md5 Hmd p rate bps ch Hrate Hb1 Hb32 Hc1 Hc8 en wo total w chunks Hwf Hnew Hbytes nb samples Hfits W HW Hlen Htot.
  destruct (byte_new_sample_new p en wo rate bps ch total w Hnew) as (ts & ws & Hs & Et).
  rewrite (byte_writer_is_sample_writer (encB o L rate bps) md5 p en wo rate bps ch total ts w ws chunks Hwf Hnew Hs Et Hbytes).
  fold nb. fold samples.
  assert (Ec : concat [samples] = samples) by (cbn [concat]; apply app_nil_r).
  assert (Hnb : 1 <= nb) by (unfold nb, bytes_per_sample_of; apply N.div_le_lower_bound; lia).
  assert (Hts : match ts with Some T => T = ch * W | None => True end).
  { destruct ts as [T|]; [|exact I]. subst total. cbn [option_map] in Htot. fold nb in Htot. nia. }
  pose proof (written_audio_size_bounded o L md5 Hmd p rate bps ch Hrate Hb1 Hb32 Hc1 Hc8 wo ts ws [samples] Hwf Hs) as K.
  rewrite Ec in K. exact (K Hfits HW Hlen Hts).
Qed.

Theorem channel_written_audio_size_bounded : forall o L md5, (forall l, length (md5 l) = 16%nat) ->
  forall p rate bps ch, rate < 2 ^ 20 -> 1 <= bps -> bps <= 32 -> 1 <= ch -> ch <= 8 ->
  forall wo total w (chunks : list (list (list Z))),
  options_wf wo ->
  channel_new p [] wo rate bps ch total = Ok w ->
  Forall (chunk_ok (N.to_nat ch)) chunks ->
  let samples := concat (multizip (cconcat (N.to_nat ch) chunks)) in
  forallb (FlacCodec.Wf.fits bps) samples = true ->
  let W := N.of_nat (length samples) / ch in
  1 <= W -> N.of_nat (length samples) < 2 ^ 36 ->
  match total with Some T => T = W | None => True end ->
  exists f blocks,
    channel_run (encB o L rate bps) md5 p w chunks = Ok f /\
    concat (map FlacCodec.Stream.interleave_frame blocks) =
      firstn (N.to_nat ch * (length samples / N.to_nat ch)) samples /\
    N.of_nat (length (frames_bytes (f_enc f))) <= blocks_bound bps blocks.
Proof.
  intros o L md5 Hmd p rate bps ch Hrate Hb1 Hb32 Hc1 Hc8 wo total w chunks Hwf Hnew Hchunks samples Hfits W HW Hlen Htot.
  destruct (channel_new_sample_new p wo rate bps ch total w Hnew) as (ts & ws & Hs & Et).
  rewrite (channel_writer_is_sample_writer (encB o L rate bps) md5 p wo rate bps ch total ts w ws chunks Hwf Hnew Hs Et Hchunks).
  fold samples.
  assert (Ec : concat [samples] = samples) by (cbn [concat]; apply app_nil_r).
  assert (Hts : match ts with Some T => T = ch * W | None => True end).
  { subst ts. destruct total as [T|]; cbn [option_map]; [|exact I]. subst T. reflexivity. }
  pose proof (written_audio_size_bounded o L md5 Hmd p rate bps ch Hrate Hb1 Hb32 Hc1 Hc8 wo ts ws [samples] Hwf Hs) as K.
  rewrite Ec in K. exact (K Hfits HW Hlen Hts).
Qed.
