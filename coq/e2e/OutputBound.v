(* E2E/OutputBound.v — the size half of C04 for whole streams, on the model: whatever bytes the stream decoder model is
   given and however it ends (clean end, error), the samples it has delivered are at most 8 * 65535 per frame and every
   frame consumed at least two bytes of input: twice the number of samples is at most 524 280 times the length of the
   input.  (The decoder cannot be made to produce an amount of output that is not paid for by input; the allocator
   itself is measured by the C04 searcher.) *)
From Coq Require Import List NArith ZArith Lia.
From FlacBase Require Import Res Bits.
From FlacCodec Require Ast Stream Dec DecLengths Enc Enc_proofs Props_codec.
From FlacE2E Require Import Sample ReadBridge DecodedFile DamagedFile.
Import ListNotations.
Open Scope N_scope.

Lemma dec_blocks_count si : forall fuel cur bytes acc blocks en,
  dec_blocks fuel si cur bytes acc = (blocks, en) -> (2 * (length blocks - length acc) <= length bytes)%nat.
Proof.
  induction fuel as [|f IH]; intros cur bytes acc blocks en H; cbn [dec_blocks] in H.
  - injection H as <- _. rewrite rev_length. lia.
  - destruct (CS.read_frame si cur bytes) as [[[[chans cur'] rest]|]| |] eqn:Er;
      try (injection H as <- _; rewrite rev_length; lia).
    assert (Hshape : exists h chk, FlacCodec.Dec.dec_frame (Some si) chk bytes = Ok (h, chans, rest)).
    { unfold CS.read_frame in Er. destruct (A.si_total si =? 0).
      - destruct bytes as [|b0 bt]; [discriminate|].
        destruct (FlacCodec.Dec.dec_frame (Some si) (fun _ => Ok tt) (b0 :: bt)) as [[[h ch'] r']| |] eqn:Ed; try discriminate.
        cbn [bind] in Er. injection Er as <- <- <-. eauto.
      - destruct (A.si_total si <? cur); [discriminate|]. cbv zeta in Er.
        destruct ((Z.of_N (A.si_total si) - Z.of_N cur =? 0)%Z); [discriminate|].
        match type of Er with bind (FlacCodec.Dec.dec_frame _ ?c _) _ = _ => set (chk := c) in * end.
        destruct (FlacCodec.Dec.dec_frame (Some si) chk bytes) as [[[h ch'] r']| |] eqn:Ed; try discriminate.
        cbn [bind] in Er. injection Er as <- <- <-. eauto. }
    destruct Hshape as (h & chk & Hd).
    pose proof (FlacCodec.Props_codec.C04_frame_progress (Some si) chk bytes h chans rest Hd) as Hp.
    specialize (IH cur' rest (chans :: acc) blocks en H). cbn [length] in IH. lia.
Qed.

Lemma interleave_good_length ch b : 1 <= ch -> ch <= 8 -> good_block ch b ->
  N.of_nat (length (CS.interleave_frame b)) <= 524280.
Proof.
  intros H1 H8 G. destruct (good_block_wf ch b H1 G) as (_ & _ & Hbl & n & Hne & Hf).
  destruct G as [L _].
  rewrite interleave_frame_il. destruct b as [|c0 r]; [congruence|].
  apply Forall_cons_iff in Hf as Hf'. destruct Hf' as [L0 _]. rewrite L0, (il_length n (c0 :: r) Hf).
  cbn [FlacCodec.Enc.block_len] in Hbl. assert (N.of_nat n <= 65535) by lia. assert (N.of_nat (length (c0 :: r)) <= 8) by lia.
  rewrite Nat2N.inj_mul. nia.
Qed.

Lemma skip_blocks_shorter : forall fuel last b a, CS.skip_blocks fuel last b = Some a -> (length a <= length b)%nat.
Proof.
  induction fuel as [|f IH]; intros last b a H; cbn [CS.skip_blocks] in H.
  - destruct last; [injection H as <-; lia|discriminate].
  - destruct last; [injection H as <-; lia|].
    destruct b as [|hd [|l1 [|l2 [|l3 rest]]]]; try discriminate.
    destruct (length rest <? _)%nat; [discriminate|]. apply IH in H. rewrite skipn_length in H. cbn [length]. lia.
Qed.

Lemma metadata_min_shorter file si audio : CS.read_metadata_min file = Some (si, audio) -> (length audio <= length file)%nat.
Proof.
  unfold CS.read_metadata_min. intros H.
  repeat match type of H with
         | match ?x with _ => _ end = _ => destruct x eqn:?; try discriminate
         | (if ?c then _ else _) = _ => destruct c; try discriminate
         end.
  injection H as _ <-.
  match goal with E : CS.skip_blocks _ _ _ = Some _ |- _ => apply skip_blocks_shorter in E; rewrite skipn_length in E end.
  cbn [length]. lia.
Qed.

Theorem stream_output_bounded : forall file si frames en,
  CS.dec_stream file = Some (si, frames, en) -> 1 <= A.si_channels si -> A.si_channels si <= 8 ->
  2 * N.of_nat (length (concat frames)) <= 524280 * N.of_nat (length file).
Proof.
  intros file si frames en Hd H1 H8.
  unfold CS.dec_stream in Hd. destruct (CS.read_metadata_min file) as [[si' audio]|] eqn:Em; [|discriminate].
  pose proof (dec_frames_of_blocks (S (length audio)) si' 0 audio []) as Hfb. cbn [map] in Hfb.
  destruct (CS.dec_frames (S (length audio)) si' 0 audio []) as [fr e'] eqn:Ef. injection Hd as -> -> ->.
  destruct (dec_blocks (S (length audio)) si 0 audio []) as [blocks en'] eqn:Eb. cbn [fst snd] in Hfb. injection Hfb as Efr Een.
  destruct (dec_blocks_good si H1 _ _ _ _ _ _ Eb) as (new & Enew & Gn). cbn [rev app] in Enew. subst new.
  pose proof (dec_blocks_count si _ _ _ _ _ _ Eb) as Hc. cbn [length] in Hc. rewrite Nat.sub_0_r in Hc.
  assert (Hlen : N.of_nat (length (concat frames)) <= 524280 * N.of_nat (length blocks)).
  { rewrite Efr. clear - Gn H1 H8. induction Gn as [|b l Hb _ IH]; [cbn; lia|].
    cbn [map concat length]. rewrite app_length. pose proof (interleave_good_length _ b H1 H8 Hb). lia. }
  pose proof (metadata_min_shorter _ _ _ Em) as Ha.
  nia.
Qed.
