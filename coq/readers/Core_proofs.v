(* readers/Core_proofs.v — the integer operations stay in range, and what read_frame and
   Decoder::seek do on a valid file (all frames good, truthful table). *)
From FlacReaders Require Import Spec Lists_proofs Frame_proofs.
Open Scope N_scope.

Lemma u64_add_ok p a b : a + b < U64 -> u64_add p a b = Ok (a + b).
Proof. intros H. unfold u64_add. now apply N.ltb_lt in H as ->. Qed.
Lemma u64_sub_ok p a b : b <= a -> u64_sub p a b = Ok (a - b).
Proof. intros H. unfold u64_sub. now apply N.leb_le in H as ->. Qed.
Lemma u64_mul_ok p a b : a * b < U64 -> u64_mul p a b = Ok (a * b).
Proof. intros H. unfold u64_mul. now apply N.ltb_lt in H as ->. Qed.
Lemma usize_ok v : v < U64 -> usize_try_from_unwrap 64 v = Ok v.
Proof. intros H. unfold usize_try_from_unwrap. change (2 ^ 64) with U64. now apply N.ltb_lt in H as ->. Qed.

Section Valid.
  Variable F : file.
  Hypothesis V : valid_file F.

  Lemma bps_pos : 1 <= bytes_per_sample (f_bps F).
  Proof. destruct (v_width F V). assumption. Qed.

  Lemma bpf_ge_channels : f_channels F <= bytes_per_pcm_frame F.
  Proof. unfold bytes_per_pcm_frame. pose proof bps_pos. nia. Qed.

  Lemma bpf_pos : 1 <= bytes_per_pcm_frame F.
  Proof. pose proof bpf_ge_channels. pose proof (v_channels F V). lia. Qed.

  Lemma total_lt_u64 : total_frames F < U64.
  Proof. pose proof bpf_pos. pose proof (v_range F V). nia. Qed.

  Lemma total_ch_lt_u64 : total_frames F * f_channels F < U64.
  Proof. pose proof bpf_ge_channels. pose proof (v_range F V). nia. Qed.

  Lemma split_good pre rest : f_slots F = pre ++ rest ->
    Forall (good_slot (f_channels F)) pre /\ Forall (good_slot (f_channels F)) rest.
  Proof. intros E. pose proof (v_good F V) as H. rewrite E in H. now apply Forall_app in H. Qed.

  Lemma split_total pre rest : f_slots F = pre ++ rest -> total_frames F = sumlen pre + sumlen rest.
  Proof. intros E. unfold total_frames. now rewrite E, sumlen_app. Qed.

  (* ---- read_frame *)
  Lemma read_frame_none d pre : f_slots F = pre ++ [] -> d_rest d = [] -> d_cur d = sumlen pre ->
    read_frame F d = (d, Ok None).
  Proof.
    intros E Er Ec. unfold read_frame. pose proof (v_total F V) as Ht.
    destruct (f_total F) as [t|].
    - subst t. rewrite (split_total _ _ E), Ec. cbn [sumlen]. unfold checked_sub.
      replace (sumlen pre <=? sumlen pre + 0) with true by (symmetry; apply N.leb_le; lia).
      replace (sumlen pre + 0 - sumlen pre) with 0 by lia. reflexivity.
    - unfold next_slot. now rewrite Er.
  Qed.

  Lemma read_frame_some d pre s r :
    f_slots F = pre ++ s :: r -> d_rest d = s :: r -> d_cur d = sumlen pre ->
    exists f, s = SFrame f /\ wf_frame (f_channels F) f /\
      read_frame F d = ({| d_rest := r; d_cur := sumlen pre + pcm_frames f; d_buf := f |}, Ok (Some f)).
  Proof.
    intros E Er Ec. destruct (split_good _ _ E) as (_ & Hg). inversion Hg as [|? ? (f & -> & Hf) _]; subst.
    exists f. split; [reflexivity|]. split; [exact Hf|].
    pose proof (split_total _ _ E) as Ht. rewrite sumlen_cons in Ht. pose proof total_lt_u64 as Hu.
    assert (Hnext : forall rem, (match rem with Some x => x = pcm_frames f + sumlen r /\ f_total F <> None | None => f_total F = None end) ->
              next_slot F d rem = ({| d_rest := r; d_cur := sumlen pre + pcm_frames f; d_buf := f |}, Ok (Some f))).
    { intros rem Hrem. unfold next_slot. rewrite Er, Ec.
      assert (Hshort : match rem with
                       | Some x => negb ((pcm_frames f =? x) || (14 <? pcm_frames f))
                       | None => false end = false).
      { destruct rem as [x|]; [|reflexivity]. destruct Hrem as (-> & Hk). destruct r as [|s' r'].
        - cbn [sumlen]. replace (pcm_frames f =? pcm_frames f + 0) with true by (symmetry; apply N.eqb_eq; lia).
          reflexivity.
        - pose proof (v_blocks F V Hk pre (SFrame f) (s' :: r') E ltac:(discriminate)) as Hb.
          cbn [slot_frame] in Hb. apply N.ltb_lt in Hb. rewrite Hb, orb_true_r. reflexivity. }
      rewrite Hshort. rewrite u64_add_ok by lia. reflexivity. }
    unfold read_frame. pose proof (v_total F V) as Hv. destruct (f_total F) as [t|] eqn:Et.
    - subst t. rewrite Ht, Ec. unfold checked_sub.
      replace (sumlen pre <=? sumlen pre + (pcm_frames f + sumlen r)) with true by (symmetry; apply N.leb_le; lia).
      replace (sumlen pre + (pcm_frames f + sumlen r) - sumlen pre) with (pcm_frames f + sumlen r) by lia.
      destruct Hf as (Hf1 & Hp & Hf3).
      assert (Hk : Some (total_frames F) <> None) by discriminate.
      specialize (Hnext (Some (pcm_frames f + sumlen r)) (conj eq_refl Hk)).
      destruct (pcm_frames f + sumlen r) as [|p] eqn:Ep; [lia | exact Hnext].
    - apply (Hnext None). reflexivity.
  Qed.

  (* ---- Decoder::seek *)
  Lemma last_matching_some {A} (p : A -> bool) l x : last_matching p l = Some x -> In x l /\ p x = true.
  Proof.
    induction l as [|y r IH]; cbn [last_matching]; [discriminate|].
    destruct (last_matching p r) as [z|].
    - intros H. inversion H; subst. destruct (IH eq_refl). split; [now right | assumption].
    - destruct (p y) eqn:Ep; [|discriminate]. intros H. inversion H; subst. split; [now left | assumption].
  Qed.

  Lemma dec_seek_spec d s :
    exists pre rest o, f_slots F = pre ++ rest /\ o = sumlen pre /\ o <= s /\
      dec_seek F d s = ({| d_rest := rest; d_cur := o; d_buf := d_buf d |}, Ok o).
  Proof.
    assert (Hrew : exists pre rest o, f_slots F = pre ++ rest /\ o = sumlen pre /\ o <= s /\
                     dec_rewind F d = ({| d_rest := rest; d_cur := o; d_buf := d_buf d |}, Ok o)).
    { exists [], (f_slots F), 0. cbn. repeat split; lia. }
    unfold dec_seek. pose proof (v_truthful F V) as T. unfold truthful in T.
    destruct (f_table F) as [pts|]; [|exact Hrew].
    destruct (last_matching (point_le s) pts) as [[o i|]|] eqn:E; try exact Hrew.
    apply last_matching_some in E as (Hin & Hp). cbn [point_le] in Hp.
    destruct (T o i Hin) as (Hi & Ho). rewrite Hp.
    exists (takeN i (f_slots F)), (dropN i (f_slots F)), o.
    split; [symmetry; apply take_drop|]. split; [exact Ho|]. split; [now apply N.leb_le|reflexivity].
  Qed.
End Valid.
