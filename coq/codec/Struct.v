(* Codec/Struct.v — the structural parser of stream.rs (Frame::read / read_subset) producing the
   syntax tree, and Subframe::decode. *)
From FlacCodec Require Export Subframe.
From FlacBase Require Import Crc.
Open Scope N_scope.

(* stream.rs:2811-2825 read_partitions: partition p has block_size / 2^order residuals, the
   first one `predictor_order` fewer (checked_sub -> InvalidPartitionOrder) *)
Fixpoint struct_partitions (method : N) (lens : list (option nat)) : P (list part) :=
  match lens with
  | [] => pret []
  | None :: _ => pfail EPartitionOrder
  | Some n :: rest =>
      h <-- p_part_header method ;;
      rs <-- p_partition h n ;;
      ps <-- struct_partitions method rest ;;
      pret (match h with HRice k => PRice k rs | HEsc w => PEsc w rs | HZero => PZero n end :: ps)
  end.
Definition struct_part_lens (block_size order po : N) : list (option nat) :=
  let count := 2 ^ po in
  let size := block_size / count in
  (* repo fix 534629d: every partition length must be > 0 (first one: size - order) *)
  map (fun i => if (i =? 0)%nat
                then (if order <? size then Some (N.to_nat (size - order)) else None)
                else (if 0 <? size then Some (N.to_nat size) else None))
      (seq 0 (N.to_nat count)).
(* stream.rs Residuals::from_reader *)
Definition struct_residuals (block_size order : N) : P residual :=
  method <-- p_rd 2 ;;
  _ <-- p_guard (method <? 2) ECodingMethod ;;
  po <-- p_rd 4 ;;
  _ <-- p_guard (block_size mod 2 ^ po =? 0) EPartitionOrder ;;   (* repo fix 534629d *)
  ps <-- struct_partitions method (struct_part_lens block_size order po) ;;
  pret {| r_method := method; r_parts := ps |}.

(* stream.rs:2417-2509 read_subframe *)
Definition struct_subframe (block_size bps : N) : P subframe :=
  '(ty, wasted) <-- p_subframe_header ;;
  eb <-- plift (effective_bps bps wasted) ;;
  let ebn := N.to_nat eb in
  match ty with
  | TConst => v <-- p_rds ebn ;; pret {| sf_wasted := wasted; sf_body := BConst v |}
  | TVerb => xs <-- p_repeat (N.to_nat block_size) (p_rds ebn) ;;
             pret {| sf_wasted := wasted; sf_body := BVerb xs |}
  | TFixed o => warm <-- p_repeat (N.to_nat o) (p_rds ebn) ;;
                r <-- struct_residuals block_size o ;;
                pret {| sf_wasted := wasted; sf_body := BFixed o warm r |}
  | TLpc o => warm <-- p_repeat (N.to_nat o) (p_rds ebn) ;;
              prec <-- p_qlp_precision ;;
              shift <-- p_qlp_shift ;;
              coefs <-- p_repeat (N.to_nat o) (p_rds (N.to_nat prec)) ;;
              r <-- struct_residuals block_size o ;;
              pret {| sf_wasted := wasted; sf_body := BLpc o warm prec shift coefs r |}
  end.

(* bits per sample of subframe i under channel assignment a (side channels get one more bit) *)
Definition subframe_bps (a bps : N) (i : nat) : N :=
  if (a =? 8) && (i =? 1)%nat then bps + 1
  else if (a =? 9) && (i =? 0)%nat then bps + 1
  else if (a =? 10) && (i =? 1)%nat then bps + 1
  else bps.

Fixpoint struct_subframes (h : header) (i : nat) (n : nat) : P (list subframe) :=
  match n with
  | O => pret []
  | S k => sf <-- struct_subframe (h_bs h) (subframe_bps (h_assign h) (h_bps h) i) ;;
           rest <-- struct_subframes h (S i) k ;;
           pret (sf :: rest)
  end.

(* number of whole bytes consumed when `rest` remains of the bits of `bytes` *)
Definition consumed_bytes (bytes : list N) (rest : bits) : nat := (length bytes - length rest / 8)%nat.
Definition p_align : P unit := fun s => Ok (tt, skipn (length s mod 8)%nat s).

(* stream.rs:1688-1782 Frame::read_inner over a byte string; returns the tree and the unread bytes *)
Definition struct_frame (si : option streaminfo) (bytes : list N) : res (frame * list N) :=
  let s0 := bits_of_bytes bytes in
  match parse_header_fields si s0 with
  | Err e => Err e | Panic k => Panic k
  | Ok (h0, s1) =>
    h <- (match si with Some i => header_checks i h0 | None => Ok h0 end) ;;
    if negb (crc8 (firstn (consumed_bytes bytes s1) bytes) =? 0) then Err ECrc8 else
    match (subs <-- struct_subframes h 0 (N.to_nat (assign_channels (h_assign h))) ;;
           _ <-- p_align ;; _ <-- p_rd 16 ;; pret subs) s1 with
    | Err e => Err e | Panic k => Panic k
    | Ok (subs, s2) =>
      let n := consumed_bytes bytes s2 in
      if crc16 (firstn n bytes) =? 0 then Ok ({| f_hdr := h; f_subs := subs |}, skipn n bytes)
      else Err ECrc16
    end
  end.

(* ---- Subframe::decode (stream.rs:2343-2415): unbounded-Z reference semantics of a subframe ---- *)
Fixpoint dot (xs_rev coeffs : list Z) : Z :=
  match xs_rev, coeffs with
  | x :: xs, c :: cs => (x * c + dot xs cs)%Z
  | _, _ => 0%Z
  end.
Fixpoint predict_z (coeffs : list Z) (shift : Z) (done_rev todo : list Z) : list Z :=
  match todo with
  | [] => rev done_rev
  | r :: rest => predict_z coeffs shift ((r + dot done_rev coeffs / 2 ^ shift)%Z :: done_rev) rest
  end.
Definition sem_body (block_size : N) (b : body) : list Z :=
  match b with
  | BConst v => repeat v (N.to_nat block_size)
  | BVerb xs => xs
  | BFixed o warm r => predict_z (fixed_coeffs o) 0 (rev warm) (residual_values r)
  | BLpc o warm prec shift coefs r => predict_z coefs (Z.of_N shift) (rev warm) (residual_values r)
  end.
Definition sem_subframe (block_size : N) (sf : subframe) : list Z :=
  map (fun x => x * 2 ^ Z.of_N (sf_wasted sf))%Z (sem_body block_size (sf_body sf)).

(* undo channel decorrelation (RFC 9639 §9.2.3 / decode.rs:1492-1625), exact integers *)
Definition sem_channels (a : N) (chans : list (list Z)) : list (list Z) :=
  match a, chans with
  | 8, [l; s] => [l; map (fun p => fst p - snd p)%Z (combine l s)]
  | 9, [s; r] => [map (fun p => fst p + snd p)%Z (combine s r); r]
  | 10, [m; s] =>
      [map (fun p => let sum := (fst p * 2 + Z.abs (snd p) mod 2)%Z in ((sum + snd p) / 2)%Z) (combine m s);
       map (fun p => let sum := (fst p * 2 + Z.abs (snd p) mod 2)%Z in ((sum - snd p) / 2)%Z) (combine m s)]
  | _, _ => chans
  end.
Definition sem_frame (f : frame) : list (list Z) :=
  sem_channels (h_assign (f_hdr f)) (map (sem_subframe (h_bs (f_hdr f))) (f_subs f)).
