//! Shared pieces of the verification harness: PRNG, panic capture, PCM generators,
//! encode/decode helpers over the public API of the crate under test.
#![allow(dead_code)]

use flac_codec::Error;
use std::io::{Cursor, Read};

pub mod json;

// ---------------------------------------------------------------- PRNG (SplitMix64)
#[derive(Clone)]
pub struct Rng(pub u64);
impl Rng {
    pub fn new(seed: u64, stream: u64) -> Self {
        let mut r = Rng(seed ^ stream.wrapping_mul(0xA24BAED4963EE407));
        r.next();
        r
    }
    pub fn next(&mut self) -> u64 {
        self.0 = self.0.wrapping_add(0x9E3779B97F4A7C15);
        let mut z = self.0;
        z = (z ^ (z >> 30)).wrapping_mul(0xBF58476D1CE4E5B9);
        z = (z ^ (z >> 27)).wrapping_mul(0x94D049BB133111EB);
        z ^ (z >> 31)
    }
    pub fn below(&mut self, n: u64) -> u64 {
        if n == 0 { 0 } else { self.next() % n }
    }
    pub fn range(&mut self, lo: i64, hi: i64) -> i64 {
        // inclusive
        lo + (self.below((hi - lo + 1) as u64) as i64)
    }
    pub fn chance(&mut self, num: u64, den: u64) -> bool {
        self.below(den) < num
    }
    pub fn pick<'a, T>(&mut self, xs: &'a [T]) -> &'a T {
        &xs[self.below(xs.len() as u64) as usize]
    }
    pub fn bytes(&mut self, n: usize) -> Vec<u8> {
        (0..n).map(|_| self.next() as u8).collect()
    }
}

pub fn env_seed() -> u64 {
    std::env::var("VERIF_SEED").ok().and_then(|s| s.parse().ok()).unwrap_or(1)
}
pub fn env_tier_thorough() -> bool {
    std::env::var("VERIF_TIER").map(|t| t == "thorough").unwrap_or(false)
}

// ---------------------------------------------------------------- hex
pub fn hex(b: &[u8]) -> String {
    let mut s = String::with_capacity(b.len() * 2);
    for x in b {
        s.push_str(&format!("{:02x}", x));
    }
    s
}
pub fn unhex(s: &str) -> Vec<u8> {
    (0..s.len() / 2).map(|i| u8::from_str_radix(&s[2 * i..2 * i + 2], 16).unwrap()).collect()
}

// ---------------------------------------------------------------- panic capture
pub fn quiet_panics() {
    std::panic::set_hook(Box::new(|_| {}));
}

/// Runs `f`, turning a panic into Err(message).
pub fn catch<T>(f: impl FnOnce() -> T) -> Result<T, String> {
    match std::panic::catch_unwind(std::panic::AssertUnwindSafe(f)) {
        Ok(v) => Ok(v),
        Err(e) => {
            let msg = if let Some(s) = e.downcast_ref::<&str>() {
                s.to_string()
            } else if let Some(s) = e.downcast_ref::<String>() {
                s.clone()
            } else {
                "panic".to_string()
            };
            Err(msg)
        }
    }
}

/// Class of an error: variant name; for I/O errors `Io:<kind>`.
pub fn err_class(e: &Error) -> String {
    match e {
        Error::Io(io) => format!("Io:{:?}", io.kind()),
        other => {
            let d = format!("{:?}", other);
            d.chars().take_while(|c| c.is_alphanumeric() || *c == '_').collect()
        }
    }
}
pub fn io_err_class(e: &std::io::Error) -> String {
    format!("Io:{:?}", e.kind())
}

#[derive(Clone, Debug, PartialEq, Eq)]
pub enum End {
    Eof,          // clean end of stream
    Err(String),  // error class
    Panic(String),
}
impl End {
    pub fn tag(&self) -> String {
        match self {
            End::Eof => "eof".into(),
            End::Err(e) => format!("err:{}", e),
            End::Panic(_) => "panic".into(),
        }
    }
}

// ---------------------------------------------------------------- PCM generators
pub const PCM_KINDS: &[&str] = &["noise", "walk", "ramp", "extremes", "const", "zero", "wasted", "sine", "fullscale", "sparse"];

/// interleaved samples, `frames` PCM frames of `ch` channels fitting `bps` bits
pub fn gen_pcm(rng: &mut Rng, kind: &str, ch: usize, bps: u32, frames: usize) -> Vec<i32> {
    let max: i64 = (1i64 << (bps - 1)) - 1;
    let min: i64 = -(1i64 << (bps - 1));
    let clamp = |v: i64| -> i32 { v.max(min).min(max) as i32 };
    let mut out = vec![0i32; ch * frames];
    for c in 0..ch {
        let mut acc: i64 = rng.range(min / 2, max / 2);
        let cval = rng.range(min, max);
        let shift = if bps > 2 { rng.range(1, (bps as i64 - 1).min(6)) as u32 } else { 0 };
        for i in 0..frames {
            let v: i64 = match kind {
                "noise" => rng.range(min, max),
                "walk" => {
                    let step = ((max as i128 / 64).max(1)) as i64;
                    acc += rng.range(-step, step);
                    acc = acc.max(min).min(max);
                    acc
                }
                "ramp" => min + ((i as i64 * 37 + c as i64 * 11) % (max - min + 1).max(1)),
                "extremes" => if (i + c) % 2 == 0 { max } else { min },
                "const" => cval,
                "zero" => 0,
                "wasted" => (rng.range(min, max) >> shift) << shift,
                "sine" => {
                    let t = i as f64 * 0.05 * (c as f64 + 1.0);
                    (t.sin() * (max as f64) * 0.9) as i64
                }
                "fullscale" => if rng.chance(1, 2) { max } else { min },
                "sparse" => if rng.chance(1, 40) { rng.range(min, max) } else { 0 },
                _ => 0,
            };
            out[i * ch + c] = clamp(v);
        }
    }
    if kind == "walk" && ch == 2 {
        // stereo-correlated: right = left + small noise
        for i in 0..frames {
            let l = out[i * 2] as i64;
            out[i * 2 + 1] = clamp(l + rng.range(-3, 3));
        }
    }
    out
}

// ---------------------------------------------------------------- encode / decode helpers
use flac_codec::encode::{FlacSampleWriter, Options};
use flac_codec::decode::{FlacSampleReader, Metadata};

/// Encode interleaved samples with the sample writer into memory.
pub fn encode_samples(
    opts: Options,
    rate: u32,
    bps: u32,
    ch: u8,
    samples: &[i32],
    declare_total: bool,
) -> Result<Vec<u8>, String> {
    let r = catch(|| -> Result<Vec<u8>, Error> {
        let mut cur = Cursor::new(Vec::new());
        {
            let mut w = FlacSampleWriter::new(
                &mut cur,
                opts,
                rate,
                bps,
                ch,
                if declare_total { Some(samples.len() as u64) } else { None },
            )?;
            w.write(samples)?;
            w.finalize()?;
        }
        Ok(cur.into_inner())
    });
    match r {
        Ok(Ok(v)) => Ok(v),
        Ok(Err(e)) => Err(format!("err:{}", err_class(&e))),
        Err(p) => Err(format!("panic:{}", p)),
    }
}

pub struct Decoded {
    pub samples: Vec<i32>,
    /// number of interleaved samples delivered by each successful frame fill
    pub frame_lens: Vec<usize>,
    pub end: End,
    pub channels: u8,
    pub bps: u32,
    pub rate: u32,
    pub opened: bool,
}

/// Decode everything through FlacSampleReader (fill_buf/consume, i.e. frame by frame).
pub fn decode_all(bytes: &[u8]) -> Decoded {
    let mut d = Decoded { samples: vec![], frame_lens: vec![], end: End::Eof, channels: 0, bps: 0, rate: 0, opened: false };
    let r = catch(|| {
        let mut rd = match FlacSampleReader::new(Cursor::new(bytes)) {
            Ok(r) => r,
            Err(e) => {
                d.end = End::Err(err_class(&e));
                return;
            }
        };
        d.opened = true;
        d.channels = rd.channel_count();
        d.bps = rd.bits_per_sample();
        d.rate = rd.sample_rate();
        loop {
            match rd.fill_buf() {
                Ok(buf) => {
                    if buf.is_empty() {
                        d.end = End::Eof;
                        return;
                    }
                    let n = buf.len();
                    d.samples.extend_from_slice(buf);
                    d.frame_lens.push(n);
                    rd.consume(n);
                }
                Err(e) => {
                    d.end = End::Err(err_class(&e));
                    return;
                }
            }
        }
    });
    if let Err(p) = r {
        d.end = End::Panic(p);
    }
    d
}

/// A reader that counts the bytes handed out (used to find frame boundaries).
pub struct CountRead<'a> {
    pub inner: Cursor<&'a [u8]>,
    pub count: std::rc::Rc<std::cell::Cell<usize>>,
}
impl<'a> Read for CountRead<'a> {
    fn read(&mut self, buf: &mut [u8]) -> std::io::Result<usize> {
        let n = self.inner.read(buf)?;
        self.count.set(self.count.get() + n);
        Ok(n)
    }
}

/// Byte offsets (from file start) at which each frame starts, plus the end offset.
/// Works on valid files: the decoder reads exactly the bytes of each frame.
pub fn frame_boundaries(bytes: &[u8]) -> Option<Vec<usize>> {
    catch(|| {
        let count = std::rc::Rc::new(std::cell::Cell::new(0usize));
        let cr = CountRead { inner: Cursor::new(bytes), count: count.clone() };
        let mut rd = FlacSampleReader::new(cr).ok()?;
        let mut offs = vec![count.get()];
        loop {
            match rd.fill_buf() {
                Ok(buf) => {
                    if buf.is_empty() {
                        return Some(offs);
                    }
                    let n = buf.len();
                    rd.consume(n);
                    offs.push(count.get());
                }
                Err(_) => return None,
            }
        }
    })
    .ok()
    .flatten()
}
