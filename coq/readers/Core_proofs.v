(* readers/Core_proofs.v — the integer operations stay in range, and what read_frame and
   Decoder::seek do on a valid file (all frames good, truthful table). *)
From FlacReaders Require Import Spec Lists_proofs Frame_proofs.
Open Scope N_scope.

Lemma u64_add_ok p a b : a + b < U64 -> u64_add p a b = Ok (a + b).
Proof. intros H. unfold u64_add. now apply N.ltb_lt in H as ->. Qed.
Lemma u64_sub_ok p a b : b <= a -> u64_sub p a b = Ok (a - b).
Proof. intros H. unfold u64_sub. now apply N.leb_le in H as ->. Qed.
Lemma u64_mul_ok p a b : a * b < U64 -> u64_mul p a b = Ok (a * b).
Proof. intros H. unfold u64_mul. now apply N.ltb_lt in H as ->. Qed.
Lemma usize_ok v : v < U64 -> usize_try_from_unwrap 64 v = Ok v.
Proof. intros H. unfold usize_try_from_unwrap. change (2 ^ 64) with U64. now apply N.ltb_lt in H as ->. Qed.

Section Valid.
  Variable F : file.
  Hypothesis V : valid_file F.

  Lemma bps_pos : 1 <= bytes_per_sample (f_bps F).
  Proof. destruct (v_width F V). assumption. Qed.

  Lemma bpf_ge_channels : f_channels F <= bytes_per_pcm_frame F.
  Proof. unfold bytes_per_pcm_frame. pose proof bps_pos. nia. Qed.

  Lemma bpf_pos : 1 <= bytes_per_pcm_frame F.
  Proof. pose proof bpf_ge_channels. pose proof (v_channels F V). lia. Qed.

  Lemma total_lt_u64 : total_frames F < U64.
  Proof. pose proof bpf_pos. pose proof (v_range F V). nia. Qed.

  Lemma total_ch_lt_u64 : total_frames F * f_channels F < U64.
  Proof. pose proof bpf_ge_channels. pose proof (v_range F V). nia. Qed.

  Lemma split_good pre rest : f_slots F = pre ++ rest ->
    Forall (good_slot (f_channels F)) pre /\ Forall (good_slot (f_channels F)) rest.
  Proof. intros E. pose proof (v_good F V) as H. rewrite E in H. now apply Forall_app in H. Qed.

  Lemma split_total pre rest : f_slots F = pre ++ rest -> total_frames F = sumlen pre + sumlen rest.
  Proof. intros E. unfold total_frames. now rewrite E, sumlen_app. Qed.

  (* ---- read_frame *)
  Lemma read_frame_none d : d_rest d = [] -> read_frame F d = (d, Ok None).
  Proof. intros E. unfold read_frame. now rewrite E. Qed.

  Lemma read_frame_some d pre s r :
    f_slots F = pre ++ s :: r -> d_rest d = s :: r -> d_cur d = sumlen pre ->
    exists f, s = SFrame f /\ wf_frame (f_channels F) f /\
      read_frame F d = ({| d_rest := r; d_cur := sumlen pre + pcm_frames f; d_buf := f |}, Ok (Some f)).
  Proof.
    intros E Er Ec. destruct (split_good _ _ E) as (_ & Hg). inversion Hg as [|? ? (f & -> & Hf) _]; subst.
    exists f. split; [reflexivity|]. split; [exact Hf|].
    unfold read_frame. rewrite Er, Ec. rewrite u64_add_ok; [reflexivity|].
    pose proof (split_total _ _ E) as Ht. rewrite sumlen_cons in Ht. pose proof total_lt_u64. lia.
  Qed.

  (* ---- Decoder::seek *)
  Lemma last_matching_some {A} (p : A -> bool) l x : last_matching p l = Some x -> In x l /\ p x = true.
  Proof.
    induction l as [|y r IH]; cbn [last_matching]; [discriminate|].
    destruct (last_matching p r) as [z|].
    - intros H. inversion H; subst. destruct (IH eq_refl). split; [now right | assumption].
    - destruct (p y) eqn:Ep; [|discriminate]. intros H. inversion H; subst. split; [now left | assumption].
  Qed.

  Lemma dec_seek_spec d s :
    exists pre rest o, f_slots F = pre ++ rest /\ o = sumlen pre /\ o <= s /\
      dec_seek F d s = ({| d_rest := rest; d_cur := o; d_buf := d_buf d |}, Ok o).
  Proof.
    assert (Hrew : exists pre rest o, f_slots F = pre ++ rest /\ o = sumlen pre /\ o <= s /\
                     dec_rewind F d = ({| d_rest := rest; d_cur := o; d_buf := d_buf d |}, Ok o)).
    { exists [], (f_slots F), 0. cbn. repeat split; lia. }
    unfold dec_seek. pose proof (v_truthful F V) as T. unfold truthful in T.
    destruct (f_table F) as [pts|]; [|exact Hrew].
    destruct (last_matching (point_le s) pts) as [[o i|]|] eqn:E; try exact Hrew.
    apply last_matching_some in E as (Hin & Hp). cbn [point_le] in Hp.
    destruct (T o i Hin) as (Hi & Ho). rewrite Hp.
    exists (takeN i (f_slots F)), (dropN i (f_slots F)), o.
    split; [symmetry; apply take_drop|]. split; [exact Ho|]. split; [now apply N.leb_le|reflexivity].
  Qed.
End Valid.
