"""C07 — readers deliver the stream exactly once, in order, however it is consumed.

Proof: coq/readers (Readers.v, Ser.v; Props_C07.v): for every valid file and every seek-free history over
{read n, fill_buf, consume k <= available, next}, every reader front-end (byte reader in both byte orders,
sample reader and its iterator, channel reader per channel) refines an abstract cursor over the expected stream:
what is delivered is always exactly the prefix up to the cursor, end of stream is signalled only when everything
has been delivered and then for ever; the byte stream is Ser of the sample stream.
Tie: extracted model vs the real readers on every history (release and debug), vm_compute sample, anchors.
Search: harness/src/bin/c07.rs runs call scripts to the end of the stream and beyond through a Read that
fragments the source (whole / 1-byte / random chunks / every split point of small files) and judges every
observation against the PCM that was encoded."""
import vlib
from checks import readers_common as rc

THEOREMS = ["C07_byte_reader", "C07_sample_reader", "C07_channel_reader", "C07_bytes_vs_samples", "C07_ser_twos_complement", "C07_channels_deinterleaved",
            "C07_nonvacuous", "C07_orig_redelivers_last_frame", "C07_channel_error_hides_frame",
            "C07_orig_hands_out_failed_frame",
            "C07_damaged_sample_reader", "C07_damaged_byte_reader", "C07_damaged_channel_reader", "C07_damaged_nonvacuous",
            "C07_sample_reader_never_panics", "C07_byte_reader_never_panics", "C07_channel_reader_never_panics", "C07_never_panics_nonvacuous"]


def run(chk):
    chk.assumptions = list(rc.ASSUMPTIONS) + [
        "source segmentation: the decoder reads through std::io::Read::read_exact-style loops, so it is a function of the flat byte list; this is not modelled but exercised (every split point of small files, 1-byte reads, random chunks) and the model's answer does not depend on it",
    ]
    proof_ok = rc.proof_stage(chk, THEOREMS, e2e_theorems=["C07_decoded_file_is_read", "C07_decoded_file_is_read_bytes_channels", "C05_damaged_file_is_read", "C04_any_file_readers_never_panic"])
    exe = rc.build_driver(chk, "c07") if proof_ok else None

    total_cases = compared = disagreements = soft = vm_n = 0
    distinct = set()
    stats = {}
    samples = []
    for profile in ("release", "debug"):
        run_ = rc.run_harness(chk, "c07", profile)
        if run_ is None:
            continue
        stats[profile] = {k: v for k, v in run_["stat"].items() if k != "t"}
        chk.notes.extend(n for n in sorted(set(run_["notes"]))[:8] if n not in chk.notes)
        stale = int(run_["stat"].get("damaged.stale_frame_after_error", 0))
        if stale:
            # outside C07's statement (the stream is damaged): recorded, not an alarm
            chk.notes.append("%s build: on %d damaged-stream histories the channel reader handed out the frame whose CRC-16 failed on the call after the error (C05's concern; repaired by the channel-reader error-path fix)" % (profile, stale))
        total_cases += len(run_["cases"])
        for c in run_["cases"]:
            # non-trivial: ran to the end of the stream (the last observations are end-of-stream signals)
            if c["nops"] >= 3:
                distinct.add((c["file"], c["reader"], c.get("chunking"), c["m"]))
        rc.report_viols(chk, run_)
        if exe:
            model = rc.run_model(chk, exe, run_["files"], run_["cases"])
            if model is not None:
                n, bad, sv = rc.diff(chk, "C07", run_, model, "c07-" + profile)
                compared += n
                disagreements += bad
                soft += sv
            if profile == "release":
                vm_n = rc.vm_sample(chk, "C07", run_, max_ops=24)
        if profile == "release":
            samples = rc.sample_cases(run_, 6)

    chk.coverage.update({
        "evaluations": total_cases,
        "distinct_nontrivial": len(distinct),
        "rule": "call scripts (fixed-size reads incl. sizes below one sample and above one frame, fill/consume-all, fill/consume-part, random mixes incl. read(0) and consume(0), iterate, mix-then-iterate) run to the first end-of-stream signal and 2-3 calls beyond, for each reader front-end, through whole / 1-byte / random-chunk sources and every split point of small files; distinct = new (file, reader, fragmentation, op list) with at least 3 calls",
        "traces_validated_against_impl": compared,
        "disagreements_checked": disagreements,
        "error_variant_only_differences": soft,
        "vm_compute_cases": vm_n,
        "harness_stats": stats,
        "samples": samples,
    })
