//! C08 harness: the finished file depends only on PCM and options — not on how the input was
//! split across write calls (every split point of small inputs, incl. mid-sample and
//! mid-PCM-frame; random chunkings of larger ones), not on the front-end (byte LE / byte BE /
//! sample / channel), not on the run.  A trailing partial PCM frame is dropped.
//!
//! "case" lines carry the model input (`m`) and the implementation's observation (`obs`:
//! recorded total, STREAMINFO MD5, the blocks of the frames actually in the file).
#[path = "writers_common/mod.rs"]
mod wc;
use flac_codec::encode::Options;
use std::collections::BTreeMap;
use vharness::json::{esc, obj};
use vharness::*;
use wc::*;

#[derive(Clone)]
struct Cfg {
    bps: u32,
    ch: u8,
    bs: u16,
    rate: u32,
    declare: bool,
    variant: u8, // option variant (padding / seek table / lpc), irrelevant to the model
}

fn options(c: &Cfg) -> Options {
    let o = Options::default().block_size(c.bs).unwrap();
    match c.variant % 4 {
        0 => o.no_padding().no_seektable(),
        1 => o.seektable_frames(1),
        2 => o.max_lpc_order(None).unwrap().padding(64).unwrap(),
        _ => Options::fast().block_size(c.bs).unwrap().seektable_seconds(1),
    }
}

/// Run one writer over a chunk script. `chunks` are in the writer's natural unit
/// (bytes / interleaved samples / PCM frames); `extra` = natural units appended after the PCM
/// (a trailing partial PCM frame, byte and sample writers only).
fn run(kind: Kind, c: &Cfg, pcm: &[i32], chunks: &[usize], total_frames: usize) -> Result<Vec<u8>, String> {
    let nb = bytes_per_sample(c.bps);
    let unit = match kind {
        Kind::ByteLe | Kind::ByteBe => nb * c.ch as usize,
        Kind::Sample => c.ch as usize,
        Kind::Channel => 1,
    };
    let total = if c.declare { Some((total_frames * unit) as u64) } else { None };
    let stream = Shared::new(&[]);
    let (o, w) = AnyWriter::new(kind, stream.clone(), options(c), c.rate, c.bps, c.ch, total);
    let Some(mut w) = w else { return Err(format!("new:{}", o.full())) };
    let bytes = if kind.is_byte() { samples_to_bytes(pcm, nb, kind == Kind::ByteBe) } else { vec![] };
    let mut pos = 0usize;
    for &n in chunks {
        let o = match kind {
            Kind::ByteLe | Kind::ByteBe => w.write(&[], Some(&bytes[pos..pos + n]), c.bps, c.ch as usize),
            Kind::Sample => w.write(&pcm[pos..pos + n], None, c.bps, c.ch as usize),
            Kind::Channel => w.write(&pcm[pos * c.ch as usize..(pos + n) * c.ch as usize], None, c.bps, c.ch as usize),
        };
        pos += n;
        if !o.is_ok() {
            w.forget();
            return Err(format!("write:{}", o.full()));
        }
    }
    let o = w.finalize();
    if !o.is_ok() {
        return Err(format!("finalize:{}", o.full()));
    }
    Ok(stream.snapshot())
}

struct Ctx {
    stats: BTreeMap<String, u64>,
    viols: usize,
    cases: usize,
    runs: u64,
}
impl Ctx {
    fn bump(&mut self, k: &str, n: u64) {
        *self.stats.entry(k.to_string()).or_insert(0) += n;
    }
}

fn cfg_tag(c: &Cfg) -> String {
    format!("bps={} ch={} bs={} rate={} declare={} variant={}", c.bps, c.ch, c.bs, c.rate, c.declare, c.variant)
}

fn viol(cx: &mut Ctx, key: &str, desc: &str, kind: Kind, c: &Cfg, pcm: &[i32], chunks: &[usize]) {
    cx.viols += 1;
    println!(
        "{}",
        obj(&[
            ("t", esc("viol")),
            ("key", esc(key)),
            ("desc", esc(desc)),
            ("writer", esc(kind.tag())),
            ("cfg", esc(&cfg_tag(c))),
            ("chunks", vharness::json::ints(chunks)),
            ("pcm", vharness::json::ints(pcm)),
        ])
    );
}

/// compare one run with the reference file
fn check(cx: &mut Ctx, what: &str, kind: Kind, c: &Cfg, pcm: &[i32], chunks: &[usize], frames: usize, reference: &[u8]) {
    cx.runs += 1;
    match run(kind, c, pcm, chunks, frames) {
        Ok(f) => {
            if f != reference {
                let at = f.iter().zip(reference).position(|(a, b)| a != b).unwrap_or(f.len().min(reference.len()));
                viol(cx, &format!("{}-changes-file", what), &format!("finished file differs from the single-write sample-writer file (lengths {} vs {}, first difference at byte {})", f.len(), reference.len(), at), kind, c, pcm, chunks);
            }
        }
        Err(e) => {
            let key = if e.contains("panic:") {
                format!("{}-panic:{}", e.split(':').next().unwrap_or("run"), slug(e.splitn(3, ':').nth(2).unwrap_or("")))
            } else {
                format!("{}-fails", what)
            };
            viol(cx, &key, &format!("{} ({})", e, what), kind, c, pcm, chunks);
        }
    }
}

fn blocks_of(d: &Decoded, ch: usize) -> String {
    let mut out = vec![];
    let mut pos = 0;
    for &n in &d.frame_lens {
        let fr = &d.samples[pos..pos + n];
        pos += n;
        let len = n / ch;
        let chans: Vec<String> = (0..ch).map(|c| (0..len).map(|i| fr[i * ch + c].to_string()).collect::<Vec<_>>().join(",")).collect();
        out.push(chans.join("|"));
    }
    out.join(";")
}

fn emit_case(cx: &mut Ctx, kind: Kind, c: &Cfg, pcm: &[i32], chunks: &[usize], frames: usize) {
    let nb = bytes_per_sample(c.bps);
    let unit = match kind {
        Kind::ByteLe | Kind::ByteBe => nb * c.ch as usize,
        Kind::Sample => c.ch as usize,
        Kind::Channel => 1,
    };
    let total = if c.declare { (frames * unit).to_string() } else { "none".to_string() };
    let data = if kind.is_byte() {
        format!("data={}", hex(&samples_to_bytes(pcm, nb, kind == Kind::ByteBe)))
    } else {
        format!("pcm={}", pcm.iter().map(|x| x.to_string()).collect::<Vec<_>>().join(","))
    };
    let m = format!(
        "C08 w={} bs={} bps={} ch={} total={} chunks={} {}",
        kind.tag(),
        c.bs,
        c.bps,
        c.ch,
        total,
        if chunks.is_empty() { "-".to_string() } else { chunks.iter().map(|x| x.to_string()).collect::<Vec<_>>().join(",") },
        data
    );
    let obs = match run(kind, c, pcm, chunks, frames) {
        Ok(f) => {
            let d = decode_all(&f);
            let si = flac_codec::metadata::read_info(std::io::Cursor::new(&f));
            match (d.end == End::Eof, si) {
                (true, Ok(si)) => format!(
                    "ok total={} md5={} blocks={}",
                    si.total_samples.map_or(0, |t| t.get()),
                    si.md5.map_or("-".to_string(), |m| hex(&m)),
                    blocks_of(&d, c.ch as usize)
                ),
                _ => "undecodable".to_string(),
            }
        }
        Err(e) => {
            if e.contains("panic") {
                "panic".to_string()
            } else {
                "err".to_string()
            }
        }
    };
    cx.cases += 1;
    println!("{}", obj(&[("t", esc("case")), ("m", esc(&m)), ("obs", esc(&obs))]));
}

fn random_chunks(rng: &mut Rng, total: usize, max_chunk: usize) -> Vec<usize> {
    let mut v = vec![];
    let mut left = total;
    while left > 0 {
        let n = match rng.below(6) {
            0 => 0,
            1 => 1,
            _ => rng.range(1, max_chunk as i64) as usize,
        }
        .min(left);
        v.push(n);
        left -= n;
    }
    if rng.chance(1, 4) {
        v.push(0);
    }
    v
}

fn main() {
    quiet_panics();
    let seed = env_seed();
    let thorough = env_tier_thorough();
    let mut cx = Ctx { stats: BTreeMap::new(), viols: 0, cases: 0, runs: 0 };
    let mut rng = Rng::new(seed, 0xC08);

    // ---------------- small inputs: every split point
    let mut small: Vec<(Cfg, usize)> = vec![];
    for (i, &(bps, ch)) in [(16u32, 2u8), (8, 1), (24, 3), (12, 2), (32, 1), (20, 8), (1, 2), (17, 1)].iter().enumerate() {
        for &bs in &[16u16, 19] {
            for &extra_frames in &[0usize, 5, 16] {
                let frames = bs as usize * (1 + i % 2) + extra_frames;
                small.push((Cfg { bps, ch, bs, rate: 44100, declare: (i + extra_frames) % 2 == 0, variant: (i as u8 + bs as u8) % 4 }, frames));
            }
        }
    }
    if !thorough {
        small.truncate(30);
    }
    for (ci, (c, frames)) in small.iter().enumerate() {
        let kind_pcm = PCM_KINDS[ci % PCM_KINDS.len()];
        let pcm = gen_pcm(&mut rng, kind_pcm, c.ch as usize, c.bps, *frames);
        let chn = c.ch as usize;
        let nb = bytes_per_sample(c.bps);
        // reference: sample writer, one write
        let reference = match run(Kind::Sample, c, &pcm, &[pcm.len()], *frames) {
            Ok(f) => f,
            Err(e) => {
                viol(&mut cx, "reference-run-fails", &e, Kind::Sample, c, &pcm, &[pcm.len()]);
                continue;
            }
        };
        cx.bump("configs", 1);
        // the file decodes to the PCM (sanity; C01 owns losslessness)
        let d = decode_all(&reference);
        if d.samples != pcm {
            println!("{}", obj(&[("t", esc("note")), ("msg", esc(&format!("reference file does not decode to its PCM for {}", cfg_tag(c))))]));
        }
        // repeated run
        check(&mut cx, "rerun", Kind::Sample, c, &pcm, &[pcm.len()], *frames, &reference);
        // sample writer: every split point (incl. mid-PCM-frame), and a three-way split
        for s in 0..=pcm.len() {
            check(&mut cx, "chunking", Kind::Sample, c, &pcm, &[s, pcm.len() - s], *frames, &reference);
        }
        cx.bump("split-points:sample", pcm.len() as u64 + 1);
        // byte writers: every byte split point (incl. mid-sample), both orders
        let nbytes = pcm.len() * nb;
        for &k in &[Kind::ByteLe, Kind::ByteBe] {
            check(&mut cx, "frontend", k, c, &pcm, &[nbytes], *frames, &reference);
            let step = if nbytes > 600 && !thorough { 3 } else { 1 };
            let mut s = 0;
            while s <= nbytes {
                check(&mut cx, "chunking", k, c, &pcm, &[s, nbytes - s], *frames, &reference);
                s += step;
            }
            cx.bump("split-points:byte", (nbytes / step) as u64 + 1);
        }
        // channel writer: every PCM-frame split point
        check(&mut cx, "frontend", Kind::Channel, c, &pcm, &[*frames], *frames, &reference);
        for s in 0..=*frames {
            check(&mut cx, "chunking", Kind::Channel, c, &pcm, &[s, frames - s], *frames, &reference);
        }
        cx.bump("split-points:channel", *frames as u64 + 1);
        // one sample / one byte / one PCM frame per call
        check(&mut cx, "chunking", Kind::Sample, c, &pcm, &vec![1; pcm.len()], *frames, &reference);
        check(&mut cx, "chunking", Kind::ByteLe, c, &pcm, &vec![1; nbytes], *frames, &reference);
        check(&mut cx, "chunking", Kind::ByteBe, c, &pcm, &vec![1; nbytes], *frames, &reference);
        check(&mut cx, "chunking", Kind::Channel, c, &pcm, &vec![1; *frames], *frames, &reference);
        // trailing partial PCM frame: dropped, same file
        if chn > 1 || nb > 1 {
            let mut pcm_x = pcm.clone();
            pcm_x.extend(gen_pcm(&mut rng, "noise", chn, c.bps, 1));
            for extra in 1..chn {
                check(&mut cx, "partial-frame", Kind::Sample, c, &pcm_x, &[pcm.len() + extra], *frames, &reference);
                check(&mut cx, "partial-frame", Kind::Sample, c, &pcm_x, &[pcm.len(), extra], *frames, &reference);
            }
            for extra in 1..(chn * nb) {
                for &k in &[Kind::ByteLe, Kind::ByteBe] {
                    check(&mut cx, "partial-frame", k, c, &pcm_x, &[nbytes + extra], *frames, &reference);
                    check(&mut cx, "partial-frame", k, c, &pcm_x, &[nbytes, extra], *frames, &reference);
                }
            }
            // less than one PCM frame in total after whole blocks (the F-C08a shape)
            if c.declare == false {
                let whole = c.bs as usize * chn;
                if pcm.len() >= whole {
                    let r1 = run(Kind::Sample, c, &pcm_x[..whole], &[whole], c.bs as usize);
                    if chn > 1 {
                        cx.runs += 1;
                        let r2 = run(Kind::Sample, c, &pcm_x[..whole + 1], &[whole + 1], c.bs as usize);
                        if r1 != r2 {
                            viol(&mut cx, "partial-frame-after-whole-blocks", &format!("{:?}", r2.err()), Kind::Sample, c, &pcm_x[..whole + 1], &[whole + 1]);
                        }
                    }
                    cx.runs += 1;
                    let r3 = run(Kind::ByteLe, c, &pcm_x[..whole + 1], &[whole * nb + 1], c.bs as usize);
                    if nb * chn > 1 && r1 != r3 {
                        viol(&mut cx, "partial-frame-after-whole-blocks", &format!("{:?}", r3.err()), Kind::ByteLe, c, &pcm_x[..whole + 1], &[whole * nb + 1]);
                    }
                }
            }
        }
        // model cases: a few scripts per front-end
        if pcm.len() <= 400 {
            emit_case(&mut cx, Kind::Sample, c, &pcm, &[pcm.len()], *frames);
            let s = rng.below(pcm.len() as u64 + 1) as usize;
            emit_case(&mut cx, Kind::Sample, c, &pcm, &[s, pcm.len() - s], *frames);
            let sb = rng.below(nbytes as u64 + 1) as usize;
            emit_case(&mut cx, Kind::ByteLe, c, &pcm, &[sb, nbytes - sb], *frames);
            emit_case(&mut cx, Kind::ByteBe, c, &pcm, &[sb, nbytes - sb], *frames);
            let sf = rng.below(*frames as u64 + 1) as usize;
            emit_case(&mut cx, Kind::Channel, c, &pcm, &[sf, frames - sf], *frames);
            let rc = random_chunks(&mut rng, pcm.len(), 40);
            emit_case(&mut cx, Kind::Sample, c, &pcm, &rc, *frames);
        }
    }

    // ---------------- larger inputs: random chunkings, all front-ends, repeated runs
    let n_large = if thorough { 60 } else { 8 };
    for i in 0..n_large {
        let bps = *rng.pick(&[8u32, 16, 16, 24, 32, 13, 4]);
        let ch = *rng.pick(&[1u8, 2, 2, 3, 6]);
        let bs = *rng.pick(&[16u16, 64, 192, 1152, 4096]);
        let frames = (bs as usize) * rng.range(1, 4) as usize + rng.range(0, bs as i64 - 1) as usize;
        let c = Cfg { bps, ch, bs, rate: *rng.pick(&[8000u32, 44100, 96000]), declare: rng.chance(1, 2), variant: (i % 4) as u8 };
        let pcm = gen_pcm(&mut rng, PCM_KINDS[i % PCM_KINDS.len()], ch as usize, bps, frames);
        let reference = match run(Kind::Sample, &c, &pcm, &[pcm.len()], frames) {
            Ok(f) => f,
            Err(e) => {
                viol(&mut cx, "reference-run-fails", &e, Kind::Sample, &c, &pcm, &[pcm.len()]);
                continue;
            }
        };
        cx.bump("configs-large", 1);
        let nb = bytes_per_sample(bps);
        let n_scripts = if thorough { 30 } else { 10 };
        for _ in 0..n_scripts {
            let maxc = *rng.pick(&[7usize, 100, 5000, 70000]);
            let sc = random_chunks(&mut rng, pcm.len(), maxc);
            check(&mut cx, "chunking", Kind::Sample, &c, &pcm, &sc, frames, &reference);
            let bc = random_chunks(&mut rng, pcm.len() * nb, maxc);
            check(&mut cx, "chunking", Kind::ByteLe, &c, &pcm, &bc, frames, &reference);
            let bc2 = random_chunks(&mut rng, pcm.len() * nb, maxc);
            check(&mut cx, "chunking", Kind::ByteBe, &c, &pcm, &bc2, frames, &reference);
            let cc = random_chunks(&mut rng, frames, maxc);
            check(&mut cx, "chunking", Kind::Channel, &c, &pcm, &cc, frames, &reference);
        }
        cx.bump("random-scripts", 4 * n_scripts as u64);
        check(&mut cx, "rerun", Kind::Sample, &c, &pcm, &[pcm.len()], frames, &reference);
        check(&mut cx, "rerun", Kind::Channel, &c, &pcm, &[frames], frames, &reference);
    }

    let st: Vec<(String, String)> = cx.stats.iter().map(|(k, v)| (k.clone(), v.to_string())).collect();
    println!(
        "{}",
        obj(&[
            ("t", esc("stat")),
            ("profile", esc(if cfg!(debug_assertions) { "debug" } else { "release" })),
            ("runs", cx.runs.to_string()),
            ("cases", cx.cases.to_string()),
            ("viols", cx.viols.to_string()),
            ("dist", obj(&st.iter().map(|(k, v)| (k.as_str(), v.clone())).collect::<Vec<_>>())),
        ])
    );
}
