(* Properties C01 + C10 + C13 composed — statement only (proof: WrittenFaults.v).  Hypotheses are about the options, the
   data handed to the writer, the edits and the fault schedule; `Forall byte fn` is the typing fact that a device holds
   u8 values.  Nothing else is assumed about the file. *)
From FlacBase Require Import Res Bits.
From FlacMeta Require Import Bytes Bytes_proofs Blocks BlockList Blocks_proofs Blocks_level BlockList_proofs.
From FlacUpdIo Require GenUpd Update Update_proofs Update_cond IoFault IoFault_proofs.
From FlacCodec Require Ast Stream Spec Wf.
From FlacWriters Require Import Params Params_proofs Finalize Writers Encoder_proofs C09_proofs Bytes_proofs Writers_proofs Cross_proofs.
From FlacE2E Require Bridge E2E Success Transfer.
From FlacE2EMeta Require Import MetaBridge FinishedBlocks.
From FlacE2EUpd Require Import RealCodec CodecView UpdateE2E FaultsE2E WrittenEdited WrittenEditedFronts WrittenBytes WrittenFaults WrittenFaultsFronts.
Open Scope N_scope.

Theorem C13_written_edited_then_faulty_update : forall (u : list N -> bool),
  (forall s, Forall (fun b => b < 128) s -> u s = true) ->
  forall o L md5, (forall l, length (md5 l) = 16%nat) -> (forall l, Forall (fun b => b < 256) (md5 l)) ->
  forall p rate bps ch, rate < 2 ^ 20 -> 1 <= bps -> bps <= 32 -> 1 <= ch -> ch <= 8 ->
  forall wo total w chunks,
  options_wf wo -> Forall plain (o_metadata wo) -> seektables (o_metadata wo) = 0%nat ->
  sample_new p [] wo rate bps ch total = Ok w ->
  forallb (FlacCodec.Wf.fits bps) (concat chunks) = true ->
  let W := N.of_nat (length (concat chunks)) / ch in
  1 <= W -> N.of_nat (length (concat chunks)) < 2 ^ 36 ->
  match total with Some T => T = ch * W | None => True end ->
  exists f blocks,
    sample_run (FlacE2E.E2E.encB o L rate bps) md5 p w chunks = Ok f /\
    concat (map FlacCodec.Stream.interleave_frame blocks) =
      firstn (N.to_nat ch * (length (concat chunks) / N.to_nat ch)) (concat chunks) /\
    forall edits fn rs,
      Forall (typed_edit u) edits -> Forall (U.keeps_streaminfo FlacMeta.Blocks.block) edits ->
      U.run_edits FlacMeta.Blocks.block psize_r ser_r uclass_r (read_blocks_r u) edits (f_stream f) = (fn, rs) ->
      forall (cap : nat) (ck : list N -> list (list N)) (edit : U.blocklist FlacMeta.Blocks.block -> res (U.blocklist FlacMeta.Blocks.block)) (rbf : bool)
             (w1 w2 : IO.world) (b : bool) (w1' w2' : IO.world),
      (0 < cap)%nat -> IO.ck_ok ck -> FlacUpdIo.IoFault_proofs.honest (IO.sr (IO.wsched w1)) ->
      IO.wdev w1 = {| IO.data := fn; IO.pos := 0 |} -> IO.wdev w2 = {| IO.data := []; IO.pos := 0 |} ->
      Forall byte fn ->
      typed_edit u edit -> U.keeps_streaminfo FlacMeta.Blocks.block edit ->
      IO.update_file_io FlacMeta.Blocks.block psize_r ser_r uclass_r (read_blocks_b u) true cap ck edit rbf w1 w2 = (Ok b, w1', w2') ->
      let out := if b then IO.data (IO.wdev w2') else IO.data (IO.wdev w1') in
      FlacCodec.Stream.dec_stream out =
        Some (FlacE2E.Bridge.conv_si (f_si f), map FlacCodec.Stream.interleave_frame blocks, FlacCodec.Stream.EndEof) /\
      FlacCodec.Spec.spec_stream out = FlacCodec.Spec.spec_stream (f_stream f) /\
      exists meta_n, out = meta_n ++ frames_bytes (f_enc f).
Proof. exact written_edited_then_faulty_update. Qed.

Print Assumptions C13_written_edited_then_faulty_update.

(* ... with the device holding the file as written, no typing hypothesis is left: the written file is a byte string *)
Theorem C13_written_then_faulty_update : forall (u : list N -> bool),
  (forall s, Forall (fun b => b < 128) s -> u s = true) ->
  forall o L md5, (forall l, length (md5 l) = 16%nat) -> (forall l, Forall (fun b => b < 256) (md5 l)) ->
  forall p rate bps ch, rate < 2 ^ 20 -> 1 <= bps -> bps <= 32 -> 1 <= ch -> ch <= 8 ->
  forall wo total w chunks,
  options_wf wo -> Forall plain (o_metadata wo) -> seektables (o_metadata wo) = 0%nat ->
  sample_new p [] wo rate bps ch total = Ok w ->
  forallb (FlacCodec.Wf.fits bps) (concat chunks) = true ->
  let W := N.of_nat (length (concat chunks)) / ch in
  1 <= W -> N.of_nat (length (concat chunks)) < 2 ^ 36 ->
  match total with Some T => T = ch * W | None => True end ->
  exists f blocks,
    sample_run (FlacE2E.E2E.encB o L rate bps) md5 p w chunks = Ok f /\
    concat (map FlacCodec.Stream.interleave_frame blocks) =
      firstn (N.to_nat ch * (length (concat chunks) / N.to_nat ch)) (concat chunks) /\
    Forall byte (f_stream f) /\
    forall (cap : nat) (ck : list N -> list (list N)) (edit : U.blocklist FlacMeta.Blocks.block -> res (U.blocklist FlacMeta.Blocks.block)) (rbf : bool)
           (w1 w2 : IO.world) (b : bool) (w1' w2' : IO.world),
      (0 < cap)%nat -> IO.ck_ok ck -> FlacUpdIo.IoFault_proofs.honest (IO.sr (IO.wsched w1)) ->
      IO.wdev w1 = {| IO.data := f_stream f; IO.pos := 0 |} -> IO.wdev w2 = {| IO.data := []; IO.pos := 0 |} ->
      typed_edit u edit -> U.keeps_streaminfo FlacMeta.Blocks.block edit ->
      IO.update_file_io FlacMeta.Blocks.block psize_r ser_r uclass_r (read_blocks_b u) true cap ck edit rbf w1 w2 = (Ok b, w1', w2') ->
      let out := if b then IO.data (IO.wdev w2') else IO.data (IO.wdev w1') in
      FlacCodec.Stream.dec_stream out =
        Some (FlacE2E.Bridge.conv_si (f_si f), map FlacCodec.Stream.interleave_frame blocks, FlacCodec.Stream.EndEof) /\
      FlacCodec.Spec.spec_stream out = FlacCodec.Spec.spec_stream (f_stream f) /\
      exists meta_n, out = meta_n ++ frames_bytes (f_enc f).
Proof. exact written_then_faulty_update. Qed.

(* the finished file of a writer model run is a byte string, for the three front-ends *)
Theorem C13_sample_written_file_is_bytes : forall o L md5, (forall l, length (md5 l) = 16%nat) -> (forall l, Forall (fun b => b < 256) (md5 l)) ->
  forall p wo rate bps ch total w chunks f,
  options_wf wo -> Forall plain (o_metadata wo) -> seektables (o_metadata wo) = 0%nat ->
  sample_new p [] wo rate bps ch total = Ok w ->
  sample_run (FlacE2E.E2E.encB o L rate bps) md5 p w chunks = Ok f -> counters_fit (f_enc f) ->
  Forall FlacMeta.Bytes.byte (f_stream f).
Proof. exact sample_written_file_is_bytes. Qed.

Theorem C13_byte_written_file_is_bytes : forall o L md5, (forall l, length (md5 l) = 16%nat) -> (forall l, Forall (fun b => b < 256) (md5 l)) ->
  forall p en wo rate bps ch tb wb chunks f,
  options_wf wo -> Forall plain (o_metadata wo) -> seektables (o_metadata wo) = 0%nat ->
  byte_new p en [] wo rate bps ch tb = Ok wb -> Forall byte_ok (concat chunks) ->
  byte_run (FlacE2E.E2E.encB o L rate bps) md5 p wb chunks = Ok f -> counters_fit (f_enc f) ->
  Forall FlacMeta.Bytes.byte (f_stream f).
Proof. exact byte_written_file_is_bytes. Qed.

Theorem C13_channel_written_file_is_bytes : forall o L md5, (forall l, length (md5 l) = 16%nat) -> (forall l, Forall (fun b => b < 256) (md5 l)) ->
  forall p wo rate bps ch tc wc chunks f,
  options_wf wo -> Forall plain (o_metadata wo) -> seektables (o_metadata wo) = 0%nat ->
  channel_new p [] wo rate bps ch tc = Ok wc -> Forall (chunk_ok (N.to_nat ch)) chunks ->
  channel_run (FlacE2E.E2E.encB o L rate bps) md5 p wc chunks = Ok f -> counters_fit (f_enc f) ->
  Forall FlacMeta.Bytes.byte (f_stream f).
Proof. exact channel_written_file_is_bytes. Qed.

(* C13_written_edited_then_faulty_update for FlacByteWriter and FlacChannelWriter runs *)
Theorem C13_byte_written_edited_then_faulty_update : forall (u : list N -> bool),
  (forall s, Forall (fun b => b < 128) s -> u s = true) ->
  forall o L md5, (forall l, length (md5 l) = 16%nat) -> (forall l, Forall (fun b => b < 256) (md5 l)) ->
  forall p rate bps ch, rate < 2 ^ 20 -> 1 <= bps -> bps <= 32 -> 1 <= ch -> ch <= 8 ->
  forall en wo total w (chunks : list (list N)),
  options_wf wo -> Forall plain (o_metadata wo) -> seektables (o_metadata wo) = 0%nat ->
  byte_new p en [] wo rate bps ch total = Ok w ->
  Forall byte_ok (concat chunks) ->
  let nb := bytes_per_sample_of bps in
  let samples := decoded en (N.to_nat nb) (concat chunks) in
  forallb (FlacCodec.Wf.fits bps) samples = true ->
  let W := N.of_nat (length samples) / ch in
  1 <= W -> N.of_nat (length samples) < 2 ^ 36 ->
  match total with Some T => T = nb * (ch * W) | None => True end ->
  exists f blocks,
    byte_run (FlacE2E.E2E.encB o L rate bps) md5 p w chunks = Ok f /\
    concat (map FlacCodec.Stream.interleave_frame blocks) =
      firstn (N.to_nat ch * (length samples / N.to_nat ch)) samples /\
    forall edits fn rs,
      Forall (typed_edit u) edits -> Forall (U.keeps_streaminfo FlacMeta.Blocks.block) edits ->
      U.run_edits FlacMeta.Blocks.block psize_r ser_r uclass_r (read_blocks_r u) edits (f_stream f) = (fn, rs) ->
      forall (cap : nat) (ck : list N -> list (list N)) (edit : U.blocklist FlacMeta.Blocks.block -> res (U.blocklist FlacMeta.Blocks.block)) (rbf : bool)
             (w1 w2 : IO.world) (b : bool) (w1' w2' : IO.world),
      (0 < cap)%nat -> IO.ck_ok ck -> FlacUpdIo.IoFault_proofs.honest (IO.sr (IO.wsched w1)) ->
      IO.wdev w1 = {| IO.data := fn; IO.pos := 0 |} -> IO.wdev w2 = {| IO.data := []; IO.pos := 0 |} ->
      Forall byte fn ->
      typed_edit u edit -> U.keeps_streaminfo FlacMeta.Blocks.block edit ->
      IO.update_file_io FlacMeta.Blocks.block psize_r ser_r uclass_r (read_blocks_b u) true cap ck edit rbf w1 w2 = (Ok b, w1', w2') ->
      let out := if b then IO.data (IO.wdev w2') else IO.data (IO.wdev w1') in
      FlacCodec.Stream.dec_stream out =
        Some (FlacE2E.Bridge.conv_si (f_si f), map FlacCodec.Stream.interleave_frame blocks, FlacCodec.Stream.EndEof) /\
      FlacCodec.Spec.spec_stream out = FlacCodec.Spec.spec_stream (f_stream f) /\
      exists meta_n, out = meta_n ++ frames_bytes (f_enc f).
Proof. exact byte_written_edited_then_faulty_update. Qed.

Theorem C13_channel_written_edited_then_faulty_update : forall (u : list N -> bool),
  (forall s, Forall (fun b => b < 128) s -> u s = true) ->
  forall o L md5, (forall l, length (md5 l) = 16%nat) -> (forall l, Forall (fun b => b < 256) (md5 l)) ->
  forall p rate bps ch, rate < 2 ^ 20 -> 1 <= bps -> bps <= 32 -> 1 <= ch -> ch <= 8 ->
  forall wo total w (chunks : list (list (list Z))),
  options_wf wo -> Forall plain (o_metadata wo) -> seektables (o_metadata wo) = 0%nat ->
  channel_new p [] wo rate bps ch total = Ok w ->
  Forall (chunk_ok (N.to_nat ch)) chunks ->
  let samples := concat (multizip (cconcat (N.to_nat ch) chunks)) in
  forallb (FlacCodec.Wf.fits bps) samples = true ->
  let W := N.of_nat (length samples) / ch in
  1 <= W -> N.of_nat (length samples) < 2 ^ 36 ->
  match total with Some T => T = W | None => True end ->
  exists f blocks,
    channel_run (FlacE2E.E2E.encB o L rate bps) md5 p w chunks = Ok f /\
    concat (map FlacCodec.Stream.interleave_frame blocks) =
      firstn (N.to_nat ch * (length samples / N.to_nat ch)) samples /\
    forall edits fn rs,
      Forall (typed_edit u) edits -> Forall (U.keeps_streaminfo FlacMeta.Blocks.block) edits ->
      U.run_edits FlacMeta.Blocks.block psize_r ser_r uclass_r (read_blocks_r u) edits (f_stream f) = (fn, rs) ->
      forall (cap : nat) (ck : list N -> list (list N)) (edit : U.blocklist FlacMeta.Blocks.block -> res (U.blocklist FlacMeta.Blocks.block)) (rbf : bool)
             (w1 w2 : IO.world) (b : bool) (w1' w2' : IO.world),
      (0 < cap)%nat -> IO.ck_ok ck -> FlacUpdIo.IoFault_proofs.honest (IO.sr (IO.wsched w1)) ->
      IO.wdev w1 = {| IO.data := fn; IO.pos := 0 |} -> IO.wdev w2 = {| IO.data := []; IO.pos := 0 |} ->
      Forall byte fn ->
      typed_edit u edit -> U.keeps_streaminfo FlacMeta.Blocks.block edit ->
      IO.update_file_io FlacMeta.Blocks.block psize_r ser_r uclass_r (read_blocks_b u) true cap ck edit rbf w1 w2 = (Ok b, w1', w2') ->
      let out := if b then IO.data (IO.wdev w2') else IO.data (IO.wdev w1') in
      FlacCodec.Stream.dec_stream out =
        Some (FlacE2E.Bridge.conv_si (f_si f), map FlacCodec.Stream.interleave_frame blocks, FlacCodec.Stream.EndEof) /\
      FlacCodec.Spec.spec_stream out = FlacCodec.Spec.spec_stream (f_stream f) /\
      exists meta_n, out = meta_n ++ frames_bytes (f_enc f).
Proof. exact channel_written_edited_then_faulty_update. Qed.

(* C13_written_then_faulty_update (no typing hypothesis) for FlacByteWriter and FlacChannelWriter runs *)
Theorem C13_byte_written_then_faulty_update : forall (u : list N -> bool),
  (forall s, Forall (fun b => b < 128) s -> u s = true) ->
  forall o L md5, (forall l, length (md5 l) = 16%nat) -> (forall l, Forall (fun b => b < 256) (md5 l)) ->
  forall p rate bps ch, rate < 2 ^ 20 -> 1 <= bps -> bps <= 32 -> 1 <= ch -> ch <= 8 ->
  forall en wo total w (chunks : list (list N)),
  options_wf wo -> Forall plain (o_metadata wo) -> seektables (o_metadata wo) = 0%nat ->
  byte_new p en [] wo rate bps ch total = Ok w ->
  Forall byte_ok (concat chunks) ->
  let nb := bytes_per_sample_of bps in
  let samples := decoded en (N.to_nat nb) (concat chunks) in
  forallb (FlacCodec.Wf.fits bps) samples = true ->
  let W := N.of_nat (length samples) / ch in
  1 <= W -> N.of_nat (length samples) < 2 ^ 36 ->
  match total with Some T => T = nb * (ch * W) | None => True end ->
  exists f blocks,
    byte_run (FlacE2E.E2E.encB o L rate bps) md5 p w chunks = Ok f /\
    concat (map FlacCodec.Stream.interleave_frame blocks) =
      firstn (N.to_nat ch * (length samples / N.to_nat ch)) samples /\
    Forall byte (f_stream f) /\
    forall (cap : nat) (ck : list N -> list (list N)) (edit : U.blocklist FlacMeta.Blocks.block -> res (U.blocklist FlacMeta.Blocks.block)) (rbf : bool)
           (w1 w2 : IO.world) (b : bool) (w1' w2' : IO.world),
      (0 < cap)%nat -> IO.ck_ok ck -> FlacUpdIo.IoFault_proofs.honest (IO.sr (IO.wsched w1)) ->
      IO.wdev w1 = {| IO.data := f_stream f; IO.pos := 0 |} -> IO.wdev w2 = {| IO.data := []; IO.pos := 0 |} ->
      typed_edit u edit -> U.keeps_streaminfo FlacMeta.Blocks.block edit ->
      IO.update_file_io FlacMeta.Blocks.block psize_r ser_r uclass_r (read_blocks_b u) true cap ck edit rbf w1 w2 = (Ok b, w1', w2') ->
      let out := if b then IO.data (IO.wdev w2') else IO.data (IO.wdev w1') in
      FlacCodec.Stream.dec_stream out =
        Some (FlacE2E.Bridge.conv_si (f_si f), map FlacCodec.Stream.interleave_frame blocks, FlacCodec.Stream.EndEof) /\
      FlacCodec.Spec.spec_stream out = FlacCodec.Spec.spec_stream (f_stream f) /\
      exists meta_n, out = meta_n ++ frames_bytes (f_enc f).
Proof. exact byte_written_then_faulty_update. Qed.

Theorem C13_channel_written_then_faulty_update : forall (u : list N -> bool),
  (forall s, Forall (fun b => b < 128) s -> u s = true) ->
  forall o L md5, (forall l, length (md5 l) = 16%nat) -> (forall l, Forall (fun b => b < 256) (md5 l)) ->
  forall p rate bps ch, rate < 2 ^ 20 -> 1 <= bps -> bps <= 32 -> 1 <= ch -> ch <= 8 ->
  forall wo total w (chunks : list (list (list Z))),
  options_wf wo -> Forall plain (o_metadata wo) -> seektables (o_metadata wo) = 0%nat ->
  channel_new p [] wo rate bps ch total = Ok w ->
  Forall (chunk_ok (N.to_nat ch)) chunks ->
  let samples := concat (multizip (cconcat (N.to_nat ch) chunks)) in
  forallb (FlacCodec.Wf.fits bps) samples = true ->
  let W := N.of_nat (length samples) / ch in
  1 <= W -> N.of_nat (length samples) < 2 ^ 36 ->
  match total with Some T => T = W | None => True end ->
  exists f blocks,
    channel_run (FlacE2E.E2E.encB o L rate bps) md5 p w chunks = Ok f /\
    concat (map FlacCodec.Stream.interleave_frame blocks) =
      firstn (N.to_nat ch * (length samples / N.to_nat ch)) samples /\
    Forall byte (f_stream f) /\
    forall (cap : nat) (ck : list N -> list (list N)) (edit : U.blocklist FlacMeta.Blocks.block -> res (U.blocklist FlacMeta.Blocks.block)) (rbf : bool)
           (w1 w2 : IO.world) (b : bool) (w1' w2' : IO.world),
      (0 < cap)%nat -> IO.ck_ok ck -> FlacUpdIo.IoFault_proofs.honest (IO.sr (IO.wsched w1)) ->
      IO.wdev w1 = {| IO.data := f_stream f; IO.pos := 0 |} -> IO.wdev w2 = {| IO.data := []; IO.pos := 0 |} ->
      typed_edit u edit -> U.keeps_streaminfo FlacMeta.Blocks.block edit ->
      IO.update_file_io FlacMeta.Blocks.block psize_r ser_r uclass_r (read_blocks_b u) true cap ck edit rbf w1 w2 = (Ok b, w1', w2') ->
      let out := if b then IO.data (IO.wdev w2') else IO.data (IO.wdev w1') in
      FlacCodec.Stream.dec_stream out =
        Some (FlacE2E.Bridge.conv_si (f_si f), map FlacCodec.Stream.interleave_frame blocks, FlacCodec.Stream.EndEof) /\
      FlacCodec.Spec.spec_stream out = FlacCodec.Spec.spec_stream (f_stream f) /\
      exists meta_n, out = meta_n ++ frames_bytes (f_enc f).
Proof. exact channel_written_then_faulty_update. Qed.

Print Assumptions C13_written_then_faulty_update.
Print Assumptions C13_sample_written_file_is_bytes.
Print Assumptions C13_byte_written_file_is_bytes.
Print Assumptions C13_channel_written_file_is_bytes.
Print Assumptions C13_byte_written_edited_then_faulty_update.
Print Assumptions C13_channel_written_edited_then_faulty_update.
Print Assumptions C13_byte_written_then_faulty_update.
Print Assumptions C13_channel_written_then_faulty_update.
