(* Statement pins for area `metadata`: every property theorem checked against its full
   statement written out. *)
From FlacMeta Require Import Bytes Blocks BlockList Cue Accessors Sniff Blocks_proofs Blocks_level BlockList_proofs CueRender Cue_proofs2 Props_C11 Props_C12 Props_C20.
Open Scope N_scope.

Check (C11_block_write_read : forall (u : list N -> bool), (forall s, Forall (fun b => b < 128) s -> u s = true) ->
  forall last b bs rest, ty_block u b -> canon_block b ->
  write_block last b = Ok bs -> read_block u (bs ++ rest) = Ok (last, b, rest)).
Check (C11_block_size : forall (u : list N -> bool) last b bs, ty_block u b -> write_block last b = Ok bs ->
  exists body, bs = write_header (mkHeader last (block_type b) (lenN body)) ++ body /\
               write_body b = Ok body /\ block_bytes b = Ok (Some (lenN body))).
Check (C11_block_read_write_read : forall (u : list N -> bool) s last b rest,
  Forall byte s -> read_block u s = Ok (last, b, rest) ->
  ty_block u b /\ canon_block b /\ Forall byte rest /\ lenN rest + 4 <= lenN s /\
  exists bs', write_block last b = Ok bs' /\ lenN bs' + lenN rest = lenN s).
Check (C11_write_blocks_read_blocks : forall (u : list N -> bool), (forall s, Forall (fun b => b < 128) s -> u s = true) ->
  forall l bs tail, Forall (ty_block u) l -> Forall canon_block l ->
  write_blocks l = Ok bs -> read_blocks u (bs ++ tail) = Ok l).
Check (C11_read_blocks_write_blocks : forall (u : list N -> bool), (forall s, Forall (fun b => b < 128) s -> u s = true) ->
  forall bs l, Forall byte bs -> read_blocks u bs = Ok l ->
  Forall (ty_block u) l /\ Forall canon_block l /\
  exists bs', write_blocks l = Ok bs' /\ read_blocks u bs' = Ok l).
Check (C11_rules_refused : forall l bs, write_blocks l = Ok bs -> rules_ok l).
Check (C11_sizes_refused : forall (u : list N -> bool) l bs, Forall (ty_block u) l -> write_blocks l = Ok bs ->
  Forall (fun b => exists body, write_body b = Ok body /\ lenN body <= BLOCKSIZE_MAX) l).
Check (C11_write_never_panics : forall (u : list N -> bool) l, Forall (ty_block u) l -> is_panic (write_blocks l) = false).
Check (C11_refuted : ~ (forall (utf8_valid : list N -> bool) b bs r,
    (forall s, Forall (fun b => b < 128) s -> utf8_valid s = true) ->
    ty_block utf8_valid b -> write_body b = Ok bs ->
    read_body utf8_valid (block_type b) (lenN bs) (bs ++ r) = Ok (b, r))).
Check (C11_outside_known : forall (u : list N -> bool) b bs r, (forall s, Forall (fun b => b < 128) s -> u s = true) ->
  ty_block u b -> ~ known_class b -> write_body b = Ok bs ->
  read_body u (block_type b) (lenN bs) (bs ++ r) = Ok (b, r)).
Check (C11_utf8_std_ok : forall s, Forall (fun b => b < 128) s -> Utf8.utf8_valid_std s = true).

Check (C12_read_metadata_total : forall (utf8_valid : list N -> bool) (p : profile) (bytes : list N) k,
  read_metadata utf8_valid p bytes <> Panic k).
Check (C12_accessors_total : forall (utf8_valid : list N -> bool) (p : profile) (bytes : list N) l,
  read_metadata utf8_valid p bytes = Ok l ->
  exists si rest, l = BStreaminfo si :: rest /\
    (forall k, decoded_len p si <> Panic k) /\ (forall k, duration p si <> Panic k) /\
    (forall k, channel_mask si rest <> Panic k) /\
    (forall c k, In (BCuesheet c) l -> track_byte_ranges c (si_ch si) (si_bps si) <> Panic k)).
Check (C12_cue_parse_total : forall (p : profile) (total : N) (text : list N) k, cue_parse p total text <> Panic k).
Check (C12_cue_accessors_total : forall (p : profile) total text c ch bps k,
  cue_parse p total text = Ok c -> 1 <= ch -> 1 <= bps -> track_byte_ranges c ch bps <> Panic k).
Check (C12_sniff_total : forall (p : profile) (bytes : list N) k, sniff p bytes <> Panic k).
Check (C12_block_size_bounded : forall (utf8_valid : list N -> bool) s last b rest,
  Forall byte s -> read_block utf8_valid s = Ok (last, b, rest) ->
  exists bs', write_block last b = Ok bs' /\ lenN bs' + lenN rest = lenN s).

Check (C20_import : forall (p : profile) st c total text,
  wf_cue c -> total mod 588 = 0 -> before_end c total ->
  cue_text_matches st c text = true ->
  exists b, block_of c total = Some b /\ cue_parse p total text = Ok b).
Check (C20_offset_from_str : forall st i, wf_index i -> ci_mm i < 100000000000000000000 ->
  cdda_offset_from_str (time_text st i) = Some ((ci_ff i + 75 * ci_ss i + 4500 * ci_mm i) * 588)).
Check (C20_ranges : forall c total b, wf_cue c -> block_of c total = Some b ->
  track_sample_ranges b = pair_up (map index01_samples (cu_tracks c) ++ [total])).
Check (C20_render_matches : forall st c decos, wf_style st -> wf_cue c ->
  length decos = length (cue_lines st c) -> Forall wf_deco decos ->
  cue_text_matches st c (render decos (cue_lines st c)) = true).
Check (C20_import_rendered : forall (p : profile) st c decos total, wf_style st -> wf_cue c ->
  length decos = length (cue_lines st c) -> Forall wf_deco decos ->
  total mod 588 = 0 -> before_end c total ->
  exists b, block_of c total = Some b /\ cue_parse p total (render decos (cue_lines st c)) = Ok b /\
            track_sample_ranges b = pair_up (map index01_samples (cu_tracks c) ++ [total])).
Check (C20_export_import : forall (p : profile) c total b fname,
  wf_cue c -> total mod 588 = 0 -> before_end c total -> block_of c total = Some b -> no_nl fname ->
  exists b', cue_parse p total (display b fname) = Ok b' /\ layout b' = layout b /\
             track_sample_ranges b' = track_sample_ranges b).
