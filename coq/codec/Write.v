(* Codec/Write.v — serialisation of the syntax tree (RFC 9639 layout; mirrors stream.rs
   Frame::write / write_subframe / Residuals::to_writer).  This is both the `enc_with` of
   DESIGN §1.2 (a writer for an explicit choice) and the generator of valid-by-construction
   streams for C03. *)
From FlacCodec Require Export Struct.
From FlacBase Require Import Crc.
Open Scope N_scope.

Definition zigzag_encode (z : Z) : N :=
  if (z <? 0)%Z then Z.to_N (2 * (- z - 1) + 1) else Z.to_N (2 * z).

Definition write_rice (k : N) (z : Z) : bits :=
  let u := zigzag_encode z in
  wr_unary true (N.to_nat (u / 2 ^ k)) ++ wr (N.to_nat k) (u mod 2 ^ k).

Definition write_part (method : N) (pt : part) : bits :=
  let nb := if method =? 0 then 4%nat else 5%nat in
  let esc := if method =? 0 then 15 else 31 in
  match pt with
  | PRice k rs => wr nb k ++ flat_map (write_rice k) rs
  | PEsc w rs => wr nb esc ++ wr 5 w ++ flat_map (wr_s (N.to_nat w)) rs
  | PZero _ => wr nb esc ++ wr 5 0
  end.

Definition write_residual (r : residual) : bits :=
  wr 2 (r_method r) ++ wr 4 (N.log2 (N.of_nat (length (r_parts r)))) ++
  flat_map (write_part (r_method r)) (r_parts r).

Definition write_subframe_header (code wasted : N) : bits :=
  [false] ++ wr 6 code ++
  (if wasted =? 0 then [false] else [true] ++ wr_unary true (N.to_nat (wasted - 1))).

Definition write_subframe (bps : N) (sf : subframe) : bits :=
  let eb := N.to_nat (bps - sf_wasted sf) in
  match sf_body sf with
  | BConst v => write_subframe_header 0 (sf_wasted sf) ++ wr_s eb v
  | BVerb xs => write_subframe_header 1 (sf_wasted sf) ++ flat_map (wr_s eb) xs
  | BFixed o warm r => write_subframe_header (8 + o) (sf_wasted sf) ++ flat_map (wr_s eb) warm ++ write_residual r
  | BLpc o warm prec shift coefs r =>
      write_subframe_header (31 + o) (sf_wasted sf) ++ flat_map (wr_s eb) warm ++
      wr 4 (prec - 1) ++ wr 5 shift ++ flat_map (wr_s (N.to_nat prec)) coefs ++ write_residual r
  end.

Fixpoint write_subframes (a bps : N) (i : nat) (subs : list subframe) : bits :=
  match subs with
  | [] => []
  | sf :: rest => write_subframe (subframe_bps a bps i) sf ++ write_subframes a bps (S i) rest
  end.

Definition pad_to_byte (s : bits) : bits := s ++ repeat false ((8 - length s mod 8) mod 8)%nat.

(* bytes of a whole frame: header ++ crc8 ++ subframes ++ zero padding ++ crc16 *)
Definition write_frame (f : frame) : option (list N) :=
  match write_header_fields (f_hdr f) with
  | None => None
  | Some hb =>
    let hbytes := bytes_of_bits (length hb / 8) hb in
    let hdr := hbytes ++ [crc8 hbytes] in
    let body := pad_to_byte (write_subframes (h_assign (f_hdr f)) (h_bps (f_hdr f)) 0 (f_subs f)) in
    let bbytes := bytes_of_bits (length body / 8) body in
    let all := hdr ++ bbytes in
    let c := crc16 all in
    Some (all ++ [N.shiftr c 8; N.land c 255])
  end.
