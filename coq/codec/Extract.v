(* Extraction of the executable codec model (ExtrOcamlBasic only; numbers stay inductive). *)
From Coq Require Extraction ExtrOcamlBasic.
From FlacCodec Require Import Stream StreamRd Write Spec Inverse_frame Enc.
Extraction Language OCaml.
Extraction "codec_model.ml" dec_stream dec_subset_frames struct_frame sem_frame write_frame
  parse_streaminfo read_metadata_min dec_frame interleave_frame
  wf_frame spec_frame spec_decode spec_stream frame_canonical stream_read_all write_subframe subframe_bps
  enc_frame enc_frame_bytes enc_sub enc_fixed enc_lpc enc_residual.
