"""C09 — STREAMINFO and SEEKTABLE written at finalize describe the stream truthfully.

Proof: coq/writers Finalize_proofs.v / C09_proofs.v (layout: the metadata region keeps its
length in each of the three finalize cases, so no frame byte moves; STREAMINFO fields; seek
points name emitted frames, ascending, placeholders last; regeneration).
Tie: the extracted model predicts the finished metadata region byte for byte (and the
regenerated table) from the frame lengths; compared with the implementation on the option grid
x seek policy x declared/undeclared x padding {none, too small by 1, exact, ample} x non-zero
stream start x front-end.
Search: every clause of the property is evaluated directly on the finished file, parsed with
the public metadata API, against the true frame boundaries."""
from checks import writers_common as wc

LEVEL = "proof"
THEOREMS = ["C09_layout_sample", "C09_layout_byte", "C09_layout_channel", "C09_layout_cases"]
try:
    from checks.writers_theorems import C09 as _T
    THEOREMS = _T
except Exception:
    pass


def run(chk):
    chk.assumptions = list(wc.ASSUMPTIONS) + [
        "MD5: the model takes the digest function as a parameter with the single hypothesis that a digest has 16 bytes; that STREAMINFO carries the MD5 of the little-endian sign-extended PCM bytes is checked on the implementation with an independent MD5",
    ]
    proof_ok = wc.proof_stage(chk, THEOREMS, e2e_theorems=["C09_sample_writer_seekpoints", "C09_byte_writer_seekpoints", "C09_channel_writer_seekpoints", "C09_end_to_end_seekpoints"])
    runs = []
    for profile in ("release",) + (("debug",) if chk.tier == "thorough" else ()):
        r = wc.run_harness(chk, "c09", profile, timeout=3000)
        if r is not None:
            runs.append(r)
    exe = wc.build_driver(chk) if proof_ok else None
    disagreements = 0
    for r in runs:
        viol_inputs = set()
        if exe:
            outs = wc.run_model(chk, exe, [c["m"] + " profile=" + r["profile"] for c in r["cases"]])
            if outs is not None:
                disagreements += wc.diff_cases(chk, "c09", r, outs, viol_inputs)
        wc.report_viols(chk, r)
    n = sum(len(r["cases"]) for r in runs)
    enc = sum(int(r["stat"].get("dist", {}).get("encoded", 0)) for r in runs)
    wc.finish_coverage(
        chk, runs, enc, len(set(c["m"] for r in runs for c in r["cases"])),
        "distinct (options, seek policy, declared/undeclared, padding, stream start, front-end, frame lengths) cases; each finished file has at least one frame and is checked clause by clause; the model diff compares the whole metadata region",
        disagreements, {"exhaustive": False})
