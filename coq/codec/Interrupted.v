(* Codec/Interrupted.v — C14 on the model: a stream that consists of complete valid frames followed by a
   proper prefix of one more valid frame (an encode interrupted at any byte) decodes to exactly the PCM
   of the complete frames, then ends or reports an error; nothing else is ever delivered. *)
From FlacCodec Require Import Parser_proofs Dec Stream Spec Agree_frame Progress Prefix.
From FlacBase Require Import Crc.
Open Scope N_scope.

Definition frame_ok (si : streaminfo) (f : frame) : Prop :=
  wf_frame (Some si) f = true /\ spec_frame f = true /\ 14 < h_bs (f_hdr f).

Fixpoint frames_bytes (fs : list frame) : option (list N) :=
  match fs with
  | [] => Some []
  | f :: rest => match write_frame f, frames_bytes rest with
                 | Some b, Some bs => Some (b ++ bs) | _, _ => None end
  end.
Definition total_samples (fs : list frame) : N := fold_right (fun f a => h_bs (f_hdr f) + a) 0 fs.

Lemma read_frame_valid si cur f b rest :
  frame_ok si f -> write_frame f = Some b ->
  (si_total si = 0 \/ cur + h_bs (f_hdr f) <= si_total si) ->
  read_frame si cur (b ++ rest) = Ok (Some (sem_frame f, cur + h_bs (f_hdr f), rest)).
Proof.
  intros (Hwf & Hsp & Hbs) Hw Ht. unfold read_frame.
  assert (Hne : b ++ rest <> []).
  { intros E. apply app_eq_nil in E. destruct E as [-> _]. unfold write_frame in Hw.
    destruct (write_header_fields (f_hdr f)); [|discriminate]. cbv zeta in Hw. injection Hw as Hw.
    apply (f_equal (@length N)) in Hw. rewrite !app_length in Hw. cbn in Hw. lia. }
  destruct (N.eqb_spec (si_total si) 0) as [E0|N0].
  - destruct (b ++ rest) eqn:Eb; [congruence|]. rewrite <- Eb.
    rewrite (dec_frame_agree (Some si) _ f b rest Hwf Hsp Hw eq_refl). reflexivity.
  - destruct Ht as [Ht|Ht]; [congruence|].
    destruct (N.ltb_spec (si_total si) cur); [lia|]. cbv zeta.
    destruct (Z.eqb_spec (Z.of_N (si_total si) - Z.of_N cur) 0); [lia|].
    rewrite (dec_frame_agree (Some si) _ f b rest Hwf Hsp Hw).
    + reflexivity.
    + destruct (N.ltb_spec 14 (h_bs (f_hdr f))); [|lia]. rewrite orb_true_r. reflexivity.
Qed.

Theorem interrupted_stream si : forall fs allb g gb m fuel cur acc,
  Forall (frame_ok si) fs -> frames_bytes fs = Some allb ->
  frame_ok si g -> write_frame g = Some gb -> (m < length gb)%nat ->
  (si_total si = 0 \/ cur + total_samples fs + h_bs (f_hdr g) <= si_total si) ->
  (length allb + m < fuel)%nat ->
  let '(out, e) := dec_frames fuel si cur (allb ++ firstn m gb) acc in
  out = rev acc ++ map (fun f => interleave_frame (sem_frame f)) fs /\ is_end_panic e = false.
Proof.
  induction fs as [|f fs IH]; intros allb g gb m fuel cur acc Hfs Hb Hg Hgw Hm Ht Hfuel.
  - cbn in Hb. injection Hb as <-. cbn [app map]. rewrite app_nil_r.
    destruct fuel as [|fuel]; [lia|]. cbn [dec_frames].
    (* the next read sees a proper prefix of a valid frame *)
    assert (Hfull : read_frame si cur (firstn m gb) = Ok None \/
                     (exists e, read_frame si cur (firstn m gb) = Err e)).
    { unfold read_frame.
      pose proof (read_frame_valid si cur g gb [] Hg Hgw) as Hv. rewrite app_nil_r in Hv.
      assert (Ht' : si_total si = 0 \/ cur + h_bs (f_hdr g) <= si_total si) by (cbn [total_samples fold_right] in Ht; lia).
      specialize (Hv Ht'). unfold read_frame in Hv.
      destruct (N.eqb_spec (si_total si) 0) as [E0|N0].
      - destruct (firstn m gb) eqn:Ef; [left; reflexivity|]. right. rewrite <- Ef.
        destruct gb as [|x gb']; [cbn in Hm; lia|].
        destruct (dec_frame (Some si) (fun _ => Ok tt) (x :: gb')) as [[[h c] r]| |] eqn:Ed; try discriminate.
        cbn [bind] in Hv. injection Hv as _ _ Er. subst r.
        rewrite (truncated_frame_is_eof _ _ _ _ _ _ m Ed) by (cbn [length] in *; lia). eexists. reflexivity.
      - destruct (N.ltb_spec (si_total si) cur); [right; eexists; reflexivity|]. cbv zeta in *.
        destruct (Z.eqb_spec (Z.of_N (si_total si) - Z.of_N cur) 0); [left; reflexivity|]. right.
        match type of Hv with bind ?d _ = _ => destruct d as [[[h c] r]| |] eqn:Ed end; try discriminate.
        cbn [bind] in Hv. injection Hv as _ _ Er. subst r.
        rewrite (truncated_frame_is_eof _ _ _ _ _ _ m Ed) by (cbn [length] in *; lia). eexists. reflexivity. }
    destruct Hfull as [E|[e E]]; rewrite E; split; reflexivity.
  - cbn [frames_bytes] in Hb.
    destruct (write_frame f) as [b|] eqn:Ew; [|discriminate].
    destruct (frames_bytes fs) as [bs|] eqn:Ebs; [|discriminate]. injection Hb as <-.
    inversion Hfs as [|? ? Hf Hrest]; subst.
    destruct fuel as [|fuel]; [lia|]. cbn [dec_frames].
    rewrite <- app_assoc.
    cbn [total_samples fold_right] in Ht.
    rewrite (read_frame_valid si cur f b (bs ++ firstn m gb) Hf Ew) by lia.
    specialize (IH bs g gb m fuel (cur + h_bs (f_hdr f)) (interleave_frame (sem_frame f) :: acc) Hrest eq_refl Hg Hgw Hm).
    assert (Ht2 : si_total si = 0 \/ cur + h_bs (f_hdr f) + total_samples fs + h_bs (f_hdr g) <= si_total si) by (unfold total_samples; lia).
    specialize (IH Ht2). rewrite app_length in Hfuel.
    assert (Lb : (2 <= length b)%nat).
    { unfold write_frame in Ew. destruct (write_header_fields (f_hdr f)); [|discriminate]. cbv zeta in Ew. injection Ew as Ew.
      apply (f_equal (@length N)) in Ew. rewrite !app_length in Ew. cbn in Ew. lia. }
    specialize (IH ltac:(lia)).
    destruct (dec_frames fuel si (cur + h_bs (f_hdr f)) (bs ++ firstn m gb) (interleave_frame (sem_frame f) :: acc)) as [out e].
    destruct IH as [-> He]. split; [|exact He]. cbn [rev map]. rewrite <- app_assoc. reflexivity.
Qed.

(* the finished stream: all frames, then a clean end (total unknown, or known and exactly reached) *)
Theorem complete_stream si : forall fs allb fuel cur acc,
  Forall (frame_ok si) fs -> frames_bytes fs = Some allb ->
  (si_total si = 0 \/ cur + total_samples fs = si_total si) ->
  (length allb < fuel)%nat ->
  dec_frames fuel si cur allb acc =
    (rev acc ++ map (fun f => interleave_frame (sem_frame f)) fs, EndEof).
Proof.
  induction fs as [|f fs IH]; intros allb fuel cur acc Hfs Hb Ht Hfuel.
  - cbn in Hb. injection Hb as <-. destruct fuel as [|fuel]; [lia|]. cbn [dec_frames map]. rewrite app_nil_r.
    unfold read_frame. destruct (N.eqb_spec (si_total si) 0) as [E0|N0]; [reflexivity|].
    cbn [total_samples fold_right] in Ht. destruct Ht as [Ht|Ht]; [congruence|].
    destruct (N.ltb_spec (si_total si) cur); [lia|]. cbv zeta.
    destruct (Z.eqb_spec (Z.of_N (si_total si) - Z.of_N cur) 0); [reflexivity|lia].
  - cbn [frames_bytes] in Hb.
    destruct (write_frame f) as [b|] eqn:Ew; [|discriminate].
    destruct (frames_bytes fs) as [bs|] eqn:Ebs; [|discriminate]. injection Hb as <-.
    inversion Hfs as [|? ? Hf Hrest]; subst.
    destruct fuel as [|fuel]; [lia|]. cbn [dec_frames].
    cbn [total_samples fold_right] in Ht. fold (total_samples fs) in Ht.
    rewrite (read_frame_valid si cur f b bs Hf Ew) by lia.
    rewrite app_length in Hfuel.
    assert (Lb : (2 <= length b)%nat).
    { unfold write_frame in Ew. destruct (write_header_fields (f_hdr f)); [|discriminate]. cbv zeta in Ew. injection Ew as Ew.
      apply (f_equal (@length N)) in Ew. rewrite !app_length in Ew. cbn in Ew. lia. }
    assert (Ht2 : si_total si = 0 \/ cur + h_bs (f_hdr f) + total_samples fs = si_total si) by lia.
    rewrite (IH bs fuel (cur + h_bs (f_hdr f)) (interleave_frame (sem_frame f) :: acc) Hrest eq_refl Ht2) by lia.
    cbn [rev map]. rewrite <- app_assoc. reflexivity.
Qed.
