(* Runs the extracted reader state machines (coq/readers: Seek.byte_step / sample_step / chan_step)
   on the histories the harness printed (field "m" of its "file" and "case" lines).

   stdin, one per line:
     file <id> <channels> <bps> <total|-> <table|-|e> <frames>      ('!' before a frame: it fails its CRC-16)
     case <file id> <reader> <seekable 0|1> <profile d|r> <ops>
   stdout: for every case line one line of ';'-separated observations, in the harness' notation
     d:<hex | ints | chans>  u  i:<int>  none  p:<pos>  e:<class>  panic
   A history stops after the first panic (the harness stops there too).
   Environment READERS_REV=orig selects the unrepaired revision of the model. *)
open Readers_model

(* ---- numbers: the extracted binary numbers <-> text (values up to 2^64 do not fit an OCaml int) *)
let rec pos_of_int n =
  if n = 1 then XH else if n land 1 = 1 then XI (pos_of_int (n lsr 1)) else XO (pos_of_int (n lsr 1))
let n_of_int n = if n = 0 then N0 else Npos (pos_of_int n)
let rec int_of_pos = function XH -> 1 | XO p -> 2 * int_of_pos p | XI p -> 2 * int_of_pos p + 1
let int_of_n = function N0 -> 0 | Npos p -> int_of_pos p
let ten = n_of_int 10
let n_of_string s =
  if String.length s <= 17 then n_of_int (int_of_string s)
  else begin
    let acc = ref N0 in
    String.iter (fun c -> acc := N.add (N.mul !acc ten) (n_of_int (Char.code c - 48))) s;
    !acc
  end
let z_of_string s =
  if String.length s > 0 && s.[0] = '-' then
    (match n_of_string (String.sub s 1 (String.length s - 1)) with N0 -> Z0 | Npos p -> Zneg p)
  else (match n_of_string s with N0 -> Z0 | Npos p -> Zpos p)
let small = n_of_int (1 lsl 60)
let rec string_of_n v =
  if N.ltb v small then string_of_int (int_of_n v)
  else let (q, r) = N.div_eucl v ten in string_of_n q ^ string_of_int (int_of_n r)
let string_of_z = function Z0 -> "0" | Zpos p -> string_of_n (Npos p) | Zneg p -> "-" ^ string_of_n (Npos p)

let split c s = if s = "" then [] else String.split_on_char c s

(* ---- files *)
type pfile = { channels : n; bps : n; total : n option; table : seekpoint list option; slots : slot list }
let files : (string, pfile) Hashtbl.t = Hashtbl.create 64

let parse_file toks =
  match toks with
  | [ id; ch; bps; total; table; frames ] ->
      let total = if total = "-" then None else Some (n_of_string total) in
      let table =
        if table = "-" then None
        else if table = "e" then Some []
        else
          Some
            (List.map
               (fun p ->
                 if p = "p" then Placeholder
                 else match split ':' p with
                   | [ o; i ] -> Defined (n_of_string o, n_of_string i)
                   | _ -> failwith "bad seek point")
               (split ',' table))
      in
      let chans fr = List.map (fun c -> List.map z_of_string (split ',' c)) (split '/' fr) in
      let slots =
        List.map
          (fun fr ->
            if String.length fr > 0 && fr.[0] = '!' then SBad (chans (String.sub fr 1 (String.length fr - 1)))
            else SFrame (chans fr))
          (split '|' frames)
      in
      Hashtbl.replace files id { channels = n_of_string ch; bps = n_of_string bps; total; table; slots }
  | _ -> failwith "bad file line"

(* ---- observations *)
let err_name = function
  | EEof -> "Eof" | EIo -> "Io" | EOther -> "InvalidSeek" | ECrc16 -> "Crc16" | EShortBlock -> "ShortBlock"
  | ETooManySamples -> "TooManySamples" | _ -> "Other"
let show_ints l = String.concat "," (List.map string_of_z l)
let show_out = function
  | OBytes b -> "d:" ^ String.concat "" (List.map (fun x -> Printf.sprintf "%02x" (int_of_n x)) b)
  | OSamples s -> "d:" ^ show_ints s
  | OChans c -> "d:" ^ String.concat "/" (List.map show_ints c)
  | OItem (Some x) -> "i:" ^ string_of_z x
  | OItem None -> "none"
  | OUnit -> "u"
  | OPos p -> "p:" ^ string_of_n p
  | OErr e -> "e:" ^ err_name e
  | OPanic _ -> "panic"
let is_panic = function OPanic _ -> true | _ -> false

let arg s = match split ':' s with [ _; a ] -> a | _ -> failwith ("bad op " ^ s)
let tag s = match split ':' s with t :: _ -> t | [] -> ""

let run_ops step st0 parse ops =
  let rec go st ops acc =
    match ops with
    | [] -> List.rev acc
    | o :: rest ->
        let st', out = step st (parse o) in
        if is_panic out then List.rev (out :: acc) else go st' rest (out :: acc)
  in
  go st0 ops []

let rev_sel = match Sys.getenv_opt "READERS_REV" with Some "orig" -> Orig | _ -> Repaired

let run_case toks =
  match toks with
  | fid :: reader :: seekable :: profile :: rest ->
      let ops = match rest with [] -> [] | [ o ] -> split ';' o | _ -> failwith "bad case line" in
      let pf = try Hashtbl.find files fid with Not_found -> failwith ("unknown file " ^ fid) in
      let f =
        { f_slots = pf.slots; f_channels = pf.channels; f_bps = pf.bps; f_total = pf.total; f_table = pf.table;
          f_seekable = (seekable = "1");
          f_endian = (if reader = "bytes_be" then BE else LE);
          f_profile = (if profile = "d" then Debug else Release);
          f_usize_bits = n_of_int 64;
          f_rev = rev_sel }
      in
      let outs =
        match reader with
        | "bytes_le" | "bytes_be" ->
            run_ops (byte_step f) (byte_new f)
              (fun o ->
                match tag o with
                | "r" -> BRead (n_of_string (arg o))
                | "f" -> BFill
                | "c" -> BConsume (n_of_string (arg o))
                | "ss" -> BSeek (Start (n_of_string (arg o)))
                | "sc" -> BSeek (Current (z_of_string (arg o)))
                | "se" -> BSeek (End_ (z_of_string (arg o)))
                | _ -> failwith ("bad byte op " ^ o))
              ops
        | "samples" ->
            run_ops (sample_step f) (sample_new f)
              (fun o ->
                match tag o with
                | "r" -> SRead (n_of_string (arg o))
                | "f" -> SFill
                | "c" -> SConsume (n_of_string (arg o))
                | "n" -> SNext
                | "s" -> SSeek (n_of_string (arg o))
                | _ -> failwith ("bad sample op " ^ o))
              ops
        | "channels" ->
            run_ops (chan_step f) (chan_new f)
              (fun o ->
                match tag o with
                | "f" -> CFill
                | "c" -> CConsume (n_of_string (arg o))
                | "s" -> CSeek (n_of_string (arg o))
                | _ -> failwith ("bad channel op " ^ o))
              ops
        | _ -> failwith ("bad reader " ^ reader)
      in
      print_endline (String.concat ";" (List.map show_out outs))
  | _ -> failwith "bad case line"

let () =
  try
    while true do
      let line = String.trim (input_line stdin) in
      if line <> "" then begin
        match String.split_on_char ' ' line with
        | "file" :: toks -> parse_file toks
        | "case" :: toks -> (try run_case toks with Failure m -> print_endline ("driver-error:" ^ m))
        | _ -> print_endline "driver-error:unknown line"
      end
    done
  with End_of_file -> ()
