(* Reads one hex message per line on stdin; prints "<crc8> <crc16>" computed by the
   extracted Coq model (Crc.crc8 / Crc.crc16). *)
open Crc_model

let rec pos_of_int n =
  if n = 1 then XH else if n land 1 = 1 then XI (pos_of_int (n lsr 1)) else XO (pos_of_int (n lsr 1))
let n_of_int n = if n = 0 then N0 else Npos (pos_of_int n)
let rec int_of_pos = function XH -> 1 | XO p -> 2 * int_of_pos p | XI p -> 2 * int_of_pos p + 1
let int_of_n = function N0 -> 0 | Npos p -> int_of_pos p

let bytes_of_hex s =
  let n = String.length s / 2 in
  List.init n (fun i -> n_of_int (int_of_string ("0x" ^ String.sub s (2 * i) 2)))

let () =
  try
    while true do
      let line = String.trim (input_line stdin) in
      let m = bytes_of_hex line in
      Printf.printf "%d %d\n" (int_of_n (crc8 m)) (int_of_n (crc16 m))
    done
  with End_of_file -> ()
