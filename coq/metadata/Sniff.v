(* metadata/Sniff.v — PictureMetrics::try_new / try_png / try_jpeg / try_gif
   (mod.rs:4214-4345, after fix F-C12b) as total functions over byte lists.  ByteReader /
   BitReader over a slice: every read is `take` (UnexpectedEof when short).  No proofs. *)
From FlacMeta Require Export Bytes.
Open Scope N_scope.

Record metrics := mkMetrics {
  m_kind : N;        (* 0 image/png, 1 image/jpeg, 2 image/gif *)
  m_width : N; m_height : N; m_depth : N;
  m_colors : N }.    (* Option<NonZero<u32>>, 0 = None *)

Fixpoint starts_with (s pre : list N) : bool :=
  match pre, s with
  | [], _ => true
  | x :: p, y :: r => (x =? y) && starts_with r p
  | _ :: _, [] => false
  end.
Fixpoint bytes_eqb (a b : list N) : bool :=
  match a, b with
  | [], [] => true
  | x :: a', y :: b' => (x =? y) && bytes_eqb a' b'
  | _, _ => false
  end.

Definition PNG_SIG : list N := [137; 80; 78; 71; 13; 10; 26; 10].
Definition JPEG_SIG : list N := [255; 216; 255].
Definition GIF_SIG : list N := [71; 73; 70].
Definition IHDR : list N := [73; 72; 68; 82].
Definition PLTE : list N := [80; 76; 84; 69].

(* mod.rs:4233-4250: every iteration consumes at least 8 bytes, so the input is enough fuel *)
Fixpoint plte_colors (fuel : list N) (s : list N) : res N :=
  match read_be 4 s with
  | Err e => Err e | Panic k => Panic k
  | Ok (block_len, s1) =>
    match take 4 s1 with
    | Err e => Err e | Panic k => Panic k
    | Ok (name, s2) =>
      if bytes_eqb name PLTE then
        (if block_len mod 3 =? 0 then Ok (block_len / 3) else Err EOther)
      else
        match skip block_len s2 with
        | Err e => Err e | Panic k => Panic k
        | Ok (_, s3) =>
          match read_be 4 s3 with
          | Err e => Err e | Panic k => Panic k
          | Ok (_, s4) =>
            match fuel with
            | [] => Panic PFuel
            | _ :: f => plte_colors f s4
            end
          end
        end
    end
  end.

(* mod.rs:4227-4289 (after fix F-C12b: the products are computed in u32) *)
Definition try_png (data : list N) : res metrics :=
  match (sig <~ take 8 ;;
         if negb (bytes_eqb sig PNG_SIG) then pfail EOther else
         len <~ read_be 4 ;;
         if negb (len =? 13) then pfail EOther else
         name <~ take 4 ;;
         if negb (bytes_eqb name IHDR) then pfail EOther else
         width <~ read_be 4 ;; height <~ read_be 4 ;;
         bit_depth <~ read_be 1 ;; color_type <~ read_be 1 ;;
         _ <~ read_be 1 ;; _ <~ read_be 1 ;; _ <~ read_be 1 ;;
         _ <~ read_be 4 ;;
         pret (width, height, bit_depth, color_type)) data with
  | Err e => Err e
  | Panic k => Panic k
  | Ok ((width, height, bit_depth, color_type), rest) =>
    match color_type with
    | 0 => Ok (mkMetrics 0 width height bit_depth 0)
    | 2 => Ok (mkMetrics 0 width height (bit_depth * 3) 0)
    | 3 => match plte_colors rest rest with
           | Ok n => Ok (mkMetrics 0 width height 0 n)
           | Err e => Err e
           | Panic k => Panic k
           end
    | 4 => Ok (mkMetrics 0 width height (bit_depth * 2) 0)
    | 6 => Ok (mkMetrics 0 width height (bit_depth * 4) 0)
    | _ => Err EOther
    end
  end.

Definition is_sof (m : N) : bool :=
  ((192 <=? m) && (m <=? 207)) && negb (m =? 196) && negb (m =? 200) && negb (m =? 204).

(* mod.rs:4298-4326: every iteration consumes at least 2 bytes *)
Fixpoint jpeg_loop (fuel : list N) (s : list N) : res metrics :=
  match read_be 1 s with
  | Err e => Err e | Panic k => Panic k
  | Ok (ff, s1) =>
    if negb (ff =? 255) then Err EOther else
    match read_be 1 s1 with
    | Err e => Err e | Panic k => Panic k
    | Ok (marker, s2) =>
      if is_sof marker then
        match (_ <~ read_be 2 ;; precision <~ read_be 1 ;; height <~ read_be 2 ;; width <~ read_be 2 ;;
               components <~ read_be 1 ;; pret (mkMetrics 1 width height (precision * components) 0)) s2 with
        | Ok (m, _) => Ok m
        | Err e => Err e
        | Panic k => Panic k
        end
      else
        match read_be 2 s2 with
        | Err e => Err e | Panic k => Panic k
        | Ok (seg, s3) =>
          if seg <? 2 then Err EOther else
          match skip (seg - 2) s3 with
          | Err e => Err e | Panic k => Panic k
          | Ok (_, s4) =>
            match fuel with
            | [] => Panic PFuel
            | _ :: f => jpeg_loop f s4
            end
          end
        end
    end
  end.

(* mod.rs:4291-4297: `a != 0xFF || b != 0xD8` does not read b when a differs *)
Definition try_jpeg (data : list N) : res metrics :=
  match read_be 1 data with
  | Err e => Err e | Panic k => Panic k
  | Ok (a, s1) =>
    if negb (a =? 255) then Err EOther else
    match read_be 1 s1 with
    | Err e => Err e | Panic k => Panic k
    | Ok (b, s2) => if negb (b =? 216) then Err EOther else jpeg_loop s2 s2
    end
  end.

(* mod.rs:4329-4345: little-endian bit reader; 3 bits = the low bits of the next byte *)
Definition try_gif (data : list N) : res metrics :=
  match (sig <~ take 3 ;;
         if negb (bytes_eqb sig GIF_SIG) then pfail EOther else
         _ <~ skip 3 ;;
         width <~ read_le 2 ;; height <~ read_le 2 ;;
         flags <~ read_be 1 ;;
         pret (mkMetrics 2 width height 0 (2 ^ (flags mod 8 + 1)))) data with
  | Ok (m, _) => Ok m
  | Err e => Err e
  | Panic k => Panic k
  end.

(* mod.rs:4215-4225; the profile parameter keeps the C12 statement uniform (no arithmetic
   depends on it after fix F-C12b) *)
Definition sniff (p : profile) (data : list N) : res metrics :=
  if starts_with data PNG_SIG then try_png data
  else if starts_with data JPEG_SIG then try_jpeg data
  else if starts_with data GIF_SIG then try_gif data
  else Err EOther.
