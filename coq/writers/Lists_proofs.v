(* writers/Lists_proofs.v — facts about the list combinators of Writers.v
   (split_exact, drain = chunks_exact + remainder, fold_res, cdrain, zip_app, multizip). *)
From FlacWriters Require Import Writers.
Open Scope nat_scope.

Lemma fold_res_app {S A} (f : S -> A -> res S) (l1 l2 : list A) (s : S) :
  fold_res f s (l1 ++ l2) = (s' <- fold_res f s l1;; fold_res f s' l2).
Proof.
  revert s. induction l1 as [|a l1 IH]; intros s; cbn [fold_res app bind].
  - reflexivity.
  - destruct (f s a); cbn [bind]; auto.
Qed.

Lemma bind_assoc {A B C} (x : res A) (f : A -> res B) (g : B -> res C) :
  bind (bind x f) g = bind x (fun a => bind (f a) g).
Proof. destruct x; reflexivity. Qed.

Lemma bind_ext {A B} (x : res A) (f g : A -> res B) :
  (forall a, x = Ok a -> f a = g a) -> bind x f = bind x g.
Proof. destruct x; cbn; auto. Qed.

(* ---- split_exact *)
Lemma split_exact_some {A} k : forall (l a b : list A),
  split_exact k l = Some (a, b) -> l = a ++ b /\ length a = k.
Proof.
  induction k as [|k IH]; intros l a b H; cbn [split_exact] in H.
  - inversion H; subst. auto.
  - destruct l as [|x r]; [discriminate|].
    destruct (split_exact k r) as [[a' b']|] eqn:E; [|discriminate].
    inversion H; subst. apply IH in E. destruct E as [-> L]. cbn. auto.
Qed.

Lemma split_exact_none {A} k : forall (l : list A), split_exact k l = None <-> length l < k.
Proof.
  induction k as [|k IH]; intros l; cbn [split_exact].
  - split; [discriminate|lia].
  - destruct l as [|x r]; cbn [length]. { split; auto; lia. }
    destruct (split_exact k r) as [[a b]|] eqn:E.
    + split; [discriminate|]. intros H. assert (length r < k) by lia. apply IH in H0. congruence.
    + apply IH in E. split; auto; lia.
Qed.

Lemma split_exact_app {A} (a b : list A) : split_exact (length a) (a ++ b) = Some (a, b).
Proof. induction a as [|x a IH]; cbn [length split_exact app]; [reflexivity|]. rewrite IH. reflexivity. Qed.

(* ---- drain *)
Lemma drain_fuel_spec {A} k (Hk : 0 < k) : forall fuel (l : list A) cs r,
  length l <= fuel -> drain_fuel fuel k l = (cs, r) ->
  l = concat cs ++ r /\ Forall (fun c => length c = k) cs /\ length r < k.
Proof.
  induction fuel as [|f IH]; intros l cs r Hl H; cbn [drain_fuel] in H.
  - destruct l; [|cbn in Hl; lia]. inversion H; subst. cbn. auto.
  - destruct (split_exact k l) as [[c rest]|] eqn:E.
    + destruct (drain_fuel f k rest) as [cs' r'] eqn:D. inversion H; subst.
      apply split_exact_some in E. destruct E as [-> Lc].
      rewrite app_length in Hl.
      destruct (IH rest cs' r) as (E1 & F & Lr); [lia|exact D|].
      subst rest. cbn [concat]. rewrite app_assoc. auto.
    + inversion H; subst. apply split_exact_none in E. cbn. auto.
Qed.

Lemma drain_spec {A} k (Hk : 0 < k) (l : list A) cs r :
  drain k l = (cs, r) -> l = concat cs ++ r /\ Forall (fun c => length c = k) cs /\ length r < k.
Proof. apply drain_fuel_spec; auto. Qed.

Lemma drain_fuel_unique {A} k (Hk : 0 < k) : forall (cs : list (list A)) r fuel,
  Forall (fun c => length c = k) cs -> length r < k -> length (concat cs ++ r) <= fuel ->
  drain_fuel fuel k (concat cs ++ r) = (cs, r).
Proof.
  induction cs as [|c cs IH]; intros r fuel F Lr Hf.
  - cbn [concat app] in *. destruct fuel; cbn [drain_fuel]; [reflexivity|].
    assert (E : split_exact k r = None) by (apply split_exact_none; exact Lr). rewrite E. reflexivity.
  - inversion F as [|? ? Lc F']; subst. cbn [concat] in *. rewrite <- app_assoc in *.
    rewrite app_length in Hf.
    destruct fuel as [|f]; [lia|]. cbn [drain_fuel].
    rewrite split_exact_app. rewrite IH; auto. lia.
Qed.

Lemma drain_unique {A} k (Hk : 0 < k) (cs : list (list A)) r :
  Forall (fun c => length c = k) cs -> length r < k -> drain k (concat cs ++ r) = (cs, r).
Proof. intros. apply drain_fuel_unique; auto. Qed.

Lemma drain_small {A} k (l : list A) : 0 < k -> length l < k -> drain k l = ([], l).
Proof. intros Hk H. apply (drain_unique k Hk [] l); auto. Qed.

Lemma drain_app {A} k (Hk : 0 < k) (a b : list A) :
  drain k (a ++ b) =
  (let (cs, r) := drain k a in let (cs', r') := drain k (r ++ b) in (cs ++ cs', r')).
Proof.
  destruct (drain k a) as [cs r] eqn:Da. destruct (drain k (r ++ b)) as [cs' r'] eqn:Db.
  apply drain_spec in Da; auto. apply drain_spec in Db; auto.
  destruct Da as (-> & Fa & La). destruct Db as (Eb & Fb & Lb).
  rewrite <- app_assoc, Eb, app_assoc, <- concat_app.
  apply drain_unique; auto. apply Forall_app; auto.
Qed.

Lemma drain_exact {A} k (Hk : 0 < k) (c : list A) : length c = k -> drain k c = ([c], []).
Proof.
  intros L. pose proof (drain_unique k Hk [c] []) as H. cbn [concat] in H.
  rewrite !app_nil_r in H. apply H; [constructor; auto | cbn; lia].
Qed.

Lemma drain_length {A} k (Hk : 0 < k) (l : list A) cs r :
  drain k l = (cs, r) -> length l = k * length cs + length r.
Proof.
  intros H. apply drain_spec in H; auto. destruct H as (-> & F & _).
  rewrite app_length. f_equal. clear r. induction F as [|c cs Lc F IH]; cbn [concat length]; [lia|].
  rewrite app_length, IH, Lc. lia.
Qed.

(* ---- channel buffers: zip_app, cdrain *)
Definition shaped (bs n : nat) (blk : list (list Z)) : Prop :=
  length blk = n /\ Forall (fun c => length c = bs) blk.
(* blocks stacked in front of a remainder, channel by channel *)
Definition stack (blocks : list (list (list Z))) (rest : list (list Z)) : list (list Z) :=
  fold_right zip_app rest blocks.
Definition has_short (bs : nat) (bufs : list (list Z)) : bool :=
  existsb (fun c => length c <? bs) bufs.

Lemma zip_app_length a : forall b, length a = length b -> length (zip_app a b) = length a.
Proof.
  induction a as [|x a IH]; intros [|y b] H; cbn in *; try lia. rewrite IH; lia.
Qed.

Lemma zip_app_assoc a : forall b c, length a = length b -> length b = length c ->
  zip_app (zip_app a b) c = zip_app a (zip_app b c).
Proof.
  induction a as [|x a IH]; intros [|y b] [|z c] H1 H2; cbn in *; try lia; try reflexivity.
  rewrite IH by lia. rewrite app_assoc. reflexivity.
Qed.

Lemma zip_app_nil_r a : zip_app a (repeat [] (length a)) = a.
Proof. induction a as [|x a IH]; cbn; [reflexivity|]. rewrite IH, app_nil_r. reflexivity. Qed.

Lemma zip_app_firstn bs b : forall s, length b = length s -> Forall (fun c => length c = bs) b ->
  map (firstn bs) (zip_app b s) = b.
Proof.
  induction b as [|x b IH]; intros [|y s] H F; cbn in *; try lia; try reflexivity.
  inversion F; subst. rewrite IH by (auto; lia). f_equal.
  rewrite firstn_app, firstn_all. replace (length x - length x) with 0 by lia. cbn. apply app_nil_r.
Qed.

Lemma zip_app_skipn bs b : forall s, length b = length s -> Forall (fun c => length c = bs) b ->
  map (skipn bs) (zip_app b s) = s.
Proof.
  induction b as [|x b IH]; intros [|y s] H F; cbn in *; try lia; try reflexivity.
  inversion F; subst. rewrite IH by (auto; lia). f_equal.
  rewrite skipn_app, skipn_all. replace (length x - length x) with 0 by lia. reflexivity.
Qed.

Lemma zip_app_long bs b : forall s, length b = length s -> Forall (fun c => length c = bs) b ->
  forallb (fun c => bs <=? length c) (zip_app b s) = true.
Proof.
  induction b as [|x b IH]; intros [|y s] H F; cbn in *; try lia; try reflexivity.
  inversion F; subst. rewrite IH by (auto; lia). rewrite app_length.
  replace (length x <=? length x + length y) with true by (symmetry; apply Nat.leb_le; lia). reflexivity.
Qed.

Lemma zip_app_split bs bufs : forallb (fun c => bs <=? length c) bufs = true ->
  bufs = zip_app (map (firstn bs) bufs) (map (skipn bs) bufs).
Proof.
  induction bufs as [|x r IH]; cbn; intros H; [reflexivity|].
  apply andb_prop in H. destruct H as [_ H]. rewrite <- IH by exact H. rewrite firstn_skipn. reflexivity.
Qed.

Lemma stack_length n blocks rest : Forall (fun b => length b = n) blocks -> length rest = n ->
  length (stack blocks rest) = n.
Proof.
  induction 1 as [|b blocks Hb F IH]; intros Hr; cbn [stack fold_right]; [exact Hr|].
  rewrite zip_app_length; [exact Hb|]. unfold stack in IH. rewrite IH; auto.
Qed.

Lemma shaped_len bs n blocks : Forall (shaped bs n) blocks -> Forall (fun b => length b = n) blocks.
Proof. intros F. eapply Forall_impl; [|exact F]. intros b [H _]. exact H. Qed.

Lemma cdrain_fuel_unique bs : forall blocks rest fuel n,
  Forall (shaped bs n) blocks -> length rest = n -> has_short bs rest = true ->
  length blocks <= fuel ->
  cdrain_fuel fuel bs (stack blocks rest) = (blocks, rest).
Proof.
  induction blocks as [|b blocks IH]; intros rest fuel n F Hr Hs Hf.
  - cbn [stack fold_right]. destruct fuel; cbn [cdrain_fuel]; [reflexivity|].
    assert (E : forallb (fun c => bs <=? length c) rest = false).
    { unfold has_short in Hs. apply existsb_exists in Hs. destruct Hs as (c & Hin & Hc).
      apply Nat.ltb_lt in Hc.
      destruct (forallb (fun c => bs <=? length c) rest) eqn:E; [|reflexivity].
      rewrite forallb_forall in E. specialize (E c Hin). apply Nat.leb_le in E. lia. }
    rewrite E. reflexivity.
  - inversion F as [|? ? [Lb Fb] F']; subst. cbn [length] in Hf.
    destruct fuel as [|f]; [lia|]. cbn [stack fold_right]. fold (stack blocks rest).
    assert (Ls : length b = length (stack blocks rest)).
    { rewrite Lb. symmetry. apply stack_length; auto. apply shaped_len with (bs := bs). exact F'. }
    cbn [cdrain_fuel]. rewrite zip_app_long, zip_app_skipn, zip_app_firstn by auto.
    rewrite (IH rest f (length rest)); auto. lia.
Qed.

Lemma cdrain_fuel_spec bs (Hbs : 0 < bs) : forall fuel bufs blocks rest,
  bufs <> [] -> length (hd [] bufs) <= fuel ->
  cdrain_fuel fuel bs bufs = (blocks, rest) ->
  bufs = stack blocks rest /\ Forall (shaped bs (length bufs)) blocks /\
  length rest = length bufs /\ has_short bs rest = true.
Proof.
  induction fuel as [|f IH]; intros bufs blocks rest Hne Hf H; cbn [cdrain_fuel] in H.
  - inversion H; subst. cbn [stack fold_right]. repeat split; auto.
    destruct rest as [|c r]; [congruence|]. cbn in *. destruct c; [|cbn in Hf; lia].
    cbn. destruct bs; [lia|]. reflexivity.
  - destruct (forallb (fun c => bs <=? length c) bufs) eqn:E.
    + destruct (cdrain_fuel f bs (map (skipn bs) bufs)) as [cs r] eqn:D. inversion H; subst.
      destruct (IH (map (skipn bs) bufs) cs rest) as (E1 & F1 & L1 & S1); auto.
      * destruct bufs; [congruence|]. discriminate.
      * destruct bufs as [|c r']; [congruence|]. cbn [map hd] in *. rewrite skipn_length.
        cbn [forallb] in E. apply andb_prop in E. destruct E as [E _]. apply Nat.leb_le in E. lia.
      * rewrite map_length in *. cbn [stack fold_right]. fold (stack cs rest). rewrite <- E1.
        split; [apply zip_app_split; exact E|]. split; [|split; auto].
        constructor; [|exact F1]. split; [apply map_length|].
        apply Forall_forall. intros x Hx. apply in_map_iff in Hx. destruct Hx as (y & <- & Hy).
        rewrite forallb_forall in E. specialize (E y Hy). apply Nat.leb_le in E.
        rewrite firstn_length. lia.
    + inversion H; subst. cbn [stack fold_right]. repeat split; auto.
      unfold has_short. clear -E. induction rest as [|c r IH]; cbn [forallb existsb] in *; [discriminate|].
      destruct (Nat.leb_spec bs (length c)) as [L|L]; cbn [andb] in E.
      * rewrite IH by exact E. apply orb_true_r.
      * replace (length c <? bs) with true by (symmetry; apply Nat.ltb_lt; lia). reflexivity.
Qed.

Lemma stack_hd_length bs n : forall blocks rest, 0 < n ->
  Forall (shaped bs n) blocks -> length rest = n ->
  length (hd [] (stack blocks rest)) = bs * length blocks + length (hd [] rest).
Proof.
  induction blocks as [|b blocks IH]; intros rest Hn F Hr; cbn [stack fold_right length]; [lia|].
  fold (stack blocks rest). inversion F as [|? ? [Lb Fb] F']; subst.
  assert (Ls : length (stack blocks rest) = length b).
  { rewrite Lb. apply stack_length; auto. apply shaped_len with (bs := bs). exact F'. }
  specialize (IH rest Hn F' eq_refl).
  destruct b as [|x b]; [cbn in Lb; lia|]. destruct (stack blocks rest) as [|y s]; [cbn in Ls; lia|].
  cbn [zip_app hd] in *. rewrite app_length, IH. inversion Fb; subst. lia.
Qed.

Lemma cdrain_spec bs (Hbs : 0 < bs) bufs blocks rest : bufs <> [] ->
  cdrain bs bufs = (blocks, rest) ->
  bufs = stack blocks rest /\ Forall (shaped bs (length bufs)) blocks /\
  length rest = length bufs /\ has_short bs rest = true.
Proof.
  intros Hne H. destruct bufs as [|c r]; [congruence|]. unfold cdrain in H.
  eapply cdrain_fuel_spec; eauto.
Qed.

Lemma cdrain_unique bs (Hbs : 0 < bs) blocks rest n : 0 < n ->
  Forall (shaped bs n) blocks -> length rest = n -> has_short bs rest = true ->
  cdrain bs (stack blocks rest) = (blocks, rest).
Proof.
  intros Hn F Hr Hs. unfold cdrain.
  pose proof (stack_length n blocks rest (shaped_len _ _ _ F) Hr) as Ls.
  pose proof (stack_hd_length bs n blocks rest Hn F Hr) as Lh.
  destruct (stack blocks rest) as [|c s] eqn:E; [cbn in Ls; lia|].
  rewrite <- E. eapply cdrain_fuel_unique; eauto. cbn [hd] in Lh. nia.
Qed.

Lemma stack_app b1 b2 rest : stack (b1 ++ b2) rest = stack b1 (stack b2 rest).
Proof. unfold stack. apply fold_right_app. Qed.

Lemma stack_zip_app n : forall blocks rest c,
  Forall (fun b => length b = n) blocks -> length rest = n -> length c = n ->
  zip_app (stack blocks rest) c = stack blocks (zip_app rest c).
Proof.
  induction blocks as [|b blocks IH]; intros rest c F Hr Hc; cbn [stack fold_right]; [reflexivity|].
  inversion F; subst. fold (stack blocks rest). fold (stack blocks (zip_app rest c)).
  assert (Ls : length (stack blocks rest) = length rest) by (apply stack_length; auto).
  rewrite zip_app_assoc by lia.
  rewrite IH; auto.
Qed.

Lemma cdrain_app bs (Hbs : 0 < bs) a c : a <> [] -> length c = length a ->
  cdrain bs (zip_app a c) =
  (let (cs, r) := cdrain bs a in let (cs', r') := cdrain bs (zip_app r c) in (cs ++ cs', r')).
Proof.
  intros Hne Hc.
  destruct (cdrain bs a) as [cs r] eqn:Da. destruct (cdrain bs (zip_app r c)) as [cs' r'] eqn:Db.
  apply cdrain_spec in Da; auto. destruct Da as (Ea & Fa & La & Sa).
  assert (Lrc : length (zip_app r c) = length a) by (rewrite zip_app_length; lia).
  assert (Hne' : zip_app r c <> []).
  { intros E. rewrite E in Lrc. destruct a; [congruence|]. discriminate. }
  apply cdrain_spec in Db; auto. destruct Db as (Eb & Fb & Lb & Sb). rewrite Lrc in *.
  assert (Hn : 0 < length a) by (destruct a; [congruence|]; cbn; lia).
  rewrite Ea at 1. rewrite (stack_zip_app (length a)); auto.
  - rewrite Eb, <- stack_app. apply (cdrain_unique bs Hbs _ _ (length a)); auto.
    apply Forall_app; auto.
  - apply shaped_len with (bs := bs). exact Fa.
Qed.
