(* metadata/Blocks_proofs2.v — codec theorems for VORBIS_COMMENT, PICTURE and CUESHEET. *)
From FlacMeta Require Import Bytes Bytes_proofs Blocks Blocks_proofs Cue CueRender Cue_proofs.
Open Scope N_scope.

Lemma pow2_32 : 2 ^ 32 = 4294967296.
Proof. reflexivity. Qed.

(* ---- (0..n).map(read).collect against an encoder *)
Section ParseNCodec.
  Context {T : Type}.
  Variable p : parser T.
  Variable enc : T -> list N.
  Variable good : T -> Prop.
  Hypothesis p_enc : forall x rest, good x -> p (enc x ++ rest) = Ok (x, rest).

  Lemma parse_n_enc : forall l fuel r, Forall good l -> (length l <= length fuel)%nat ->
    parse_n p fuel (lenN l) (enc_all enc l ++ r) = Ok (l, r).
  Proof.
    induction l as [|x l IH]; intros fuel r G F.
    - destruct fuel; reflexivity.
    - inversion G as [|? ? Gx Gl]; subst. destruct fuel as [|f0 fuel]; [cbn in F; lia|].
      cbn [parse_n lenN enc_all]. rewrite <- app_assoc.
      destruct (N.eqb_spec (N.succ (lenN l)) 0); [lia|]. rewrite p_enc by exact Gx.
      rewrite N.pred_succ, IH; [reflexivity|exact Gl|cbn in F; lia].
  Qed.

  Hypothesis p_inv : forall s x r, Forall byte s -> p s = Ok (x, r) ->
    good x /\ exists c, s = c ++ r /\ lenN c = lenN (enc x).

  Lemma parse_n_inv : forall fuel n s out r, Forall byte s -> parse_n p fuel n s = Ok (out, r) ->
    lenN out = n /\ Forall good out /\ lenN s = lenN (enc_all enc out) + lenN r /\ Forall byte r.
  Proof.
    induction fuel as [|f0 fuel IH]; intros n s out r Hs H; cbn [parse_n] in H.
    - destruct (N.eqb_spec n 0) as [->|].
      + apply Ok_inj in H. injection H as <- <-. cbn. auto.
      + destruct (p s) as [[x s']| |]; discriminate.
    - destruct (N.eqb_spec n 0) as [->|Hn].
      + apply Ok_inj in H. injection H as <- <-. cbn. auto.
      + destruct (p s) as [[x s']| |] eqn:P; try discriminate.
        apply p_inv in P; [|exact Hs]. destruct P as [Gx (c & -> & Lc)].
        pose proof (Forall_app_r _ _ _ Hs) as Hs'.
        destruct (parse_n p fuel (N.pred n) s') as [[xs s'']| |] eqn:R; try discriminate.
        apply Ok_inj in H. injection H as <- <-.
        apply IH in R; [|exact Hs']. destruct R as (L & G & Len & Hr).
        split; [cbn [lenN]; lia|]. split; [constructor; assumption|]. split; [|exact Hr].
        cbn [enc_all]. rewrite !lenN_app. lia.
  Qed.
End ParseNCodec.

Section Utf8Codecs.
Variable utf8_valid : list N -> bool.

(* ---- VORBIS_COMMENT *)
Definition vc_enc (s : list N) : list N := le_bytes 4 (lenN s) ++ s.
Definition good_string (s : list N) : Prop := utf8_valid s = true /\ lenN s < 4294967296.
Definition ty_vorbis (v : vorbis) : Prop :=
  utf8_valid (vc_vendor v) = true /\ Forall (fun s => utf8_valid s = true) (vc_fields v).

Lemma read_vc_string_enc x rest : good_string x -> read_vc_string utf8_valid (vc_enc x ++ rest) = Ok (x, rest).
Proof.
  intros [U L]. unfold read_vc_string, vc_enc. rewrite <- app_assoc.
  rewrite (pbind_eq (read_le 4) _ _ (lenN x) _) by (apply read_le4_app, L).
  rewrite (pbind_eq (take _) _ _ x rest) by apply take_app. rewrite U. reflexivity.
Qed.
Lemma read_vc_string_inv s x r : Forall byte s -> read_vc_string utf8_valid s = Ok (x, r) ->
  good_string x /\ exists c, s = c ++ r /\ lenN c = lenN (vc_enc x).
Proof.
  intros Hs H. unfold read_vc_string in H. inv_bind H.
  apply (read_le_ok 4) in E; [|exact Hs]. destruct E as [-> B]. change (256 ^ N.of_nat 4) with 4294967296 in B.
  inv_bind H. apply take_ok in E. destruct E as [-> L].
  destruct (utf8_valid a0) eqn:U; [|discriminate]. unfold pret in H. apply Ok_inj in H. injection H as <- <-.
  split; [split; [exact U|lia]|]. exists (le_bytes 4 a ++ a0). rewrite <- app_assoc. split; [reflexivity|].
  unfold vc_enc. rewrite !lenN_app, !lenN_le_bytes. reflexivity.
Qed.

Lemma write_vc_strings_ok : forall l bs, write_vc_strings l = Ok bs ->
  bs = enc_all vc_enc l /\ Forall (fun s => lenN s < 4294967296) l.
Proof.
  induction l as [|x l IH]; intros bs H; cbn [write_vc_strings] in H.
  - apply Ok_inj in H. subst. split; [reflexivity|constructor].
  - unfold write_vc_string in H. rewrite pow2_32 in H.
    destruct (N.ltb_spec (lenN x) 4294967296) as [Hx|]; [|discriminate]. cbn [bind] in H.
    destruct (write_vc_strings l) as [b| |] eqn:W; cbn [bind] in H; try discriminate.
    apply Ok_inj in H. subst. destruct (IH b eq_refl) as [-> F]. split; [reflexivity|constructor; assumption].
Qed.
Lemma write_vc_strings_good : forall l, Forall (fun s => lenN s < 4294967296) l ->
  write_vc_strings l = Ok (enc_all vc_enc l).
Proof.
  induction 1 as [|x l Hx Hl IH]; [reflexivity|]. cbn [write_vc_strings enc_all]. unfold write_vc_string.
  rewrite ?pow2_32. destruct (N.ltb_spec (lenN x) 4294967296); [|lia]. cbn [bind]. rewrite IH. reflexivity.
Qed.

Lemma lenN_enc_all_ge {T} (enc : T -> list N) k : (forall x, k <= lenN (enc x)) ->
  forall l, k * lenN l <= lenN (enc_all enc l).
Proof.
  intros H. induction l as [|x l IH]; cbn [enc_all lenN]; [lia|]. rewrite lenN_app. specialize (H x). lia.
Qed.

Lemma vorbis_write_read v bs r : ty_vorbis v -> write_vorbis v = Ok bs -> read_vorbis utf8_valid (bs ++ r) = Ok (v, r).
Proof.
  intros [Uv Uf] W. unfold write_vorbis in W. unfold write_vc_string in W. rewrite ?pow2_32 in W.
  destruct (N.ltb_spec (lenN (vc_vendor v)) 4294967296) as [Lv|]; [|discriminate]. cbn [bind] in W.
  destruct (N.ltb_spec (lenN (vc_fields v)) 4294967296) as [Lf|]; [|discriminate].
  destruct (write_vc_strings (vc_fields v)) as [b| |] eqn:Ws; cbn [bind] in W; try discriminate.
  apply Ok_inj in W. subst bs. apply write_vc_strings_ok in Ws. destruct Ws as [-> Fl].
  unfold read_vorbis. rewrite <- !app_assoc.
  rewrite (pbind_eq (read_vc_string utf8_valid) _ _ (vc_vendor v) _) by (apply (read_vc_string_enc (vc_vendor v)); split; assumption).
  rewrite (pbind_eq (read_le 4) _ _ (lenN (vc_fields v)) _) by (apply read_le4_app, Lf).
  erewrite pbind_eq; [|apply (parse_n_enc (read_vc_string utf8_valid) vc_enc good_string read_vc_string_enc)].
  - destruct v; reflexivity.
  - rewrite Forall_forall in *. intros x Hx. split; [apply Uf, Hx|apply Fl, Hx].
  - rewrite !app_length.
    pose proof (lenN_enc_all_ge vc_enc 4 (fun x => ltac:(unfold vc_enc; rewrite lenN_app, lenN_le_bytes; change (N.of_nat 4) with 4; lia)) (vc_fields v)) as G.
    rewrite !lenN_length in G. lia.
Qed.

Lemma vorbis_read_inv s v r : Forall byte s -> read_vorbis utf8_valid s = Ok (v, r) ->
  ty_vorbis v /\ exists bs, write_vorbis v = Ok bs /\ lenN s = lenN bs + lenN r.
Proof.
  intros Hs H. unfold read_vorbis in H. inv_bind H.
  apply read_vc_string_inv in E; [|exact Hs]. destruct E as ([Uv Lv] & c & -> & Lc).
  pose proof (Forall_app_r _ _ _ Hs) as Hs0.
  inv_bind H. apply (read_le_ok 4) in E; [|exact Hs0]. destruct E as [-> B]. change (256 ^ N.of_nat 4) with 4294967296 in B.
  pose proof (Forall_app_r _ _ _ Hs0) as Hs1.
  inv_bind H. apply (parse_n_inv (read_vc_string utf8_valid) vc_enc good_string read_vc_string_inv) in E; [|exact Hs1].
  destruct E as (Ln & G & Len & _). unfold pret in H. apply Ok_inj in H. injection H as <- <-.
  split.
  - split; [exact Uv|]. rewrite Forall_forall in *. intros x Hx. apply G, Hx.
  - unfold write_vorbis, write_vc_string. cbn [vc_vendor vc_fields]. rewrite ?pow2_32.
    destruct (N.ltb_spec (lenN a) 4294967296); [|lia]. cbn [bind]. rewrite Ln.
    destruct (N.ltb_spec a0 4294967296); [|lia].
    rewrite write_vc_strings_good by (rewrite Forall_forall in *; intros x Hx; apply G, Hx). cbn [bind].
    eexists. split; [reflexivity|]. rewrite !lenN_app, !lenN_le_bytes, Len. unfold vc_enc in Lc. rewrite lenN_app, lenN_le_bytes in Lc. lia.
Qed.

(* ---- PICTURE *)
Definition ty_picture (x : picture) : Prop :=
  pic_type x <= 20 /\ utf8_valid (pic_mime x) = true /\ utf8_valid (pic_desc x) = true /\
  pic_w x < 4294967296 /\ pic_h x < 4294967296 /\ pic_depth x < 4294967296 /\ pic_colors x < 4294967296.

Lemma read_prefixed_app f r : lenN f < 4294967296 -> read_prefixed (be_bytes 4 (lenN f) ++ f ++ r) = Ok (f, r).
Proof.
  intros L. unfold read_prefixed. rewrite (pbind_eq (read_be 4) _ _ (lenN f) _) by (apply read_be4_app, L).
  apply take_app.
Qed.
Lemma read_prefixed_inv s f r : Forall byte s -> read_prefixed s = Ok (f, r) ->
  s = be_bytes 4 (lenN f) ++ f ++ r /\ lenN f < 4294967296.
Proof.
  intros Hs H. unfold read_prefixed in H. inv_bind H.
  apply (read_be_ok 4) in E; [|exact Hs]. destruct E as [-> B]. change (256 ^ N.of_nat 4) with 4294967296 in B.
  apply take_ok in H. destruct H as [-> <-]. auto.
Qed.

Lemma picture_write_read x bs r : ty_picture x -> write_picture x = Ok bs -> read_picture utf8_valid (bs ++ r) = Ok (x, r).
Proof.
  intros (T1 & T2 & T3 & T4 & T5 & T6 & T7) W. unfold write_picture, write_prefixed in W. rewrite ?pow2_32 in W.
  destruct (N.ltb_spec (lenN (pic_mime x)) 4294967296) as [L1|]; [|discriminate]. cbn [bind] in W.
  destruct (N.ltb_spec (lenN (pic_desc x)) 4294967296) as [L2|]; [|discriminate]. cbn [bind] in W.
  destruct (N.ltb_spec (lenN (pic_data x)) 4294967296) as [L3|]; [|discriminate]. cbn [bind] in W.
  apply Ok_inj in W. subst bs. unfold read_picture. rewrite <- !app_assoc.
  rewrite (pbind_eq (read_be 4) _ _ (pic_type x) _) by (apply read_be4_app; lia).
  destruct (N.ltb_spec 20 (pic_type x)); [lia|].
  rewrite (pbind_eq read_prefixed _ _ (pic_mime x) _) by (apply read_prefixed_app, L1). rewrite T2. cbn [negb].
  rewrite (pbind_eq read_prefixed _ _ (pic_desc x) _) by (apply read_prefixed_app, L2). rewrite T3. cbn [negb].
  rewrite (pbind_eq (read_be 4) _ _ (pic_w x) _) by (apply read_be4_app, T4).
  rewrite (pbind_eq (read_be 4) _ _ (pic_h x) _) by (apply read_be4_app, T5).
  rewrite (pbind_eq (read_be 4) _ _ (pic_depth x) _) by (apply read_be4_app, T6).
  rewrite (pbind_eq (read_be 4) _ _ (pic_colors x) _) by (apply read_be4_app, T7).
  rewrite (pbind_eq read_prefixed _ _ (pic_data x) r) by (apply read_prefixed_app, L3).
  destruct x; reflexivity.
Qed.

Lemma picture_read_inv s x r : Forall byte s -> read_picture utf8_valid s = Ok (x, r) ->
  ty_picture x /\ exists bs, write_picture x = Ok bs /\ s = bs ++ r.
Proof.
  intros Hs H. unfold read_picture in H. inv_bind H.
  apply (read_be_ok 4) in E; [|exact Hs]. destruct E as [-> B0]. apply Forall_app_r in Hs.
  destruct (N.ltb_spec 20 a) as [|Ht]; [discriminate|].
  inv_bind H. apply read_prefixed_inv in E; [|exact Hs]. destruct E as [-> L1]. apply Forall_app_r in Hs. apply Forall_app_r in Hs.
  destruct (utf8_valid a0) eqn:U1; [|discriminate]. cbn [negb] in H.
  inv_bind H. apply read_prefixed_inv in E; [|exact Hs]. destruct E as [-> L2]. apply Forall_app_r in Hs. apply Forall_app_r in Hs.
  destruct (utf8_valid a1) eqn:U2; [|discriminate]. cbn [negb] in H.
  inv_bind H. apply (read_be_ok 4) in E; [|exact Hs]. destruct E as [-> B1]. apply Forall_app_r in Hs.
  inv_bind H. apply (read_be_ok 4) in E; [|exact Hs]. destruct E as [-> B2]. apply Forall_app_r in Hs.
  inv_bind H. apply (read_be_ok 4) in E; [|exact Hs]. destruct E as [-> B3]. apply Forall_app_r in Hs.
  inv_bind H. apply (read_be_ok 4) in E; [|exact Hs]. destruct E as [-> B4]. apply Forall_app_r in Hs.
  inv_bind H. apply read_prefixed_inv in E; [|exact Hs]. destruct E as [-> L3].
  change (256 ^ N.of_nat 4) with 4294967296 in *.
  unfold pret in H. apply Ok_inj in H. injection H as <- <-.
  split; [unfold ty_picture; cbn; repeat split; assumption|].
  unfold write_picture, write_prefixed. cbn [pic_type pic_mime pic_desc pic_w pic_h pic_depth pic_colors pic_data].
  rewrite ?pow2_32.
  destruct (N.ltb_spec (lenN a0) 4294967296); [|lia]. destruct (N.ltb_spec (lenN a1) 4294967296); [|lia].
  destruct (N.ltb_spec (lenN a6) 4294967296); [|lia]. cbn [bind]. eexists. split; [reflexivity|].
  rewrite <- !app_assoc. reflexivity.
Qed.
End Utf8Codecs.

(* ================================================================================== *)
(* CUESHEET                                                                            *)
(* ================================================================================== *)
Section CuesheetCodec.
Variable utf8_valid : list N -> bool.
(* what std guarantees and the codec of the ASCII-only ISRC field needs *)
Hypothesis utf8_ascii : forall s, Forall (fun b => b < 128) s -> utf8_valid s = true.

Lemma lenN_write_flags a b : lenN (write_flags a b) = 1.
Proof. destruct a, b; vm_compute; reflexivity. Qed.
Lemma read_flags_write a b rest : read_flags (write_flags a b ++ rest) = Ok ((a, b), rest).
Proof.
  unfold read_flags. rewrite (pbind_eq (take 1) _ _ (write_flags a b) rest) by (apply take_app_len, lenN_write_flags).
  destruct a, b; vm_compute; reflexivity.
Qed.
Lemma read_flags_inv s a b r : read_flags s = Ok ((a, b), r) -> exists c, s = c ++ r /\ lenN c = 1.
Proof.
  unfold read_flags. intros H. inv_bind H. apply take_ok in E. destruct E as [-> L].
  exists a0. split; [|exact L].
  destruct (rd 1 (bits_of_bytes a0)) as [[x y]|]; [|discriminate]. destruct (rd 1 y) as [[z w]|]; [|discriminate].
  unfold pret in H. apply Ok_inj in H. injection H as _ _ <-. reflexivity.
Qed.

Lemma filter_length_le {A} (f : A -> bool) (l : list A) : (length (filter f l) <= length l)%nat.
Proof. induction l as [|x l IH]; cbn [filter length]; [lia|]. destruct (f x); cbn [length]; lia. Qed.

(* ---- ISRC *)
Definition ty_isrc (i : isrc) : Prop := match i with IsrcNone => True | IsrcStr s => wf_isrc s end.

Lemma class_ascii c : is_alpha c = true \/ is_alnum c = true \/ is_digit c = true -> c < 128 /\ c <> 0.
Proof.
  unfold is_alnum, is_alpha, is_digit. intros H.
  repeat match goal with
         | H : _ \/ _ |- _ => destruct H as [H|H]
         | H : _ || _ = true |- _ => apply orb_prop in H
         | H : _ && _ = true |- _ => apply andb_prop in H; destruct H as [? ?]
         | H : (_ <=? _) = true |- _ => apply N.leb_le in H
         end; lia.
Qed.

Lemma wf_isrc_bytes s : wf_isrc s -> Forall (fun b => b < 128) s /\ all_zero s = false.
Proof.
  intros (L & A & B & D). destruct (isrc_parts s L) as (E & L1 & _).
  destruct (forallb_skipn5_split s L D) as [D1 D2].
  rewrite forallb_forall in A, B, D1, D2.
  assert (Hall : forall c, In c s -> c < 128 /\ c <> 0).
  { intros c Hc. rewrite E in Hc. rewrite !in_app_iff in Hc. apply class_ascii.
    destruct Hc as [Hc|[Hc|[Hc|Hc]]]; [left; apply A, Hc|right; left; apply B, Hc|right; right; apply D1, Hc|right; right; apply D2, Hc]. }
  split; [apply Forall_forall; intros c Hc; apply Hall, Hc|].
  destruct s as [|c q]; [cbn in L; lia|]. cbn [all_zero forallb].
  destruct (Hall c (or_introl eq_refl)) as [_ Hnz]. destruct (N.eqb_spec c 0); [contradiction|reflexivity].
Qed.

Lemma lenN_write_isrc i : ty_isrc i -> lenN (write_isrc i) = 12.
Proof.
  destruct i as [|s]; intros T; cbn [write_isrc]; [apply lenN_zerosN|].
  destruct T as (L & _). rewrite <- L. rewrite takeN_app. reflexivity.
Qed.
Lemma write_isrc_str s : wf_isrc s -> write_isrc (IsrcStr s) = s.
Proof. intros (L & _). cbn [write_isrc]. rewrite <- L. apply takeN_app. Qed.

Lemma read_isrc_write i rest : ty_isrc i -> read_isrc utf8_valid (write_isrc i ++ rest) = Ok (i, rest).
Proof.
  intros T. unfold read_isrc. destruct i as [|s].
  - cbn [write_isrc]. rewrite (pbind_eq (take 12) _ _ (zerosN 12) rest) by (apply take_app_len, lenN_zerosN).
    rewrite all_zero_zerosN. reflexivity.
  - cbn [ty_isrc] in T. rewrite write_isrc_str by exact T. pose proof T as (L & _).
    rewrite (pbind_eq (take 12) _ _ s rest) by (apply take_app_len, L).
    destruct (wf_isrc_bytes s T) as [Ha Hz]. rewrite Hz, (utf8_ascii s Ha), (isrc_from_str_plain s T). reflexivity.
Qed.

(* a 12-byte field accepted as ISRC holds the string unchanged: dashes would shorten it *)
Lemma filter_split_some s amt f rest : filter_split s amt f = Some rest ->
  exists pre, s = pre ++ rest /\ lenN pre = amt /\ forallb f pre = true.
Proof.
  unfold filter_split. destruct (splitN amt s) as [[pre r]|] eqn:E; [|discriminate].
  destruct (forallb f pre) eqn:F; [|discriminate]. intros H. injection H as <-.
  apply splitN_some in E. destruct E as [-> L]. eauto.
Qed.

Lemma isrc_from_str_inv s x : isrc_from_str s = Some x -> wf_isrc x /\ lenN x <= lenN s /\ (lenN s = 12 -> x = s).
Proof.
  unfold isrc_from_str.
  set (isrc := if existsb (fun b => b =? 45) s then filter (fun b => negb (b =? 45)) s else s).
  destruct (filter_split isrc 2 is_alpha) as [s1|] eqn:E1; [|discriminate].
  destruct (filter_split s1 3 is_alnum) as [s2|] eqn:E2; [|discriminate].
  destruct (filter_split s2 2 is_digit) as [s3|] eqn:E3; [|discriminate].
  destruct (filter_split s3 5 is_digit) as [s4|] eqn:E4; [|discriminate].
  destruct s4; [|discriminate]. intros H. injection H as <-.
  apply filter_split_some in E1, E2, E3, E4.
  destruct E1 as (p1 & Ei & L1 & F1). destruct E2 as (p2 & -> & L2 & F2).
  destruct E3 as (p3 & -> & L3 & F3). destruct E4 as (p4 & -> & L4 & F4). rewrite app_nil_r in *.
  assert (Lp : lenN isrc = 12) by (rewrite Ei, !lenN_app; lia).
  assert (W : wf_isrc isrc).
  { rewrite lenN_length in L1, L2, L3, L4.
    unfold wf_isrc. split; [exact Lp|]. rewrite Ei.
    assert (X1 : firstn 2 (p1 ++ p2 ++ p3 ++ p4) = p1).
    { rewrite firstn_app. replace (2 - length p1)%nat with 0%nat by lia. rewrite firstn_all2 by lia. cbn. apply app_nil_r. }
    assert (X2 : skipn 2 (p1 ++ p2 ++ p3 ++ p4) = p2 ++ p3 ++ p4).
    { rewrite skipn_app. replace (2 - length p1)%nat with 0%nat by lia. rewrite skipn_all2 by lia. reflexivity. }
    assert (X3 : firstn 3 (p2 ++ p3 ++ p4) = p2).
    { rewrite firstn_app. replace (3 - length p2)%nat with 0%nat by lia. rewrite firstn_all2 by lia. cbn. apply app_nil_r. }
    assert (X4 : skipn 5 (p1 ++ p2 ++ p3 ++ p4) = p3 ++ p4).
    { rewrite app_assoc. rewrite skipn_app. rewrite app_length.
      replace (5 - (length p1 + length p2))%nat with 0%nat by lia. rewrite skipn_all2 by (rewrite app_length; lia). reflexivity. }
    rewrite X1, X2, X3, X4. split; [exact F1|]. split; [exact F2|]. rewrite forallb_app, F3, F4. reflexivity. }
  split; [exact W|].
  assert (Lle : lenN isrc <= lenN s).
  { unfold isrc. destruct (existsb _ s); [|lia]. rewrite !lenN_length. pose proof (filter_length_le (fun b => negb (b =? 45)) s). lia. }
  split; [exact Lle|]. intros L12. unfold isrc in *.
  destruct (existsb (fun b => b =? 45) s) eqn:Ex; [|reflexivity]. exfalso.
  apply existsb_exists in Ex. destruct Ex as (c & Hc & Ec). apply N.eqb_eq in Ec. subst c.
  (* a dash is removed, so the filtered string is strictly shorter *)
  assert (Hlt : (length (filter (fun b : N => negb (N.eqb b 45%N)) s) < length s)%nat).
  { clear -Hc. induction s as [|y q IH]; [contradiction|]. cbn [filter length]. destruct Hc as [->|Hc].
    - cbn. pose proof (filter_length_le (fun b : N => negb (N.eqb b 45%N)) q). lia.
    - specialize (IH Hc). destruct (negb (N.eqb y 45%N)); cbn [length]; lia. }
  rewrite !lenN_length in *. lia.
Qed.

Lemma read_isrc_inv s i r : Forall byte s -> read_isrc utf8_valid s = Ok (i, r) ->
  ty_isrc i /\ exists c, s = c ++ r /\ lenN c = 12.
Proof.
  intros Hs H. unfold read_isrc in H. inv_bind H. apply take_ok in E. destruct E as [-> L].
  destruct (all_zero a).
  - unfold pret in H. apply Ok_inj in H. injection H as <- <-. split; [exact I|eauto].
  - destruct (utf8_valid a); [|discriminate]. destruct (isrc_from_str a) as [x|] eqn:Ei; [|discriminate].
    unfold pret in H. apply Ok_inj in H. injection H as <- <-.
    apply isrc_from_str_inv in Ei. destruct Ei as (W & _ & _). split; [exact W|eauto].
Qed.

(* ---- offsets and index points *)
Definition ty_offset (cdda : bool) (o : N) : Prop :=
  o < 18446744073709551616 /\ (cdda = true -> o mod 588 = 0).
Definition ty_index (cdda : bool) (i : index) : Prop := ty_offset cdda (ix_off i) /\ ix_num i < 256.

Lemma read_offset_write cdda o rest : ty_offset cdda o -> read_offset cdda (be_bytes 8 o ++ rest) = Ok (o, rest).
Proof.
  intros [B M]. unfold read_offset. rewrite (pbind_eq (read_be 8) _ _ o rest) by (apply read_be8_app, B).
  destruct cdda; [|reflexivity]. unfold SAMPLES_PER_SECTOR. rewrite M by reflexivity. reflexivity.
Qed.
Lemma read_offset_inv cdda s o r : Forall byte s -> read_offset cdda s = Ok (o, r) ->
  ty_offset cdda o /\ s = be_bytes 8 o ++ r.
Proof.
  intros Hs H. unfold read_offset in H. inv_bind H. apply (read_be_ok 8) in E; [|exact Hs]. destruct E as [-> B].
  change (256 ^ N.of_nat 8) with 18446744073709551616 in B. unfold SAMPLES_PER_SECTOR in H.
  destruct cdda.
  - destruct (N.eqb_spec (a mod 588) 0) as [M|]; [|discriminate]. unfold pret in H. apply Ok_inj in H. injection H as <- <-.
    split; [split; auto|reflexivity].
  - unfold pret in H. apply Ok_inj in H. injection H as <- <-. split; [split; [exact B|discriminate]|reflexivity].
Qed.

Lemma lenN_write_index i : lenN (write_index i) = 12.
Proof. unfold write_index. rewrite !lenN_app, !lenN_be_bytes, lenN_zerosN. reflexivity. Qed.

Lemma read_index_write cdda i rest : ty_index cdda i -> read_index cdda (write_index i ++ rest) = Ok (i, rest).
Proof.
  intros [To Tn]. unfold read_index, write_index. rewrite <- !app_assoc.
  rewrite (pbind_eq (read_offset cdda) _ _ (ix_off i) _) by (apply read_offset_write, To).
  rewrite (pbind_eq (read_be 1) _ _ (ix_num i) _) by (apply read_be1_app, Tn).
  rewrite (pbind_eq (skip 3) _ _ tt rest) by (apply skip_app_len, lenN_zerosN). destruct i; reflexivity.
Qed.
Lemma read_index_inv cdda s i r : Forall byte s -> read_index cdda s = Ok (i, r) ->
  ty_index cdda i /\ exists c, s = c ++ r /\ lenN c = lenN (write_index i).
Proof.
  intros Hs H. unfold read_index in H. inv_bind H. apply read_offset_inv in E; [|exact Hs]. destruct E as [To ->].
  apply Forall_app_r in Hs. inv_bind H. apply (read_be_ok 1) in E; [|exact Hs]. destruct E as [-> B].
  change (256 ^ N.of_nat 1) with 256 in B. inv_bind H. destruct a1. apply skip_ok in E. destruct E as (c & -> & Lc).
  unfold pret in H. apply Ok_inj in H. injection H as <- <-. split; [split; assumption|].
  exists (be_bytes 8 a ++ be_bytes 1 a0 ++ c). rewrite <- !app_assoc. split; [reflexivity|].
  rewrite lenN_write_index, !lenN_app, !lenN_be_bytes, Lc. reflexivity.
Qed.

(* ---- IndexVec *)
Definition ty_indexvec (cdda : bool) (iv : indexvec) : Prop :=
  let l := indexvec_list iv in
  Forall (ty_index cdda) l /\ is_contiguous index_valid_first index_is_next l = true /\
  lenN l <= (if cdda then CDDA_MAX_INDEX else NONCDDA_MAX_INDEX) /\
  match iv_00 iv with Some i => ix_num i = 0 | None => True end /\ ix_num (iv_01 iv) = 1.

Lemma indexvec_try_from_list iv :
  match iv_00 iv with Some i => ix_num i = 0 | None => True end -> ix_num (iv_01 iv) = 1 ->
  indexvec_try_from (indexvec_list iv) = Ok iv.
Proof.
  destruct iv as [[i0|] i1 rest]; cbn [iv_00 iv_01 indexvec_list app]; intros H0 H1; cbn [indexvec_try_from].
  - rewrite H0, H1. reflexivity.
  - rewrite H1. reflexivity.
Qed.
Lemma indexvec_try_from_inv l iv : indexvec_try_from l = Ok iv ->
  indexvec_list iv = l /\ match iv_00 iv with Some i => ix_num i = 0 | None => True end /\ ix_num (iv_01 iv) = 1.
Proof.
  unfold indexvec_try_from. destruct l as [|i0 rest]; [discriminate|].
  destruct (N.eqb_spec (ix_num i0) 0) as [E0|_].
  - destruct rest as [|i1 rest']; [discriminate|]. destruct (N.eqb_spec (ix_num i1) 1) as [E1|]; [|discriminate].
    intros H. apply Ok_inj in H. subst iv. cbn. auto.
  - destruct (N.eqb_spec (ix_num i0) 1) as [E1|]; [|discriminate].
    intros H. apply Ok_inj in H. subst iv. cbn. auto.
Qed.

(* ---- tracks *)
Definition ty_track (cdda : bool) (t : track) : Prop :=
  ty_offset cdda (tr_off t) /\ (1 <= tr_num t /\ tr_num t < 256) /\ ty_isrc (tr_isrc t) /\ ty_indexvec cdda (tr_ix t).

Definition track_bytes (t : track) : list N :=
  let ixs := indexvec_list (tr_ix t) in
  be_bytes 8 (tr_off t) ++ be_bytes 1 (tr_num t) ++ write_isrc (tr_isrc t) ++
  write_flags (tr_non_audio t) (tr_pre t) ++ zerosN 13 ++ be_bytes 1 (lenN ixs) ++ enc_all write_index ixs.

Lemma write_indexes_enc l : write_indexes l = enc_all write_index l.
Proof. induction l as [|i r IH]; cbn [write_indexes enc_all]; [reflexivity|]. rewrite IH. reflexivity. Qed.

Lemma lenN_enc_all_index l : lenN (enc_all write_index l) = 12 * lenN l.
Proof. induction l as [|i r IH]; cbn [enc_all lenN]; [reflexivity|]. rewrite lenN_app, lenN_write_index, IH. lia. Qed.

Lemma ty_indexvec_len cdda iv : ty_indexvec cdda iv -> lenN (indexvec_list iv) <= 255.
Proof. intros (_ & _ & L & _). unfold CDDA_MAX_INDEX, NONCDDA_MAX_INDEX in L. destruct cdda; lia. Qed.

Lemma write_track_bytes cdda t : ty_track cdda t -> write_track t = Ok (track_bytes t).
Proof.
  intros (_ & _ & _ & Tiv). unfold write_track. pose proof (ty_indexvec_len cdda _ Tiv) as L.
  destruct (N.ltb_spec 255 (lenN (indexvec_list (tr_ix t)))); [lia|]. rewrite write_indexes_enc. reflexivity.
Qed.

Lemma lenN_track_bytes cdda t : ty_track cdda t -> lenN (track_bytes t) = 36 + 12 * lenN (indexvec_list (tr_ix t)).
Proof.
  intros (_ & _ & Ti & _). unfold track_bytes.
  rewrite !lenN_app, !lenN_be_bytes, lenN_write_flags, lenN_zerosN, (lenN_write_isrc _ Ti), lenN_enc_all_index.
  change (N.of_nat 8) with 8. change (N.of_nat 1) with 1. lia.
Qed.

Lemma read_track_write cdda t rest : ty_track cdda t ->
  read_track utf8_valid cdda (track_bytes t ++ rest) = Ok (t, rest).
Proof.
  intros (To & [Tn1 Tn2] & Ti & Tiv). pose proof (ty_indexvec_len cdda _ Tiv) as L255.
  destruct Tiv as (Fi & Ci & Lm & H0 & H1).
  unfold read_track, track_bytes. rewrite <- !app_assoc.
  rewrite (pbind_eq (read_offset cdda) _ _ (tr_off t) _) by (apply read_offset_write, To).
  rewrite (pbind_eq (read_be 1) _ _ (tr_num t) _) by (apply read_be1_app, Tn2).
  destruct (N.eqb_spec (tr_num t) 0); [lia|].
  rewrite (pbind_eq (read_isrc utf8_valid) _ _ (tr_isrc t) _) by (apply read_isrc_write, Ti).
  rewrite (pbind_eq read_flags _ _ (tr_non_audio t, tr_pre t) _) by apply read_flags_write.
  rewrite (pbind_eq (skip 13) _ _ tt _) by (apply skip_app_len, lenN_zerosN).
  rewrite (pbind_eq (read_be 1) _ _ (lenN (indexvec_list (tr_ix t))) _) by (apply read_be1_app; lia).
  erewrite pbind_eq;
    [|apply (try_collect_enc index_valid_first index_is_next _ (read_index cdda) write_index (ty_index cdda) (read_index_write cdda))].
  - cbn [rev app]. unfold plift, pbind. rewrite (indexvec_try_from_list _ H0 H1). unfold pret. destruct t; reflexivity.
  - exact Fi.
  - rewrite !app_length. pose proof (lenN_enc_all_index (indexvec_list (tr_ix t))) as G. rewrite !lenN_length in G. lia.
  - destruct cdda; cbn [N.add]; lia.
  - exact Ci.
Qed.

Lemma read_track_inv cdda s t r : Forall byte s -> read_track utf8_valid cdda s = Ok (t, r) ->
  ty_track cdda t /\ exists c, s = c ++ r /\ lenN c = lenN (track_bytes t).
Proof.
  intros Hs H. unfold read_track in H.
  inv_bind H. apply read_offset_inv in E; [|exact Hs]. destruct E as [To ->]. pose proof (Forall_app_r _ _ _ Hs) as Hs1.
  inv_bind H. apply (read_be_ok 1) in E; [|exact Hs1]. destruct E as [-> Bn]. change (256 ^ N.of_nat 1) with 256 in Bn.
  pose proof (Forall_app_r _ _ _ Hs1) as Hs2.
  destruct (N.eqb_spec a0 0) as [|Hn0]; [discriminate|].
  inv_bind H. apply read_isrc_inv in E; [|exact Hs2]. destruct E as (Ti & ci & -> & Lci). pose proof (Forall_app_r _ _ _ Hs2) as Hs3.
  inv_bind H. destruct a2 as [na pre]. apply read_flags_inv in E. destruct E as (cf & -> & Lcf). pose proof (Forall_app_r _ _ _ Hs3) as Hs4.
  inv_bind H. destruct a2. apply skip_ok in E. destruct E as (cs & -> & Lcs). pose proof (Forall_app_r _ _ _ Hs4) as Hs5.
  inv_bind H. apply (read_be_ok 1) in E; [|exact Hs5]. destruct E as [-> Bc]. change (256 ^ N.of_nat 1) with 256 in Bc.
  pose proof (Forall_app_r _ _ _ Hs5) as Hs6.
  inv_bind H.
  apply (try_collect_inv index_valid_first index_is_next _ (read_index cdda) write_index (ty_index cdda) (read_index_inv cdda)) in E; [|exact Hs6].
  destruct E as (l & El & Ll & Gl & Cl & Ml & (c6 & -> & Lc6) & Hr). cbn [rev app] in El. subst a3.
  inv_bind H. unfold plift in E. destruct (indexvec_try_from l) as [iv| |] eqn:Eiv; try discriminate.
  apply Ok_inj in E. injection E as <- <-. unfold pret in H. apply Ok_inj in H. injection H as <- <-.
  apply indexvec_try_from_inv in Eiv. destruct Eiv as (Hl & H0 & H1).
  assert (Tiv : ty_indexvec cdda iv).
  { unfold ty_indexvec. rewrite Hl. split; [exact Gl|]. split; [exact Cl|]. split; [|auto].
    destruct l as [|x q]; [cbn; destruct cdda; cbn; lia|].
    assert (0 + a2 <= (if cdda then CDDA_MAX_INDEX else NONCDDA_MAX_INDEX)) by (apply Ml; discriminate). lia. }
  assert (Tt : ty_track cdda (mkTrack a a0 a1 na pre iv)).
  { unfold ty_track. cbn [tr_off tr_num tr_isrc tr_ix]. split; [exact To|]. split; [lia|]. split; assumption. }
  split; [exact Tt|].
  exists (be_bytes 8 a ++ be_bytes 1 a0 ++ ci ++ cf ++ cs ++ be_bytes 1 a2 ++ c6).
  rewrite <- !app_assoc. split; [reflexivity|].
  rewrite (lenN_track_bytes cdda _ Tt). cbn [tr_ix]. rewrite Hl.
  rewrite !lenN_app, !lenN_be_bytes, Lci, Lcf, Lcs, Lc6, lenN_enc_all_index.
  change (N.of_nat 8) with 8. change (N.of_nat 1) with 1. lia.
Qed.

(* ---- lead-out *)
Definition ty_leadout (cdda : bool) (lo : leadout) : Prop := ty_offset cdda (lo_off lo) /\ ty_isrc (lo_isrc lo).

Lemma lenN_write_leadout cdda lo : ty_leadout cdda lo -> lenN (write_leadout cdda lo) = 36.
Proof.
  intros [_ Ti]. unfold write_leadout.
  rewrite !lenN_app, !lenN_be_bytes, lenN_write_flags, lenN_zerosN, (lenN_write_isrc _ Ti). reflexivity.
Qed.

Lemma read_leadout_write cdda lo rest : ty_leadout cdda lo ->
  read_leadout utf8_valid cdda (write_leadout cdda lo ++ rest) = Ok (lo, rest).
Proof.
  intros [To Ti]. unfold read_leadout, write_leadout. rewrite <- !app_assoc.
  rewrite (pbind_eq (read_offset cdda) _ _ (lo_off lo) _) by (apply read_offset_write, To).
  rewrite (pbind_eq (read_be 1) _ _ (if cdda then LEADOUT_CDDA else LEADOUT_NONCDDA) _) by (apply read_be1_app; destruct cdda; reflexivity).
  rewrite N.eqb_refl. cbn [negb].
  rewrite (pbind_eq (read_isrc utf8_valid) _ _ (lo_isrc lo) _) by (apply read_isrc_write, Ti).
  rewrite (pbind_eq read_flags _ _ (lo_non_audio lo, lo_pre lo) _) by apply read_flags_write.
  rewrite (pbind_eq (skip 13) _ _ tt _) by (apply skip_app_len, lenN_zerosN).
  rewrite (pbind_eq (read_be 1) _ _ 0 rest) by (apply read_be1_app; reflexivity).
  destruct lo; reflexivity.
Qed.

Lemma read_leadout_inv cdda s lo r : Forall byte s -> read_leadout utf8_valid cdda s = Ok (lo, r) ->
  ty_leadout cdda lo /\ exists c, s = c ++ r /\ lenN c = 36.
Proof.
  intros Hs H. unfold read_leadout in H.
  inv_bind H. apply read_offset_inv in E; [|exact Hs]. destruct E as [To ->]. pose proof (Forall_app_r _ _ _ Hs) as Hs1.
  inv_bind H. apply (read_be_ok 1) in E; [|exact Hs1]. destruct E as [-> Bn]. pose proof (Forall_app_r _ _ _ Hs1) as Hs2.
  destruct (negb _); [discriminate|].
  inv_bind H. apply read_isrc_inv in E; [|exact Hs2]. destruct E as (Ti & ci & -> & Lci). pose proof (Forall_app_r _ _ _ Hs2) as Hs3.
  inv_bind H. destruct a2 as [na pre]. apply read_flags_inv in E. destruct E as (cf & -> & Lcf). pose proof (Forall_app_r _ _ _ Hs3) as Hs4.
  inv_bind H. destruct a2. apply skip_ok in E. destruct E as (cs & -> & Lcs). pose proof (Forall_app_r _ _ _ Hs4) as Hs5.
  inv_bind H. apply (read_be_ok 1) in E; [|exact Hs5]. destruct E as [-> Bc].
  destruct (a2 =? 0); [|discriminate]. unfold pret in H. apply Ok_inj in H. injection H as <- <-.
  split; [split; assumption|].
  exists (be_bytes 8 a ++ be_bytes 1 a0 ++ ci ++ cf ++ cs ++ be_bytes 1 a2). rewrite <- !app_assoc. split; [reflexivity|].
  rewrite !lenN_app, !lenN_be_bytes, Lci, Lcf, Lcs. reflexivity.
Qed.

(* ---- catalog number field: digits then zero bytes *)
Lemma zerosN_add a b : zerosN (a + b) = zerosN a ++ zerosN b.
Proof.
  induction a using N.peano_ind; [reflexivity|].
  replace (N.succ a + b) with (N.succ (a + b)) by lia. rewrite !zerosN_succ, IHa. reflexivity.
Qed.
Lemma zerosN_snoc n : zerosN n ++ [0] = 0 :: zerosN n.
Proof.
  induction n using N.peano_ind; [reflexivity|]. rewrite zerosN_succ. cbn [app]. rewrite IHn. reflexivity.
Qed.
Lemma rev_zerosN n : rev (zerosN n) = zerosN n.
Proof.
  induction n using N.peano_ind; [reflexivity|]. rewrite zerosN_succ. cbn [rev]. rewrite IHn. apply zerosN_snoc.
Qed.
Lemma trim_nulls_rev_zeros n l : trim_nulls_rev (zerosN n ++ l) = trim_nulls_rev l.
Proof. induction n using N.peano_ind; [reflexivity|]. rewrite zerosN_succ. cbn [app trim_nulls_rev]. exact IHn. Qed.

Lemma trim_nulls_digits d k : forallb is_digit d = true -> trim_nulls (d ++ zerosN k) = d.
Proof.
  intros D. unfold trim_nulls. rewrite rev_app_distr, rev_zerosN, trim_nulls_rev_zeros.
  assert (H : trim_nulls_rev (rev d) = rev d).
  { destruct (rev d) as [|c q] eqn:E; [reflexivity|].
    assert (Hc : In c d) by (apply in_rev; rewrite E; left; reflexivity).
    rewrite forallb_forall in D. specialize (D c Hc). apply is_digit_spec in D.
    destruct c; [lia|reflexivity]. }
  rewrite H. apply rev_involutive.
Qed.

Lemma trim_nulls_rev_decomp l : exists k, l = zerosN k ++ trim_nulls_rev l.
Proof.
  induction l as [|c q IH]; [exists 0; reflexivity|]. destruct c as [|p].
  - cbn [trim_nulls_rev]. destruct IH as [k E]. exists (N.succ k). rewrite zerosN_succ. cbn [app]. f_equal. exact E.
  - exists 0. reflexivity.
Qed.
Lemma trim_nulls_decomp s : exists k, s = trim_nulls s ++ zerosN k.
Proof.
  unfold trim_nulls. destruct (trim_nulls_rev_decomp (rev s)) as [k E]. exists k.
  rewrite <- (rev_involutive s) at 1. rewrite E at 1. rewrite rev_app_distr, rev_zerosN. reflexivity.
Qed.

Lemma takeN_pad d n : lenN d <= n -> takeN n (d ++ zerosN n) = d ++ zerosN (n - lenN d).
Proof.
  intros L. remember (n - lenN d) as k eqn:Ek.
  assert (En : n = k + lenN d) by lia.
  assert (E1 : zerosN n = zerosN k ++ zerosN (lenN d)) by (rewrite En; apply zerosN_add).
  rewrite E1, app_assoc.
  assert (E2 : n = lenN (d ++ zerosN k)) by (rewrite lenN_app, lenN_zerosN; lia).
  rewrite E2 at 1. apply takeN_app.
Qed.

(* ---- the whole block *)
Definition ty_cuesheet (c : cuesheet) : Prop :=
  match c with
  | CueCDDA cat lead_in tracks lo =>
    match cat with Some d => lenN d = 13 /\ forallb is_digit d = true | None => True end /\
    lead_in < 18446744073709551616 /\
    Forall (ty_track true) tracks /\ is_contiguous track_valid_first track_is_next tracks = true /\
    lenN tracks <= CDDA_MAX_TRACKS /\ ty_leadout true lo
  | CueNonCDDA cat tracks lo =>
    forallb is_digit cat = true /\
    Forall (ty_track false) tracks /\ is_contiguous track_valid_first track_is_next tracks = true /\
    lenN tracks <= NONCDDA_MAX_TRACKS /\ ty_leadout false lo
  end.

Lemma write_tracks_enc cdda : forall l, Forall (ty_track cdda) l -> write_tracks l = Ok (enc_all track_bytes l).
Proof.
  induction 1 as [|t l Ht Hl IH]; [reflexivity|]. cbn [write_tracks enc_all].
  rewrite (write_track_bytes cdda t Ht), IH. reflexivity.
Qed.

Lemma lenN_enc_all_tracks cdda : forall l, Forall (ty_track cdda) l -> 36 * lenN l <= lenN (enc_all track_bytes l).
Proof.
  induction 1 as [|t l Ht Hl IH]; cbn [enc_all lenN]; [lia|]. rewrite lenN_app, (lenN_track_bytes cdda t Ht). lia.
Qed.

Definition cue_bytes (c : cuesheet) : list N :=
  match c with
  | CueCDDA cat lead_in tracks lo =>
    match cat with Some n => takeN CATALOG_LEN (n ++ zerosN CATALOG_LEN) | None => zerosN CATALOG_LEN end ++
    be_bytes 8 lead_in ++ [128] ++ zerosN 258 ++ be_bytes 1 (lenN tracks + 1) ++ enc_all track_bytes tracks ++ write_leadout true lo
  | CueNonCDDA cat tracks lo =>
    takeN CATALOG_LEN (cat ++ zerosN CATALOG_LEN) ++ be_bytes 8 0 ++ [0] ++ zerosN 258 ++
    be_bytes 1 (lenN tracks + 1) ++ enc_all track_bytes tracks ++ write_leadout false lo
  end.

Lemma write_cuesheet_bytes c bs : ty_cuesheet c -> write_cuesheet c = Ok bs -> bs = cue_bytes c.
Proof.
  destruct c as [cat lead_in tracks lo|cat tracks lo]; cbn [ty_cuesheet write_cuesheet cue_bytes].
  - intros (_ & _ & Ft & _ & Lt & _). unfold CDDA_MAX_TRACKS in Lt.
    destruct (N.ltb_spec 255 (lenN tracks + 1)); [lia|]. rewrite (write_tracks_enc true tracks Ft). cbn [bind].
    intros HW. apply Ok_inj in HW. auto.
  - intros (_ & Ft & _ & Lt & _). unfold NONCDDA_MAX_TRACKS in Lt.
    destruct (CATALOG_LEN <? lenN cat); [discriminate|].
    destruct (N.ltb_spec 255 (lenN tracks + 1)); [lia|]. rewrite (write_tracks_enc false tracks Ft). cbn [bind].
    intros HW. apply Ok_inj in HW. auto.
Qed.

Lemma flag_byte_cdda : rd 1 (bits_of_bytes [128]) = Some (1, wr 7 0).
Proof. reflexivity. Qed.
Lemma flag_byte_noncdda : rd 1 (bits_of_bytes [0]) = Some (0, wr 7 0).
Proof. reflexivity. Qed.

Lemma track_is_next_np' a b : is_panic (track_is_next a b) = false.
Proof. reflexivity. Qed.

Lemma lenN_catalog_field d : lenN d <= CATALOG_LEN -> lenN (takeN CATALOG_LEN (d ++ zerosN CATALOG_LEN)) = CATALOG_LEN.
Proof. intros L. rewrite takeN_pad by exact L. rewrite lenN_app, lenN_zerosN. lia. Qed.

Lemma cuesheet_write_read c bs r : ty_cuesheet c -> write_cuesheet c = Ok bs ->
  read_cuesheet utf8_valid (bs ++ r) = Ok (c, r).
Proof.
  intros T W. pose proof (write_cuesheet_bytes c bs T W) as ->.
  destruct c as [cat lead_in tracks lo|cat tracks lo]; cbn [ty_cuesheet cue_bytes] in *.
  - destruct T as (Tc & Tl & Ft & Ct & Lt & Tlo). unfold CDDA_MAX_TRACKS in Lt.
    set (catf := match cat with Some n => takeN CATALOG_LEN (n ++ zerosN CATALOG_LEN) | None => zerosN CATALOG_LEN end).
    assert (Lc : lenN catf = CATALOG_LEN).
    { unfold catf. destruct cat as [d|]; [|apply lenN_zerosN]. destruct Tc as [Ld _]. apply lenN_catalog_field. unfold CATALOG_LEN. lia. }
    assert (Tn : plift (match trim_nulls catf with
                        | [] => Ok None
                        | _ => if forallb is_digit (trim_nulls catf)
                               then (if lenN (trim_nulls catf) =? 13 then Ok (Some (trim_nulls catf)) else Err EOther)
                               else Err EOther
                        end) = plift (Ok cat)).
    { unfold catf. destruct cat as [d|].
      - destruct Tc as [Ld Dd]. rewrite takeN_pad by (unfold CATALOG_LEN; lia). rewrite (trim_nulls_digits d _ Dd).
        destruct d as [|d0 dr]; [cbn in Ld; lia|]. rewrite Dd, Ld. reflexivity.
      - rewrite <- (app_nil_l (zerosN CATALOG_LEN)). rewrite trim_nulls_digits by reflexivity. reflexivity. }
    unfold read_cuesheet. rewrite <- !app_assoc.
    rewrite (pbind_eq (take CATALOG_LEN) _ _ catf _) by (apply take_app_len, Lc).
    rewrite (pbind_eq (read_be 8) _ _ lead_in _) by (apply read_be8_app, Tl).
    rewrite (pbind_eq (take 1) _ _ [128] _) by (apply take_app_len; reflexivity).
    rewrite flag_byte_cdda.
    rewrite (pbind_eq (skip 258) _ _ tt _) by (apply skip_app_len, lenN_zerosN).
    rewrite (pbind_eq (read_be 1) _ _ (lenN tracks + 1) _) by (apply read_be1_app; lia).
    change (1 =? 1) with true. cbv iota. rewrite Tn. unfold plift at 1. unfold pbind at 1.
    destruct (N.eqb_spec (lenN tracks + 1) 0); [lia|]. replace (lenN tracks + 1 - 1) with (lenN tracks) by lia.
    destruct (N.ltb_spec 99 (lenN tracks)); [lia|]. cbn [orb].
    erewrite pbind_eq;
      [|apply (try_collect_enc track_valid_first track_is_next _ (read_track utf8_valid true) track_bytes (ty_track true) (read_track_write true))].
    + cbn [rev app]. rewrite (pbind_eq (read_leadout utf8_valid true) _ _ lo r) by (apply read_leadout_write, Tlo). reflexivity.
    + exact Ft.
    + rewrite !app_length. pose proof (lenN_enc_all_tracks true tracks Ft) as G. rewrite !lenN_length in G. lia.
    + unfold CDDA_MAX_TRACKS. lia.
    + exact Ct.
  - destruct T as (Dc & Ft & Ct & Lt & Tlo). unfold NONCDDA_MAX_TRACKS in Lt.
    unfold write_cuesheet in W. destruct (N.ltb_spec CATALOG_LEN (lenN cat)) as [|Lcat]; [discriminate|].
    set (catf := takeN CATALOG_LEN (cat ++ zerosN CATALOG_LEN)).
    assert (Lc : lenN catf = CATALOG_LEN) by (apply lenN_catalog_field, Lcat).
    assert (Tn : trim_nulls catf = cat) by (unfold catf; rewrite takeN_pad by exact Lcat; apply trim_nulls_digits, Dc).
    unfold read_cuesheet. rewrite <- !app_assoc.
    rewrite (pbind_eq (take CATALOG_LEN) _ _ catf _) by (apply take_app_len, Lc).
    rewrite (pbind_eq (read_be 8) _ _ 0 _) by (apply read_be8_app; reflexivity).
    rewrite (pbind_eq (take 1) _ _ [0] _) by (apply take_app_len; reflexivity).
    rewrite flag_byte_noncdda.
    rewrite (pbind_eq (skip 258) _ _ tt _) by (apply skip_app_len, lenN_zerosN).
    rewrite (pbind_eq (read_be 1) _ _ (lenN tracks + 1) _) by (apply read_be1_app; lia).
    change (0 =? 1) with false. cbv iota. rewrite Tn, Dc. cbn [negb].
    destruct (N.eqb_spec (lenN tracks + 1) 0); [lia|]. replace (lenN tracks + 1 - 1) with (lenN tracks) by lia.
    erewrite pbind_eq;
      [|apply (try_collect_enc track_valid_first track_is_next _ (read_track utf8_valid false) track_bytes (ty_track false) (read_track_write false))].
    + cbn [rev app]. rewrite (pbind_eq (read_leadout utf8_valid false) _ _ lo r) by (apply read_leadout_write, Tlo). reflexivity.
    + exact Ft.
    + rewrite !app_length. pose proof (lenN_enc_all_tracks false tracks Ft) as G. rewrite !lenN_length in G. lia.
    + unfold NONCDDA_MAX_TRACKS. lia.
    + exact Ct.
Qed.

Lemma lenN_trim_nulls_le s : lenN (trim_nulls s) <= lenN s.
Proof. destruct (trim_nulls_decomp s) as [k E]. rewrite E at 2. rewrite lenN_app. lia. Qed.

Lemma lenN_cue_bytes c : ty_cuesheet c ->
  (match c with CueNonCDDA cat _ _ => lenN cat <= CATALOG_LEN | _ => True end) ->
  lenN (cue_bytes c) = 396 + lenN (enc_all track_bytes (match c with CueCDDA _ _ t _ => t | CueNonCDDA _ t _ => t end)) + 36.
Proof.
  destruct c as [cat lead_in tracks lo|cat tracks lo]; cbn [ty_cuesheet cue_bytes].
  - intros (Tc & _ & _ & _ & _ & Tlo) _.
    assert (Lc : lenN (match cat with Some n => takeN CATALOG_LEN (n ++ zerosN CATALOG_LEN) | None => zerosN CATALOG_LEN end) = CATALOG_LEN).
    { destruct cat as [d|]; [|apply lenN_zerosN]. destruct Tc as [Ld _]. apply lenN_catalog_field. unfold CATALOG_LEN. lia. }
    rewrite !lenN_app, Lc, !lenN_be_bytes, lenN_zerosN, (lenN_write_leadout _ _ Tlo). unfold CATALOG_LEN. cbn [lenN].
    change (N.of_nat 8) with 8. change (N.of_nat 1) with 1. lia.
  - intros (_ & _ & _ & _ & Tlo) Lcat.
    rewrite !lenN_app, (lenN_catalog_field _ Lcat), !lenN_be_bytes, lenN_zerosN, (lenN_write_leadout _ _ Tlo). unfold CATALOG_LEN. cbn [lenN].
    change (N.of_nat 8) with 8. change (N.of_nat 1) with 1. lia.
Qed.

Lemma cuesheet_read_inv s c r : Forall byte s -> read_cuesheet utf8_valid s = Ok (c, r) ->
  ty_cuesheet c /\ exists bs, write_cuesheet c = Ok bs /\ lenN s = lenN bs + lenN r.
Proof.
  intros Hs H. unfold read_cuesheet in H.
  inv_bind H. apply take_ok in E. destruct E as [-> Lcat]. pose proof (Forall_app_r _ _ _ Hs) as Hs1.
  inv_bind H. apply (read_be_ok 8) in E; [|exact Hs1]. destruct E as [-> Bl]. change (256 ^ N.of_nat 8) with 18446744073709551616 in Bl.
  pose proof (Forall_app_r _ _ _ Hs1) as Hs2.
  inv_bind H. apply take_ok in E. destruct E as [-> Lfl]. pose proof (Forall_app_r _ _ _ Hs2) as Hs3.
  destruct (rd 1 (bits_of_bytes a1)) as [[is_cdda x]|]; [|discriminate].
  inv_bind H. destruct a2. apply skip_ok in E. destruct E as (csk & -> & Lsk). pose proof (Forall_app_r _ _ _ Hs3) as Hs4.
  inv_bind H. apply (read_be_ok 1) in E; [|exact Hs4]. destruct E as [-> Bt]. change (256 ^ N.of_nat 1) with 256 in Bt.
  pose proof (Forall_app_r _ _ _ Hs4) as Hs5.
  pose proof (lenN_trim_nulls_le a) as Ltn.
  destruct (is_cdda =? 1).
  - inv_bind H.
    assert (Tcat : match a3 with Some d => lenN d = 13 /\ forallb is_digit d = true | None => True end /\ s = s0).
    { unfold plift in E. destruct (trim_nulls a) as [|d0 dr] eqn:Et.
      - apply Ok_inj in E. injection E as <- <-. auto.
      - destruct (forallb is_digit (d0 :: dr)) eqn:D; [|discriminate].
        destruct (N.eqb_spec (lenN (d0 :: dr)) 13) as [L13|]; [|discriminate].
        apply Ok_inj in E. injection E as <- <-. auto. }
    destruct Tcat as [Tcat ->]. clear E.
    destruct ((a2 =? 0) || (99 <? a2 - 1)) eqn:Ecount; [discriminate|].
    apply orb_false_elim in Ecount. destruct Ecount as [Ez E99]. apply N.eqb_neq in Ez. apply N.ltb_ge in E99.
    inv_bind H.
    apply (try_collect_inv track_valid_first track_is_next _ (read_track utf8_valid true) track_bytes (ty_track true) (read_track_inv true)) in E; [|exact Hs5].
    destruct E as (l & El & Ll & Gl & Cl & Ml & (ct & -> & Lct) & Hr). cbn [rev app] in El. subst a4.
    inv_bind H. apply read_leadout_inv in E; [|exact Hr]. destruct E as (Tlo & clo & -> & Llo).
    unfold pret in H. apply Ok_inj in H. injection H as <- <-.
    assert (Lmax : lenN l <= CDDA_MAX_TRACKS).
    { destruct l as [|y q]; [cbn; unfold CDDA_MAX_TRACKS; lia|]. assert (0 + (a2 - 1) <= CDDA_MAX_TRACKS) by (apply Ml; discriminate). lia. }
    assert (T : ty_cuesheet (CueCDDA a3 a0 l a4)).
    { cbn [ty_cuesheet]. split; [exact Tcat|]. split; [exact Bl|]. split; [exact Gl|]. split; [exact Cl|]. split; [exact Lmax|exact Tlo]. }
    split; [exact T|]. exists (cue_bytes (CueCDDA a3 a0 l a4)). split.
    + cbn [write_cuesheet cue_bytes]. unfold CDDA_MAX_TRACKS in Lmax.
      destruct (N.ltb_spec 255 (lenN l + 1)); [lia|]. rewrite (write_tracks_enc true l Gl). reflexivity.
    + rewrite (lenN_cue_bytes _ T I). rewrite !lenN_app, Lcat, Lfl, Lsk, Lct, Llo, !lenN_be_bytes.
      unfold CATALOG_LEN. change (N.of_nat 8) with 8. change (N.of_nat 1) with 1. lia.
  - destruct (forallb is_digit (trim_nulls a)) eqn:D; [|discriminate]. cbn [negb] in H.
    destruct (N.eqb_spec a2 0) as [|Ez]; [discriminate|].
    inv_bind H.
    apply (try_collect_inv track_valid_first track_is_next _ (read_track utf8_valid false) track_bytes (ty_track false) (read_track_inv false)) in E; [|exact Hs5].
    destruct E as (l & El & Ll & Gl & Cl & Ml & (ct & -> & Lct) & Hr). cbn [rev app] in El. subst a3.
    inv_bind H. apply read_leadout_inv in E; [|exact Hr]. destruct E as (Tlo & clo & -> & Llo).
    unfold pret in H. apply Ok_inj in H. injection H as <- <-.
    assert (Lmax : lenN l <= NONCDDA_MAX_TRACKS).
    { destruct l as [|y q]; [cbn; unfold NONCDDA_MAX_TRACKS; lia|]. assert (0 + (a2 - 1) <= NONCDDA_MAX_TRACKS) by (apply Ml; discriminate). lia. }
    assert (T : ty_cuesheet (CueNonCDDA (trim_nulls a) l a3)).
    { cbn [ty_cuesheet]. split; [exact D|]. split; [exact Gl|]. split; [exact Cl|]. split; [exact Lmax|exact Tlo]. }
    assert (Lc128 : lenN (trim_nulls a) <= CATALOG_LEN) by lia.
    split; [exact T|]. exists (cue_bytes (CueNonCDDA (trim_nulls a) l a3)). split.
    + cbn [write_cuesheet cue_bytes]. unfold NONCDDA_MAX_TRACKS in Lmax.
      destruct (N.ltb_spec CATALOG_LEN (lenN (trim_nulls a))); [lia|].
      destruct (N.ltb_spec 255 (lenN l + 1)); [lia|]. rewrite (write_tracks_enc false l Gl). reflexivity.
    + rewrite (lenN_cue_bytes _ T Lc128). rewrite !lenN_app, Lcat, Lfl, Lsk, Lct, Llo, !lenN_be_bytes.
      unfold CATALOG_LEN. change (N.of_nat 8) with 8. change (N.of_nat 1) with 1. lia.
Qed.
End CuesheetCodec.
