(* Property C09 — STREAMINFO and SEEKTABLE written at finalize describe the stream truthfully. *)
From FlacWriters Require Import Writers Lists_proofs Params_proofs Writers_proofs New_proofs Finalize_proofs C09_proofs.
Open Scope N_scope.

(* Layout: in each of the three cases (placeholder table refilled, table carved out of the
   padding, nothing inserted) the metadata region keeps the length it had when the constructor
   wrote it; the finished stream is the same prefix, a metadata region of the same length, and
   the same frame bytes at the same offsets. *)
Theorem C09_layout_sample :
  forall enc_block md5 p prefix o rate bps ch total w chunks f,
    (forall l, length (md5 l) = 16%nat) ->
    sample_new p prefix o rate bps ch total = Ok w ->
    sample_run enc_block md5 p w chunks = Ok f ->
    layout_ok (sw_enc w) f.
Proof. intros. eapply sample_layout; eauto. Qed.
Theorem C09_layout_byte :
  forall enc_block md5 p en prefix o rate bps ch total w chunks f,
    (forall l, length (md5 l) = 16%nat) ->
    byte_new p en prefix o rate bps ch total = Ok w ->
    byte_run enc_block md5 p w chunks = Ok f ->
    layout_ok (bw_enc w) f.
Proof. intros. eapply byte_layout; eauto. Qed.
Theorem C09_layout_channel :
  forall enc_block md5 p prefix o rate bps ch total w chunks f,
    (forall l, length (md5 l) = 16%nat) ->
    channel_new p prefix o rate bps ch total = Ok w ->
    channel_run enc_block md5 p w chunks = Ok f ->
    layout_ok (cw_enc w) f.
Proof. intros. eapply channel_layout; eauto. Qed.

(* the three cases, on the block list alone *)
Theorem C09_layout_cases : forall cap blocks sel blocks',
  finalize_seektable_gen cap blocks sel = Ok blocks' -> meta_len blocks' = meta_len blocks.
Proof. intros. rewrite !meta_len_blocks_len. f_equal. eapply finalize_seektable_keeps_length; eauto. Qed.
