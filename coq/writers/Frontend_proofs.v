(* writers/Frontend_proofs.v — C08, front-ends: for the same PCM block the three front-ends hand
   the same channels to the block encoder and feed MD5 the same bytes; a trailing partial PCM frame
   is dropped. *)
From FlacWriters Require Import Writers Lists_proofs Params_proofs Audio_proofs Writers_proofs New_proofs Run_proofs.
Open Scope N_scope.

(* ---- channels_of_frames undoes multizip (for k channels of one length) *)
Lemma heads_tails_zip_cons : forall chs h, heads chs = Some h -> zip_cons h (tails chs) = chs.
Proof.
  induction chs as [|c chs IH]; intros h H; cbn [heads] in H.
  - inversion H; subst. reflexivity.
  - destruct c as [|x c]; [discriminate|]. destruct (heads chs) as [h'|] eqn:E; [|discriminate].
    inversion H; subst. cbn [tails map tl zip_cons]. f_equal. apply IH. reflexivity.
Qed.

Lemma heads_none_uniform : forall chs m, Forall (fun c => length c = S m) chs -> heads chs <> None.
Proof.
  induction chs as [|c chs IH]; intros m F; cbn [heads]; [discriminate|].
  inversion F as [|? ? Hc F']; subst. destruct c as [|x c]; [discriminate|].
  destruct (heads chs) eqn:E; [discriminate|]. exfalso. eapply IH; eauto.
Qed.

Lemma tails_uniform chs m : Forall (fun c => length c = S m) chs -> Forall (fun c => length c = m) (tails chs).
Proof.
  unfold tails. induction 1 as [|c chs Hc F IH]; cbn [map]; constructor; auto.
  destruct c; cbn in *; [discriminate|lia].
Qed.

Lemma channels_of_multizip_fuel : forall m chs, chs <> [] -> Forall (fun c => length c = m) chs ->
  channels_of_frames (length chs) (multizip_fuel m chs) = chs /\
  Forall (fun f => length f = length chs) (multizip_fuel m chs) /\ length (multizip_fuel m chs) = m.
Proof.
  induction m as [|m IH]; intros chs Hne F; cbn [multizip_fuel].
  - cbn [channels_of_frames]. split; [|split; [constructor|reflexivity]].
    clear Hne. induction F as [|c chs Hc F IHF]; cbn [length repeat]; [reflexivity|].
    destruct c; [|discriminate]. f_equal. exact IHF.
  - destruct (heads chs) as [h|] eqn:E; [|exfalso; eapply heads_none_uniform; eauto].
    assert (Lh : length h = length chs).
    { clear - E. revert h E. induction chs as [|c chs IH]; intros h E; cbn [heads] in E.
      - inversion E; reflexivity.
      - destruct c; [discriminate|]. destruct (heads chs); [|discriminate]. inversion E; subst. cbn. f_equal. apply IH. reflexivity. }
    assert (Lt : length (tails chs) = length chs) by (unfold tails; apply map_length).
    assert (Hne' : tails chs <> []) by (intros X; rewrite X in Lt; destruct chs; [congruence|discriminate]).
    destruct (IH (tails chs) Hne' (tails_uniform chs m F)) as (C & Fl & Lm).
    rewrite Lt in C, Fl. cbn [channels_of_frames]. rewrite C. split; [apply heads_tails_zip_cons; exact E|].
    split; [constructor; auto|cbn; f_equal; exact Lm].
Qed.

Lemma channels_of_multizip chs m : chs <> [] -> Forall (fun c => length c = m) chs ->
  channels_of_frames (length chs) (multizip chs) = chs /\
  Forall (fun f => length f = length chs) (multizip chs) /\ length (multizip chs) = m.
Proof.
  intros Hne F. unfold multizip. destruct chs as [|c r]; [congruence|].
  assert (Hc : length c = m) by (inversion F; assumption).
  rewrite Hc. apply channels_of_multizip_fuel; auto.
Qed.

Lemma concat_length_uniform {A} k : forall (fs : list (list A)), Forall (fun f => length f = k) fs ->
  length (concat fs) = (k * length fs)%nat.
Proof. induction 1 as [|f fs Hf F IH]; cbn [concat length]; [lia|]. rewrite app_length, IH, Hf. lia. Qed.

Section Front.
Variable enc_block : N -> block -> res (list N).
Variable md5 : list N -> list N.
Variable p : profile.

(* FlacChannelWriter and FlacSampleWriter on the same block: the channel writer's block, given
   to the sample writer as interleaved samples, goes through the identical Encoder call and feeds
   MD5 the identical bytes *)
Theorem channel_block_as_samples ch bytes e (blk : block) m :
  1 <= ch <= 8 -> length blk = N.to_nat ch -> Forall (fun c => length c = m) blk -> (1 <= m)%nat ->
  channel_encode_chunk enc_block p ch bytes e blk =
  sample_encode_chunk enc_block p ch bytes e (concat (multizip blk)).
Proof.
  intros Hch Lb F Hm. unfold channel_encode_chunk, sample_encode_chunk.
  assert (Hne : blk <> []) by (intros X; rewrite X in Lb; cbn in Lb; lia).
  destruct (channels_of_multizip blk m Hne F) as (C & Fl & Lm).
  destruct (update_md5 (concat (multizip blk)) bytes) as [md|er|k]; cbn [bind]; auto.
  (* fill_from_channels returns the block itself *)
  assert (E1 : fill_from_channels p ch blk = Ok blk).
  { unfold fill_from_channels.
    replace (N.of_nat (length blk) =? ch) with true by (symmetry; apply N.eqb_eq; lia).
    assert (T : match p with Debug => Ok tt | Release => Ok tt end = @Ok unit tt) by (destruct p; reflexivity).
    rewrite T. cbn [bind]. destruct blk as [|c0 r]; [congruence|].
    inversion F as [|? ? Hc F']; subst.
    destruct (Nat.eqb_spec (length c0) 0); [lia|].
    replace (forallb (fun c => (length c =? length c0)%nat) (c0 :: r)) with true; [reflexivity|].
    symmetry. apply forallb_forall. intros c Hin. apply Nat.eqb_eq.
    rewrite Forall_forall in F. rewrite (F c Hin). symmetry. apply F. left. reflexivity. }
  (* fill_from_samples rebuilds it from the interleaved samples *)
  assert (E2 : fill_from_samples ch (concat (multizip blk)) = Ok blk).
  { assert (Lc : N.of_nat (length (concat (multizip blk))) = ch * N.of_nat m).
    { rewrite (concat_length_uniform (length blk)) by exact Fl. rewrite Lm, Lb. lia. }
    destruct (fill_from_samples_ok ch (N.of_nat m) _ Hch ltac:(lia) Lc) as (cs & D & Ef & _).
    rewrite Ef. f_equal.
    assert (Ecs : cs = multizip blk).
    { pose proof (drain_unique (N.to_nat ch) ltac:(lia) (multizip blk) []) as U.
      rewrite app_nil_r in U. rewrite U in D; [inversion D; reflexivity| |cbn; lia].
      eapply Forall_impl; [|exact Fl]. cbn. intros; lia. }
    rewrite Ecs, <- Lb. exact C. }
  rewrite E1, E2. reflexivity.
Qed.

(* ---- a trailing partial PCM frame is dropped (FlacSampleWriter) *)
Theorem sample_partial_dropped prefix o rate bps ch total w (x partial : list Z) :
  options_wf o -> sample_new p prefix o rate bps ch total = Ok w ->
  N.of_nat (length x) mod ch = 0 -> N.of_nat (length partial) < ch ->
  sample_run enc_block md5 p w [x ++ partial] = sample_run enc_block md5 p w [x].
Proof.
  intros Ho Hn Hx Hp.
  pose proof (sample_new_wf p _ _ _ _ _ _ _ Ho Hn) as Hw.
  unfold sample_new in Hn.
  apply bind_ok in Hn. destruct Hn as (b & _ & Hn). apply bind_ok in Hn. destruct Hn as (t & _ & Hn).
  apply bind_ok in Hn. destruct Hn as (e0 & He0 & Hn). inversion Hn; subst w. clear Hn.
  pose proof (encoder_new_inv p _ _ _ _ _ _ _ He0) as Inv. destruct Inv as (Hch & _).
  destruct Ho as (Hbs & _). destruct Hw as [Hk _]. cbn [sw_frame_sample_size] in Hk.
  set (bs := o_block_size o) in *.
  unfold sample_run. cbn [fold_res]. rewrite !sample_write_eq by exact Hk.
  cbn [sw_buf sw_enc sw_frame_sample_size sw_channels sw_bytes_per_sample app].
  destruct (drain (N.to_nat (ch * bs)) x) as [cs r] eqn:D.
  pose proof (drain_length _ Hk _ _ _ D) as Ln.
  apply drain_spec in D; [|exact Hk]. destruct D as (Ex & Fcs & Lr).
  (* the remainder is a whole number of PCM frames *)
  assert (Hr : N.of_nat (length r) mod ch = 0).
  { assert (E : N.of_nat (length x) = ch * (bs * N.of_nat (length cs)) + N.of_nat (length r)) by lia.
    rewrite E, N.add_comm, N.mul_comm, N.mod_add in Hx by lia. exact Hx. }
  assert (Hrp : (length (r ++ partial) < N.to_nat (ch * bs))%nat).
  { rewrite app_length.
    pose proof (N.div_mod (N.of_nat (length r)) ch ltac:(lia)) as Dm. rewrite Hr in Dm.
    remember (N.of_nat (length r) / ch) as q. assert (q < bs) by nia. nia. }
  assert (D2 : drain (N.to_nat (ch * bs)) (x ++ partial) = (cs, r ++ partial)).
  { rewrite Ex, <- app_assoc. apply drain_unique; auto. }
  rewrite D2. rewrite !bind_assoc. apply bind_ext. intros e1 _. cbn [bind].
  unfold sample_finalize. cbn [sw_buf sw_set sw_channels sw_enc sw_bytes_per_sample].
  rewrite app_length, Nat2N.inj_add.
  set (lr := N.of_nat (length r)) in *. set (lp := N.of_nat (length partial)) in *.
  assert (Hmod : (lr + lp) mod ch = lp).
  { pose proof (N.div_mod lr ch ltac:(lia)) as Dm. rewrite Hr, N.add_0_r in Dm.
    rewrite Dm, N.add_comm, N.mul_comm, N.mod_add by lia. apply N.mod_small. exact Hp. }
  rewrite Hmod, Hr, N.sub_0_r. replace (lr + lp - lp) with lr by lia.
  destruct (N.leb_spec ch lr) as [L|L].
  - destruct (N.leb_spec ch (lr + lp)); [|lia].
    destruct (N.eqb_spec ch 0); [lia|].
    unfold lr. rewrite Nat2N.id, firstn_app, firstn_all, Nat.sub_diag. cbn [firstn]. rewrite app_nil_r. reflexivity.
  - assert (lr = 0).
    { pose proof (N.div_mod lr ch ltac:(lia)) as Dm. rewrite Hr, N.add_0_r in Dm.
      destruct (N.eqb_spec (lr / ch) 0) as [Z|Z]; [rewrite Z in Dm; lia|]. nia. }
    destruct (N.leb_spec ch (lr + lp)); [lia|]. reflexivity.
Qed.

End Front.
