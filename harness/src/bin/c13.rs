//! C13 harness: success is only reported when the output really reached the underlying stream.
//!
//! A fault-injecting device `Dev` (Read + Write + Seek over a byte vector) is driven by one fault
//! stream per call kind (write / flush / seek / read): a list of per-call outcomes
//! (o = ok, e = error, i = Interrupted, s<k> = short transfer of k bytes) and a default once the list
//! is exhausted (ok or error).  For every scenario the fault-free run gives the reference result and the
//! call counts; then for every kind, every call index n and every mode (perm: call n and all later ones
//! fail; once; intr; short1; shorthalf; zero) the scenario is re-run and the property evaluated:
//!     result is Err, or the bytes on the device are the complete reference result; never a panic.
//! Scenarios: encode+finalize through the three writer front-ends on the raw device and through
//! `BufWriter::new(dev)` (what the `create` constructors build), write_blocks, update_file in place and
//! rebuilt, decode (read faults).  "case" lines carry the program seen at the writer interface (a spy
//! between the encoder and its writer) for the Coq model of the I/O stack.
use flac_codec::byteorder::LittleEndian;
use flac_codec::decode::FlacSampleReader;
use flac_codec::encode::{FlacByteWriter, FlacChannelWriter, FlacSampleWriter, Options};
use flac_codec::metadata::{update_file, write_blocks, Application, Block, BlockList, Padding, VorbisComment};
use flac_codec::Error;
use std::cell::RefCell;
use std::collections::VecDeque;
use std::io::{BufWriter, Read, Seek, SeekFrom, Write};
use std::rc::Rc;
use vharness::json::{esc, obj};
use vharness::*;

// ------------------------------------------------------------------ fault device
#[derive(Clone, Copy, Debug, PartialEq)]
enum Fault {
    Ok,
    Short(usize),
    Intr,
    Err,
}
#[derive(Clone, Debug, Default)]
struct Stream {
    pending: VecDeque<Fault>,
    dflt_err: bool,
}
impl Stream {
    fn next(&mut self) -> Fault {
        match self.pending.pop_front() {
            Some(f) => f,
            None => {
                if self.dflt_err {
                    Fault::Err
                } else {
                    Fault::Ok
                }
            }
        }
    }
    fn text(&self) -> String {
        let mut s = String::new();
        for f in &self.pending {
            match f {
                Fault::Ok => s.push('o'),
                Fault::Err => s.push('e'),
                Fault::Intr => s.push('i'),
                Fault::Short(k) => s.push_str(&format!("s{},", k)),
            }
        }
        s.push('/');
        s.push(if self.dflt_err { 'e' } else { 'o' });
        s
    }
}
#[derive(Clone, Debug, Default)]
struct Sched {
    w: Stream,
    f: Stream,
    s: Stream,
    r: Stream,
}
impl Sched {
    fn text(&self) -> String {
        format!("w={} f={} s={} r={}", self.w.text(), self.f.text(), self.s.text(), self.r.text())
    }
}
#[derive(Default)]
struct DevState {
    data: Vec<u8>,
    pos: u64,
    sched: Sched,
    nw: usize,
    nf: usize,
    ns: usize,
    nr: usize,
    err_reads: usize, // read calls that returned a non-Interrupted error
}
#[derive(Clone)]
struct Dev(Rc<RefCell<DevState>>);
impl Dev {
    fn new(data: Vec<u8>, pos: u64, sched: Sched) -> Dev {
        Dev(Rc::new(RefCell::new(DevState { data, pos, sched, ..Default::default() })))
    }
    fn data(&self) -> Vec<u8> {
        self.0.borrow().data.clone()
    }
    fn counts(&self) -> [usize; 4] {
        let d = self.0.borrow();
        [d.nw, d.nf, d.ns, d.nr]
    }
}
fn ioerr(intr: bool) -> std::io::Error {
    if intr {
        std::io::Error::new(std::io::ErrorKind::Interrupted, "injected interrupt")
    } else {
        std::io::Error::new(std::io::ErrorKind::Other, "injected failure")
    }
}
impl Write for Dev {
    fn write(&mut self, buf: &[u8]) -> std::io::Result<usize> {
        let mut d = self.0.borrow_mut();
        d.nw += 1;
        let n = match d.sched.w.next() {
            Fault::Ok => buf.len(),
            Fault::Short(k) => k.min(buf.len()),
            Fault::Intr => return Err(ioerr(true)),
            Fault::Err => return Err(ioerr(false)),
        };
        let pos = d.pos as usize;
        if d.data.len() < pos {
            d.data.resize(pos, 0);
        }
        let end = pos + n;
        if d.data.len() < end {
            d.data.resize(end, 0);
        }
        d.data[pos..end].copy_from_slice(&buf[..n]);
        d.pos = end as u64;
        Ok(n)
    }
    fn flush(&mut self) -> std::io::Result<()> {
        let mut d = self.0.borrow_mut();
        d.nf += 1;
        match d.sched.f.next() {
            Fault::Ok | Fault::Short(_) => Ok(()),
            Fault::Intr => Err(ioerr(true)),
            Fault::Err => Err(ioerr(false)),
        }
    }
}
impl Seek for Dev {
    fn seek(&mut self, p: SeekFrom) -> std::io::Result<u64> {
        let mut d = self.0.borrow_mut();
        d.ns += 1;
        match d.sched.s.next() {
            Fault::Ok | Fault::Short(_) => {}
            Fault::Intr => return Err(ioerr(true)),
            Fault::Err => return Err(ioerr(false)),
        }
        let np: i128 = match p {
            SeekFrom::Start(x) => x as i128,
            SeekFrom::Current(x) => d.pos as i128 + x as i128,
            SeekFrom::End(x) => d.data.len() as i128 + x as i128,
        };
        if np < 0 {
            return Err(std::io::Error::new(std::io::ErrorKind::InvalidInput, "negative seek"));
        }
        d.pos = np as u64;
        Ok(d.pos)
    }
}
impl Read for Dev {
    fn read(&mut self, buf: &mut [u8]) -> std::io::Result<usize> {
        let mut d = self.0.borrow_mut();
        d.nr += 1;
        let avail = d.data.len().saturating_sub(d.pos as usize).min(buf.len());
        let n = match d.sched.r.next() {
            Fault::Ok => avail,
            Fault::Short(k) => k.min(avail),
            Fault::Intr => return Err(ioerr(true)),
            Fault::Err => {
                d.err_reads += 1;
                return Err(ioerr(false));
            }
        };
        let pos = d.pos as usize;
        buf[..n].copy_from_slice(&d.data[pos..pos + n]);
        d.pos += n as u64;
        Ok(n)
    }
}

// ------------------------------------------------------------------ spy between the encoder and its writer
#[derive(Clone, Debug)]
enum SpyOp {
    Write(Vec<u8>),    // W::write (the caller loops: default write_all)
    WriteAll(Vec<u8>), // W::write_all
    Flush,
    Seek(u64),
    SeekCur,
}
struct Spy<W> {
    inner: W,
    log: Rc<RefCell<Vec<SpyOp>>>,
}
impl<W: Write> Write for Spy<W> {
    fn write(&mut self, buf: &[u8]) -> std::io::Result<usize> {
        self.log.borrow_mut().push(SpyOp::Write(buf.to_vec()));
        self.inner.write(buf)
    }
    fn write_all(&mut self, buf: &[u8]) -> std::io::Result<()> {
        self.log.borrow_mut().push(SpyOp::WriteAll(buf.to_vec()));
        self.inner.write_all(buf)
    }
    fn flush(&mut self) -> std::io::Result<()> {
        self.log.borrow_mut().push(SpyOp::Flush);
        self.inner.flush()
    }
}
impl<W: Seek> Seek for Spy<W> {
    fn seek(&mut self, p: SeekFrom) -> std::io::Result<u64> {
        self.log.borrow_mut().push(match p {
            SeekFrom::Start(x) => SpyOp::Seek(x),
            SeekFrom::Current(0) => SpyOp::SeekCur,
            _ => SpyOp::Seek(u64::MAX),
        });
        self.inner.seek(p)
    }
}
/// program text for the model: consecutive single `write` calls are what a `write_all` loop issued;
/// in the fault-free run each accepted its whole buffer, so each is one loop-op
fn prog_text(log: &[SpyOp]) -> String {
    let mut parts = vec![];
    for op in log {
        parts.push(match op {
            SpyOp::Write(b) => format!("l{}", hex(b)),
            SpyOp::WriteAll(b) => format!("a{}", hex(b)),
            SpyOp::Flush => "f".to_string(),
            SpyOp::Seek(p) => format!("s{}", p),
            SpyOp::SeekCur => "c".to_string(),
        });
    }
    parts.join(",")
}

// ------------------------------------------------------------------ scenarios
#[derive(Clone)]
struct Input {
    ch: u8,
    bps: u32,
    bs: u16,
    pcm: Vec<i32>,
    declare: bool,
    seektable: bool,
    padding: Option<u32>,
}
fn options(i: &Input) -> Options {
    let mut o = Options::default().block_size(i.bs).unwrap();
    o = match i.padding {
        Some(p) => o.padding(p).unwrap(),
        None => o.no_padding(),
    };
    if i.seektable {
        o = o.seektable_frames(1);
    } else {
        o = o.no_seektable();
    }
    o
}

#[derive(Debug)]
struct Outcome {
    class: String,        // ok | ok:true | ok:false | err:<..> | panic
    dev: Vec<u8>,         // bytes on the (original) device afterwards
    dev2: Option<Vec<u8>>, // bytes on the rebuilt device (update only)
    counts: [usize; 4],
    counts2: [usize; 4],
    err_reads: usize,
    prog: String,
}
fn class_of<T: std::fmt::Debug>(r: Result<Result<T, Error>, String>) -> String {
    match r {
        Ok(Ok(v)) => {
            let s = format!("{:?}", v);
            if s == "()" {
                "ok".to_string()
            } else {
                format!("ok:{}", s)
            }
        }
        Ok(Err(e)) => format!("err:{}", err_class(&e)),
        Err(p) => format!("panic:{}", p.chars().take(80).collect::<String>()),
    }
}

/// stack: "raw" = the device itself; "buf" = BufWriter::new(dev) (the `create` constructors);
/// "buf16" = BufWriter::with_capacity(16, dev)
fn run_encode(front: &str, stack: &str, inp: &Input, sched: Sched) -> Outcome {
    let dev = Dev::new(vec![], 0, sched);
    let log = Rc::new(RefCell::new(vec![]));
    let total = if inp.declare { Some(inp.pcm.len() as u64) } else { None };
    macro_rules! with_writer {
        ($w:expr) => {{
            let w = $w;
            match front {
                "sample" => catch(|| -> Result<(), Error> {
                    let mut e = FlacSampleWriter::new(w, options(inp), 44100, inp.bps, inp.ch, total)?;
                    e.write(&inp.pcm)?;
                    e.finalize()
                }),
                "byte" => catch(|| -> Result<(), Error> {
                    let bytes_per = ((inp.bps + 7) / 8) as usize;
                    let mut raw = vec![];
                    for s in &inp.pcm {
                        raw.extend_from_slice(&s.to_le_bytes()[..bytes_per]);
                    }
                    let mut e = FlacByteWriter::endian(w, LittleEndian, options(inp), 44100, inp.bps, inp.ch, total.map(|t| t * bytes_per as u64))?;
                    e.write_all(&raw).map_err(Error::Io)?;
                    e.finalize()
                }),
                _ => catch(|| -> Result<(), Error> {
                    let n = inp.pcm.len() / inp.ch as usize;
                    let chans: Vec<Vec<i32>> = (0..inp.ch as usize).map(|c| (0..n).map(|i| inp.pcm[i * inp.ch as usize + c]).collect()).collect();
                    let mut e = FlacChannelWriter::new(w, options(inp), 44100, inp.bps, inp.ch, total.map(|t| t / inp.ch as u64))?;
                    e.write(&chans)?;
                    e.finalize()
                }),
            }
        }};
    }
    let r = match stack {
        "raw" => with_writer!(Spy { inner: dev.clone(), log: log.clone() }),
        "buf" => with_writer!(Spy { inner: BufWriter::new(dev.clone()), log: log.clone() }),
        _ => with_writer!(Spy { inner: BufWriter::with_capacity(16, dev.clone()), log: log.clone() }),
    };
    let prog = prog_text(&log.borrow());
    Outcome { class: class_of(r), dev: dev.data(), dev2: None, counts: dev.counts(), counts2: [0; 4], err_reads: 0, prog }
}

/// A caller that does not give up at the first error: one large `write` (more PCM frames than a block can hold,
/// > 65535 in the big variants) hits a failing write call, the error is returned — and the caller then finalizes
/// (mode "finalize") or simply drops the writer (mode "drop") on a device that works again ("once") or stays broken
/// ("perm").  Neither may panic.  Returns (class of the write, class of finalize / "dropped", panic message if any).
fn run_encode_salvage(front: &str, frames: usize, ch: u8, nth_write: usize, perm: bool, then_drop: bool, more: bool) -> (String, String, Option<String>) {
    let sched = sched_for('w', if perm { "perm" } else { "once" }, nth_write, 1);
    let dev = Dev::new(vec![], 0, sched);
    let pcm: Vec<i32> = (0..frames * ch as usize).map(|i| ((i * 37) % 2001) as i32 - 1000).collect();
    let r = catch(|| -> (String, String) {
        let cls = |r: Result<(), Error>| match r { Ok(()) => "ok".to_string(), Err(e) => format!("err:{}", err_class(&e)) };
        match front {
            "sample" => {
                let Ok(mut e) = FlacSampleWriter::new(dev.clone(), Options::default(), 44100, 16, ch, None) else { return ("new-failed".into(), "-".into()) };
                let w = cls(e.write(&pcm));
                if more { let _ = e.write(&pcm[..(100 * ch as usize).min(pcm.len())]); }
                if then_drop { drop(e); (w, "dropped".into()) } else { (w, cls(e.finalize())) }
            }
            "byte" => {
                let Ok(mut e) = FlacByteWriter::endian(dev.clone(), LittleEndian, Options::default(), 44100, 16, ch, None) else { return ("new-failed".into(), "-".into()) };
                let mut raw = vec![];
                for s in &pcm { raw.extend_from_slice(&s.to_le_bytes()[..2]); }
                let w = cls(e.write_all(&raw).map_err(Error::Io));
                if more { let _ = e.write_all(&raw[..(200 * ch as usize).min(raw.len())]); }
                if then_drop { drop(e); (w, "dropped".into()) } else { (w, cls(e.finalize())) }
            }
            _ => {
                let Ok(mut e) = FlacChannelWriter::new(dev.clone(), Options::default(), 44100, 16, ch, None) else { return ("new-failed".into(), "-".into()) };
                let chans: Vec<Vec<i32>> = (0..ch as usize).map(|c| (0..frames).map(|i| pcm[i * ch as usize + c]).collect()).collect();
                let w = cls(e.write(&chans));
                if more { let few: Vec<Vec<i32>> = chans.iter().map(|c| c[..100.min(c.len())].to_vec()).collect(); let _ = e.write(&few); }
                if then_drop { drop(e); (w, "dropped".into()) } else { (w, cls(e.finalize())) }
            }
        }
    });
    match r {
        Ok((w, f)) => (w, f, None),
        Err(p) => ("?".into(), "?".into(), Some(p)),
    }
}

fn run_write_blocks(stack: &str, blocks: &[Block], sched: Sched) -> Outcome {
    let dev = Dev::new(vec![], 0, sched);
    let log = Rc::new(RefCell::new(vec![]));
    let r = match stack {
        "raw" => catch(|| write_blocks(Spy { inner: dev.clone(), log: log.clone() }, blocks.to_vec())),
        _ => catch(|| {
            // a caller that buffers is responsible for the flush; it checks it
            let mut w = Spy { inner: BufWriter::with_capacity(if stack == "buf" { 8192 } else { 16 }, dev.clone()), log: log.clone() };
            write_blocks(&mut w, blocks.to_vec())?;
            w.flush().map_err(Error::Io)
        }),
    };
    let prog = prog_text(&log.borrow());
    Outcome { class: class_of(r), dev: dev.data(), dev2: None, counts: dev.counts(), counts2: [0; 4], err_reads: 0, prog }
}

/// edit: "grow:<n>" insert an application block of n data bytes; "comment:<n>"; "fail"
fn apply_edit(bl: &mut BlockList, edit: &str) -> Result<(), Error> {
    let (k, v) = edit.split_once(':').unwrap_or((edit, "0"));
    let n: usize = v.parse().unwrap_or(0);
    match k {
        "grow" => {
            bl.insert(Application { id: 7, data: vec![0xaa; n] });
        }
        "comment" => bl.update::<VorbisComment>(|vc| vc.set("TITLE", "x".repeat(n))),
        "shrink" => bl.remove::<Application>(),
        // same serialised size as what "comment:<n>" left behind: the equal-size branch of update_file
        "same" => bl.update::<VorbisComment>(|vc| vc.set("TITLE", "y".repeat(n))),
        _ => return Err(Error::InvalidTotalSamples),
    }
    Ok(())
}
fn run_update(file: &[u8], edit: &str, sched1: Sched, sched2: Sched, rebuilt_fails: bool) -> Outcome {
    let dev = Dev::new(file.to_vec(), 0, sched1);
    let dev2 = Dev::new(vec![], 0, sched2);
    let mut d1 = dev.clone();
    let d2 = dev2.clone();
    let r = catch(|| {
        update_file::<_, _, Error>(
            &mut d1,
            || if rebuilt_fails { Err(ioerr(false)) } else { Ok(d2) },
            |bl| apply_edit(bl, edit),
        )
    });
    let er = dev.0.borrow().err_reads;
    Outcome { class: class_of(r), dev: dev.data(), dev2: Some(dev2.data()), counts: dev.counts(), counts2: dev2.counts(), err_reads: er, prog: String::new() }
}
fn run_decode(file: &[u8], sched: Sched) -> (String, Vec<i32>, usize) {
    let dev = Dev::new(file.to_vec(), 0, sched);
    let mut out = vec![];
    let r = catch(|| -> Result<(), Error> {
        let mut rd = FlacSampleReader::new(dev.clone())?;
        loop {
            let buf = rd.fill_buf()?;
            if buf.is_empty() {
                return Ok(());
            }
            let n = buf.len();
            out.extend_from_slice(buf);
            rd.consume(n);
        }
    });
    let er = dev.0.borrow().err_reads;
    (class_of(r), out, er)
}

// ------------------------------------------------------------------ schedules
fn stream_for(mode: &str, n: usize, half: usize) -> Stream {
    let mut p: VecDeque<Fault> = std::iter::repeat(Fault::Ok).take(n).collect();
    match mode {
        "perm" => Stream { pending: p, dflt_err: true },
        "once" => {
            p.push_back(Fault::Err);
            Stream { pending: p, dflt_err: false }
        }
        "intr" => {
            p.push_back(Fault::Intr);
            Stream { pending: p, dflt_err: false }
        }
        "intr3" => {
            p.extend([Fault::Intr, Fault::Intr, Fault::Intr]);
            Stream { pending: p, dflt_err: false }
        }
        "short1" => {
            p.push_back(Fault::Short(1));
            Stream { pending: p, dflt_err: false }
        }
        "shorthalf" => {
            p.push_back(Fault::Short(half.max(1)));
            Stream { pending: p, dflt_err: false }
        }
        "zero" => {
            p.push_back(Fault::Short(0));
            Stream { pending: p, dflt_err: false }
        }
        _ => Stream::default(),
    }
}
fn sched_for(kind: char, mode: &str, n: usize, half: usize) -> Sched {
    let mut s = Sched::default();
    let st = stream_for(mode, n, half);
    match kind {
        'w' => s.w = st,
        'f' => s.f = st,
        's' => s.s = st,
        _ => s.r = st,
    }
    s
}
fn random_stream(rng: &mut Rng, count: usize, allow_short: bool) -> Stream {
    let n = rng.below(count as u64 + 3) as usize;
    let mut p = VecDeque::new();
    for _ in 0..n {
        p.push_back(match rng.below(20) {
            0 | 1 => Fault::Err,
            2 | 3 => Fault::Intr,
            4 | 5 if allow_short => Fault::Short(rng.range(1, 9) as usize),
            _ => Fault::Ok,
        });
    }
    Stream { pending: p, dflt_err: rng.chance(1, 6) }
}
/// several faults at once, on all call kinds
fn random_sched(rng: &mut Rng, counts: [usize; 4]) -> Sched {
    Sched { w: random_stream(rng, counts[0], true), f: random_stream(rng, counts[1], false), s: random_stream(rng, counts[2], false), r: random_stream(rng, counts[3], true) }
}
const W_MODES: &[&str] = &["perm", "once", "intr", "intr3", "short1", "shorthalf", "zero"];
const FS_MODES: &[&str] = &["perm", "once", "intr"];
const R_MODES: &[&str] = &["perm", "once", "intr", "short1", "shorthalf"];

fn fnv(b: &[u8]) -> String {
    let mut h: u32 = 0x811c9dc5;
    for x in b {
        h ^= *x as u32;
        h = h.wrapping_mul(0x01000193);
    }
    format!("{}:{:08x}", b.len(), h)
}

struct Ctx {
    runs: usize,
    ok_runs: usize,
    err_runs: usize,
    random_runs: usize,
    viols: usize,
    per_scn: std::collections::BTreeMap<String, usize>,
    modes: std::collections::BTreeMap<String, usize>,
    emit_cases: bool,
}
fn viol(ctx: &mut Ctx, key: &str, desc: &str, scn: &str, sched: &str, extra: &[(&str, String)]) {
    ctx.viols += 1;
    let mut f: Vec<(&str, String)> = vec![("t", esc("viol")), ("key", esc(key)), ("desc", esc(desc)), ("scenario", esc(scn)), ("sched", esc(sched))];
    f.extend(extra.iter().cloned());
    println!("{}", obj(&f));
}

/// Runs all single-fault schedules of one writer scenario; `run` performs the scenario.
fn sweep_writer(ctx: &mut Ctx, rng: &mut Rng, nrandom: usize, scn: &str, key_suffix: &str, stack: &str, run: &dyn Fn(Sched) -> Outcome, check_valid: &dyn Fn(&[u8]) -> Option<String>) {
    let base = run(Sched::default());
    if !base.class.starts_with("ok") {
        println!("{}", obj(&[("t", esc("note")), ("msg", esc(&format!("scenario {} fails without faults: {}", scn, base.class)))]));
        return;
    }
    if let Some(why) = check_valid(&base.dev) {
        viol(ctx, &format!("reference-invalid:{}", key_suffix), &format!("fault-free result is not a valid complete file: {}", why), scn, "none", &[("file", esc(&hex(&base.dev)))]);
        return;
    }
    if ctx.emit_cases {
        println!("{}", obj(&[("t", esc("prog")), ("scenario", esc(scn)), ("stack", esc(stack)), ("prog", esc(&base.prog)), ("ref", esc(&fnv(&base.dev))),
            ("counts", esc(&format!("{:?}", base.counts)))]));
    }
    let kinds = [('w', base.counts[0], W_MODES), ('f', base.counts[1], FS_MODES), ('s', base.counts[2], FS_MODES)];
    for (kind, count, modes) in kinds {
        // one index beyond the fault-free count too: calls that only exist on error/drop paths
        for n in 0..count + 1 {
            for mode in modes.iter() {
                let sched = sched_for(kind, mode, n, 3);
                let st = sched.text();
                let o = run(sched);
                ctx.runs += 1;
                *ctx.per_scn.entry(scn.to_string()).or_insert(0) += 1;
                *ctx.modes.entry(format!("{}:{}", kind, mode)).or_insert(0) += 1;
                if o.class.starts_with("panic") {
                    viol(ctx, &format!("panic:{}", key_suffix), &format!("{} panicked under {}: {}", scn, st, o.class), scn, &st, &[]);
                } else if o.class.starts_with("ok") {
                    ctx.ok_runs += 1;
                    if o.dev != base.dev {
                        viol(ctx, &format!("ok-but-incomplete:{}", key_suffix),
                             &format!("{} returned Ok under {} but the device holds {} bytes (fnv {}) instead of the complete result {} — {}", scn, st, o.dev.len(), fnv(&o.dev), fnv(&base.dev),
                                      check_valid(&o.dev).unwrap_or_else(|| "it still decodes".to_string())),
                             scn, &st, &[("device", esc(&hex(&o.dev))), ("expected", esc(&hex(&base.dev)))]);
                    }
                } else {
                    ctx.err_runs += 1;
                }
                if ctx.emit_cases {
                    println!("{}", obj(&[("t", esc("case")), ("scenario", esc(scn)), ("sched", esc(&st)), ("class", esc(o.class.split(':').next().unwrap())),
                        ("dev", esc(&fnv(&o.dev)))]));
                }
            }
        }
    }
    // several simultaneous faults, random
    for _ in 0..nrandom {
        let sched = random_sched(rng, base.counts);
        let st = sched.text();
        let o = run(sched);
        ctx.runs += 1;
        ctx.random_runs += 1;
        *ctx.per_scn.entry(scn.to_string()).or_insert(0) += 1;
        if o.class.starts_with("panic") {
            viol(ctx, &format!("panic:{}", key_suffix), &format!("{} panicked under {}: {}", scn, st, o.class), scn, &st, &[]);
        } else if o.class.starts_with("ok") {
            ctx.ok_runs += 1;
            if o.dev != base.dev {
                viol(ctx, &format!("ok-but-incomplete:{}", key_suffix),
                     &format!("{} returned Ok under {} but the device holds {} instead of the complete result {}", scn, st, fnv(&o.dev), fnv(&base.dev)),
                     scn, &st, &[("device", esc(&hex(&o.dev))), ("expected", esc(&hex(&base.dev)))]);
            }
        } else {
            ctx.err_runs += 1;
        }
        if ctx.emit_cases {
            println!("{}", obj(&[("t", esc("case")), ("scenario", esc(scn)), ("sched", esc(&st)), ("class", esc(o.class.split(':').next().unwrap())), ("dev", esc(&fnv(&o.dev)))]));
        }
    }
}

fn main() {
    quiet_panics();
    let seed = env_seed();
    let thorough = env_tier_thorough();
    let mut rng = Rng::new(seed, 0xC13);
    let nrandom = if thorough { 400 } else { 40 };
    let mut ctx = Ctx { runs: 0, ok_runs: 0, err_runs: 0, random_runs: 0, viols: 0, per_scn: Default::default(), modes: Default::default(), emit_cases: true };

    // ---- inputs
    let mut inputs: Vec<(String, Input)> = vec![];
    let shapes: &[(u8, u32, u16, usize, bool, bool, Option<u32>)] = if thorough {
        &[(1, 16, 16, 40, true, false, None), (2, 16, 16, 37, false, false, Some(20)), (2, 8, 16, 48, true, true, Some(64)), (3, 24, 32, 70, false, true, None), (1, 12, 256, 600, true, true, Some(300))]
    } else {
        &[(1, 16, 16, 40, true, false, None), (2, 8, 16, 37, false, true, Some(200))]
    };
    for (i, (ch, bps, bs, n, declare, seektable, padding)) in shapes.iter().enumerate() {
        let pcm = gen_pcm(&mut rng, PCM_KINDS[i % PCM_KINDS.len()], *ch as usize, *bps, *n);
        inputs.push((format!("in{}", i), Input { ch: *ch, bps: *bps, bs: *bs, pcm, declare: *declare, seektable: *seektable, padding: *padding }));
    }

    // ---- encode + finalize: three front-ends x {raw, BufWriter::new (= create), BufWriter 16}
    for (name, inp) in &inputs {
        let pcm = inp.pcm.clone();
        let valid = move |bytes: &[u8]| -> Option<String> {
            let d = decode_all(bytes);
            if d.end != End::Eof {
                Some(format!("decoding ends with {}", d.end.tag()))
            } else if d.samples != pcm {
                Some(format!("decodes to {} samples, expected {}", d.samples.len(), pcm.len()))
            } else {
                None
            }
        };
        for front in ["sample", "byte", "channel"] {
            for stack in ["raw", "buf", "buf16"] {
                let scn = format!("encode:{}:{}:{}", front, stack, name);
                let key = match stack {
                    "raw" => format!("encode-{}-raw", front),
                    "buf" => format!("encode-{}-create-bufwriter", front),
                    _ => format!("encode-{}-bufwriter16", front),
                };
                ctx.emit_cases = front == "sample" || name == "in0";
                sweep_writer(&mut ctx, &mut rng, nrandom, &scn, &key, stack, &|s| run_encode(front, stack, inp, s), &valid);
            }
        }
    }
    ctx.emit_cases = true;

    // ---- a failed write, then finalize or drop anyway (the writer must not panic whatever it is asked afterwards)
    {
        let mut salvage_runs = 0u64;
        // first find how many write calls `new` makes (the metadata), so that the fault lands inside the first frames
        let sizes: &[usize] = if thorough { &[5000, 65535, 65536, 65537, 70000, 131072] } else { &[5000, 65536, 70000] };
        for front in ["sample", "byte", "channel"] {
            for &(ch, frames_div) in &[(1u8, 1usize), (2u8, 1usize)] {
                for &n in sizes {
                    let frames = n / frames_div;
                    // the n-th write call counted from the start of the device's life: sweep a window that covers the end of
                    // `new` and the first frames of `write`
                    let probe = { let d = Dev::new(vec![], 0, Sched::default()); let _ = FlacSampleWriter::new(d.clone(), Options::default(), 44100, 16, ch, None).map(|w| std::mem::forget(w)); d.counts()[0] };
                    for k in [probe, probe + 1, probe + 2, probe + 5, probe + 9] {
                        for perm in [false, true] {
                            for (then_drop, more) in [(false, false), (true, false), (false, true)] {
                                let (w, f, p) = run_encode_salvage(front, frames, ch, k, perm, then_drop, more);
                                salvage_runs += 1;
                                ctx.runs += 1;
                                let scn = format!("salvage:{}:ch{}:frames{}", front, ch, frames);
                                let st = format!("write call {} fails {} then {}{}", k, if perm { "and all later ones" } else { "once" }, if more { "another small write and " } else { "" }, if then_drop { "drop" } else { "finalize()" });
                                if let Some(p) = p {
                                    viol(&mut ctx, &format!("panic:after-failed-write:{}", front),
                                         &format!("{}: after `write` of {} PCM frames ({} channel(s)) met a failing write call, {} panicked: {}", front, frames, ch, if then_drop { "dropping the writer" } else { "finalize()" }, p),
                                         &scn, &st, &[("write_class", esc(&w)), ("after_class", esc(&f))]);
                                }
                            }
                        }
                    }
                }
            }
        }
        println!("{}", obj(&[("t", esc("note")), ("msg", esc(&format!("finalize/drop after a failed large write: {} runs", salvage_runs)))]));
    }

    // ---- write_blocks
    let si = {
        let (_, inp) = &inputs[0];
        let bytes = run_encode("sample", "raw", inp, Sched::default()).dev;
        BlockList::read(std::io::Cursor::new(&bytes)).expect("reference file reads").streaminfo().clone()
    };
    let blocksets: Vec<(String, Vec<Block>)> = vec![
        ("si".to_string(), vec![si.clone().into()]),
        ("si+app+pad".to_string(), vec![si.clone().into(), Application { id: 1, data: vec![9; 20] }.into(), Padding { size: 30u8.into() }.into()]),
        ("si+bigapp".to_string(), vec![si.clone().into(), Application { id: 1, data: vec![7; if thorough { 20000 } else { 9000 }] }.into()]),
    ];
    for (bn, blocks) in &blocksets {
        for stack in ["raw", "buf", "buf16"] {
            if bn == "si+bigapp" && stack != "buf" {
                continue;
            }
            let scn = format!("write_blocks:{}:{}", stack, bn);
            let bl = blocks.clone();
            let valid = move |bytes: &[u8]| -> Option<String> {
                match BlockList::read(std::io::Cursor::new(bytes)) {
                    Ok(r) => {
                        let got: Vec<Block> = r.into_iter().collect();
                        if got == bl { None } else { Some("blocks read back differ".to_string()) }
                    }
                    Err(e) => Some(format!("does not read back: {}", err_class(&e))),
                }
            };
            sweep_writer(&mut ctx, &mut rng, nrandom, &scn, &format!("write-blocks-{}", stack), stack, &|s| run_write_blocks(stack, blocks, s), &valid);
        }
    }

    // ---- update_file: in place and rebuilt
    for (name, inp) in &inputs {
        let file0 = run_encode("sample", "raw", inp, Sched::default()).dev;
        let has_pad = inp.padding.is_some();
        // (expected path, edit, preparation applied fault-free first)
        let mut edits: Vec<(&str, String, Option<&str>)> = vec![];
        if has_pad {
            edits.push(("inplace", "comment:5".to_string(), None));
            edits.push(("inplace", "grow:3".to_string(), None));
            // the two other in-place branches: metadata of exactly the old size, and shrinking metadata
            edits.push(("inplace", "same:5".to_string(), Some("comment:5")));
            edits.push(("inplace", "shrink:0".to_string(), Some("grow:3")));
            // metadata larger than one buffered read (a 20 000-byte APPLICATION block behind the padding): read faults
            // now also strike in the middle of the block list
            edits.push(("inplace", "comment:5".to_string(), Some("grow:20000")));
        }
        edits.push(("rebuild", "grow:1000".to_string(), None));
        if thorough {
            edits.push(("rebuild", "comment:9000".to_string(), None)); // metadata larger than the BufWriter
        }
        for (expect, edit, prep) in &edits {
            let file = match prep {
                None => file0.clone(),
                Some(p) => {
                    let o = run_update(&file0, p, Sched::default(), Sched::default(), false);
                    match (o.class.as_str(), o.dev2) { ("ok:false", _) => o.dev, ("ok:true", Some(d2)) => d2, _ => continue }
                }
            };
            let scn = format!("update:{}:{}:{}{}", expect, name, edit, match prep { Some(p) => format!(":after:{}", p), None => String::new() });
            let base = run_update(&file, edit, Sched::default(), Sched::default(), false);
            let want = if *expect == "inplace" { "ok:false" } else { "ok:true" };
            if base.class != want {
                println!("{}", obj(&[("t", esc("note")), ("msg", esc(&format!("scenario {} gives {} without faults (wanted {})", scn, base.class, want)))]));
                continue;
            }
            let ref1 = base.dev.clone();
            let ref2 = base.dev2.clone().unwrap();
            let result_file = if *expect == "inplace" { &ref1 } else { &ref2 };
            let d = decode_all(result_file);
            if d.end != End::Eof || d.samples != inp.pcm {
                viol(&mut ctx, "reference-invalid:update", "fault-free update result does not decode to the original PCM", &scn, "none", &[]);
                continue;
            }
            let before_bl = BlockList::read(std::io::Cursor::new(&file)).expect("file reads");
            let mut after_bl = before_bl.clone();
            let after_s = match apply_edit(&mut after_bl, edit) { Ok(()) => describe(&after_bl), Err(_) => "none".to_string() };
            println!("{}", obj(&[("t", esc("uprog")), ("scenario", esc(&scn)), ("file", esc(&hex(&file))), ("edit", esc(edit)), ("expect", esc(expect)),
                ("before", esc(&describe(&before_bl))), ("after", esc(&after_s)), ("si", "34".to_string()), ("len", file.len().to_string()),
                ("ref1", esc(&fnv(&ref1))), ("ref2", esc(&fnv(&ref2))), ("meta_after", esc(&hex(&result_file[..result_file.len() - (file.len() - audio_offset(&file))]))),
                ("audio_off", audio_offset(&file).to_string()), ("counts", esc(&format!("{:?}/{:?}", base.counts, base.counts2)))]));
            // faults on the original device (all four kinds), then on the rebuilt device (writes / flushes)
            let mut plans: Vec<(u8, char, usize, &[&str])> = vec![
                (1, 'w', base.counts[0], W_MODES), (1, 'f', base.counts[1], FS_MODES), (1, 's', base.counts[2], FS_MODES), (1, 'r', base.counts[3], R_MODES),
            ];
            if *expect == "rebuild" {
                plans.push((2, 'w', base.counts2[0], W_MODES));
                plans.push((2, 'f', base.counts2[1], FS_MODES));
            }
            for (which, kind, count, modes) in plans {
                for n in 0..count + 1 {
                    for mode in modes.iter() {
                        let s = sched_for(kind, mode, n, 5);
                        let st = format!("dev{} {}", which, s.text());
                        let o = if which == 1 { run_update(&file, edit, s.clone(), Sched::default(), false) } else { run_update(&file, edit, Sched::default(), s.clone(), false) };
                        ctx.runs += 1;
                        *ctx.per_scn.entry(scn.clone()).or_insert(0) += 1;
                        *ctx.modes.entry(format!("{}:{}", kind, mode)).or_insert(0) += 1;
                        if o.class.starts_with("panic") {
                            viol(&mut ctx, "panic:update", &format!("{} panicked under {}: {}", scn, st, o.class), &scn, &st, &[]);
                        } else if o.class.starts_with("ok") {
                            ctx.ok_runs += 1;
                            if o.class != want {
                                viol(&mut ctx, "update-path-changed-under-faults", &format!("{} returned {} under {} (fault-free: {})", scn, o.class, st, want), &scn, &st, &[]);
                            } else if *expect == "inplace" && o.dev != ref1 {
                                viol(&mut ctx, "update-inplace-unchecked-flush",
                                     &format!("{} returned Ok(false) under {} but the file holds {} instead of the updated {}{}", scn, st, fnv(&o.dev), fnv(&ref1),
                                              if o.dev == file { " (it is byte-for-byte the ORIGINAL file: the edit was lost)" } else { "" }),
                                     &scn, &st, &[("device", esc(&hex(&o.dev))), ("expected", esc(&hex(&ref1)))]);
                            } else if *expect == "rebuild" && o.dev2.as_ref() != Some(&ref2) {
                                viol(&mut ctx, "ok-but-incomplete:update-rebuild",
                                     &format!("{} returned Ok(true) under {} but the rebuilt file holds {} instead of {}", scn, st, fnv(o.dev2.as_ref().unwrap()), fnv(&ref2)),
                                     &scn, &st, &[]);
                            }
                            if o.err_reads > 0 {
                                viol(&mut ctx, "read-error-swallowed:update", &format!("{} returned {} although {} read call(s) failed with a non-transient error", scn, o.class, o.err_reads), &scn, &st, &[]);
                            }
                        } else {
                            ctx.err_runs += 1;
                        }
                        println!("{}", obj(&[("t", esc("ucase")), ("scenario", esc(&scn)), ("dev", which.to_string()), ("sched", esc(&s.text())), ("class", esc(&o.class.split(':').take(2).collect::<Vec<_>>().join(":"))),
                            ("d1", esc(&fnv(&o.dev))), ("d2", esc(&fnv(o.dev2.as_ref().unwrap())))]));
                    }
                }
            }
            // several simultaneous faults on both devices, random
            for _ in 0..nrandom {
                let s1 = random_sched(&mut rng, base.counts);
                let mut s2 = random_sched(&mut rng, base.counts2);
                s2.s = Stream::default();
                s2.r = Stream::default();
                let st = format!("dev1 {} | dev2 {}", s1.text(), s2.text());
                let o = run_update(&file, edit, s1.clone(), s2.clone(), false);
                ctx.runs += 1;
                ctx.random_runs += 1;
                *ctx.per_scn.entry(scn.clone()).or_insert(0) += 1;
                if o.class.starts_with("panic") {
                    viol(&mut ctx, "panic:update", &format!("{} panicked under {}: {}", scn, st, o.class), &scn, &st, &[]);
                } else if o.class.starts_with("ok") {
                    ctx.ok_runs += 1;
                    let short_read_lie = false;
                    let _ = short_read_lie;
                    if o.class != want {
                        viol(&mut ctx, "update-path-changed-under-faults", &format!("{} returned {} under {} (fault-free: {})", scn, o.class, st, want), &scn, &st, &[]);
                    } else if *expect == "inplace" && o.dev != ref1 {
                        viol(&mut ctx, "update-inplace-unchecked-flush", &format!("{} returned Ok(false) under {} but the file holds {} instead of the updated {}", scn, st, fnv(&o.dev), fnv(&ref1)), &scn, &st, &[]);
                    } else if *expect == "rebuild" && o.dev2.as_ref() != Some(&ref2) {
                        viol(&mut ctx, "ok-but-incomplete:update-rebuild", &format!("{} returned Ok(true) under {} but the rebuilt file holds {} instead of {}", scn, st, fnv(o.dev2.as_ref().unwrap()), fnv(&ref2)), &scn, &st, &[]);
                    }
                    if o.err_reads > 0 {
                        viol(&mut ctx, "read-error-swallowed:update", &format!("{} returned {} although {} read call(s) failed with a non-transient error", scn, o.class, o.err_reads), &scn, &st, &[]);
                    }
                } else {
                    ctx.err_runs += 1;
                }
                println!("{}", obj(&[("t", esc("ucase")), ("scenario", esc(&scn)), ("dev", "1".to_string()), ("sched", esc(&s1.text())), ("sched2", esc(&s2.text())),
                    ("class", esc(&o.class.split(':').take(2).collect::<Vec<_>>().join(":"))), ("d1", esc(&fnv(&o.dev))), ("d2", esc(&fnv(o.dev2.as_ref().unwrap())))]));
            }
            // the `rebuilt` closure itself failing
            if *expect == "rebuild" {
                let o = run_update(&file, edit, Sched::default(), Sched::default(), true);
                ctx.runs += 1;
                if o.class.starts_with("ok") || o.class.starts_with("panic") {
                    viol(&mut ctx, "rebuilt-closure-error-swallowed", &format!("{}: the rebuilt() closure failed but update_file returned {}", scn, o.class), &scn, "rebuilt() fails", &[]);
                }
            }
        }
        // ---- decode: read faults are propagated, never a silently shorter stream
        let file = file0.clone();
        let base = run_decode(&file, Sched::default());
        if base.0 == "ok" && base.1 == inp.pcm {
            let nr = Dev::new(file.clone(), 0, Sched::default());
            let _ = nr;
            let count = {
                let dev = Dev::new(file.clone(), 0, Sched::default());
                let _ = catch(|| {
                    let mut rd = FlacSampleReader::new(dev.clone()).unwrap();
                    loop {
                        let n = rd.fill_buf().unwrap().len();
                        if n == 0 { break; }
                        rd.consume(n);
                    }
                });
                dev.counts()[3]
            };
            for n in 0..count + 1 {
                for mode in R_MODES.iter() {
                    let s = sched_for('r', mode, n, 7);
                    let st = s.text();
                    let (class, samples, er) = run_decode(&file, s);
                    ctx.runs += 1;
                    *ctx.per_scn.entry(format!("decode:{}", name)).or_insert(0) += 1;
                    if class.starts_with("panic") {
                        viol(&mut ctx, "panic:decode-read-fault", &format!("decoding panicked under {}: {}", st, class), &format!("decode:{}", name), &st, &[]);
                    } else if class == "ok" {
                        ctx.ok_runs += 1;
                        if samples != inp.pcm || er > 0 {
                            viol(&mut ctx, "read-error-swallowed:decode", &format!("decoding returned a clean end with {} of {} samples under {} ({} failed read calls)", samples.len(), inp.pcm.len(), st, er), &format!("decode:{}", name), &st, &[]);
                        }
                    } else {
                        ctx.err_runs += 1;
                    }
                }
            }
        }
    }
    let per = obj(&ctx.per_scn.iter().map(|(k, v)| (k.as_str(), v.to_string())).collect::<Vec<_>>());
    let modes = obj(&ctx.modes.iter().map(|(k, v)| (k.as_str(), v.to_string())).collect::<Vec<_>>());
    println!("{}", obj(&[("t", esc("stat")), ("runs", ctx.runs.to_string()), ("ok_runs", ctx.ok_runs.to_string()), ("err_runs", ctx.err_runs.to_string()), ("random_multi_fault_runs", ctx.random_runs.to_string()),
        ("viols", ctx.viols.to_string()), ("per_scenario", per), ("modes", modes)]));
}

/// (type code, body size, uniqueness class or -1) of each optional block, as "ty:size:uc;..."
fn describe(bl: &BlockList) -> String {
    use flac_codec::metadata::{BlockRef, MetadataBlock, PictureType};
    bl.blocks()
        .skip(1)
        .map(|b| {
            let sz = |o: Option<flac_codec::metadata::BlockSize>| o.map(|s| u32::from(s) as u64).unwrap_or(1 << 24);
            let (t, s, u) = match b {
                BlockRef::Streaminfo(x) => (0, sz(x.bytes()), -1),
                BlockRef::Padding(x) => (1, sz(x.bytes()), -1),
                BlockRef::Application(x) => (2, sz(x.bytes()), -1),
                BlockRef::SeekTable(x) => (3, sz(x.bytes()), 0),
                BlockRef::VorbisComment(x) => (4, sz(x.bytes()), 1),
                BlockRef::Cuesheet(x) => (5, sz(x.bytes()), -1),
                BlockRef::Picture(x) => (6, sz(x.bytes()), match x.picture_type { PictureType::Png32x32 => 2, PictureType::GeneralFileIcon => 3, _ => -1 }),
            };
            format!("{}:{}:{}", t, s, u)
        })
        .collect::<Vec<_>>()
        .join(";")
}

fn audio_offset(file: &[u8]) -> usize {
    let mut c = std::io::Cursor::new(file);
    let _ = BlockList::read(&mut c);
    c.position() as usize
}
