(* Codec/Agree_arith.v — the decoder's fixed-width prediction arithmetic (Release profile: wrapping)
   computes the exact integer semantics whenever the reconstructed samples fit the sample type. *)
From FlacCodec Require Import Dec.
Open Scope Z_scope.

Lemma pow2_pos w : 0 <= w -> 0 < 2 ^ w.
Proof. intros. apply Z.pow_pos_nonneg; lia. Qed.

Lemma arith_s_release_eq w z : 0 < w -> arith_s Release w z = Ok (wrap_s w z).
Proof.
  intros Hw. unfold arith_s. destruct (in_s w z) eqn:E; [|reflexivity]. rewrite wrap_s_id; auto.
Qed.

(* wrap is a ring homomorphism onto residues: inner wraps can be dropped *)
Lemma wrap_s_mod w z : 0 < w -> (wrap_s w z) mod 2 ^ w = z mod 2 ^ w.
Proof.
  intros Hw. unfold wrap_s. pose proof (pow2_pos w ltac:(lia)) as Hp.
  destruct (z mod 2 ^ w <? 2 ^ (w - 1)).
  - apply Z.mod_mod. lia.
  - rewrite Zminus_mod, Z.mod_mod, Z_mod_same_full, Z.sub_0_r, Z.mod_mod by lia. reflexivity.
Qed.
Lemma wrap_s_congr w a b : 0 < w -> a mod 2 ^ w = b mod 2 ^ w -> wrap_s w a = wrap_s w b.
Proof. intros Hw H. unfold wrap_s. rewrite H. reflexivity. Qed.
Lemma wrap_s_add_l w a b : 0 < w -> wrap_s w (wrap_s w a + b) = wrap_s w (a + b).
Proof.
  intros Hw. apply wrap_s_congr; auto.
  rewrite Zplus_mod, wrap_s_mod, <- Zplus_mod by lia. reflexivity.
Qed.
Lemma wrap_s_add_r w a b : 0 < w -> wrap_s w (a + wrap_s w b) = wrap_s w (a + b).
Proof. intros Hw. rewrite Z.add_comm, wrap_s_add_l, Z.add_comm by lia. reflexivity. Qed.

Lemma in_s_spec w z : in_s w z = true <-> - 2 ^ (w - 1) <= z < 2 ^ (w - 1).
Proof. unfold in_s. rewrite andb_true_iff, Z.leb_le, Z.ltb_lt. tauto. Qed.

Lemma in_s_mono w w' z : 0 < w <= w' -> in_s w z = true -> in_s w' z = true.
Proof.
  intros Hw H. apply in_s_spec in H. apply in_s_spec.
  assert (2 ^ (w - 1) <= 2 ^ (w' - 1)) by (apply Z.pow_le_mono_r; lia). lia.
Qed.

(* ---- dot product ---- *)
Lemma dot_p_release : forall xs cs acc, in_s 64 acc = true ->
  dot_p xs cs acc = Ok (wrap_s 64 (acc + dot xs cs)).
Proof.
  induction xs as [|x xs IH]; intros [|c cs] acc Ha; cbn [dot_p dot];
    try (rewrite Z.add_0_r, wrap_s_id by (auto; lia); reflexivity).
  rewrite arith_s_release_eq by lia. cbn [bind]. rewrite arith_s_release_eq by lia. cbn [bind].
  rewrite IH by (apply wrap_s_range; lia).
  f_equal. rewrite wrap_s_add_r by lia. rewrite wrap_s_add_l by lia. f_equal. lia.
Qed.

Definition small_x (x : Z) : Prop := - 2 ^ 32 <= x < 2 ^ 32.
Definition small_c (c : Z) : Prop := - 2 ^ 14 <= c < 2 ^ 14.

Lemma dot_bound : forall xs cs, Forall small_x xs -> Forall small_c cs ->
  Z.abs (dot xs cs) <= Z.of_nat (length cs) * 2 ^ 46.
Proof.
  assert (P46 : 0 < 2 ^ 46) by reflexivity.
  induction xs as [|x xs IH]; intros [|c cs] Hx Hc; cbn [dot];
    try (change (Z.abs 0) with 0; apply Z.mul_nonneg_nonneg; lia).
  cbn [length].
  - inversion Hx; inversion Hc; subst. specialize (IH cs H2 H6).
    unfold small_x, small_c in *. change (2 ^ 32) with 4294967296 in *. change (2 ^ 14) with 16384 in *.
    change (2 ^ 46) with 70368744177664 in *.
    assert (Z.abs (x * c) <= 70368744177664) by (rewrite Z.abs_mul; nia).
    rewrite Nat2Z.inj_succ. lia.
Qed.

Lemma dot_in_s64 xs cs : Forall small_x xs -> Forall small_c cs -> (length cs <= 32)%nat ->
  in_s 64 (dot xs cs) = true.
Proof.
  intros Hx Hc HL. pose proof (dot_bound xs cs Hx Hc) as B. apply in_s_spec.
  change (2 ^ (64 - 1)) with 9223372036854775808. change (2 ^ 46) with 70368744177664 in B. lia.
Qed.

(* ---- predict ---- *)
Lemma from_i64_wrap w z : (w = 32 \/ w = 64) -> in_s 64 z = true -> wrap_s w (from_i64 w z) = wrap_s w z.
Proof.
  intros [-> | ->] Hz; unfold from_i64; cbn [Z.eqb].
  - unfold as_i32. apply wrap_s_congr; [lia|]. apply wrap_s_mod. lia.
  - reflexivity.
Qed.

(* the part of predict_z's output that is computed (everything after the warm-up) *)
Fixpoint pz_tail (coeffs : list Z) (shift : Z) (done_rev todo : list Z) : list Z :=
  match todo with
  | [] => []
  | r :: rest => let v := r + dot done_rev coeffs / 2 ^ shift in v :: pz_tail coeffs shift (v :: done_rev) rest
  end.
Lemma predict_z_split coeffs shift : forall todo done_rev,
  predict_z coeffs shift done_rev todo = rev done_rev ++ pz_tail coeffs shift done_rev todo.
Proof.
  induction todo as [|r rest IH]; intros l; cbn [predict_z pz_tail].
  - rewrite app_nil_r. reflexivity.
  - rewrite IH. cbn [rev]. rewrite <- app_assoc. reflexivity.
Qed.

Lemma predict_release w coeffs shift : (w = 32 \/ w = 64) -> 0 <= shift < 64 ->
  Forall small_c coeffs -> (length coeffs <= 32)%nat ->
  forall todo done_rev,
    Forall small_x done_rev ->
    Forall (fun v => in_s w v = true /\ small_x v) (pz_tail coeffs shift done_rev todo) ->
    predict w coeffs shift done_rev todo = Ok (predict_z coeffs shift done_rev todo).
Proof.
  intros Hw Hs Hc HL. induction todo as [|r rest IH]; intros done_rev Hd Hout; cbn [predict predict_z]; [reflexivity|].
  rewrite dot_p_release by reflexivity. cbn [bind]. rewrite Z.add_0_l.
  pose proof (dot_in_s64 done_rev coeffs Hd Hc HL) as Hdot.
  rewrite wrap_s_id by (auto; lia).
  unfold shr_s. destruct (Z.ltb_spec shift 64) as [_|]; [|lia]. cbn [bind].
  assert (Hw0 : 0 < w) by (destruct Hw; lia).
  cbn [pz_tail] in Hout. cbv zeta in Hout.
  set (v := r + dot done_rev coeffs / 2 ^ shift) in *.
  inversion Hout as [|? ? [Hv1 Hv2] Hrest]; subst.
  assert (Ev : from_i64 w (wrap_s 64 v) = v).
  { assert (Hv64 : in_s 64 v = true) by (destruct Hw as [-> | ->]; [eapply in_s_mono; [|exact Hv1]; lia|exact Hv1]).
    rewrite wrap_s_id by (auto; lia).
    destruct Hw as [-> | ->]; unfold from_i64; cbn [Z.eqb]; [|reflexivity].
    unfold as_i32. apply wrap_s_id; [lia|exact Hv1]. }
  cbv zeta. rewrite Ev. apply IH; [constructor; assumption|exact Hrest].
Qed.
