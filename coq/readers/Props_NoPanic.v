(* Property C04 at the reader front-ends — statements only (proofs: NoPanic.v): NO seek-free history of the sample,
   byte or channel reader model panics, on ANY stream: any number of failing frames anywhere, any STREAMINFO total,
   calls continuing after errors and after the end of the stream.  Hypotheses: the frames that decode are well formed
   (what the decoder core hands out), the count of decoded PCM frames fits 64 bits, consume(k) stays within what
   fill_buf showed; for the channel reader also: the code after the repair of its error path, and whatever a failed
   decode left in the frame buffer has fewer than 2^64 PCM frames. *)
From FlacReaders Require Import Spec Lists_proofs Frame_proofs Core_proofs Run_proofs Damaged NoPanic.
Open Scope N_scope.

Theorem C07_sample_reader_never_panics : forall (F : file) (ops : list sop),
  slots_ok (f_channels F) (f_slots F) -> goodlen (f_slots F) < U64 ->
  no_sseek ops -> Forall s_consume_ok (snd (sample_run F ops)) ->
  Forall (fun x => forall k, snd x <> OPanic k) (snd (sample_run F ops)).
Proof.
  intros F ops Hok Hr Hno Hc. unfold sample_run in *. rewrite run_is_run_from in *.
  eapply sample_history_never_panics; eauto. apply dec_ok_new; assumption.
Qed.

Theorem C07_byte_reader_never_panics : forall (F : file) (ops : list bop),
  slots_ok (f_channels F) (f_slots F) -> goodlen (f_slots F) < U64 ->
  1 <= bytes_per_sample (f_bps F) <= 4 ->
  no_bseek ops -> Forall b_consume_ok (snd (byte_run F ops)) ->
  Forall (fun x => forall k, snd x <> OPanic k) (snd (byte_run F ops)).
Proof.
  intros F ops Hok Hr Hw Hno Hc. unfold byte_run in *. rewrite run_is_run_from in *.
  eapply byte_history_never_panics; eauto. apply dec_ok_new; assumption.
Qed.

Theorem C07_channel_reader_never_panics : forall (F : file) (ops : list cop),
  slots_ok (f_channels F) (f_slots F) -> goodlen (f_slots F) < U64 ->
  f_rev F = Repaired -> (forall g, In (SBad g) (f_slots F) -> pcm_frames g < U64) ->
  no_cseek ops -> Forall c_consume_ok (snd (chan_run F ops)) ->
  Forall (fun x => forall k, snd x <> OPanic k) (snd (chan_run F ops)).
Proof.
  intros F ops Hok Hr Hrev Hbad Hno Hc. unfold chan_run in *. rewrite run_is_run_from in *.
  eapply chan_history_never_panics; eauto. apply CN_new; assumption.
Qed.

(* non-vacuity: a stream with two failing frames, a short last frame and calls that go on after the errors *)
Example C07_never_panics_nonvacuous :
  let F := {| f_slots := [SBad [[9; 9]; [7; 7]]%Z; SFrame [[1; 2; 3]; [-1; -2; -3]]%Z; SBad []; SFrame [[4]; [-4]]%Z];
              f_channels := 2; f_bps := 16; f_total := None; f_table := None; f_seekable := false; f_endian := BE;
              f_profile := Debug; f_usize_bits := 64; f_rev := Repaired |} in
  slots_ok 2 (f_slots F) /\ goodlen (f_slots F) < U64 /\
  outs (snd (sample_run F [SRead 4; SRead 4; SNext; SRead 9; SFill; SRead 1; SNext; SNext])) =
    [OErr ECrc16; OSamples [1; -1; 2; -2]; OItem (Some 3); OSamples [-3]; OErr ECrc16; OSamples [4]; OItem (Some (-4)); OItem None]%Z /\
  outs (snd (chan_run F [CFill; CFill; CConsume 3; CFill; CFill; CConsume 1; CFill; CFill])) =
    [OErr ECrc16; OChans [[1; 2; 3]; [-1; -2; -3]]; OUnit; OErr ECrc16; OChans [[4]; [-4]]; OUnit; OChans [[]; []]; OChans [[]; []]]%Z.
Proof. cbv zeta. split; [repeat constructor|]. split; [vm_compute; reflexivity|]. split; vm_compute; reflexivity. Qed.

Print Assumptions C07_sample_reader_never_panics.
Print Assumptions C07_byte_reader_never_panics.
Print Assumptions C07_channel_reader_never_panics.
Print Assumptions C07_never_panics_nonvacuous.
