(* Codec/Agree_frame.v — whole frames: on every well-formed RFC-valid frame the streaming decoder
   (decode.rs read_frame / FlacStreamReader::read, Release arithmetic) returns exactly the samples
   the format defines and leaves exactly the bytes after the frame. *)
From FlacCodec Require Import Parser_proofs Dec Spec Roundtrip_sub Roundtrip_hdr Roundtrip_frame Agree_chan.
From FlacBase Require Import Crc.
Open Scope N_scope.

(* dec_frame with the body parser abstracted *)
Definition gen_frame {A} (si : option streaminfo) (pre_check : header -> res unit) (bp : header -> P A) (bytes : list N)
  : res (header * A * list N) :=
  let s0 := bits_of_bytes bytes in
  match parse_header_fields si s0 with
  | Err e => Err e | Panic k => Panic k
  | Ok (h0, s1) =>
    h <- (match si with Some i => header_checks i h0 | None => Ok h0 end) ;;
    if negb (crc8 (firstn (consumed_bytes bytes s1) bytes) =? 0) then Err ECrc8 else
    _ <- pre_check h ;;
    match (chans <-- bp h ;; _ <-- p_align ;; _ <-- p_rd 16 ;; pret chans) s1 with
    | Err e => Err e | Panic k => Panic k
    | Ok (chans, s2) =>
      let n := consumed_bytes bytes s2 in
      if crc16 (firstn n bytes) =? 0 then Ok (h, chans, skipn n bytes) else Err ECrc16
    end
  end.

Lemma dec_frame_gen si chk bytes : dec_frame si chk bytes = gen_frame si chk dec_subframes bytes.
Proof. reflexivity. Qed.

Local Opaque wr wr_unary cont_bytes.

(* bytes of a frame whose body bits are W *)
Definition frame_bytes (hb W : bits) : list N :=
  let hbytes := bytes_of_bits (length hb / 8) hb in
  let hdr := hbytes ++ [crc8 hbytes] in
  let body := pad_to_byte W in
  let all := hdr ++ bytes_of_bits (length body / 8) body in
  all ++ [N.shiftr (crc16 all) 8; N.land (crc16 all) 255].

Lemma write_frame_bytes f hb : write_header_fields (f_hdr f) = Some hb ->
  write_frame f = Some (frame_bytes hb (write_subframes (h_assign (f_hdr f)) (h_bps (f_hdr f)) 0 (f_subs f))).
Proof. intros E. unfold write_frame, frame_bytes. rewrite E. reflexivity. Qed.

Theorem gen_frame_roundtrip {A} si chk (bp : header -> P A) h hb W (x : A) rest :
  wf_header si h = true -> write_header_fields h = Some hb ->
  (match si with Some i => header_checks i h | None => Ok h end) = Ok h ->
  chk h = Ok tt -> encodes (bp h) W x ->
  gen_frame si chk bp (frame_bytes hb W ++ rest) = Ok (h, x, rest).
Proof.
  intros Hhdr Ehb Hck Hchk Hbp.
  pose proof (header_bits_aligned _ _ Ehb) as Hal.
  destruct (bits_of_bytes_of_bits (length hb / 8) hb) as (Hb1 & Hb2 & Hb3).
  { symmetry. apply mod8_div8. exact Hal. }
  unfold frame_bytes. cbv zeta.
  remember (bytes_of_bits (length hb / 8) hb) as hbytes.
  remember (pad_to_byte W) as body.
  destruct (bits_of_bytes_of_bits (length body / 8) body) as (Bb1 & Bb2 & Bb3).
  { symmetry. apply mod8_div8. subst body. apply pad_to_byte_length. }
  remember (bytes_of_bits (length body / 8) body) as bbytes.
  remember ((hbytes ++ [crc8 hbytes]) ++ bbytes) as all.
  assert (Hall : Forall byte all).
  { subst all. rewrite !Forall_app. repeat split; auto. constructor; [apply crc8_lt; auto|constructor]. }
  unfold gen_frame.
  assert (Ebits : bits_of_bytes ((all ++ [N.shiftr (crc16 all) 8; N.land (crc16 all) 255]) ++ rest) =
                  (hb ++ wr 8 (crc8 hbytes)) ++ body ++ (wr 8 (N.shiftr (crc16 all) 8) ++ wr 8 (N.land (crc16 all) 255)) ++ bits_of_bytes rest).
  { subst all. rewrite !bits_of_bytes_app. rewrite Hb1, Bb1. cbn [bits_of_bytes flat_map]. unfold byte_bits.
    rewrite !app_nil_r. rewrite <- !app_assoc. reflexivity. }
  rewrite Ebits.
  pose proof (header_roundtrip si h hb (crc8 hbytes) Hhdr Ehb (crc8_lt _ Hb2)) as Hhr.
  rewrite (Hhr _). rewrite Hck. cbn [bind].
  assert (Lbits : forall l : list N, length (bits_of_bytes l) = (8 * length l)%nat) by apply bits_of_bytes_length.
  assert (Ecb1 : consumed_bytes ((all ++ [N.shiftr (crc16 all) 8; N.land (crc16 all) 255]) ++ rest)
                   (body ++ (wr 8 (N.shiftr (crc16 all) 8) ++ wr 8 (N.land (crc16 all) 255)) ++ bits_of_bytes rest) = length (hbytes ++ [crc8 hbytes])).
  { assert (Lbody : length body = (8 * length bbytes)%nat) by (rewrite <- Bb1; apply Lbits).
    unfold consumed_bytes. rewrite !app_length, !wr_length, Lbits, Lbody.
    subst all. rewrite !app_length. cbn [length].
    replace (8 * length bbytes + (8 + 8 + 8 * length rest))%nat with ((length bbytes + 2 + length rest) * 8)%nat by lia.
    rewrite Nat.div_mul by lia. lia. }
  rewrite Ecb1.
  assert (Efn : firstn (length (hbytes ++ [crc8 hbytes])) ((all ++ [N.shiftr (crc16 all) 8; N.land (crc16 all) 255]) ++ rest) = hbytes ++ [crc8 hbytes]).
  { subst all. rewrite <- !app_assoc. rewrite app_assoc. apply firstn_app_exact. reflexivity. }
  rewrite Efn. rewrite crc8_append by exact Hb2. cbn [N.eqb negb].
  rewrite Hchk. cbn [bind].
  unfold pbind at 1. unfold pbind at 1.
  subst body. unfold pad_to_byte. rewrite <- !app_assoc.
  rewrite (Hbp _).
  set (pad := ((8 - length W mod 8) mod 8)%nat) in *.
  set (tailbits := wr 8 (N.shiftr (crc16 all) 8) ++ wr 8 (N.land (crc16 all) 255) ++ bits_of_bytes rest).
  assert (Ealign : p_align (repeat false pad ++ tailbits) = Ok (tt, tailbits)).
  { unfold p_align. f_equal. f_equal.
    assert (Hp : (pad < 8)%nat) by (unfold pad; apply Nat.mod_upper_bound; lia).
    assert (Lt : length (repeat false pad ++ tailbits) = (pad + (2 + length rest) * 8)%nat).
    { unfold tailbits. rewrite !app_length, repeat_length, !wr_length, Lbits. lia. }
    rewrite Lt. rewrite Nat.mod_add by lia. rewrite Nat.mod_small by exact Hp.
    apply skipn_app_exact. rewrite repeat_length. reflexivity. }
  unfold pbind. rewrite Ealign.
  destruct (rd_exact 16 0 (wr 8 (N.shiftr (crc16 all) 8) ++ wr 8 (N.land (crc16 all) 255)) (bits_of_bytes rest)) as [v16 Hv16].
  { rewrite app_length, !wr_length. reflexivity. }
  unfold p_rd, rd. unfold tailbits. rewrite app_assoc. rewrite Hv16. unfold pret.
  assert (Ecb2 : consumed_bytes ((all ++ [N.shiftr (crc16 all) 8; N.land (crc16 all) 255]) ++ rest) (bits_of_bytes rest)
                 = length (all ++ [N.shiftr (crc16 all) 8; N.land (crc16 all) 255])).
  { unfold consumed_bytes. rewrite Lbits, app_length. rewrite (Nat.mul_comm 8), Nat.div_mul by lia. lia. }
  rewrite !(app_assoc all). rewrite Ecb2. rewrite firstn_app_exact by reflexivity. rewrite crc16_append by exact Hall.
  cbn [N.eqb]. rewrite skipn_app_exact by reflexivity. reflexivity.
Qed.

(* C03 core (Release arithmetic): the decoder returns what the format defines *)
Theorem dec_frame_agree si chk f bytes rest :
  wf_frame si f = true -> spec_frame f = true -> write_frame f = Some bytes ->
  chk (f_hdr f) = Ok tt ->
  dec_frame si chk (bytes ++ rest) = Ok (f_hdr f, sem_frame f, rest).
Proof.
  unfold wf_frame, spec_frame. intros Hwf Hsp Hw Hchk.
  apply andb_prop in Hwf. destruct Hwf as [Hwf Hck].
  apply andb_prop in Hwf. destruct Hwf as [Hwf Hsubs].
  apply andb_prop in Hwf. destruct Hwf as [Hhdr Hlen]. apply Nat.eqb_eq in Hlen.
  apply andb_prop in Hsp. destruct Hsp as [Hsp Hb32]. apply andb_prop in Hsp. destruct Hsp as [Hsp Hb1].
  apply andb_prop in Hsp. destruct Hsp as [Hss Hout]. apply N.leb_le in Hb1. apply N.leb_le in Hb32.
  destruct (write_header_fields (f_hdr f)) as [hb|] eqn:Ehb.
  2:{ unfold write_frame in Hw. rewrite Ehb in Hw. discriminate. }
  rewrite (write_frame_bytes f hb Ehb) in Hw. injection Hw as <-.
  rewrite dec_frame_gen. apply gen_frame_roundtrip; auto.
  - destruct si as [i|]; [|reflexivity]. unfold header_checks in *.
    repeat match goal with |- context [if ?c then _ else _] => destruct c; [cbn in Hck; discriminate|] end. reflexivity.
  - unfold sem_frame. apply dec_subframes_agree; auto.
    unfold wf_header in Hhdr. repeat (apply andb_prop in Hhdr; destruct Hhdr as [Hhdr ?]). assumption.
Qed.
