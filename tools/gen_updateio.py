#!/usr/bin/env python3
"""Translator (data + anchors) for the `updateio` area: regenerate coq/updateio/GenUpd.v from
<repo>/src/metadata/mod.rs, src/encode.rs and src/lib.rs.

Data: BlockSize::MAX, BlockHeader::SIZE, FLAC_TAG, the block-type codes.
Anchors (normalised text compared with what the Coq model mirrors): grow_padding,
shrink_padding, BlockSize::checked_add/checked_sub, the three-way `match new_size.cmp(&old_size)`
of update_file, the serial `join`/`try_join`/`vec_map`, Counter::write.
Missing item -> prints ANCHOR-LOST and exits 2 (broken tie); changed text -> ANCHOR-CHANGED, exit 3
(a note, not a violation)."""
import os
import re
import sys


def norm(s):
    s = re.sub(r"//[^\n]*", "", s)
    return re.sub(r"\s+", "", s)


def safe_eval(expr):
    if not re.fullmatch(r"[0-9xXa-fA-F\s()+\-*/<]+", expr):
        raise ValueError("unexpected constant expression: %r" % expr)
    return int(eval(expr.replace("/", "//"), {"__builtins__": {}}, {}))


def fn_body(src, header_rx):
    """text of the brace-balanced body following the first match of header_rx"""
    m = re.search(header_rx, src)
    if not m:
        raise ValueError("not found: %s" % header_rx)
    i = src.index("{", m.end() - 1)
    depth = 0
    for j in range(i, len(src)):
        if src[j] == "{":
            depth += 1
        elif src[j] == "}":
            depth -= 1
            if depth == 0:
                return src[i:j + 1]
    raise ValueError("unbalanced body: %s" % header_rx)


EXPECT = {
    "grow_padding": "{letpadding=blocks.get_mut::<Padding>().ok_or(())?;padding.size=padding.size.checked_add(more_bytes.try_into().map_err(|_|())?).ok_or(())?;Ok(())}",
    "shrink_padding": "{letpadding=blocks.get_mut::<Padding>().ok_or(())?;padding.size=padding.size.checked_sub(fewer_bytes.try_into().map_err(|_|())?).ok_or(())?;Ok(())}",
    "checked_add": "{self.0.checked_add(rhs.0).filter(|s|*s<=Self::MAX).map(Self)}",
    "checked_sub": "{self.0.checked_sub(rhs.0).map(Self)}",
    "join_serial": "{(oper_a(),oper_b())}",
    "try_join": "{let(a,b)=join(oper_a,oper_b);Ok((a?,b?))}",
    "vec_map_serial": "{src.into_iter().map(f).collect()}",
    "vec_map_rayon": "{userayon::iter::{IntoParallelIterator,ParallelIterator};src.into_par_iter().map(f).collect()}",
    "get_mut": "{self.blocks.iter_mut().find_map(|b|B::try_from_opt_block_mut(b).ok())}",
}


def extract(repo):
    md = open(os.path.join(repo, "src/metadata/mod.rs")).read()
    enc = open(os.path.join(repo, "src/encode.rs")).read()
    out, anchors = {}, {}
    m = re.search(r"impl BlockSize \{.*?const MAX: u32 = ([^;]+);", md, re.S)
    if not m:
        raise ValueError("BlockSize::MAX not found")
    out["BLOCK_MAX"] = safe_eval(m.group(1))
    m = re.search(r"impl BlockHeader \{\s*const SIZE: BlockSize = BlockSize\(([^;]+)\);", md)
    if not m:
        raise ValueError("BlockHeader::SIZE not found")
    out["HEADER_SIZE"] = safe_eval(m.group(1))
    m = re.search(r'const FLAC_TAG: &\[u8; (\d+)\] = b"([^"]*)";', md)
    if not m:
        raise ValueError("FLAC_TAG not found")
    if int(m.group(1)) != len(m.group(2)):
        raise ValueError("FLAC_TAG length mismatch")
    out["FLAC_TAG"] = [ord(c) for c in m.group(2)]
    m = re.search(r"pub enum BlockType \{(.*?)\n\}", md, re.S)
    if not m:
        raise ValueError("enum BlockType not found")
    codes = dict((k, int(v)) for k, v in re.findall(r"(\w+) = (\d+),", m.group(1)))
    for k in ("Streaminfo", "Padding", "Application", "SeekTable", "VorbisComment", "Cuesheet", "Picture"):
        if k not in codes:
            raise ValueError("BlockType::%s not found" % k)
    out["codes"] = codes
    anchors["grow_padding"] = norm(fn_body(md, r"fn grow_padding\(blocks: &mut BlockList, more_bytes: u64\) -> Result<\(\), \(\)> \{"))
    anchors["shrink_padding"] = norm(fn_body(md, r"fn shrink_padding\(blocks: &mut BlockList, fewer_bytes: u64\) -> Result<\(\), \(\)> \{"))
    anchors["checked_add"] = norm(fn_body(md, r"pub fn checked_add\(self, rhs: Self\) -> Option<Self> \{"))
    anchors["checked_sub"] = norm(fn_body(md, r"pub fn checked_sub\(self, rhs: Self\) -> Option<Self> \{"))
    anchors["get_mut"] = norm(fn_body(md, r"pub fn get_mut<B: OptionalMetadataBlock>\(&mut self\) -> Option<&mut B> \{"))
    # the decision of update_file
    uf = fn_body(md, r"pub fn update_file<F, N, E>\(")
    if "match new_size.cmp(&old_size)" not in uf:
        raise ValueError("update_file: `match new_size.cmp(&old_size)` not found")
    for needle in ("Ordering::Less =>", "Ordering::Equal =>", "Ordering::Greater =>",
                   "grow_padding(&mut blocks, old_size - new_size)", "shrink_padding(&mut blocks, new_size - old_size)",
                   "write_blocks(&mut new_size, blocks.blocks())?"):
        if needle not in uf:
            raise ValueError("update_file: %r not found" % needle)
    out["update_file_flushes"] = len(re.findall(r"\.flush\(\)", uf))
    anchors["join_serial"] = norm(fn_body(enc, r'#\[cfg\(not\(feature = "rayon"\)\)\]\s*fn join<A, B, RA, RB>\(oper_a: A, oper_b: B\) -> \(RA, RB\)[^{]*\{'))
    anchors["try_join"] = norm(fn_body(enc, r"fn try_join<A, B, RA, RB, E>\(oper_a: A, oper_b: B\) -> Result<\(RA, RB\), E>[^{]*\{"))
    anchors["vec_map_serial"] = norm(fn_body(enc, r'#\[cfg\(not\(feature = "rayon"\)\)\]\s*fn vec_map<T, U, F>\(src: Vec<T>, f: F\) -> Vec<U>[^{]*\{'))
    anchors["vec_map_rayon"] = norm(fn_body(enc, r'#\[cfg\(feature = "rayon"\)\]\s*fn vec_map<T, U, F>\(src: Vec<T>, f: F\) -> Vec<U>[^{]*\{'))
    if not re.search(r'#\[cfg\(feature = "rayon"\)\]\s*use rayon::join;', enc):
        raise ValueError("`use rayon::join` under cfg(feature = rayon) not found")
    return out, anchors


def main():
    repo = sys.argv[1] if len(sys.argv) > 1 else "/repo"
    dst = sys.argv[2] if len(sys.argv) > 2 else "/verif/coq/updateio/GenUpd.v"
    try:
        d, anchors = extract(repo)
    except Exception as e:
        print("ANCHOR-LOST updateio: %s" % e)
        sys.exit(2)
    c = d["codes"]
    lines = ["(* GENERATED by tools/gen_updateio.py from src/metadata/mod.rs — do not edit *)",
             "From Coq Require Import NArith List.", "Import ListNotations.", "Open Scope N_scope.",
             "Definition BLOCK_MAX : N := %d.   (* BlockSize::MAX *)" % d["BLOCK_MAX"],
             "Definition HEADER_SIZE : N := %d. (* BlockHeader::SIZE *)" % d["HEADER_SIZE"],
             "Definition FLAC_TAG : list N := [%s]." % "; ".join(str(x) for x in d["FLAC_TAG"]),
             "Definition TY_STREAMINFO : N := %d." % c["Streaminfo"],
             "Definition TY_PADDING : N := %d." % c["Padding"],
             "Definition TY_APPLICATION : N := %d." % c["Application"],
             "Definition TY_SEEKTABLE : N := %d." % c["SeekTable"],
             "Definition TY_VORBISCOMMENT : N := %d." % c["VorbisComment"],
             "Definition TY_CUESHEET : N := %d." % c["Cuesheet"],
             "Definition TY_PICTURE : N := %d." % c["Picture"],
             ""]
    text = "\n".join(lines)
    old = open(dst).read() if os.path.exists(dst) else None
    if old != text:
        open(dst, "w").write(text)
    notes = []
    for k, v in anchors.items():
        if v != EXPECT[k]:
            notes.append("%s changed: %s" % (k, v[:300]))
    if notes:
        for n in notes:
            print("ANCHOR-CHANGED " + n)
        sys.exit(3)
    print("gen_updateio ok (update_file flush calls: %d)" % d["update_file_flushes"])


if __name__ == "__main__":
    main()
