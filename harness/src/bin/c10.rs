//! C10 harness: metadata updates never disturb the audio and are size-neutral when in place.
//!
//! A case is a textual spec (replayable: `c10 --spec "<spec>"`):
//!   audio=<id> pre=<n> fe=<mem|path> layout=<blocks> edits=<edit>/<edit>/...
//! layout blocks (comma separated): P<n> padding, A<len> application data, V<len> comment with a
//! TITLE of that length, I<ptype>:<len> picture; edits (a `/`-separated history, each a `.`-joined
//! list of atoms): ar:<±d> resize first application, aa:<len>, ax, vs:<len>, vx, ia:<ptype>:<len>,
//! ix, pa:<n>, px, ps:<n>, sf / sl (sort padding first / last), fail (callback error after mutating),
//! dup (two PNG icons: validation error), big (oversize application: validation error).
//!
//! For every step the real `update_file` / `update` is run and (1) the property is evaluated
//! directly (searcher, "viol" lines), (2) a "case" line carries what the Coq decision function
//! needs (old metadata size, edited block types/sizes) and what the implementation did.
use flac_codec::encode::Options;
use flac_codec::metadata::{
    update, update_file, write_blocks, Application, Block, BlockList, MetadataBlock, OptionalBlockType,
    Padding, Picture, PictureType, Streaminfo, VorbisComment,
};
use flac_codec::Error;
#[path = "metadata_inc/common.rs"]
#[allow(dead_code)]
mod mcommon;
use std::io::{Cursor, Seek, SeekFrom};
use vharness::json::{arr, esc, obj};
use vharness::*;

const MAX: u32 = (1 << 24) - 1;

fn ptype(n: u32) -> PictureType {
    match n {
        0 => PictureType::Other,
        1 => PictureType::Png32x32,
        2 => PictureType::GeneralFileIcon,
        3 => PictureType::FrontCover,
        4 => PictureType::BackCover,
        _ => PictureType::Fish,
    }
}
fn picture(pt: u32, len: usize) -> Picture {
    Picture {
        picture_type: ptype(pt),
        media_type: "image/png".to_string(),
        description: "d".to_string(),
        width: 1,
        height: 1,
        color_depth: 8,
        colors_used: None,
        data: vec![0x5a; len],
    }
}
fn comment(len: usize) -> VorbisComment {
    let mut vc = VorbisComment { vendor_string: "v".to_string(), fields: vec![] };
    vc.set("TITLE", "t".repeat(len));
    vc
}
fn padding(n: u32) -> Padding {
    Padding { size: n.try_into().expect("padding size") }
}

fn parse_layout(s: &str) -> Vec<Block> {
    let mut out = vec![];
    for item in s.split(',').filter(|x| !x.is_empty()) {
        let (k, rest) = item.split_at(1);
        match k {
            "P" => out.push(padding(rest.parse().unwrap()).into()),
            "A" => out.push(Application { id: 0x41424344, data: vec![0xab; rest.parse().unwrap()] }.into()),
            "V" => out.push(comment(rest.parse().unwrap()).into()),
            "I" => {
                let (a, b) = rest.split_once(':').unwrap();
                out.push(picture(a.parse().unwrap(), b.parse().unwrap()).into());
            }
            _ => panic!("bad layout item {}", item),
        }
    }
    out
}

/// Applies one edit (a `.`-joined list of atoms) to the block list; Err = the callback fails.
fn apply_edit(bl: &mut BlockList, edit: &str) -> Result<(), Error> {
    for atom in edit.split('.').filter(|x| !x.is_empty()) {
        let parts: Vec<&str> = atom.split(':').collect();
        match parts[0] {
            "ar" => {
                let d: i64 = parts[1].parse().unwrap();
                match bl.get_mut::<Application>() {
                    Some(a) => {
                        let n = (a.data.len() as i64 + d).max(0) as usize;
                        a.data.resize(n, 0xcd);
                    }
                    None => {
                        bl.insert(Application { id: 0x41424344, data: vec![0xcd; d.max(0) as usize] });
                    }
                }
            }
            "aa" => {
                bl.insert(Application { id: 0x45464748, data: vec![0xef; parts[1].parse().unwrap()] });
            }
            "ax" => bl.remove::<Application>(),
            "vs" => {
                let n: usize = parts[1].parse().unwrap();
                bl.update::<VorbisComment>(|vc| vc.set("TITLE", "u".repeat(n)));
            }
            "vx" => bl.remove::<VorbisComment>(),
            "ia" => {
                bl.insert(picture(parts[1].parse().unwrap(), parts[2].parse().unwrap()));
            }
            "ix" => bl.remove::<Picture>(),
            "pa" => {
                bl.insert(padding(parts[1].parse().unwrap()));
            }
            "px" => bl.remove::<Padding>(),
            "ps" => {
                let n: u32 = parts[1].parse().unwrap();
                match bl.get_mut::<Padding>() {
                    Some(p) => p.size = n.try_into().unwrap(),
                    None => {
                        bl.insert(padding(n));
                    }
                }
            }
            "sf" => bl.sort_by(|t| if t == OptionalBlockType::Padding { 0 } else { 1 }),
            "sl" => bl.sort_by(|t| if t == OptionalBlockType::Padding { 1 } else { 0 }),
            "dup" => {
                bl.insert(picture(1, 3));
                bl.insert(picture(1, 4));
            }
            "big" => {
                bl.insert(Application { id: 1, data: vec![0; (MAX - 3) as usize] });
            }
            "fail" => {
                // mutate first, then fail: nothing of this may reach the file
                bl.insert(Application { id: 2, data: vec![1, 2, 3] });
                bl.remove::<Padding>();
                return Err(Error::InvalidTotalSamples);
            }
            _ => panic!("bad edit atom {}", atom),
        }
    }
    Ok(())
}

/// (type code, body size, uniqueness class or -1) of each optional block
fn describe(bl: &BlockList) -> Vec<(u32, u64, i32)> {
    use flac_codec::metadata::BlockRef;
    bl.blocks()
        .skip(1)
        .map(|b| {
            let sz = |o: Option<flac_codec::metadata::BlockSize>| o.map(|s| u32::from(s) as u64).unwrap_or(MAX as u64 + 1);
            match b {
                BlockRef::Streaminfo(s) => (0, sz(s.bytes()), -1),
                BlockRef::Padding(p) => (1, sz(p.bytes()), -1),
                BlockRef::Application(a) => (2, sz(a.bytes()), -1),
                BlockRef::SeekTable(s) => (3, sz(s.bytes()), 0),
                BlockRef::VorbisComment(v) => (4, sz(v.bytes()), 1),
                BlockRef::Cuesheet(c) => (5, sz(c.bytes()), -1),
                BlockRef::Picture(p) => (
                    6,
                    sz(p.bytes()),
                    match p.picture_type {
                        PictureType::Png32x32 => 2,
                        PictureType::GeneralFileIcon => 3,
                        _ => -1,
                    },
                ),
            }
        })
        .collect()
}
fn desc_json(d: &[(u32, u64, i32)]) -> String {
    arr(&d.iter().map(|(t, s, u)| format!("[{},{},{}]", t, s, u)).collect::<Vec<_>>())
}

struct Audio {
    id: usize,
    streaminfo: Streaminfo,
    frames: Vec<u8>,
    pcm: Vec<i32>,
}

fn corpus(seed: u64) -> Vec<Audio> {
    let mut rng = Rng::new(seed, 0xC10);
    let mut out = vec![];
    for (i, (ch, bps, bs, n, kind)) in [(1u8, 16u32, 16u16, 40usize, "walk"), (2, 16, 32, 70, "sine"), (3, 24, 16, 33, "noise"), (2, 16, 4096, 9000, "noise")].iter().enumerate() {
        let pcm = gen_pcm(&mut rng, kind, *ch as usize, *bps, *n);
        let opts = Options::default().block_size(*bs).unwrap().no_padding().no_seektable();
        let bytes = match encode_samples(opts, 44100, *bps, *ch, &pcm, i % 2 == 0) {
            Ok(b) => b,
            Err(e) => {
                println!("{}", obj(&[("t", esc("note")), ("msg", esc(&format!("corpus encode failed: {}", e)))]));
                continue;
            }
        };
        let bounds = match frame_boundaries(&bytes) {
            Some(b) => b,
            None => continue,
        };
        let bl = match BlockList::read(Cursor::new(&bytes)) {
            Ok(b) => b,
            Err(_) => continue,
        };
        out.push(Audio { id: i, streaminfo: bl.streaminfo().clone(), frames: bytes[bounds[0]..].to_vec(), pcm });
    }
    out
}

fn mk_file(a: &Audio, pre: usize, layout: &[Block]) -> Vec<u8> {
    let mut v = vec![0x77u8; pre];
    let mut blocks: Vec<Block> = vec![a.streaminfo.clone().into()];
    blocks.extend(layout.iter().cloned());
    let mut c = Cursor::new(Vec::new());
    write_blocks(&mut c, blocks).expect("layout must be writable");
    v.extend(c.into_inner());
    v.extend(&a.frames);
    v
}

fn read_back(bytes: &[u8]) -> Result<(BlockList, usize), String> {
    let mut c = Cursor::new(bytes);
    match catch(|| BlockList::read(&mut c)) {
        Ok(Ok(bl)) => Ok((bl, c.position() as usize)),
        Ok(Err(e)) => Err(format!("err:{}", err_class(&e))),
        Err(p) => Err(format!("panic:{}", p)),
    }
}

struct Ctx {
    viols: usize,
    cases: usize,
    inplace: usize,
    rebuilt: usize,
    errors: usize,
    steps_hist: usize,
    big: usize,
    tmpdir: std::path::PathBuf,
    kinds: std::collections::BTreeMap<String, usize>,
}

fn viol(ctx: &mut Ctx, key: &str, desc: &str, spec: &str, step: usize) {
    ctx.viols += 1;
    println!("{}", obj(&[("t", esc("viol")), ("key", esc(key)), ("desc", esc(desc)), ("spec", esc(spec)), ("step", step.to_string()),
        ("replay_cmd", esc(&format!("c10 --spec \"{}\"", spec)))]));
}

/// blocks of `after` equal `edited` except that the first padding's size may differ
fn same_but_first_padding(edited: &BlockList, after: &BlockList) -> bool {
    let e: Vec<Block> = edited.clone().into_iter().collect();
    let a: Vec<Block> = after.clone().into_iter().collect();
    if e.len() != a.len() {
        return false;
    }
    let mut first = true;
    for (x, y) in e.iter().zip(a.iter()) {
        match (x, y) {
            (Block::Padding(_), Block::Padding(_)) if first => first = false,
            _ => {
                if x != y {
                    return false;
                }
            }
        }
    }
    true
}

fn run_spec(ctx: &mut Ctx, auds: &[Audio], spec: &str) {
    let mut audio = 0usize;
    let mut pre = 0usize;
    let mut fe = "mem";
    let mut layout = "";
    let mut edits = "";
    for kv in spec.split_whitespace() {
        let (k, v) = kv.split_once('=').unwrap();
        match k {
            "audio" => audio = v.parse().unwrap(),
            "pre" => pre = v.parse().unwrap(),
            "fe" => fe = v,
            "layout" => layout = v,
            "edits" => edits = v,
            _ => {}
        }
    }
    let a = match auds.iter().find(|x| x.id == audio) {
        Some(a) => a,
        None => return,
    };
    let lay = parse_layout(layout);
    let mut file = mk_file(a, pre, &lay);
    let path = ctx.tmpdir.join(format!("c10-{}.flac", std::process::id()));
    for (step, edit) in edits.split('/').filter(|x| !x.is_empty()).enumerate() {
        ctx.cases += 1;
        if file.len() > 1 << 20 {
            ctx.big += 1;
        }
        for atom in edit.split('.') {
            *ctx.kinds.entry(atom.split(':').next().unwrap_or("").to_string()).or_insert(0) += 1;
        }
        // where the audio starts in the current file (the reader decides, not the harness)
        let (before_bl, audio_off) = match read_back(&file[pre..]) {
            Ok((bl, off)) => (bl, off + pre),
            Err(e) => {
                viol(ctx, "unreadable-before", &format!("file became unreadable before step {}: {}", step, e), spec, step);
                return;
            }
        };
        let _ = before_bl;
        if file[audio_off..] != a.frames[..] {
            viol(ctx, "audio-moved", "bytes after the metadata are not the original frames", spec, step);
            return;
        }
        let old_size = (audio_off - pre) as u64;
        // for the whole-file run of the composed model (small files only)
        let file_before: Option<Vec<u8>> = if file.len() <= 6000 { Some(file.clone()) } else { None };
        let mut captured: Option<BlockList> = None;
        let mut orig_after: Vec<u8>;
        let mut rebuilt: Vec<u8> = vec![];
        let res: Result<Result<bool, Error>, String>;
        if fe == "path" {
            std::fs::write(&path, &file[pre..]).expect("write temp file");
            res = catch(|| {
                update::<_, Error>(&path, |bl| {
                    let r = apply_edit(bl, edit);
                    if r.is_ok() {
                        captured = Some(bl.clone());
                    }
                    r
                })
            });
            let now = std::fs::read(&path).expect("read temp file");
            // map onto the memory front-end's two outputs
            orig_after = file[..pre].to_vec();
            match &res {
                Ok(Ok(true)) => {
                    rebuilt = now;
                    orig_after = file.clone();
                }
                _ => orig_after.extend(now),
            }
        } else {
            let mut cur = Cursor::new(file.clone());
            cur.seek(SeekFrom::Start(pre as u64)).unwrap();
            res = catch(|| {
                update_file::<_, _, Error>(&mut cur, || Ok(&mut rebuilt), |bl| {
                    let r = apply_edit(bl, edit);
                    if r.is_ok() {
                        captured = Some(bl.clone());
                    }
                    r
                })
            });
            orig_after = cur.into_inner();
        }
        let res_s = match &res {
            Ok(Ok(b)) => format!("ok:{}", b),
            Ok(Err(e)) => format!("err:{}", err_class(e)),
            Err(_) => "panic".to_string(),
        };
        let edited_desc = captured.as_ref().map(|b| describe(b));
        let mut after_desc: Vec<(u32, u64, i32)> = vec![];
        // ---------------- the property, evaluated directly
        match &res {
            Err(p) => viol(ctx, "panic", &format!("update panicked: {}", p), spec, step),
            Ok(Err(_)) => {
                ctx.errors += 1;
                if orig_after != file {
                    viol(ctx, "error-file-modified", &format!("update returned {} but the original file changed", res_s), spec, step);
                }
                if !rebuilt.is_empty() {
                    viol(ctx, "error-rebuilt-written", &format!("update returned {} but wrote {} bytes to the rebuilt file", res_s, rebuilt.len()), spec, step);
                }
            }
            Ok(Ok(false)) => {
                ctx.inplace += 1;
                let edited = captured.as_ref().unwrap();
                if !rebuilt.is_empty() {
                    viol(ctx, "inplace-rebuilt-written", "Ok(false) but the rebuilt writer received bytes", spec, step);
                }
                if orig_after.len() != file.len() {
                    viol(ctx, "inplace-length-changed", &format!("Ok(false) but file length {} -> {}", file.len(), orig_after.len()), spec, step);
                } else if orig_after[audio_off..] != file[audio_off..] {
                    viol(ctx, "inplace-audio-changed", "Ok(false) but bytes from the first frame on changed", spec, step);
                } else if orig_after[..pre] != file[..pre] {
                    viol(ctx, "inplace-prefix-changed", "Ok(false) but bytes before the stream start changed", spec, step);
                }
                match read_back(&orig_after[pre..]) {
                    Ok((bl, off)) => {
                        after_desc = describe(&bl);
                        if off + pre != audio_off {
                            viol(ctx, "inplace-metadata-size", &format!("Ok(false) but metadata now ends at {} instead of {}", off + pre, audio_off), spec, step);
                        }
                        if !same_but_first_padding(edited, &bl) {
                            viol(ctx, "inplace-blocks-differ", "Ok(false) but the blocks read back differ from the edited list in more than the first padding's size", spec, step);
                        }
                    }
                    Err(e) => viol(ctx, "inplace-unreadable", &format!("Ok(false) but the file no longer reads: {}", e), spec, step),
                }
                file = orig_after.clone();
            }
            Ok(Ok(true)) => {
                ctx.rebuilt += 1;
                let edited = captured.as_ref().unwrap();
                if orig_after != file && fe != "path" {
                    viol(ctx, "rebuilt-original-modified", "Ok(true) but the original was modified", spec, step);
                }
                let mut exp = Cursor::new(Vec::new());
                let w = write_blocks(&mut exp, edited.blocks());
                let mut exp = exp.into_inner();
                exp.extend(&a.frames);
                if w.is_err() || rebuilt != exp {
                    viol(ctx, "rebuilt-not-blocks-plus-frames", &format!("Ok(true) but the rebuilt file ({} bytes) is not write_blocks(edited) ++ frames ({} bytes)", rebuilt.len(), exp.len()), spec, step);
                }
                match read_back(&rebuilt) {
                    Ok((bl, _)) => after_desc = describe(&bl),
                    Err(e) => viol(ctx, "rebuilt-unreadable", &format!("Ok(true) but the rebuilt file does not read: {}", e), spec, step),
                }
                let mut f2 = file[..pre].to_vec();
                f2.extend(&rebuilt);
                file = f2;
            }
        }
        // decoded PCM of the current file (small files only: the big ones share the same frames bytes check)
        if file.len() < (1 << 20) {
            let d = decode_all(&file[pre..]);
            if d.end != End::Eof || d.samples != a.pcm {
                viol(ctx, "pcm-changed", &format!("after step {} the file decodes to {} samples ending {}, expected {} samples", step, d.samples.len(), d.end.tag(), a.pcm.len()), spec, step);
            }
        }
        // ---------------- the case for the model
        let mut f: Vec<(&str, String)> = vec![("t", esc("case")), ("spec", esc(spec)), ("step", step.to_string()), ("old", old_size.to_string()),
            ("si", u32::from(a.streaminfo.bytes().unwrap()).to_string()), ("res", esc(&res_s)), ("after", desc_json(&after_desc)),
            ("len_before", (audio_off + a.frames.len()).to_string()), ("len_after", file.len().to_string())];
        match &edited_desc {
            Some(d) => f.push(("edited", desc_json(d))),
            None => f.push(("edited", "null".to_string())),
        }
        println!("{}", obj(&f));
        // the same step for the composed model: the file before, the list the callback left (typed dump), both outputs
        if let (Some(fb), Ok(r)) = (&file_before, &res) {
            let dump = captured.as_ref().map(|b| {
                let blocks: Vec<Block> = b.clone().into_iter().collect();
                mcommon::dump_blocks(&blocks)
            });
            if dump.as_ref().map(|d| d.len() <= 40000).unwrap_or(true) && orig_after.len() <= 60000 && rebuilt.len() <= 60000 {
                let _ = r;
                println!("{}", obj(&[("t", esc("full")), ("spec", esc(spec)), ("step", step.to_string()), ("start", pre.to_string()),
                    ("file", esc(&hex(fb))), ("edited", match &dump { Some(d) => esc(d), None => "null".to_string() }),
                    ("res", esc(&res_s)), ("orig", esc(&hex(&orig_after))), ("rebuilt", esc(&hex(&rebuilt)))]));
            }
        }
        if step > 0 {
            ctx.steps_hist += 1;
        }
    }
    let _ = std::fs::remove_file(&path);
}

fn main() {
    quiet_panics();
    let seed = env_seed();
    let thorough = env_tier_thorough();
    let args: Vec<String> = std::env::args().collect();
    let tmpdir = std::env::var("VERIF_TMP").map(std::path::PathBuf::from).unwrap_or_else(|_| std::env::temp_dir());
    let _ = std::fs::create_dir_all(&tmpdir);
    let mut ctx = Ctx { viols: 0, cases: 0, inplace: 0, rebuilt: 0, errors: 0, steps_hist: 0, big: 0, tmpdir, kinds: Default::default() };
    let auds = corpus(seed);
    if auds.is_empty() {
        println!("{}", obj(&[("t", esc("note")), ("msg", esc("no corpus audio could be encoded"))]));
    }
    if args.len() >= 3 && args[1] == "--spec" {
        run_spec(&mut ctx, &auds, &args[2]);
        return;
    }
    let mut specs: Vec<String> = vec![];
    // ---- A: exact fit, -8..+8, with 0/1/2/3 padding blocks at different positions
    let layouts_a: &[(&str, i64)] = &[
        ("A64", -1),                       // no padding at all (P = none)
        ("A64,P0", 0), ("A64,P5", 5), ("P100,A64", 100), ("V10,P100,A64,I3:20", 100),
        ("P7,A64,P50", 7), ("A64,P20,P50,P0", 20), ("P0,A64,P50", 0), ("I1:9,P33,V3,P1,A64,P2", 33),
    ];
    for (li, (lay, p)) in layouts_a.iter().enumerate() {
        for k in -8i64..=8 {
            let d = if *p < 0 { k } else { p + k };
            let fe = if (li + (k + 8) as usize) % 5 == 0 { "path" } else { "mem" };
            let pre = if (li + (k + 8) as usize) % 7 == 3 && fe == "mem" { 10 } else { 0 };
            specs.push(format!("audio={} pre={} fe={} layout={} edits=ar:{:+}", li % 3, pre, fe, lay, d));
        }
    }
    // ---- B: adding / removing padding blocks (the 4 header bytes), comments, pictures
    for k in -8i64..=8 {
        // remove both paddings (7+4 and 50+4 bytes) and grow the application by that much + k
        specs.push(format!("audio=0 pre=0 fe=mem layout=P7,A64,P50 edits=px.ar:{:+}", 65 + k));
        // add a new padding block of size 20 (24 bytes) while shrinking the application by 24 + k
        specs.push(format!("audio=1 pre=0 fe=mem layout=A64,P9 edits=pa:20.ar:{:+}", -(24 + k)));
        // set a comment whose block is 4+4+1+4+4+6+n bytes against a padding of 40
        specs.push(format!("audio=2 pre=0 fe=mem layout=P40,A8 edits=vs:{}", 40 - 23 + k));
        // remove a picture into a padding
        specs.push(format!("audio=0 pre=0 fe=path layout=I3:{},P10,A4 edits=ix", 20 + k));
        // move the padding first, then grow: still the first padding in list order
        specs.push(format!("audio=1 pre=0 fe=mem layout=A64,P3,P30 edits=sl.ar:{:+}", 3 + k));
        specs.push(format!("audio=1 pre=0 fe=mem layout=P3,A64,P30 edits=sf.aa:{}", (30 + k).max(0)));
    }
    // ---- errors: callback and validation failures leave everything untouched
    for lay in ["", "P100", "A64,P20,V5", "P5,P6"] {
        for e in ["fail", "dup", "ar:+3.fail", "aa:5.dup", "vs:100.fail"] {
            specs.push(format!("audio=0 pre=0 fe=mem layout={} edits={}", lay, e));
            specs.push(format!("audio=1 pre=0 fe=path layout={} edits={}", lay, e));
        }
    }
    // ---- B2: audio longer than any internal buffer (audio=3, about 36 KB of frames): rebuilds and in-place edits
    // through both front-ends; a rebuild has to carry every frame byte over, whatever order it opens things in
    for (lay, e) in [("", "aa:100"), ("A64", "ax"), ("A64", "ar:+50"), ("P4", "aa:100"), ("P300", "aa:100"), ("P300,A64", "ar:-7"), ("V5", "vs:400")] {
        specs.push(format!("audio=3 pre=0 fe=path layout={} edits={}", lay, e));
        specs.push(format!("audio=3 pre=0 fe=mem layout={} edits={}", lay, e));
    }
    specs.push("audio=3 pre=11 fe=mem layout=A9 edits=aa:2000".to_string());
    // ---- C: the 24-bit limit (16 MiB files)
    let mut bigs: Vec<String> = vec![];
    for k in 0i64..=8 {
        // first padding MAX-4, shrinking the application by k bytes asks for MAX-4+k
        bigs.push(format!("audio=0 pre=0 fe=mem layout=A64,P{} edits=ar:{:+}", MAX - 4, -k));
    }
    for k in -2i64..=2 {
        // removing an application of body size MAX (more = MAX + 4 > MAX) / just below
        bigs.push(format!("audio=0 pre=0 fe=mem layout=P10,A{} edits=ax", (MAX as i64 - 4 - 4 + k).min(MAX as i64 - 4)));
        // padding MAX, adding an application whose block is MAX + k bytes in total
        bigs.push(format!("audio=0 pre=0 fe=mem layout=P{} edits=aa:{}", MAX, (MAX as i64 - 8 + k).min(MAX as i64 - 4)));
    }
    bigs.push("audio=0 pre=0 fe=mem layout=P10,A8 edits=big".to_string());
    bigs.push(format!("audio=0 pre=0 fe=mem layout=P{},P{} edits=ar:+5/px/pa:{}/ps:3", MAX, MAX, MAX));
    specs.extend(bigs);
    // ---- D: random histories
    let mut rng = Rng::new(seed, 0x10D);
    let nh = if thorough { 6000 } else { 500 };
    for h in 0..nh {
        let nl = rng.below(5) as usize;
        let mut lay = vec![];
        let mut has_v = false;
        let mut has_i1 = false;
        for _ in 0..nl {
            match rng.below(6) {
                0 | 1 => lay.push(format!("P{}", rng.pick(&[0u32, 1, 4, 8, 30, 100, 1000]))),
                2 => lay.push(format!("A{}", rng.below(200))),
                3 => {
                    if !has_v {
                        has_v = true;
                        lay.push(format!("V{}", rng.below(50)));
                    }
                }
                4 => lay.push(format!("I{}:{}", rng.pick(&[0u32, 3, 4]), rng.below(100))),
                _ => {
                    if !has_i1 {
                        has_i1 = true;
                        lay.push(format!("I1:{}", rng.below(30)));
                    }
                }
            }
        }
        let ne = rng.range(2, if thorough { 30 } else { 12 });
        let mut es = vec![];
        for _ in 0..ne {
            let mut atoms = vec![];
            for _ in 0..rng.range(1, 2) {
                atoms.push(match rng.below(14) {
                    0 | 1 => format!("ar:{:+}", rng.range(-40, 40)),
                    2 => format!("aa:{}", rng.below(120)),
                    3 => "ax".to_string(),
                    4 | 5 => format!("vs:{}", rng.below(90)),
                    6 => "vx".to_string(),
                    7 => format!("ia:{}:{}", rng.pick(&[0u32, 3, 4, 2]), rng.below(90)),
                    8 => "ix".to_string(),
                    9 => format!("pa:{}", rng.pick(&[0u32, 2, 16, 64, 300])),
                    10 => "px".to_string(),
                    11 => format!("ps:{}", rng.below(200)),
                    12 => (*rng.pick(&["sf", "sl"])).to_string(),
                    _ => (*rng.pick(&["fail", "dup"])).to_string(),
                });
            }
            es.push(atoms.join("."));
        }
        let fe = if h % 4 == 0 { "path" } else { "mem" };
        let pre = if h % 9 == 1 && fe == "mem" { 13 } else { 0 };
        specs.push(format!("audio={} pre={} fe={} layout={} edits={}", h % 3, pre, fe, lay.join(","), es.join("/")));
    }
    let mut first = true;
    for s in &specs {
        let r = catch(|| run_spec(&mut ctx, &auds, s));
        if let Err(p) = r {
            viol(&mut ctx, "harness-panic", &format!("the harness itself panicked: {}", p), s, 0);
        }
        if first {
            first = false;
            println!("{}", obj(&[("t", esc("sample")), ("spec", esc(s))]));
        }
    }
    let kinds = obj(&ctx.kinds.iter().map(|(k, v)| (k.as_str(), v.to_string())).collect::<Vec<_>>());
    println!("{}", obj(&[("t", esc("stat")), ("specs", specs.len().to_string()), ("cases", ctx.cases.to_string()), ("inplace", ctx.inplace.to_string()),
        ("rebuilt", ctx.rebuilt.to_string()), ("errors", ctx.errors.to_string()), ("history_steps", ctx.steps_hist.to_string()),
        ("big_file_cases", ctx.big.to_string()), ("viols", ctx.viols.to_string()), ("edit_atoms", kinds)]));
}
